(* Proofs about the ordering / equality / normalised-table model (C14). *)
From Coq Require Import String Ascii List Bool Arith NArith Permutation Lia.
Require Import PyStr Sexp Order M_C14.
Import ListNotations.

Lemma scmp_laws : cmp_laws scmp.
Proof. apply lcmp_laws, ccmp_laws. Qed.
Lemma ua_cmp_laws : cmp_laws ua_cmp.
Proof.
  pose proof (pcmp_laws str str scmp scmp scmp_laws scmp_laws) as P. unfold ua_cmp. split.
  - intros [c1 k1] [c2 k2]. cbn [cls key]. rewrite (cl_eq _ P). split; intros H; inversion H; reflexivity.
  - intros u v. apply (cl_anti _ P).
  - intros u v w. apply (cl_trans _ P).
Qed.
Lemma cell_cmp_laws : cmp_laws cell_cmp.
Proof. apply ocmp_laws, ua_cmp_laws. Qed.
Lemma row_cmp_laws : cmp_laws row_cmp.
Proof. apply lcmp_laws, cell_cmp_laws. Qed.

(* the operators: a strict total order up to (class, key) equality *)
Theorem lt_trichotomy u v :
  (py_lt u v = true /\ py_lt v u = false /\ u <> v) \/ (u = v /\ py_lt u v = false /\ py_lt v u = false) \/
  (py_lt v u = true /\ py_lt u v = false /\ u <> v).
Proof. apply trichotomy, ua_cmp_laws. Qed.
Theorem lt_transitive u v w : py_lt u v = true -> py_lt v w = true -> py_lt u w = true.
Proof. apply ltb_trans, ua_cmp_laws. Qed.
Theorem le_transitive u v w : py_le u v = true -> py_le v w = true -> py_le u w = true.
Proof. apply leb_trans, ua_cmp_laws. Qed.
Theorem le_iff_not_gt u v : py_le u v = negb (py_gt u v).
Proof. unfold py_gt. apply leb_not_gt, ua_cmp_laws. Qed.
Theorem ge_iff_not_lt u v : py_ge u v = negb (py_lt u v).
Proof. unfold py_ge. apply leb_not_gt, ua_cmp_laws. Qed.
(* which branch decides: the class name when the classes differ, the key otherwise *)
Theorem lt_by_class u v : cls u <> cls v -> py_lt u v = ltb str scmp (cls u) (cls v).
Proof.
  intros H. unfold py_lt, ltb, ua_cmp, pcmp. cbn [fst snd]. destruct (scmp (cls u) (cls v)) eqn:E; try reflexivity.
  apply (cl_eq _ scmp_laws) in E. contradiction.
Qed.
Theorem lt_by_key u v : cls u = cls v -> py_lt u v = ltb str scmp (key u) (key v).
Proof. intros H. unfold py_lt, ltb, ua_cmp, pcmp. cbn [fst snd]. now rewrite H, (cl_refl _ scmp_laws). Qed.

(* equality and hash *)
Lemma atom_eq_true a b : atom_eq a b = Ok true -> a = b.
Proof.
  destruct a, b; cbn; intros H; try discriminate; try reflexivity.
  - injection H as H. apply Nat.eqb_eq in H. now subst.
  - injection H as H. apply str_eqb_eq in H. now subst.
  - injection H as H. apply str_eqb_eq in H. now subst.
Qed.
Theorem eq_implies_same_hash u v : ua_eq u v = Ok true -> ua_hash u = ua_hash v.
Proof.
  unfold ua_eq, ua_hash. destruct (str_eqb (v_cls u) (v_cls v)); [|discriminate].
  generalize (v_fields v). induction (v_fields u) as [|x a IH]; intros [|y b]; cbn; try discriminate; [reflexivity|].
  destruct (atom_eq x y) as [[]|] eqn:E; try discriminate. intros H. apply atom_eq_true in E. subst. f_equal. now apply IH.
Qed.
Theorem eq_reflexive u : ua_eq u u = Ok true.
Proof.
  unfold ua_eq. rewrite str_eqb_refl. induction (v_fields u) as [|x a IH]; [reflexivity|]. cbn.
  assert (atom_eq x x = Ok true) as ->; [|exact IH]. destruct x; cbn; try reflexivity.
  - now rewrite Nat.eqb_refl.
  - now rewrite str_eqb_refl.
  - now rewrite str_eqb_refl.
Qed.
(* faithful to the code: comparing a null-valued value with a non-null one of the same class raises *)
Theorem eq_total_refuted : exists u v, ua_eq u v = Err EType.
Proof.
  exists {| v_cls := lit "UAInt32"; v_fields := [ANA] |}, {| v_cls := lit "UAInt32"; v_fields := [AVal (lit "int:5")] |}.
  reflexivity.
Qed.
(* when neither value holds pd.NA, == is total *)
Fixpoint no_na (l : list atom) : bool := match l with [] => true | ANA :: _ => false | _ :: r => no_na r end.
Theorem eq_total_without_na u v : no_na (v_fields u) = true -> no_na (v_fields v) = true -> exists b, ua_eq u v = Ok b.
Proof.
  unfold ua_eq. destruct (str_eqb (v_cls u) (v_cls v)); [|eauto].
  generalize (v_fields v). induction (v_fields u) as [|x a IH]; intros [|y b] Ha Hb; cbn; eauto.
  destruct x, y; cbn in *; try discriminate; eauto.
  - destruct (Nat.eqb obj obj0); eauto.
  - destruct (str_eqb repr repr0); eauto.
  - destruct (str_eqb repr repr0); eauto.
Qed.

(* canonical tables: the sorted table depends only on the multiset of rows *)
Theorem sort_rows_canonical t t' : Permutation t t' -> sort_rows t = sort_rows t'.
Proof. apply sort_canonical, row_cmp_laws. Qed.
Theorem sort_rows_perm t : Permutation t (sort_rows t).
Proof. apply isort_perm. Qed.

(* ... and not on the internal ids *)
Lemma denorm_rename_node lk lk' f n : (forall i, lookup lk' (f i) = lookup lk i) ->
  denorm_node lk' (rename_node f n) = denorm_node lk n.
Proof.
  intros H. unfold denorm_node, rename_node. cbn [g_cols g_refcols]. f_equal. rewrite map_map.
  apply map_ext. intros [i|]; [apply H|reflexivity].
Qed.
Lemma denorm_rename_ref lk lk' f r : (forall i, lookup lk' (f i) = lookup lk i) ->
  denorm_ref lk' (rename_ref f r) = denorm_ref lk r.
Proof. intros H. destruct r as [[s t] ty]. cbn. now rewrite !H. Qed.
Theorem normalized_nodes_invariant lk lk' f nodes nodes' :
  (forall i, lookup lk' (f i) = lookup lk i) -> Permutation nodes' (map (rename_node f) nodes) ->
  normalized_nodes lk' nodes' = normalized_nodes lk nodes.
Proof.
  intros H P. unfold normalized_nodes. apply sort_rows_canonical.
  rewrite (Permutation_map (denorm_node lk') P), map_map.
  rewrite (map_ext _ _ (fun n => denorm_rename_node lk lk' f n H)). reflexivity.
Qed.
Theorem normalized_refs_invariant lk lk' f refs refs' :
  (forall i, lookup lk' (f i) = lookup lk i) -> Permutation refs' (map (rename_ref f) refs) ->
  normalized_refs lk' refs' = normalized_refs lk refs.
Proof.
  intros H P. unfold normalized_refs. apply sort_rows_canonical.
  rewrite (Permutation_map (denorm_ref lk') P), map_map.
  rewrite (map_ext _ _ (fun r => denorm_rename_ref lk lk' f r H)). reflexivity.
Qed.

(* ---- per namespace ---- *)
Lemma perm_filter {A} (f : A -> bool) l l' : Permutation l l' -> Permutation (filter f l) (filter f l').
Proof.
  induction 1 as [|x l l' _ IH|x y l|l l' l'' _ IH1 _ IH2]; cbn [filter].
  - constructor.
  - destruct (f x); [now constructor | exact IH].
  - destruct (f x), (f y); try apply Permutation_refl. apply perm_swap.
  - eapply Permutation_trans; eauto.
Qed.
Definition rename_pair (f : nat -> nat) (p : gnode * nat) : gnode * nat := (rename_node f (fst p), snd p).
Lemma nodes_of_ns_rename f k nodes : nodes_of_ns k (map (rename_pair f) nodes) = map (rename_node f) (nodes_of_ns k nodes).
Proof.
  unfold nodes_of_ns. induction nodes as [|[n s] r IH]; [reflexivity|].
  cbn [map filter rename_pair fst snd]. destruct (Nat.eqb s k); cbn [map fst]; now rewrite IH.
Qed.
Lemma nodes_of_ns_perm k nodes nodes' : Permutation nodes nodes' -> Permutation (nodes_of_ns k nodes) (nodes_of_ns k nodes').
Proof. intros P. unfold nodes_of_ns. apply Permutation_map. now apply perm_filter. Qed.
Theorem normalized_nodes_ns_invariant lk lk' f k nodes nodes' :
  (forall i, lookup lk' (f i) = lookup lk i) -> Permutation nodes' (map (rename_pair f) nodes) ->
  normalized_nodes_ns lk' k nodes' = normalized_nodes_ns lk k nodes.
Proof.
  intros H P. unfold normalized_nodes_ns. apply (normalized_nodes_invariant lk lk' f); [exact H|].
  rewrite <- nodes_of_ns_rename. now apply nodes_of_ns_perm.
Qed.
Lemma idmem_in x l : idmem x l = true <-> In x l.
Proof. unfold idmem. rewrite existsb_exists. split; [intros [y [Hy E]]; apply Nat.eqb_eq in E; now subst | intros Hx; exists x; split; [exact Hx | apply Nat.eqb_refl]]. Qed.
Lemma idmem_perm x l l' : Permutation l l' -> idmem x l = idmem x l'.
Proof.
  intros P. destruct (idmem x l) eqn:E.
  - symmetry. apply idmem_in. apply idmem_in in E. eapply Permutation_in; eauto.
  - destruct (idmem x l') eqn:E'; [|reflexivity]. apply idmem_in in E'. apply Permutation_sym in P.
    assert (In x l) by (eapply Permutation_in; eauto). apply idmem_in in H. congruence.
Qed.
Lemma idmem_map_inj f x l : (forall i j, f i = f j -> i = j) -> idmem (f x) (map f l) = idmem x l.
Proof.
  intros Hinj. destruct (idmem x l) eqn:E.
  - apply idmem_in. apply idmem_in in E. now apply in_map.
  - destruct (idmem (f x) (map f l)) eqn:E'; [|reflexivity]. apply idmem_in in E'. apply in_map_iff in E'.
    destruct E' as [y [Hy Hin]]. apply Hinj in Hy. subst y. apply idmem_in in Hin. congruence.
Qed.
Lemma refs_of_ns_rename f k nodes refs : (forall i j, f i = f j -> i = j) ->
  refs_of_ns k (map (rename_pair f) nodes) (map (rename_ref f) refs) = map (rename_ref f) (refs_of_ns k nodes refs).
Proof.
  intros Hinj. unfold refs_of_ns. rewrite nodes_of_ns_rename, map_map.
  assert (Eids : map (fun x => g_id (rename_node f x)) (nodes_of_ns k nodes) = map f (map g_id (nodes_of_ns k nodes))) by (rewrite map_map; reflexivity).
  rewrite Eids. set (ids := map g_id (nodes_of_ns k nodes)).
  induction refs as [|[[s t] ty] r IH]; [reflexivity|].
  cbn [map filter rename_ref fst snd]. rewrite !(idmem_map_inj f _ ids Hinj).
  destruct (idmem s ids || idmem t ids); cbn [map rename_ref]; now rewrite IH.
Qed.
Lemma refs_of_ns_perm k nodes nodes' refs refs' : Permutation nodes nodes' -> Permutation refs refs' ->
  Permutation (refs_of_ns k nodes refs) (refs_of_ns k nodes' refs').
Proof.
  intros Pn Pr. unfold refs_of_ns.
  assert (Pids : Permutation (map g_id (nodes_of_ns k nodes)) (map g_id (nodes_of_ns k nodes'))) by (apply Permutation_map; now apply nodes_of_ns_perm).
  rewrite (filter_ext _ (fun r => idmem (fst (fst r)) (map g_id (nodes_of_ns k nodes')) || idmem (snd (fst r)) (map g_id (nodes_of_ns k nodes')))).
  - now apply perm_filter.
  - intros r. now rewrite !(idmem_perm _ _ _ Pids).
Qed.
Theorem normalized_refs_ns_invariant lk lk' f k nodes nodes' refs refs' :
  (forall i, lookup lk' (f i) = lookup lk i) -> (forall i j, f i = f j -> i = j) ->
  Permutation nodes' (map (rename_pair f) nodes) -> Permutation refs' (map (rename_ref f) refs) ->
  normalized_refs_ns lk' k nodes' refs' = normalized_refs_ns lk k nodes refs.
Proof.
  intros H Hinj Pn Pr. unfold normalized_refs_ns. apply (normalized_refs_invariant lk lk' f); [exact H|].
  rewrite <- (refs_of_ns_rename f k nodes refs Hinj). now apply refs_of_ns_perm.
Qed.
(* the per-namespace tables hold exactly the rows of the namespace / the references touching it *)
Theorem nodes_of_ns_spec k nodes n : In n (nodes_of_ns k nodes) <-> In (n, k) nodes.
Proof.
  unfold nodes_of_ns. rewrite in_map_iff. split.
  - intros [[n0 s] [E Hin]]. cbn in E. subst n0. apply filter_In in Hin. destruct Hin as [Hin Hs]. cbn in Hs. apply Nat.eqb_eq in Hs. now subst.
  - intros Hin. exists (n, k). split; [reflexivity|]. apply filter_In. split; [exact Hin | apply Nat.eqb_refl].
Qed.
Theorem refs_of_ns_spec k nodes refs r : In r (refs_of_ns k nodes refs) <->
  In r refs /\ (exists n, In (n, k) nodes /\ (g_id n = fst (fst r) \/ g_id n = snd (fst r))).
Proof.
  unfold refs_of_ns. rewrite filter_In, orb_true_iff, !idmem_in, !in_map_iff. split.
  - intros [Hr [[n [E Hn]]|[n [E Hn]]]]; (split; [exact Hr|]); exists n; (split; [now apply nodes_of_ns_spec|]); auto.
  - intros [Hr [n [Hn [E|E]]]]; (split; [exact Hr|]); [left|right]; exists n; (split; [exact E | now apply nodes_of_ns_spec]).
Qed.

(* non-vacuity *)
Example nv_lt : py_lt {| cls := lit "UAInt32"; key := lit "(5,)" |} {| cls := lit "UAString"; key := lit "('a',)" |} = true
             /\ py_lt {| cls := lit "UAInt32"; key := lit "(10,)" |} {| cls := lit "UAInt32"; key := lit "(5,)" |} = true.
Proof. split; reflexivity. Qed.
Example nv_sort : sort_rows [[None]; [Some {| cls := lit "b"; key := [] |}]; [Some {| cls := lit "a"; key := [] |}]]
                = [[Some {| cls := lit "a"; key := [] |}]; [Some {| cls := lit "b"; key := [] |}]; [None]].
Proof. reflexivity. Qed.
