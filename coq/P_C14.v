(* C14 - normalised tables are canonical: they depend only on the graph's content. *)
From Coq Require Import String Ascii List Bool Arith Permutation.
Require Import PyStr Sexp Order M_C14 T_C14.
Import ListNotations.

(* for any two values exactly one of a<b, b<a or equivalence (same class, same key) holds *)
Theorem C14_trichotomy : forall u v,
  (py_lt u v = true /\ py_lt v u = false /\ u <> v) \/ (u = v /\ py_lt u v = false /\ py_lt v u = false) \/
  (py_lt v u = true /\ py_lt u v = false /\ u <> v).
Proof. exact lt_trichotomy. Qed.
Theorem C14_lt_transitive : forall u v w, py_lt u v = true -> py_lt v w = true -> py_lt u w = true.
Proof. exact lt_transitive. Qed.
Theorem C14_le_transitive : forall u v w, py_le u v = true -> py_le v w = true -> py_le u w = true.
Proof. exact le_transitive. Qed.
Theorem C14_le_iff_not_gt : forall u v, py_le u v = negb (py_gt u v).
Proof. exact le_iff_not_gt. Qed.
Theorem C14_ge_iff_not_lt : forall u v, py_ge u v = negb (py_lt u v).
Proof. exact ge_iff_not_lt. Qed.
(* equality is consistent with hash, reflexive, and total when no field holds pd.NA *)
Theorem C14_hash : forall u v, ua_eq u v = Ok true -> ua_hash u = ua_hash v.
Proof. exact eq_implies_same_hash. Qed.
Theorem C14_eq_reflexive : forall u, ua_eq u u = Ok true.
Proof. exact eq_reflexive. Qed.
Theorem C14_eq_total_without_na : forall u v, no_na (v_fields u) = true -> no_na (v_fields v) = true -> exists b, ua_eq u v = Ok b.
Proof. exact eq_total_without_na. Qed.
(* faithful to the code: `==` between a null-valued and a non-null value of one class raises TypeError
   (known finding C14-eq-raises-on-NA) *)
Theorem C14_eq_total_refuted : exists u v, ua_eq u v = Err EType.
Proof. exact eq_total_refuted. Qed.
(* the normalised tables depend only on the multiset of rows ... *)
Theorem C14_canonical : forall t t', Permutation t t' -> sort_rows t = sort_rows t'.
Proof. exact sort_rows_canonical. Qed.
Theorem C14_sorted_is_permutation : forall t, Permutation t (sort_rows t).
Proof. exact sort_rows_perm. Qed.
(* ... and not on the internal ids *)
Theorem C14_nodes_invariant : forall lk lk' f nodes nodes',
  (forall i, lookup lk' (f i) = lookup lk i) -> Permutation nodes' (map (rename_node f) nodes) ->
  normalized_nodes lk' nodes' = normalized_nodes lk nodes.
Proof. exact normalized_nodes_invariant. Qed.
Theorem C14_refs_invariant : forall lk lk' f refs refs',
  (forall i, lookup lk' (f i) = lookup lk i) -> Permutation refs' (map (rename_ref f) refs) ->
  normalized_refs lk' refs' = normalized_refs lk refs.
Proof. exact normalized_refs_invariant. Qed.

(* ---- per namespace: the same holds for the tables of one namespace (rows whose ns is k; references touching those rows), under an injective renumbering ---- *)
Theorem C14_nodes_ns_invariant : forall lk lk' f k nodes nodes',
  (forall i, lookup lk' (f i) = lookup lk i) -> Permutation nodes' (map (rename_pair f) nodes) ->
  normalized_nodes_ns lk' k nodes' = normalized_nodes_ns lk k nodes.
Proof. exact normalized_nodes_ns_invariant. Qed.
Theorem C14_refs_ns_invariant : forall lk lk' f k nodes nodes' refs refs',
  (forall i, lookup lk' (f i) = lookup lk i) -> (forall i j, f i = f j -> i = j) ->
  Permutation nodes' (map (rename_pair f) nodes) -> Permutation refs' (map (rename_ref f) refs) ->
  normalized_refs_ns lk' k nodes' refs' = normalized_refs_ns lk k nodes refs.
Proof. exact normalized_refs_ns_invariant. Qed.
(* what the per-namespace tables are made of *)
Theorem C14_nodes_of_namespace : forall k nodes n, In n (nodes_of_ns k nodes) <-> In (n, k) nodes.
Proof. exact nodes_of_ns_spec. Qed.
Theorem C14_refs_of_namespace : forall k nodes refs r, In r (refs_of_ns k nodes refs) <->
  In r refs /\ (exists n, In (n, k) nodes /\ (g_id n = fst (fst r) \/ g_id n = snd (fst r))).
Proof. exact refs_of_ns_spec. Qed.

Print Assumptions C14_trichotomy.
Print Assumptions C14_lt_transitive.
Print Assumptions C14_le_transitive.
Print Assumptions C14_le_iff_not_gt.
Print Assumptions C14_ge_iff_not_lt.
Print Assumptions C14_hash.
Print Assumptions C14_eq_reflexive.
Print Assumptions C14_eq_total_without_na.
Print Assumptions C14_eq_total_refuted.
Print Assumptions C14_canonical.
Print Assumptions C14_sorted_is_permutation.
Print Assumptions C14_nodes_invariant.
Print Assumptions C14_refs_invariant.
Print Assumptions C14_nodes_ns_invariant.
Print Assumptions C14_refs_ns_invariant.
Print Assumptions C14_nodes_of_namespace.
Print Assumptions C14_refs_of_namespace.
