(* C10 - JSON encodings are valid JSON of the right shape and lose nothing. *)
From Coq Require Import String Ascii List Bool NArith ZArith.
Require Import PyStr PyInt Sexp Xml M_C09 M_C08 M_C10 T_C10.
Import ListNotations.
Open Scope char_scope.

(* text loses nothing: every byte string is recovered from the JSON string the encoders produce for it *)
Theorem C10_text_lossless : forall s, junescape (jescape s) = Some s.
Proof. exact junescape_jescape. Qed.
(* on the domain (no 64-bit integers, no extension objects/lists, identifiers that need no escaping) the hand-built text
   is exactly the printed form of the JSON value the OPC UA encoding prescribes; null values give None *)
Theorem C10_shape : forall E v, dom10 v = true -> json_encode E v = Ok (omap jprint (shape v)).
Proof. exact json_encode_shape. Qed.
Theorem C10_variant : forall E v tnum, (tnum <> 0)%Z -> dom10 v = true ->
  json_encode_j E (JVariant (Some v) tnum) =
  Ok (Some (match shape v with Some j => jprint (JObj [(lit "Type", JNum (decZ tnum)); (lit "Body", j)]) | None => lit "null" end)).
Proof. exact json_variant. Qed.
(* integers keep every digit (shared with C08/C09) *)
Theorem C10_int_lossless : forall z, py_int (decZ z) = Some z.
Proof. exact py_int_decZ. Qed.
(* faithful to the code (known findings): NodeId identifiers are spliced unescaped; a list of strings prints bare words;
   64-bit integers go through float *)
Theorem C10_nodeid_unescaped_refuted : exists n, valid n = true /\ json_encode [] (VNodeId n) <> Ok (omap jprint (shape (VNodeId n))).
Proof. exact nodeid_unescaped_refuted. Qed.
Theorem C10_list_of_strings_refuted :
  json_encode [] (VList (lit "String") [VString (Some (lit "a b"))]) = Ok (Some (lit "{""Type"":12,""Body"":[a b]}")).
Proof. exact list_of_strings_refuted. Qed.
Theorem C10_int64_via_float_refuted :
  json_encode [(lit "i2f:9007199254740993", Some (lit "9007199254740992.0"))] (VInt KInt64 (Some 9007199254740993%Z))
  = Ok (Some (lit """9007199254740992.0""")).
Proof. exact int64_via_float_refuted. Qed.

Print Assumptions C10_text_lossless.
Print Assumptions C10_shape.
Print Assumptions C10_variant.
Print Assumptions C10_int_lossless.
Print Assumptions C10_nodeid_unescaped_refuted.
Print Assumptions C10_list_of_strings_refuted.
Print Assumptions C10_int64_via_float_refuted.
