(* C10 - JSON encodings are valid JSON of the right shape and lose nothing. *)
From Coq Require Import String Ascii List Bool NArith ZArith.
Require Import PyStr PyInt Sexp Xml M_C09 M_C08 M_C10 M_C10r T_C10 T_C10r.
Import ListNotations.
Open Scope char_scope.

(* text loses nothing: every byte string is recovered from the JSON string the encoders produce for it *)
Theorem C10_text_lossless : forall s, junescape (jescape s) = Some s.
Proof. exact junescape_jescape. Qed.
(* on the domain (no 64-bit integers, no extension objects/lists, identifiers that need no escaping) the hand-built text
   is exactly the printed form of the JSON value the OPC UA encoding prescribes; null values give None *)
Theorem C10_shape : forall E v, dom10 v = true -> json_encode E v = Ok (omap jprint (shape v)).
Proof. exact json_encode_shape. Qed.
Theorem C10_variant : forall E v tnum, (tnum <> 0)%Z -> dom10 v = true ->
  json_encode_j E (JVariant (Some v) tnum) =
  Ok (Some (match shape v with Some j => jprint (JObj [(lit "Type", JNum (decZ tnum)); (lit "Body", j)]) | None => lit "null" end)).
Proof. exact json_variant. Qed.
(* integers keep every digit (shared with C08/C09) *)
Theorem C10_int_lossless : forall z, py_int (decZ z) = Some z.
Proof. exact py_int_decZ. Qed.
(* faithful to the code (known findings): NodeId identifiers are spliced unescaped; a list of strings prints bare words;
   64-bit integers go through float *)
Theorem C10_nodeid_unescaped_refuted : exists n, valid n = true /\ json_encode [] (VNodeId n) <> Ok (omap jprint (shape (VNodeId n))).
Proof. exact nodeid_unescaped_refuted. Qed.
Theorem C10_list_of_strings_refuted :
  json_encode [] (VList (lit "String") [VString (Some (lit "a b"))]) = Ok (Some (lit "{""Type"":12,""Body"":[a b]}")).
Proof. exact list_of_strings_refuted. Qed.
Theorem C10_int64_via_float_refuted :
  json_encode [(lit "i2f:9007199254740993", Some (lit "9007199254740992.0"))] (VInt KInt64 (Some 9007199254740993%Z))
  = Ok (Some (lit """9007199254740992.0""")).
Proof. exact int64_via_float_refuted. Qed.

(* extension objects: TypeId, Body and the Encoding number of the body's kind *)
Theorem C10_extension_object : forall E tid body j, nid_dom tid = true -> shape_ext tid body = Some j ->
  json_encode E (VExtObj tid body) = Ok (Some (jprint j)).
Proof. exact json_ext_shape. Qed.

(* the property as it is stated, inside the model: a JSON reader (M_C10r.jparse: no whitespace, number literals kept as text) reads the
   text the encoder returns as exactly the value the OPC UA JSON encoding prescribes.  texts_ok: the float and numeric-identifier texts
   supplied from outside the model consist of number characters (evaluated on every generated case). *)
Theorem C10_reader_reads_printer : forall j, jv_ok j = true -> jparse (jprint j) = Some j.
Proof. exact jparse_print. Qed.
Theorem C10_parses_as_json : forall E v j, dom10 v = true -> texts_ok v = true -> shape v = Some j ->
  exists s, json_encode E v = Ok (Some s) /\ jparse s = Some j.
Proof. exact parses_as_json. Qed.
Theorem C10_variant_parses_as_json : forall E v tnum j, (tnum <> 0)%Z -> dom10 v = true -> texts_ok v = true -> shape v = Some j ->
  exists s, json_encode_j E (JVariant (Some v) tnum) = Ok (Some s) /\ jparse s = Some (JObj [(lit "Type", JNum (decZ tnum)); (lit "Body", j)]).
Proof. exact variant_parses_as_json. Qed.
Theorem C10_extension_object_parses : forall E tid body j, nid_dom tid = true -> nid_ok tid = true -> shape_ext tid body = Some j ->
  exists s, json_encode E (VExtObj tid body) = Ok (Some s) /\ jparse s = Some j.
Proof. exact ext_parses_as_json. Qed.

(* a Variant built without an explicit type: Type is the built-in number of the value's class *)
Theorem C10_variant_type_inferred : forall E v t j, variant_type_of v = Some t -> dom10 v = true -> texts_ok v = true -> shape v = Some j ->
  exists s, json_encode_variant_auto E (Some v) = Ok (Some s) /\ jparse s = Some (JObj [(lit "Type", JNum (decZ t)); (lit "Body", j)]).
Proof. exact variant_auto_parses. Qed.
Theorem C10_variant_type_table :
  (forall b, variant_type_of (VBool b) = variant_number (lit "Boolean")) /\ (forall k z, variant_type_of (VInt k z) = variant_number (ikind_name k)) /\
  (forall f, variant_type_of (VFloat false f) = variant_number (lit "Float")) /\ (forall f, variant_type_of (VFloat true f) = variant_number (lit "Double")) /\
  (forall s, variant_type_of (VString s) = variant_number (lit "String")) /\ (forall d, variant_type_of (VDateTime d) = variant_number (lit "DateTime")) /\
  (forall s, variant_type_of (VGuid s) = variant_number (lit "Guid")) /\ (forall b, variant_type_of (VByteString b) = variant_number (lit "ByteString")) /\
  (forall r, variant_type_of (VXmlRaw r) = variant_number (lit "XmlElement")) /\ (forall n, variant_type_of (VNodeId n) = variant_number (lit "NodeId")) /\
  (forall t l, variant_type_of (VLocText t l) = variant_number (lit "LocalizedText")) /\ (forall t b, variant_type_of (VExtObj t b) = variant_number (lit "ExtensionObject")) /\
  (forall z s n, variant_type_of (VEnum z s n) = variant_number (lit "Int32")).
Proof. exact variant_type_table. Qed.

Print Assumptions C10_text_lossless.
Print Assumptions C10_shape.
Print Assumptions C10_variant.
Print Assumptions C10_int_lossless.
Print Assumptions C10_nodeid_unescaped_refuted.
Print Assumptions C10_list_of_strings_refuted.
Print Assumptions C10_int64_via_float_refuted.
Print Assumptions C10_extension_object.
Print Assumptions C10_reader_reads_printer.
Print Assumptions C10_parses_as_json.
Print Assumptions C10_variant_parses_as_json.
Print Assumptions C10_extension_object_parses.
Print Assumptions C10_variant_type_inferred.
Print Assumptions C10_variant_type_table.
