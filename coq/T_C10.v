(* Proofs about the JSON encoders (C10). *)
From Coq Require Import String Ascii List Bool NArith ZArith Lia.
Require Import PyStr PyInt Sexp Xml M_C09 M_C08 M_C10 M_C10r.
Import ListNotations.
Open Scope char_scope.

(* JSON text loses nothing: every byte string is recovered from its escaped form *)
Lemma junescape_char c rest : junescape (jesc_char c ++ rest) = omap (cons c) (junescape rest).
Proof. destruct c as [[] [] [] [] [] [] [] []]; reflexivity. Qed.
Theorem junescape_jescape s : junescape (jescape s) = Some s.
Proof.
  induction s as [|c s IH]; [reflexivity|]. unfold jescape in *. cbn [flat_map]. rewrite junescape_char, IH. reflexivity.
Qed.
(* the escaped form contains no bare quote, so a string can never end early *)
Lemma jesc_char_quote c : forall x, In x (jesc_char c) -> x = """" -> exists y, jesc_char c = ["\"; y].
Proof. destruct c as [[] [] [] [] [] [] [] []]; cbn; intros x H Hx; subst; repeat (destruct H as [H|H]; try discriminate); try contradiction; eauto. Qed.

(* ---------- the hand-built texts are the printed form of the intended JSON value ---------- *)
Lemma jstring_key_Namespace : jstring (lit "Namespace") = lit """Namespace""". Proof. reflexivity. Qed.

(* the DateTime text needs no escaping *)
Definition jsafe (c : ascii) : bool := negb (Ascii.eqb c """") && negb (Ascii.eqb c "\") && negb (N_of_ascii c <? 32)%N.
Lemma jesc_char_safe c : jsafe c = true -> jesc_char c = [c].
Proof. destruct c as [[] [] [] [] [] [] [] []]; cbn; intros H; try reflexivity; discriminate. Qed.
Lemma jescape_safe s : all_chars jsafe s = true -> jescape s = s.
Proof.
  induction s as [|c s IH]; intros H; [reflexivity|]. cbn [all_chars] in H. apply andb_true_iff in H as [Hc Hs].
  unfold jescape in *. cbn [flat_map]. now rewrite (IH Hs), (jesc_char_safe c Hc).
Qed.
Lemma all_chars_app p a b : all_chars p (a ++ b) = all_chars p a && all_chars p b.
Proof. induction a as [|x a IH]; [reflexivity|]. cbn. now rewrite IH, andb_assoc. Qed.
Lemma digit_jsafe c : is_digit c = true -> jsafe c = true.
Proof. destruct c as [[] [] [] [] [] [] [] []]; cbn; intros H; try discriminate; reflexivity. Qed.
Lemma decZ_jsafe z : all_chars jsafe (decZ z) = true.
Proof.
  assert (D : forall n, all_chars jsafe (dec n) = true).
  { intros n. pose proof (dec_digits_only n) as H. induction (dec n) as [|c r IH]; [reflexivity|]. cbn [all_chars].
    rewrite (digit_jsafe c) by (apply H; now left). apply IH. intros c' Hc'. apply H. now right. }
  destruct z; cbn [decZ]; try apply D; cbn [all_chars]; now rewrite D.
Qed.
Lemma pad_jsafe n z : all_chars jsafe (pad_to n (decZ z)) = true.
Proof.
  unfold pad_to. rewrite all_chars_app, decZ_jsafe, andb_true_r. induction (n - length (decZ z)) as [|k IH]; [reflexivity|]. cbn. exact IH.
Qed.
Lemma iso_utc_jsafe d : all_chars jsafe (iso_utc d) = true.
Proof.
  unfold iso_utc, z2. repeat (rewrite all_chars_app || cbn [all_chars] || rewrite pad_jsafe). reflexivity.
Qed.

Lemma app_cons_assoc {A} (a : list A) x b : a ++ x :: b = (a ++ [x]) ++ b.
Proof. now rewrite <- app_assoc. Qed.
Ltac jkeys :=
  repeat match goal with |- context [jstring (lit ?k)] => let v := eval vm_compute in (jstring (lit k)) in change (jstring (lit k)) with v end;
  repeat match goal with |- context [lit ?k] => let v := eval vm_compute in (lit k) in change (lit k) with v end.
Lemma loctext_shape t l : json_loctext t l = jprint (shape_loctext t l).
Proof. unfold json_loctext, shape_loctext. destruct l; cbn; repeat rewrite <- app_assoc; cbn; repeat rewrite <- app_assoc; reflexivity. Qed.
Ltac jfin := cbn; repeat (progress (repeat rewrite <- app_assoc; cbn [app])); reflexivity.
Theorem json_encode_shape E v : dom10 v = true -> json_encode E v = Ok (omap jprint (shape v)).
Proof.
  destruct v; cbn [dom10]; intros HD; try discriminate.
  - destruct b as [[]|]; reflexivity.
  - destruct z; [|reflexivity]. cbn [json_encode shape]. apply negb_true_iff in HD. now rewrite HD.
  - destruct f as [r|]; [|reflexivity]. cbn [json_encode shape json_float omap]. unfold shape_float.
    destruct (str_eqb r (lit "inf")); [reflexivity|]. destruct (str_eqb r (lit "-inf")); [reflexivity|].
    destruct (str_eqb r (lit "nan")); reflexivity.
  - destruct s; reflexivity.
  - destruct s; reflexivity.
  - cbn [json_encode shape omap jprint]. rewrite HD. unfold jstring. now rewrite (jescape_safe _ (iso_utc_jsafe d)).
  - destruct b; reflexivity.
  - cbn [json_encode shape omap]. f_equal. f_equal. unfold json_nodeid, shape_nodeid. destruct n as [ns ty val]. cbn [nid_ns nid_type nid_value] in *.
    assert (Hid : (match ty with Numeric => lit """Id"":" ++ val | _ => lit """Id"":""" ++ val ++ [""""] end)
                  = jstring (lit "Id") ++ ":" :: jprint (match ty with Numeric => JNum val | _ => JStr val end)).
    { destruct ty; cbn [jprint]; try reflexivity; unfold json_safe in HD; apply str_eqb_eq in HD; unfold jstring at 2; rewrite HD; reflexivity. }
    rewrite Hid. clear Hid HD.
    destruct (ns =? 0)%Z; destruct ty; cbn [idtype_number Z.eqb app map jprint join fst snd]; 
      repeat rewrite <- app_assoc; cbn [app comma]; repeat rewrite <- app_assoc; reflexivity.
  - cbn [json_encode shape omap]. now rewrite loctext_shape.
  - cbn [json_encode shape omap]. f_equal. f_equal. cbn [jprint map join fst snd]. rewrite <- !loctext_shape.
    jkeys. cbn [app comma]. repeat (progress (repeat rewrite <- app_assoc; cbn [app])). reflexivity.
  - cbn [json_encode shape omap]. f_equal. f_equal. unfold shape_float, json_float.
    destruct (str_eqb lo (lit "inf")), (str_eqb lo (lit "-inf")), (str_eqb lo (lit "nan")),
             (str_eqb hi (lit "inf")), (str_eqb hi (lit "-inf")), (str_eqb hi (lit "nan")); jfin.
  - reflexivity.
  - destruct z; reflexivity.
Qed.

(* Variant: the built-in type number and the body *)
Theorem json_variant E v tnum : (tnum <> 0)%Z -> dom10 v = true ->
  json_encode_j E (JVariant (Some v) tnum) =
  Ok (Some (match shape v with Some j => jprint (JObj [(lit "Type", JNum (decZ tnum)); (lit "Body", j)]) | None => lit "null" end)).
Proof.
  intros Ht HD. cbn [json_encode_j]. destruct (Z.eqb_spec tnum 0); [contradiction|].
  rewrite (json_encode_shape E v HD). cbn [rbind]. destruct (shape v); [|reflexivity]. cbn [omap].
  f_equal. f_equal. jfin.
Qed.

(* faithful to the code (known findings): identifiers and names are spliced unescaped; a list of strings prints bare words *)
Theorem nodeid_unescaped_refuted : exists n, valid n = true /\ json_encode [] (VNodeId n) <> Ok (omap jprint (shape (VNodeId n))).
Proof. exists {| nid_ns := 0; nid_type := String_; nid_value := lit "a""b" |}. split; [reflexivity|]. vm_compute. discriminate. Qed.
Theorem list_of_strings_refuted :
  json_encode [] (VList (lit "String") [VString (Some (lit "a b"))]) = Ok (Some (lit "{""Type"":12,""Body"":[a b]}")).
Proof. reflexivity. Qed.
Theorem int64_via_float_refuted :
  json_encode [(lit "i2f:9007199254740993", Some (lit "9007199254740992.0"))] (VInt KInt64 (Some 9007199254740993%Z))
  = Ok (Some (lit """9007199254740992.0""")).
Proof. reflexivity. Qed.

(* extension objects: TypeId, Body and the Encoding number of the body's kind (1 = ByteString, 2 = XmlElement) *)
Lemma nodeid_shape_print n : nid_dom n = true -> json_nodeid n = jprint (shape_nodeid n).
Proof.
  intros HD. pose proof (json_encode_shape [] (VNodeId n)) as H. cbn [dom10 json_encode shape omap] in H. specialize (H HD). congruence.
Qed.
Theorem json_ext_shape E tid body j : nid_dom tid = true -> shape_ext tid body = Some j ->
  json_encode E (VExtObj tid body) = Ok (Some (jprint j)).
Proof.
  intros Hn Hs. destruct body; cbn [shape_ext] in Hs; try discriminate.
  - destruct b as [b|]; [|discriminate]. injection Hs as <-. cbn [json_encode rbind omap]. rewrite (nodeid_shape_print tid Hn). f_equal. f_equal. jfin.
  - injection Hs as <-. cbn [json_encode rbind]. rewrite (nodeid_shape_print tid Hn). f_equal. f_equal. jfin.
Qed.
(* a null ByteString body: the whole extension object is null *)
Theorem json_ext_null E tid : json_encode E (VExtObj tid (VByteString None)) = Ok (Some (lit "null")).
Proof. reflexivity. Qed.
