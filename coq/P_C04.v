From Coq Require Import List. Require Import M_Parse.
Theorem placeholder_C04 : True. Proof. exact I. Qed.
Print Assumptions placeholder_C04.
