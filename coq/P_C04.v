(* C04 - integer-id normalisation is a consistent bijection with NodeIds *)
From Coq Require Import String Ascii List Bool Arith NArith ZArith.
Require Import PyStr PyInt Sexp Xml M_C09 M_C08 Ns Table M_Parse T_Parse.
Import ListNotations.
Open Scope char_scope.

(* each NodeId occurs once in the lookup table *)
Theorem C04_lookup_injective : forall p,
  NoDup (lookup_table p).
Proof. exact C04_lookup_injective. Qed.

(* two NodeIds with the same id are the same NodeId *)
Theorem C04_one_id_per_nodeid : forall p x y j,
  id_of (lookup_table p) x = Some j -> id_of (lookup_table p) y = Some j -> x = y.
Proof. exact C04_one_id_per_nodeid. Qed.

(* every node row has an id whose lookup entry is the row's NodeId *)
Theorem C04_node_ids : forall p r,
  In r (p_nodes p) ->
  exists j, nn_id (normalize_node (lookup_table p) r) = Some j /\ nth_error (lookup_table p) j = Some (nr_nodeid r).
Proof. exact C04_node_ids. Qed.

(* DataType / ParentNodeId / MethodDeclarationId: a present attribute denormalises to the NodeId the document named; an absent one stays missing *)
Theorem C04_attribute_ids : forall p r,
  In r (p_nodes p) ->
  let n := normalize_node (lookup_table p) r in
  (forall x, ref_attr (lit "ParentNodeId") r = Some x -> exists j, nn_parent n = Some j /\ nth_error (lookup_table p) j = Some x) /\
  (forall x, ref_attr (lit "DataType") r = Some x -> exists j, nn_datatype n = Some j /\ nth_error (lookup_table p) j = Some x) /\
  (forall x, ref_attr (lit "MethodDeclarationId") r = Some x -> exists j, nn_methoddecl n = Some j /\ nth_error (lookup_table p) j = Some x) /\
  (ref_attr (lit "ParentNodeId") r = None -> nn_parent n = None) /\
  (ref_attr (lit "DataType") r = None -> nn_datatype n = None) /\
  (ref_attr (lit "MethodDeclarationId") r = None -> nn_methoddecl n = None).
Proof. exact C04_attribute_ids. Qed.

(* the three columns of every reference denormalise to its NodeIds *)
Theorem C04_reference_ids : forall p t,
  In t (p_refs p) ->
  normalize_ref (lookup_table p) t = (id_of (lookup_table p) (fst (fst t)), id_of (lookup_table p) (snd (fst t)), id_of (lookup_table p) (snd t)) /\
  (exists j, id_of (lookup_table p) (fst (fst t)) = Some j /\ nth_error (lookup_table p) j = Some (fst (fst t))) /\
  (exists j, id_of (lookup_table p) (snd (fst t)) = Some j /\ nth_error (lookup_table p) j = Some (snd (fst t))) /\
  (exists j, id_of (lookup_table p) (snd t) = Some j /\ nth_error (lookup_table p) j = Some (snd t)).
Proof. exact C04_reference_ids. Qed.

(* with pairwise distinct NodeIds the id of a node row is its row position *)
Theorem C04_ids_are_row_positions : forall p,
  NoDup (map nr_nodeid (p_nodes p)) -> exists s, lookup_table p = map nr_nodeid (p_nodes p) ++ s.
Proof. exact C04_ids_are_row_positions. Qed.

Print Assumptions C04_lookup_injective.
Print Assumptions C04_one_id_per_nodeid.
Print Assumptions C04_node_ids.
Print Assumptions C04_attribute_ids.
Print Assumptions C04_reference_ids.
Print Assumptions C04_ids_are_row_positions.
