(* Proofs about the relatives / node-path model (C13). *)
From Coq Require Import String List Arith Bool Lia Permutation PeanoNat.
Require Import PyStr Sexp M_C12 M_C13.
Import ListNotations.

Section Walks.
Variable E : rel.
Variable desc : bool.
Notation sc := (succs E desc).
Notation ext := (extend E desc).
Notation stp := (step E desc).

(* specification: depth-first enumeration of all walks with at most k edges continuing p *)
Fixpoint dfs (k : nat) (p : path) : list path :=
  p :: match k with 0 => [] | S k' => flat_map (dfs k') (ext p) end.

Lemma flat_map_cons_perm {A B} (f : A -> B) (g : A -> list B) l :
  Permutation (flat_map (fun x => f x :: g x) l) (map f l ++ flat_map g l).
Proof.
  induction l as [|x l IH]; cbn; [constructor|].
  constructor. rewrite IH. rewrite !app_assoc. apply Permutation_app_tail. apply Permutation_app_comm.
Qed.

(* the frontier loop returns exactly the walks, with multiplicity (one row per walk; parallel edges give parallel walks) *)
Theorem bfs_dfs k : forall F, Permutation (bfs E desc k F) (flat_map (dfs k) F).
Proof.
  induction k as [|k IH]; intros F.
  - cbn [bfs dfs]. rewrite app_nil_r. rewrite <- (map_id F) at 1.
    rewrite (flat_map_cons_perm (fun p => p) (fun _ => [])). rewrite map_id.
    assert (E0 : flat_map (fun _ : path => @nil path) F = []) by (induction F; auto). now rewrite E0, app_nil_r.
  - cbn [bfs dfs]. rewrite (flat_map_cons_perm (fun p => p) (fun p => flat_map (dfs k) (ext p))).
    rewrite map_id. apply Permutation_app_head. rewrite IH. unfold step.
    clear IH. induction F as [|p F IHF]; cbn [flat_map]; [constructor|].
    rewrite flat_map_app. now apply Permutation_app_head.
Qed.

(* walks: q is reached from p by repeatedly appending a successor of the current end *)
Inductive reaches : path -> path -> Prop :=
| r_here p : reaches p p
| r_next v r t q : In t (sc v) -> reaches (t :: v :: r) q -> reaches (v :: r) q.

Lemma reaches_length p q : reaches p q -> length p <= length q.
Proof. induction 1; cbn [length] in *; lia. Qed.
Lemma reaches_trans p q r : reaches p q -> reaches q r -> reaches p r.
Proof. induction 1 as [|v r0 t q0 Ht R IH]; intros H; [exact H|]. eapply r_next; eauto. Qed.

Theorem dfs_complete p q : reaches p q -> forall k, length q <= length p + k -> In q (dfs k p).
Proof.
  induction 1 as [p|v r t q Ht R IH]; intros k L.
  - destruct k; now left.
  - pose proof (reaches_length _ _ R) as L'. cbn [length] in *.
    destruct k as [|k]; [lia|]. cbn [dfs]. right. apply in_flat_map. exists (t :: v :: r). split.
    + cbn [extend]. apply in_map_iff. eauto.
    + apply IH. cbn [length]. lia.
Qed.
Theorem dfs_exact k p q : p <> [] -> (In q (dfs k p) <-> reaches p q /\ length q <= length p + k).
Proof.
  intros Hp. split.
  - revert p q Hp. induction k as [|k IH]; intros p q Hp H; cbn [dfs] in H.
    + destruct H as [<-|[]]. split; [constructor|lia].
    + destruct H as [<-|H]; [split; [constructor|lia]|].
      apply in_flat_map in H as [p' [Hp' Hq]]. destruct p as [|v r]; [contradiction|]. cbn [extend] in Hp'.
      apply in_map_iff in Hp' as [t [<- Ht]].
      assert (Hne : t :: v :: r <> []) by discriminate.
      destruct (IH _ _ Hne Hq) as [W L]. cbn [length] in L. split; [|cbn [length]; lia].
      eapply r_next; eauto.
  - intros [R L]. now apply dfs_complete.
Qed.

(* the columns of a row *)
Lemma reaches_start s q : reaches [s] q -> row_start q = s /\ q <> [].
Proof.
  intros R. remember [s] as p eqn:Ep.
  assert (G : forall p q, reaches p q -> p <> [] -> last q 0 = last p 0 /\ q <> []).
  { clear. induction 1 as [p|v r t q Ht R IH]; intros Hp; [auto|].
    destruct (IH ltac:(discriminate)) as [H1 H2]. split; [|exact H2]. rewrite H1. reflexivity. }
  subst p. destruct (G _ _ R ltac:(discriminate)) as [H1 H2]. split; [exact H1|exact H2].
Qed.
(* consecutive nodes of a row are joined by edges in the chosen direction *)
Fixpoint chain (q : path) : Prop :=
  match q with t :: ((v :: _) as r) => In t (sc v) /\ chain r | _ => True end.
Lemma reaches_chain p q : reaches p q -> chain p -> chain q.
Proof. induction 1 as [p|v r t q Ht R IH]; intros Hc; [exact Hc|]. apply IH. cbn [chain]. auto. Qed.
Lemma chain_reaches q : forall s, chain q -> last q 0 = s -> q <> [] -> reaches [s] q.
Proof.
  induction q as [|t q IH]; intros s Hc Hl Hne; [contradiction|].
  destruct q as [|v r].
  - cbn in Hl. subst. constructor.
  - cbn [chain] in Hc. destruct Hc as [Ht Hc].
    assert (R : reaches [s] (v :: r)) by (apply IH; [exact Hc | exact Hl | discriminate]).
    eapply reaches_trans; [exact R|]. eapply r_next; [exact Ht|constructor].
Qed.

(* frontiers *)
Lemma frontier_rows k : forall F q, In q (frontier E desc k F) ->
  exists p, In p F /\ reaches p q /\ length q = length p + k.
Proof.
  induction k as [|k IH]; intros F q H; cbn [frontier] in H.
  - exists q. split; [exact H|]. split; [constructor|lia].
  - destruct (IH _ _ H) as [p' [Hp' [R L]]]. unfold step in Hp'. apply in_flat_map in Hp' as [p [Hp He]].
    destruct p as [|v r]; [contradiction|]. cbn [extend] in He. apply in_map_iff in He as [t [<- Ht]].
    exists (v :: r). repeat split; auto.
    + eapply r_next; eauto.
    + cbn [length] in *. lia.
Qed.

(* rows of length 0: exactly the start rows, each once *)
Definition len0 (p : path) : bool := row_len p =? 0.
Lemma step_long F : Forall (fun p => 1 <= length p) F -> Forall (fun p => 2 <= length p) (stp F).
Proof.
  intros H. apply Forall_forall. intros q Hq. unfold step in Hq. apply in_flat_map in Hq as [p [Hp He]].
  destruct p as [|v r]; [contradiction|]. cbn [extend] in He. apply in_map_iff in He as [t [<- _]]. cbn [length]. lia.
Qed.
Lemma bfs_long k : forall F, Forall (fun p => 2 <= length p) F -> filter len0 (bfs E desc k F) = [].
Proof.
  induction k as [|k IH]; intros F H; cbn [bfs]; rewrite filter_app.
  - cbn. rewrite app_nil_r. induction H as [|p F Hp _ IHF]; [reflexivity|]. cbn [filter]. unfold len0, row_len at 1.
    destruct (Nat.eqb_spec (length p - 1) 0); [lia|exact IHF].
  - rewrite IH.
    + rewrite app_nil_r. induction H as [|p F Hp _ IHF]; [reflexivity|]. cbn [filter]. unfold len0, row_len at 1.
      destruct (Nat.eqb_spec (length p - 1) 0); [lia|exact IHF].
    + apply step_long. eapply Forall_impl; [|exact H]. cbn. intros; lia.
Qed.
Theorem start_rows_once k starts : filter len0 (bfs E desc k (start_rows starts)) = start_rows starts.
Proof.
  assert (H0 : filter len0 (start_rows starts) = start_rows starts).
  { unfold start_rows. induction starts as [|s l IH]; [reflexivity|]. cbn. now rewrite IH. }
  destruct k as [|k]; cbn [bfs]; rewrite filter_app, H0; [now rewrite app_nil_r|].
  rewrite bfs_long; [now rewrite app_nil_r|]. apply step_long. unfold start_rows. apply Forall_forall.
  intros p Hp. apply in_map_iff in Hp as [s [<- _]]. cbn. lia.
Qed.

(* ---- the uncut call on an acyclic edge set ---- *)
Variable starts : list nat.
(* acyclic: no walk from a start node visits a node twice *)
Hypothesis acyclic : forall s q, In s starts -> reaches [s] q -> NoDup q.

Lemma succs_in_universe v t : In t (sc v) -> In t (universe E starts).
Proof.
  unfold universe, succs. rewrite nodup_In, !in_app_iff. destruct desc; intros H; apply in_map_iff in H as [e [<- He]];
  apply filter_In in He as [He _]; right; [right|left]; apply in_map_iff; eauto.
Qed.
Lemma reaches_in_universe s q : In s starts -> reaches [s] q -> incl q (universe E starts).
Proof.
  intros Hs R. remember [s] as p eqn:Ep.
  assert (Hp : incl p (universe E starts)).
  { subst. intros x [<-|[]]. unfold universe. rewrite nodup_In, in_app_iff. now left. }
  clear Ep. induction R as [|v r t q Ht R IH]; [exact Hp|].
  apply IH. intros x [<-|Hx]; [eapply succs_in_universe; eauto | now apply Hp].
Qed.
Lemma walk_bounded s q : In s starts -> reaches [s] q -> length q <= length (universe E starts).
Proof.
  intros Hs R. apply NoDup_incl_length; [eapply acyclic; eauto | eapply reaches_in_universe; eauto].
Qed.
(* the loop "while the frontier is non-empty" stops within |universe| rounds *)
Theorem frontier_dies k : length (universe E starts) <= k -> frontier E desc k (start_rows starts) = [].
Proof.
  intros Hk. destruct (frontier E desc k (start_rows starts)) as [|q rest] eqn:Ef; [reflexivity|exfalso].
  assert (Hq : In q (frontier E desc k (start_rows starts))) by (rewrite Ef; now left).
  destruct (frontier_rows k _ _ Hq) as [p [Hp [R L]]].
  apply in_map_iff in Hp as [s [<- Hin]]. cbn [length] in L.
  pose proof (walk_bounded s q Hin R). lia.
Qed.
Theorem find_relatives_all rows : find_relatives E desc None starts = Ok rows ->
  Permutation rows (flat_map (dfs (length (universe E starts))) (start_rows starts)) /\
  forall q, In q rows <-> exists s, In s starts /\ reaches [s] q.
Proof.
  unfold find_relatives. rewrite frontier_dies by lia. intros H. inversion H; subst rows; clear H.
  split; [apply bfs_dfs|]. intros q. rewrite (Permutation_in' (eq_refl q) (bfs_dfs _ _)), in_flat_map. split.
  - intros [p [Hp Hq]]. apply in_map_iff in Hp as [s [<- Hs]]. apply dfs_exact in Hq as [R _]; [eauto|discriminate].
  - intros [s [Hs R]]. exists [s]. split; [apply in_map_iff; eauto|]. apply dfs_exact; [discriminate|].
    split; [exact R|]. pose proof (walk_bounded s q Hs R). cbn [length]. lia.
Qed.
Theorem find_relatives_all_ok : exists rows, find_relatives E desc None starts = Ok rows.
Proof. unfold find_relatives. rewrite frontier_dies by lia. eauto. Qed.
End Walks.

Theorem find_relatives_cut E desc k starts rows : find_relatives E desc (Some k) starts = Ok rows ->
  Permutation rows (flat_map (dfs E desc k) (start_rows starts)) /\
  (forall q, In q rows <-> exists s, In s starts /\ reaches E desc [s] q /\ row_len q <= k) /\
  filter len0 rows = start_rows starts.
Proof.
  unfold find_relatives. intros H. inversion H; subst rows; clear H. split; [apply bfs_dfs|split].
  - intros q. rewrite (Permutation_in' (eq_refl q) (bfs_dfs _ _ _ _)), in_flat_map. split.
    + intros [p [Hp Hq]]. apply in_map_iff in Hp as [s [<- Hs]]. apply dfs_exact in Hq as [R L]; [|discriminate].
      exists s. repeat split; auto. unfold row_len. cbn [length] in L. lia.
    + intros [s [Hs [R L]]]. exists [s]. split; [apply in_map_iff; eauto|]. apply dfs_exact; [discriminate|].
      split; [exact R|]. unfold row_len in L. cbn [length]. lia.
  - apply start_rows_once.
Qed.

(* ---- node paths ---- *)
Lemma filter_unique {A} (f : A -> nat) (l : list A) p : NoDup (map f l) -> In p l -> filter (fun x => f x =? f p) l = [p].
Proof.
  induction l as [|x l IH]; intros Hn Hin; [contradiction|]. cbn [map] in Hn. inversion Hn as [|? ? Hx Hl]; subst.
  cbn [filter]. destruct Hin as [->|Hin].
  - rewrite Nat.eqb_refl. f_equal. clear IH Hn Hl. induction l as [|y l IHl]; [reflexivity|]. cbn [filter].
    destruct (Nat.eqb_spec (f y) (f p)) as [He|_].
    + exfalso. apply Hx. cbn [map]. left. exact He.
    + apply IHl. intros H. apply Hx. now right.
  - destruct (Nat.eqb_spec (f x) (f p)) as [He|_]; [|now apply IH].
    exfalso. apply Hx. rewrite He. now apply in_map.
Qed.
Lemma sort_enumerate l : forall i, sort_by_pos (enumerate_from i l) = enumerate_from i l.
Proof.
  induction l as [|x l IH]; intros i; [reflexivity|]. cbn [enumerate_from]. unfold sort_by_pos in *. cbn [fold_right].
  rewrite IH. destruct l as [|y l]; [reflexivity|]. cbn [enumerate_from insert_by_pos fst].
  destruct (Nat.ltb_spec i (S i)); [reflexivity|lia].
Qed.
Lemma map_snd_enumerate {B} (g : nat -> B) l : forall i, map (fun c => g (snd c)) (enumerate_from i l) = map g l.
Proof. induction l as [|x l IH]; intros i; [reflexivity|]. cbn. now rewrite IH. Qed.

(* when every node below the root is reached by exactly one walk (a tree below the root), the path string of the
   node is the root's name and the names along that walk joined by '/'; the root itself gets its name followed by '/' *)
Theorem node_paths_tree names E root out : node_paths names E root = Ok out ->
  exists rows, find_relatives E true None [root] = Ok rows /\
  let below := filter (fun p => 0 <? row_len p) rows in
  (NoDup (map row_end below) ->
     forall p, In p below ->
       In (row_end p, name_of names root ++ slash ++ join slash (map (name_of names) (tl (row_seq p)))) out) /\
  In (root, name_of names root ++ slash) out /\
  length out = S (length (nodup Nat.eq_dec (map row_end below))).
Proof.
  unfold node_paths. destruct (find_relatives E true None [root]) as [rows|] eqn:Ef; [|discriminate]. cbn [rbind].
  intros H. inversion H; subst out; clear H. exists rows. split; [reflexivity|]. cbn zeta.
  set (below := filter (fun p => 0 <? row_len p) rows). split; [|split].
  - intros Hn p Hp. rewrite in_app_iff. left. apply in_map_iff. exists (row_end p). split.
    + unfold group_cells. rewrite (filter_unique row_end below p Hn Hp).
      cbn [flat_map]. rewrite app_nil_r. unfold melt. rewrite sort_enumerate, map_snd_enumerate. reflexivity.
    + rewrite nodup_In. now apply in_map.
  - rewrite in_app_iff. right. now left.
  - rewrite app_length, map_length. cbn. lia.
Qed.

(* non-vacuity: a diamond with a parallel edge has five walks from the top besides the start row *)
Example nv_diamond : exists rows, find_relatives [(1,2);(1,3);(2,4);(3,4);(3,4)] true None [1] = Ok rows /\ length rows = 6.
Proof. eexists. split; [vm_compute; reflexivity|reflexivity]. Qed.
Example nv_cutoff : find_relatives [(1,2);(2,3);(3,4)] true (Some 2) [1] = Ok [[1];[2;1];[3;2;1]].
Proof. reflexivity. Qed.
Example nv_paths : node_paths [(1, lit "Root"); (2, lit "A"); (3, lit "B")] [(1,2);(2,3)] 1 =
  Ok [(2, lit "Root/A"); (3, lit "Root/A/B"); (1, lit "Root/")].
Proof. vm_compute. reflexivity. Qed.
(* on a cycle the uncut call does not terminate in the code; the model reports it *)
Example nv_cycle_diverges : find_relatives [(1,2);(2,1)] true None [1] = Err EOther.
Proof. reflexivity. Qed.
