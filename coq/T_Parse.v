(* Proofs about the parser model (C01, C02, C03, C04). *)
From Coq Require Import String Ascii List Bool Arith NArith ZArith Lia.
Require Import PyStr PyInt Sexp Xml M_C09 M_C08 Ns Table M_Parse.
Import ListNotations.
Open Scope char_scope.

(* ---------- generic ---------- *)
Lemma rsequence_Forall2 {A B} (f : A -> res B) l : forall out, rsequence (map f l) = Ok out -> Forall2 (fun x y => f x = Ok y) l out.
Proof.
  induction l as [|x l IH]; intros out H; cbn in H.
  - inversion H. constructor.
  - destruct (f x) as [y|] eqn:E; [|discriminate]. cbn in H. destruct (rsequence (map f l)) as [ys|] eqn:E2; [|discriminate].
    cbn in H. inversion H; subst. constructor; [exact E | now apply IH].
Qed.
Lemma Forall2_length {A B} (R : A -> B -> Prop) l m : Forall2 R l m -> length l = length m.
Proof. induction 1; cbn; congruence. Qed.
Lemma Forall2_In_r {A B} (R : A -> B -> Prop) l m y : Forall2 R l m -> In y m -> exists x, In x l /\ R x y.
Proof. induction 1 as [|a b l m Hab _ IH]; intros H; [contradiction|]. destruct H as [<-|H]; [exists a; split; [now left|exact Hab]|].
  destruct (IH H) as [x [Hx Hr]]. exists x. split; [now right|exact Hr]. Qed.
Lemma Forall2_In_l {A B} (R : A -> B -> Prop) l m x : Forall2 R l m -> In x l -> exists y, In y m /\ R x y.
Proof. induction 1 as [|a b l m Hab _ IH]; intros H; [contradiction|]. destruct H as [<-|H]; [exists b; split; [now left|exact Hab]|].
  destruct (IH H) as [y [Hy Hr]]. exists y. split; [now right|exact Hr]. Qed.

(* ================= C03: one global namespace table ================= *)
Definition with_ua (namespaces : list str) : list str := if in_dec str_eq_dec UA_URI namespaces then namespaces else namespaces ++ [UA_URI].
Lemma with_ua_prefix ns : exists s, with_ua ns = ns ++ s.
Proof. unfold with_ua. destruct (in_dec str_eq_dec UA_URI ns); [exists []; now rewrite app_nil_r | eauto]. Qed.
Lemma with_ua_NoDup ns : NoDup ns -> NoDup (with_ua ns).
Proof. unfold with_ua. intros H. destruct (in_dec str_eq_dec UA_URI ns) as [|Hn]; [exact H|]. apply (add_NoDup str str_eq_dec ns UA_URI) in H.
  unfold add in H. destruct (in_dec str_eq_dec UA_URI ns); [contradiction|exact H]. Qed.
Lemma with_ua_In ns : In UA_URI (with_ua ns).
Proof. unfold with_ua. destruct (in_dec str_eq_dec UA_URI ns); [assumption|]. apply in_or_app. right. now left. Qed.

(* what one file does to the namespace list, and the local-index map it uses *)
Definition file_ns (ns : list str) (d : doc) : list str * list (nat * nat) :=
  match d_uris d with Some u => ns_extend (with_ua ns) u | None => (with_ua ns, []) end.
Lemma parse_file_ns E ns d ns1 fo : parse_file E ns d = Ok (ns1, fo) -> ns1 = fst (file_ns ns d).
Proof.
  unfold parse_file, file_ns. fold (with_ua ns).
  destruct (match d_aliases d with Some l => preprocess_aliases l | None => Ok tt end); [|discriminate]. cbn [rbind].
  destruct (match d_uris d with Some u => ns_extend (with_ua ns) u | None => (with_ua ns, []) end) as [n1 m] eqn:En.
  destruct (match d_aliases d with Some l => build_aliases l (zmap_of m) | None => Ok [] end); [|discriminate]. cbn [rbind].
  destruct (d_nodes d); [discriminate|].
  destruct (rsequence _); [|discriminate]. cbn [rbind]. intros H. inversion H; subst. reflexivity.
Qed.
Lemma file_ns_prefix ns d : exists s, fst (file_ns ns d) = ns ++ s.
Proof.
  unfold file_ns. destruct (with_ua_prefix ns) as [s1 H1]. destruct (d_uris d) as [u|].
  - destruct (extend_prefix str str_eq_dec u (with_ua ns) 0) as [s2 H2]. unfold ns_extend. rewrite H2, H1. exists (s1 ++ s2). now rewrite app_assoc.
  - cbn. eauto.
Qed.
Lemma file_ns_NoDup ns d : NoDup ns -> NoDup (fst (file_ns ns d)).
Proof.
  intros H. unfold file_ns. destruct (d_uris d) as [u|]; [|now apply with_ua_NoDup].
  apply (extend_NoDup str str_eq_dec). now apply with_ua_NoDup.
Qed.
Lemma file_ns_ua ns d : In UA_URI (fst (file_ns ns d)).
Proof.
  destruct (d_uris d) as [u|] eqn:Eu; unfold file_ns; rewrite Eu.
  - destruct (extend_prefix str str_eq_dec u (with_ua ns) 0) as [s Hs]. unfold ns_extend. rewrite Hs. apply in_or_app. left. apply with_ua_In.
  - apply with_ua_In.
Qed.
(* every URI a document lists gets an index in the table, and the document's local index k+1 is mapped to it *)
Theorem file_ns_index ns d u k uri : d_uris d = Some u -> nth_error u k = Some uri ->
  exists j, In (S k, j) (snd (file_ns ns d)) /\ nth_error (fst (file_ns ns d)) j = Some uri.
Proof.
  intros Hu Hk. unfold file_ns. rewrite Hu. destruct (extend_index str str_eq_dec u (with_ua ns) 0 k uri Hk) as [j [H1 H2]]. exists j. auto.
Qed.
Theorem file_ns_keys ns d k j : In (k, j) (snd (file_ns ns d)) -> exists u, d_uris d = Some u /\ 0 < k <= length u.
Proof.
  unfold file_ns. destruct (d_uris d) as [u|]; [|intros []]. intros H. exists u. split; [reflexivity|].
  apply (extend_keys str str_eq_dec) in H. lia.
Qed.

(* over a sequence of files: the list only grows, stays duplicate free, always contains the OPC UA namespace *)
Lemma parse_seq_ns E : forall docs ns ns' fos, parse_seq E ns docs = Ok (ns', fos) ->
  (exists s, ns' = ns ++ s) /\ (NoDup ns -> NoDup ns') /\ (docs <> [] -> In UA_URI ns') /\ length fos = length docs.
Proof.
  induction docs as [|d r IH]; intros ns ns' fos H; cbn in H.
  - inversion H; subst. repeat split; auto; [exists []; now rewrite app_nil_r | congruence].
  - destruct (parse_file E ns d) as [[ns1 fo]|] eqn:Ef; [|discriminate]. cbn in H.
    destruct (parse_seq E ns1 r) as [[ns2 fos2]|] eqn:Es; [|discriminate]. cbn in H. inversion H; subst.
    pose proof (parse_file_ns _ _ _ _ _ Ef) as ->. destruct (IH _ _ _ Es) as [[s2 H2] [Hn [Hua Hlen]]].
    destruct (file_ns_prefix ns d) as [s1 H1]. repeat split.
    + exists (s1 ++ s2). now rewrite H2, H1, app_assoc.
    + intros Hnd. apply Hn. now apply file_ns_NoDup.
    + intros _. rewrite H2. apply in_or_app. left. apply file_ns_ua.
    + cbn. now rewrite Hlen.
Qed.
(* later files never move an index that an earlier file was given *)
Lemma nth_error_prefix {A} (l s : list A) j x : nth_error l j = Some x -> nth_error (l ++ s) j = Some x.
Proof. intros H. rewrite nth_error_app1; [exact H|]. apply nth_error_Some. congruence. Qed.

Theorem C03_caller_prefix E caller docs p : parse_files E caller docs = Ok p -> exists s, p_namespaces p = caller ++ s.
Proof.
  unfold parse_files. destruct (match caller with [] => docs | _ => filter (keep_file caller) docs end); [discriminate|].
  destruct (parse_seq E caller _) as [[ns fos]|] eqn:Es; [|discriminate]. cbn [rbind]. intros H. inversion H; subst. cbn.
  now destruct (parse_seq_ns _ _ _ _ _ Es) as [Hp _].
Qed.
Theorem C03_no_duplicates E caller docs p : NoDup caller -> parse_files E caller docs = Ok p -> NoDup (p_namespaces p).
Proof.
  intros Hnd. unfold parse_files. destruct (match caller with [] => docs | _ => filter (keep_file caller) docs end); [discriminate|].
  destruct (parse_seq E caller _) as [[ns fos]|] eqn:Es; [|discriminate]. cbn [rbind]. intros H. inversion H; subst. cbn.
  destruct (parse_seq_ns _ _ _ _ _ Es) as [_ [Hn _]]. now apply Hn.
Qed.
Lemma sort_docs_nonempty l : l <> [] -> sort_docs l <> [].
Proof.
  destruct l as [|d l]; [congruence|]. intros _. unfold sort_docs. cbn [fold_right]. destruct (fold_right insert_doc [] l); cbn; [discriminate|].
  destruct (str_leb (d_name d) (d_name d0)); discriminate.
Qed.
Theorem C03_index_zero E docs p : parse_files E [] docs = Ok p -> exists s, p_namespaces p = UA_URI :: s.
Proof.
  unfold parse_files. destruct docs as [|d0 ds]; [discriminate|].
  destruct (sort_docs (d0 :: ds)) as [|d r] eqn:Esd; [exfalso; now apply (sort_docs_nonempty (d0 :: ds))|].
  cbn [parse_seq]. destruct (parse_file E [] d) as [[ns1 fo]|] eqn:Ef; [|discriminate]. cbn [rbind].
  destruct (parse_seq E ns1 r) as [[ns2 fos]|] eqn:Es; [|discriminate]. cbn [rbind]. intros H. inversion H; subst. cbn.
  pose proof (parse_file_ns _ _ _ _ _ Ef) as ->. destruct (parse_seq_ns _ _ _ _ _ Es) as [[s2 H2] _]. rewrite H2.
  assert (exists s1, fst (file_ns [] d) = UA_URI :: s1) as [s1 ->].
  { unfold file_ns. assert (Hw : with_ua [] = [UA_URI]) by reflexivity. rewrite Hw. destruct (d_uris d) as [u|]; [|cbn; eauto].
    destruct (extend_prefix str str_eq_dec u [UA_URI] 0) as [s Hs]. unfold ns_extend. rewrite Hs. cbn. eauto. }
  cbn. eauto.
Qed.
Theorem C03_index_zero_caller E caller0 docs p : parse_files E (UA_URI :: caller0) docs = Ok p -> exists s, p_namespaces p = UA_URI :: s.
Proof. intros H. destruct (C03_caller_prefix _ _ _ _ H) as [s Hs]. rewrite Hs. cbn. eauto. Qed.

(* an identifier written "ns=k+1;..." in a file whose k-th URI is uri receives an index j, and in the table returned for
   the whole file set (later files only append) position j holds uri *)
Theorem C03_identifier_index ns d u k uri later : d_uris d = Some u -> nth_error u k = Some uri ->
  exists j, zlookup (Z.of_nat (S k)) (zmap_of (snd (file_ns ns d))) = Some (Z.of_nat j) /\
            nth_error (fst (file_ns ns d) ++ later) j = Some uri.
Proof.
  intros Hu Hk. destruct (file_ns_index ns d u k uri Hu Hk) as [j [Hin Hn]].
  (* the map assigns each local index once, so the look-up finds exactly this entry *)
  assert (Hfun : forall m : list (nat * nat), (forall a b1 b2, In (a, b1) m -> In (a, b2) m -> b1 = b2) -> In (S k, j) m ->
                 zlookup (Z.of_nat (S k)) (map (fun p => (Z.of_nat (fst p), Z.of_nat (snd p))) m) = Some (Z.of_nat j)).
  { induction m as [|[a b] m IHm]; intros Hf Hi; [contradiction|]. cbn [map zlookup fst snd].
    destruct (Z.eqb_spec (Z.of_nat a) (Z.of_nat (S k))) as [E|E].
    - apply Nat2Z.inj in E. subst a. f_equal. f_equal. apply (Hf (S k)); [now left|exact Hi].
    - destruct Hi as [Hi|Hi]; [inversion Hi; subst; congruence|]. apply IHm; [|exact Hi]. intros a' b1 b2 H1 H2. apply (Hf a'); now right. }
  exists j. split; [|now apply nth_error_prefix].
  unfold zmap_of. cbn [zlookup]. destruct (Z.eqb_spec 0 (Z.of_nat (S k))) as [E|_]; [lia|]. apply Hfun; [|exact Hin].
  (* functionality of the map produced by extend *)
  unfold file_ns. rewrite Hu. unfold ns_extend. generalize (with_ua ns) 0. clear. induction u as [|x r IH]; intros ex i a b1 b2 H1 H2; [contradiction|].
  cbn [extend] in *. destruct (extend str str_eq_dec (add str str_eq_dec ex x) r (S i)) as [ex2 m] eqn:E. cbn [snd] in *.
  assert (K : forall b, In (a, b) m -> S i < a) by (intros b Hb; pose proof (extend_keys str str_eq_dec r (add str str_eq_dec ex x) (S i) a b) as HK; rewrite E in HK; specialize (HK Hb); lia).
  destruct H1 as [H1|H1], H2 as [H2|H2].
  - congruence.
  - inversion H1; subst. apply K in H2. lia.
  - inversion H2; subst. apply K in H1. lia.
  - specialize (IH (add str str_eq_dec ex x) (S i) a b1 b2). rewrite E in IH. now apply IH.
Qed.

(* ================= C04: integer-id normalisation ================= *)
Theorem C04_lookup_injective p : NoDup (lookup_table p).
Proof. apply uniques_NoDup. Qed.
Lemma id_of_member p n : In n (all_ids p) -> exists j, id_of (lookup_table p) n = Some j /\ nth_error (lookup_table p) j = Some n.
Proof. intros H. apply index_of_Some. now apply uniques_In. Qed.
Theorem C04_one_id_per_nodeid p x y j : id_of (lookup_table p) x = Some j -> id_of (lookup_table p) y = Some j -> x = y.
Proof. apply index_of_inj. Qed.
Lemma in_all_ids_node p r : In r (p_nodes p) -> In (nr_nodeid r) (all_ids p).
Proof. intros H. unfold all_ids. apply in_or_app. left. now apply in_map. Qed.
Lemma in_all_ids_attr p r k n : In r (p_nodes p) -> ref_attr k r = Some n ->
  (k = lit "ParentNodeId" \/ k = lit "DataType" \/ k = lit "MethodDeclarationId") -> In n (all_ids p).
Proof.
  intros Hr Ha Hk. unfold all_ids. rewrite !in_app_iff.
  assert (G : In n (flat_map (fun r => opt_list (ref_attr k r)) (p_nodes p))).
  { apply in_flat_map. exists r. split; [exact Hr|]. rewrite Ha. now left. }
  destruct Hk as [-> | [-> | ->]]; auto.
Qed.
(* every node row gets an id whose lookup entry is the row's NodeId *)
Theorem C04_node_ids p r : In r (p_nodes p) ->
  exists j, nn_id (normalize_node (lookup_table p) r) = Some j /\ nth_error (lookup_table p) j = Some (nr_nodeid r).
Proof. intros H. cbn [normalize_node nn_id]. apply id_of_member. now apply in_all_ids_node. Qed.
(* the node-reference columns: a present attribute denormalises to the NodeId the document named, an absent one stays missing *)
Theorem C04_attribute_ids p r : In r (p_nodes p) ->
  let n := normalize_node (lookup_table p) r in
  (forall x, ref_attr (lit "ParentNodeId") r = Some x -> exists j, nn_parent n = Some j /\ nth_error (lookup_table p) j = Some x) /\
  (forall x, ref_attr (lit "DataType") r = Some x -> exists j, nn_datatype n = Some j /\ nth_error (lookup_table p) j = Some x) /\
  (forall x, ref_attr (lit "MethodDeclarationId") r = Some x -> exists j, nn_methoddecl n = Some j /\ nth_error (lookup_table p) j = Some x) /\
  (ref_attr (lit "ParentNodeId") r = None -> nn_parent n = None) /\
  (ref_attr (lit "DataType") r = None -> nn_datatype n = None) /\
  (ref_attr (lit "MethodDeclarationId") r = None -> nn_methoddecl n = None).
Proof.
  intros Hr. cbn zeta. cbn [normalize_node nn_parent nn_datatype nn_methoddecl]. repeat split; intros x; try (intros Hx; rewrite Hx; cbn [obind]);
  try (apply id_of_member; eapply in_all_ids_attr; eauto; tauto); try reflexivity.
  all: rewrite x; reflexivity.
Qed.
Theorem C04_reference_ids p t : In t (p_refs p) ->
  normalize_ref (lookup_table p) t = (id_of (lookup_table p) (fst (fst t)), id_of (lookup_table p) (snd (fst t)), id_of (lookup_table p) (snd t)) /\
  (exists j, id_of (lookup_table p) (fst (fst t)) = Some j /\ nth_error (lookup_table p) j = Some (fst (fst t))) /\
  (exists j, id_of (lookup_table p) (snd (fst t)) = Some j /\ nth_error (lookup_table p) j = Some (snd (fst t))) /\
  (exists j, id_of (lookup_table p) (snd t) = Some j /\ nth_error (lookup_table p) j = Some (snd t)).
Proof.
  intros H. split; [reflexivity|]. repeat split; apply id_of_member; unfold all_ids; rewrite !in_app_iff.
  - right; right; right; right; left. exact (in_map (fun t0 : triple => fst (fst t0)) _ _ H).
  - right; right; right; right; right; left. exact (in_map (fun t0 : triple => snd (fst t0)) _ _ H).
  - right; right; right; right; right; right. exact (in_map (fun t0 : triple => snd t0) _ _ H).
Qed.
(* when the node elements have pairwise distinct NodeIds, the id of a node row is its row position *)
Theorem C04_ids_are_row_positions p : NoDup (map nr_nodeid (p_nodes p)) -> exists s, lookup_table p = map nr_nodeid (p_nodes p) ++ s.
Proof. intros H. unfold lookup_table, all_ids. now apply uniques_prefix. Qed.

(* ================= C02: the references table ================= *)
Theorem C02_no_duplicates E caller docs p : parse_files E caller docs = Ok p -> NoDup (p_refs p).
Proof.
  unfold parse_files. destruct (match caller with [] => docs | _ => filter (keep_file caller) docs end); [discriminate|].
  destruct (parse_seq E caller _) as [[ns fos]|]; [|discriminate]. cbn [rbind]. intros H. inversion H; subst. cbn. apply uniques_NoDup.
Qed.
(* orientation: a Reference on node src with text trg is src->trg unless IsForward is exactly "false" *)
Theorem C02_orientation src nsmap amap r t : parse_ref src nsmap amap r = Ok t ->
  exists text tytext trg ty, re_text r = Some text /\ lookup_attr (lit "ReferenceType") (re_attrs r) = Some tytext /\
    parse_nodeid (rstrip text) nsmap amap = Ok trg /\ parse_nodeid tytext nsmap amap = Ok ty /\
    t = (if is_forward (re_attrs r) then (src, trg, ty) else (trg, src, ty)).
Proof.
  unfold parse_ref, parse_id. destruct (re_text r) as [text|]; [|discriminate].
  destruct (parse_nodeid (rstrip text) nsmap amap) as [trg|] eqn:E1; [|discriminate]. cbn [rbind].
  destruct (lookup_attr (lit "ReferenceType") (re_attrs r)) as [tytext|]; [|discriminate].
  destruct (parse_nodeid tytext nsmap amap) as [ty|] eqn:E2; [|discriminate]. cbn [rbind]. intros H. inversion H; subst.
  exists text, tytext, trg, ty. auto.
Qed.
(* the triples of a file are exactly those its Reference elements declare: none lost, none invented *)
Lemma parse_node_refs E nsmap amap cols e row refs : parse_node E nsmap amap cols e = Ok (row, refs) ->
  exists nid, lookup_attr (lit "NodeId") (ne_attrs e) = Some nid /\ parse_nodeid nid nsmap amap = Ok (nr_nodeid row) /\
  Forall2 (fun r t => parse_ref (nr_nodeid row) nsmap amap r = Ok t) (ne_refs e) refs.
Proof.
  unfold parse_node, parse_id. destruct (lookup_attr (lit "NodeId") (ne_attrs e)) as [nid|]; [|discriminate].
  destruct (parse_nodeid nid nsmap amap) as [nodeid|] eqn:En; [|discriminate]. cbn [rbind].
  destruct (rsequence (map _ NODE_REF_ATTRS)) as [refattrs|]; [|discriminate]. cbn [rbind].
  destruct (rsequence (map (parse_ref nodeid nsmap amap) (ne_refs e))) as [rs|] eqn:Er; [|discriminate]. cbn [rbind].
  destruct (dec_value_elem E (ne_value e)) as [value|]; [|discriminate]. cbn [rbind].
  destruct (lookup_attr (lit "BrowseName") (ne_attrs e)) as [bn|]; [|discriminate].
  destruct (split_browsename bn nsmap) as [nb|]; [|discriminate]. cbn [rbind].
  destruct (rsequence (map _ (ne_attrs e))) as [others|]; [|discriminate]. cbn [rbind]. intros H. inversion H; subst. cbn [nr_nodeid].
  exists nid. split; [reflexivity|split; [exact En|]]. now apply rsequence_Forall2.
Qed.
Theorem C02_file_exact E ns d ns1 fo : parse_file E ns d = Ok (ns1, fo) ->
  let nsmap := zmap_of (snd (file_ns ns d)) in
  exists amap, (match d_aliases d with Some l => build_aliases l nsmap | None => Ok [] end) = Ok amap /\
  NoDup (fo_refs fo) /\
  forall t, In t (fo_refs fo) <->
    exists e r nid src, In e (d_nodes d) /\ In r (ne_refs e) /\ lookup_attr (lit "NodeId") (ne_attrs e) = Some nid /\
      parse_nodeid nid nsmap amap = Ok src /\ parse_ref src nsmap amap r = Ok t.
Proof.
  unfold parse_file, file_ns. fold (with_ua ns).
  destruct (match d_aliases d with Some l => preprocess_aliases l | None => Ok tt end); [|discriminate]. cbn [rbind].
  destruct (match d_uris d with Some u => ns_extend (with_ua ns) u | None => (with_ua ns, []) end) as [n1 m]. cbn [snd].
  destruct (match d_aliases d with Some l => build_aliases l (zmap_of m) | None => Ok [] end) as [amap|]; [|discriminate]. cbn [rbind].
  destruct (d_nodes d) as [|e0 es] eqn:Ed; [discriminate|].
  destruct (rsequence _) as [rows|] eqn:Er; [|discriminate]. cbn [rbind]. intros H. inversion H; subst. cbn [fo_refs].
  apply rsequence_Forall2 in Er. exists amap. split; [reflexivity|]. split; [apply uniques_NoDup|].
  intros t. rewrite uniques_In, in_flat_map. split.
  - intros [[row refs] [Hin Ht]]. cbn in Ht. destruct (Forall2_In_r _ _ _ _ Er Hin) as [e [He Hp]].
    destruct (parse_node_refs _ _ _ _ _ _ _ Hp) as [nid [Hn [Hs Hf]]]. destruct (Forall2_In_r _ _ _ _ Hf Ht) as [r [Hr Hpr]].
    exists e, r, nid, (nr_nodeid row). repeat split; eauto.
  - intros [e [r [nid [src [He [Hr [Hn [Hs Hpr]]]]]]]].
    destruct (Forall2_In_l _ _ _ _ Er He) as [[row refs] [Hin Hp]].
    exists (row, refs). split; [exact Hin|]. cbn.
    destruct (parse_node_refs _ _ _ _ _ _ _ Hp) as [nid' [Hn' [Hs' Hf]]].
    assert (nid' = nid) by congruence. subst nid'. assert (nr_nodeid row = src) by congruence. subst src.
    destruct (Forall2_In_l _ _ _ _ Hf Hr) as [t' [Ht' Hpr']]. congruence.
Qed.
(* over the whole file set: exactly the triples of the parsed files, each once *)
Theorem C02_all_files E caller docs p : parse_files E caller docs = Ok p ->
  exists ns fos, parse_seq E caller (sort_docs (match caller with [] => docs | _ => filter (keep_file caller) docs end)) = Ok (ns, fos) /\
  NoDup (p_refs p) /\ forall t, In t (p_refs p) <-> exists fo, In fo fos /\ In t (fo_refs fo).
Proof.
  unfold parse_files. destruct (match caller with [] => docs | _ => filter (keep_file caller) docs end) as [|d0 ds]; [discriminate|].
  destruct (parse_seq E caller _) as [[ns fos]|]; [|discriminate]. cbn [rbind]. intros H. inversion H; subst. cbn [p_refs].
  exists ns, fos. split; [reflexivity|]. split; [apply uniques_NoDup|]. intros t. rewrite uniques_In, in_flat_map. reflexivity.
Qed.

(* ================= C01: one faithful row per node element ================= *)
Definition row_matches (E : ext) (nsmap : list (Z * Z)) (amap : list (str * nodeid)) (e : node_elem) (r : node_row) : Prop :=
  nr_cls r = ne_cls e /\
  (exists nid, lookup_attr (lit "NodeId") (ne_attrs e) = Some nid /\ parse_nodeid nid nsmap amap = Ok (nr_nodeid r)) /\
  (exists bn, lookup_attr (lit "BrowseName") (ne_attrs e) = Some bn /\ split_browsename bn nsmap = Ok (nr_bname r, nr_bns r)) /\
  nr_display r = first_text (ne_display e) /\ nr_desc r = first_text (ne_desc e) /\
  dec_value_elem E (ne_value e) = Ok (nr_value r) /\ nr_ns r = nid_ns (nr_nodeid r).
Lemma parse_node_matches E nsmap amap cols e row refs : parse_node E nsmap amap cols e = Ok (row, refs) -> row_matches E nsmap amap e row.
Proof.
  unfold parse_node, parse_id, row_matches. destruct (lookup_attr (lit "NodeId") (ne_attrs e)) as [nid|]; [|discriminate].
  destruct (parse_nodeid nid nsmap amap) as [nodeid|] eqn:En; [|discriminate]. cbn [rbind].
  destruct (rsequence (map _ NODE_REF_ATTRS)) as [refattrs|]; [|discriminate]. cbn [rbind].
  destruct (rsequence (map (parse_ref nodeid nsmap amap) (ne_refs e))) as [rs|]; [|discriminate]. cbn [rbind].
  destruct (dec_value_elem E (ne_value e)) as [value|] eqn:Ev; [|discriminate]. cbn [rbind].
  destruct (lookup_attr (lit "BrowseName") (ne_attrs e)) as [bn|]; [|discriminate].
  destruct (split_browsename bn nsmap) as [nb|] eqn:Eb; [|discriminate]. cbn [rbind].
  destruct (rsequence (map _ (ne_attrs e))) as [others|]; [|discriminate]. cbn [rbind]. intros H. inversion H; subst. cbn.
  repeat split; eauto. exists bn. split; [reflexivity|]. now destruct nb.
Qed.
(* exactly one row per node element of the file, in document order, each matching its element *)
Theorem C01_file_rows E ns d ns1 fo : parse_file E ns d = Ok (ns1, fo) ->
  exists amap, Forall2 (row_matches E (zmap_of (snd (file_ns ns d))) amap) (d_nodes d) (fo_nodes fo).
Proof.
  unfold parse_file, file_ns. fold (with_ua ns).
  destruct (match d_aliases d with Some l => preprocess_aliases l | None => Ok tt end); [|discriminate]. cbn [rbind].
  destruct (match d_uris d with Some u => ns_extend (with_ua ns) u | None => (with_ua ns, []) end) as [n1 m]. cbn [snd].
  destruct (match d_aliases d with Some l => build_aliases l (zmap_of m) | None => Ok [] end) as [amap|]; [|discriminate]. cbn [rbind].
  destruct (d_nodes d) as [|e0 es] eqn:Ed; [discriminate|].
  destruct (rsequence _) as [rows|] eqn:Er; [|discriminate]. cbn [rbind]. intros H. inversion H; subst. cbn [fo_nodes].
  apply rsequence_Forall2 in Er. exists amap. clear -Er. induction Er as [|e [row refs] es1 rows1 He _ IH]; cbn [map]; constructor; [|exact IH].
  eapply parse_node_matches; eauto.
Qed.
Theorem C01_row_count E caller docs p : parse_files E caller docs = Ok p ->
  exists ns fos, parse_seq E caller (sort_docs (match caller with [] => docs | _ => filter (keep_file caller) docs end)) = Ok (ns, fos) /\
  p_nodes p = flat_map fo_nodes fos.
Proof.
  unfold parse_files. destruct (match caller with [] => docs | _ => filter (keep_file caller) docs end) as [|d0 ds]; [discriminate|].
  destruct (parse_seq E caller _) as [[ns fos]|]; [|discriminate]. cbn [rbind]. intros H. inversion H; subst. eauto.
Qed.
(* the text of DisplayName/Description: first child, trailing whitespace removed, empty when absent *)
Theorem C01_first_text_spec : forall t, first_text (Some (Some t)) = rstrip t /\ first_text None = [] /\ first_text (Some None) = [].
Proof. intros t. repeat split. Qed.
(* faithful to the code (known findings): only the second ':'-component of a browse name survives; Int8 columns wrap *)
Theorem C01_browsename_second_colon_refuted :
  split_browsename (lit "1:Var:colon") [(0%Z, 0%Z); (1%Z, 1%Z)] = Ok (lit "Var", Some 1%Z).
Proof. reflexivity. Qed.
(* the integer attributes: every value of the schema's type is reported as itself *)
Definition int_attr_range (k : str) (z : Z) : bool :=
  if str_eqb k (lit "ValueRank") then (- 2 ^ 31 <=? z)%Z && (z <? 2 ^ 31)%Z
  else if str_eqb k (lit "AccessLevel") then (0 <=? z)%Z && (z <? 2 ^ 32)%Z
  else if str_eqb k (lit "EventNotifier") then (0 <=? z)%Z && (z <? 2 ^ 8)%Z
  else false.
Theorem C01_int_attr_faithful k z nsmap amap : int_attr_range k z = true -> cast_attr k (decZ z) nsmap amap = Ok (AInt z).
Proof.
  unfold int_attr_range, cast_attr, int_attr_cast. intros H.
  destruct (str_eqb k (lit "ValueRank")) eqn:E1.
  { apply str_eqb_eq in E1. subst k. cbn [mem_str NODE_REF_ATTRS map]. change (mem_str (lit "ValueRank") _) with false. cbv iota.
    rewrite py_int_decZ. f_equal. f_equal. unfold wrap_int. apply andb_true_iff in H as [H1 H2]. apply Z.leb_le in H1. apply Z.ltb_lt in H2.
    change (2 ^ 32 / 2)%Z with (2 ^ 31)%Z.
    destruct (Z_lt_le_dec z 0) as [Hn|Hp].
    - assert (E : (z mod 2 ^ 32 = z + 2 ^ 32)%Z) by (symmetry; apply (Z.mod_unique_pos _ _ (-1)); lia).
      rewrite E. destruct (Z.ltb_spec (z + 2 ^ 32) (2 ^ 31)); lia.
    - rewrite Z.mod_small by lia. destruct (Z.ltb_spec z (2 ^ 31)); lia. }
  destruct (str_eqb k (lit "AccessLevel")) eqn:E2.
  { apply str_eqb_eq in E2. subst k. change (mem_str (lit "AccessLevel") _) with false. cbv iota.
    rewrite py_int_decZ. f_equal. f_equal. unfold wrap_uint. apply andb_true_iff in H as [H1 H2]. apply Z.leb_le in H1. apply Z.ltb_lt in H2.
    apply Z.mod_small. lia. }
  destruct (str_eqb k (lit "EventNotifier")) eqn:E3; [|discriminate].
  apply str_eqb_eq in E3. subst k. change (mem_str (lit "EventNotifier") _) with false. cbv iota.
  rewrite py_int_decZ. f_equal. f_equal. unfold wrap_uint. apply andb_true_iff in H as [H1 H2]. apply Z.leb_le in H1. apply Z.ltb_lt in H2.
  apply Z.mod_small. lia.
Qed.
Example C01_int_attr_example : cast_attr (lit "AccessLevel") (lit "255") [] [] = Ok (AInt 255%Z) /\ cast_attr (lit "EventNotifier") (lit "128") [] [] = Ok (AInt 128%Z).
Proof. split; reflexivity. Qed.
(* faithful to the code (known finding): MinimumSamplingInterval is a Duration in the schema and an Int32 column in the table *)
Theorem C01_sampling_interval_wrap_refuted : cast_attr (lit "MinimumSamplingInterval") (lit "3000000000") [] [] = Ok (AInt (-1294967296)%Z).
Proof. reflexivity. Qed.
