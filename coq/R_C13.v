From Coq Require Import String Ascii List Bool Arith.
Require Import PyStr PyInt Sexp M_C12 M_C13.
Import ListNotations.
Definition run_c13 (cmd : str) (args : list sexp) : option sexp :=
  if str_eqb cmd (lit "c13_relatives") then
    match args with
    | [e; d; c; k; s] =>
        obind (d_rel e) (fun e => obind (d_bool d) (fun d => obind (d_opt d_nat c) (fun c => obind (d_bool k) (fun k =>
        omap (fun s => e_res (e_list (e_path_row k)) (find_relatives e d c s)) (d_list d_nat s)))))
    | _ => None end
  else if str_eqb cmd (lit "c13_paths") then
    match args with
    | [n; e; r] => obind (d_list (d_pair d_nat d_str) n) (fun n => obind (d_rel e) (fun e =>
        omap (fun r => e_res (e_list (e_pair e_nat e_str)) (node_paths n e r)) (d_nat r)))
    | _ => None end
  else None.
