(* Model of the event loop of nodeset_parser.iterparse_xml: lxml's iterparse delivers start/end events for the UANodeSet element, the node elements,
   NamespaceUris, Uri, Model, RequiredModel and Alias; the loop collects the node elements and hands them to process_elem_batch every `batchsize`
   counted events.  Definitions only. *)
From Coq Require Import List Bool Arith.
Require Import PyStr Sexp M_Parse.
Import ListNotations.

Inductive ekind := KNodeSet | KUri | KNsUris | KModel | KReqModel | KAlias | KNode.
Record event (A : Type) := { ev_end : bool; ev_kind : ekind; ev_elem : A }.
Arguments ev_end {A}. Arguments ev_kind {A}. Arguments ev_elem {A}. Arguments Build_event {A}.

(* what one event does before the batch test: Skip = `continue` (neither counted nor followed by the test), otherwise whether the element is
   appended and the new value of foundnses.  The elif chain of the code, in its order. *)
Inductive action := Skip | Go (append : bool) (found : bool).
Definition classify {A} (found : bool) (e : event A) : action :=
  match ev_kind e with
  | KNodeSet => Go false found
  | KUri => if negb found && ev_end e then Go false found else Go (ev_end e) found
  | KNsUris => if negb found && ev_end e then Go false true else Go (ev_end e) found
  | KModel => Skip
  | KReqModel => if ev_end e then Go false found else Skip
  | KAlias => Go false found
  | KNode => Go (ev_end e) found
  end.

Record lstate (A : Type) := { ls_elems : list A; ls_batches : list (list A); ls_i : nat; ls_found : bool }.
Arguments ls_elems {A}. Arguments ls_batches {A}. Arguments ls_i {A}. Arguments ls_found {A}. Arguments Build_lstate {A}.
Definition lstep {A} (bs : nat) (s : lstate A) (e : event A) : lstate A :=
  match classify (ls_found s) e with
  | Skip => s
  | Go app found =>
      let elems := if app then ls_elems s ++ [ev_elem e] else ls_elems s in
      if Nat.eqb (Nat.modulo (ls_i s) bs) 0
      then {| ls_elems := []; ls_batches := ls_batches s ++ [elems]; ls_i := S (ls_i s); ls_found := found |}
      else {| ls_elems := elems; ls_batches := ls_batches s; ls_i := S (ls_i s); ls_found := found |}
  end.
Definition linit {A} : lstate A := {| ls_elems := []; ls_batches := []; ls_i := 1; ls_found := false |}.
(* the batches handed to process_elem_batch, in order (the last one only when something is left) *)
Definition batches_of {A} (bs : nat) (evs : list (event A)) : list (list A) :=
  let s := fold_left (lstep bs) evs linit in
  match ls_elems s with [] => ls_batches s | l => ls_batches s ++ [l] end.

(* the elements the loop collects, independent of any batching *)
Fixpoint collect {A} (found : bool) (evs : list (event A)) : list A :=
  match evs with
  | [] => []
  | e :: r => match classify found e with
              | Skip => collect found r
              | Go app f => (if app then [ev_elem e] else []) ++ collect f r
              end
  end.

(* the events lxml delivers for a document of the shape the parser model reads (header children in schema order) *)
Definition ev {A} (is_end : bool) (k : ekind) (x : A) : event A := {| ev_end := is_end; ev_kind := k; ev_elem := x |}.
Definition pair_ev {A} (k : ekind) (x : A) : list (event A) := [ev false k x; ev true k x].
Definition events_of_doc (d : doc) : list (event (option node_elem)) :=
  [ev false KNodeSet None]
  ++ match d_uris d with
     | Some us => [ev false KNsUris None] ++ flat_map (fun _ => pair_ev KUri None) us ++ [ev true KNsUris None]
     | None => [] end
  ++ match d_models d with
     | Some ms => flat_map (fun m => [ev false KModel None] ++ flat_map (fun _ => pair_ev KReqModel None) (me_required m) ++ [ev true KModel None]) ms
     | None => [] end
  ++ match d_aliases d with Some al => flat_map (fun _ => pair_ev KAlias None) al | None => [] end
  ++ flat_map (fun n => pair_ev KNode (Some n)) (d_nodes d)
  ++ [ev true KNodeSet None].
