(* C09 - NodeId text is parsed and printed inversely, for every identifier.
   Statements only; every proof is `exact` of a lemma from T_C09. *)
From Coq Require Import String Ascii List Bool ZArith.
Require Import PyStr PyInt Sexp M_C09 T_C09.
Import ListNotations.
Open Scope char_scope.

(* print then parse gives back the same NodeId, for every namespace index (any integer), every
   identifier type and EVERY identifier string that UANodeId's constructor accepts *)
Theorem C09_roundtrip : forall n, valid n = true -> parse_nodeid (print_nodeid n) [] [] = Ok n.
Proof. exact roundtrip. Qed.
(* with a namespace map the namespace index is the mapped one; an unmapped index is an error *)
Theorem C09_map : forall n m j, valid n = true -> m <> [] -> zlookup (nid_ns n) m = Some j ->
  parse_nodeid (print_nodeid n) m [] = Ok (with_ns n j).
Proof. exact roundtrip_map. Qed.
Theorem C09_map_missing : forall n m, m <> [] -> zlookup (nid_ns n) m = None ->
  parse_nodeid (print_nodeid n) m [] = Err EKey.
Proof. exact map_missing. Qed.
(* an alias name yields the aliased NodeId; other text is parsed as if there were no alias table *)
Theorem C09_alias : forall s m amap n, alookup s amap = Some n -> parse_nodeid s m amap = Ok n.
Proof. exact alias_hit. Qed.
Theorem C09_alias_miss : forall s m amap, alookup s amap = None -> parse_nodeid s m amap = parse_nodeid s m [].
Proof. exact alias_miss. Qed.
(* never misread: whatever is accepted has the grammar's form and denotes exactly what it says *)
Theorem C09_sound : forall s n, parse_nodeid s [] [] = Ok n ->
  valid n = true /\
  ((nid_ns n = 0%Z /\ s = type_char (nid_type n) :: "=" :: nid_value n) \/
   (exists num, s = lit "ns=" ++ num ++ ";" :: type_char (nid_type n) :: "=" :: nid_value n
                /\ py_int num = Some (nid_ns n) /\ has ";" num = false)).
Proof. exact sound. Qed.
Theorem C09_reject_no_eq : forall s, has "=" s = false -> exists e, parse_nodeid s [] [] = Err e.
Proof. exact reject_no_eq. Qed.
(* the branch test the code used before the repair (`"ns" in text`) violated both directions *)
Theorem C09_old_roundtrip_refuted : exists n, valid n = true /\ parse_nodeid_old (print_nodeid n) [] [] <> Ok n.
Proof. exact old_roundtrip_refuted. Qed.
Theorem C09_old_sound_refuted : exists n m, valid n = true /\ parse_nodeid_old (print_nodeid n) [] [] = Ok m /\ m <> n.
Proof. exact old_sound_refuted. Qed.

Print Assumptions C09_roundtrip.
Print Assumptions C09_map.
Print Assumptions C09_map_missing.
Print Assumptions C09_alias.
Print Assumptions C09_alias_miss.
Print Assumptions C09_sound.
Print Assumptions C09_reject_no_eq.
Print Assumptions C09_old_roundtrip_refuted.
Print Assumptions C09_old_sound_refuted.
