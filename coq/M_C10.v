(* Model of the json_encode methods of ua_data_types, a JSON syntax tree with its printer, and the OPC UA JSON shape
   each value is supposed to have.  Definitions only. *)
From Coq Require Import String Ascii List Bool NArith ZArith.
Require Import PyStr PyInt Sexp Xml M_C09 M_C08.
Import ListNotations.
Open Scope char_scope.

(* ---------- JSON ---------- *)
Inductive jv := JNull | JBool (b : bool) | JNum (literal : str) | JStr (s : str) | JArr (l : list jv) | JObj (l : list (str * jv)).
(* json.dumps(s, ensure_ascii=False) on the UTF-8 bytes of s: quote, backslash and control characters are escaped *)
Definition hex_digit (n : N) : ascii := if (n <? 10)%N then ascii_of_N (48 + n) else ascii_of_N (87 + n).
Definition jesc_char (c : ascii) : str :=
  let n := N_of_ascii c in
  if Ascii.eqb c """" then ["\"; """"] else if Ascii.eqb c "\" then ["\"; "\"]
  else if (n =? 10)%N then ["\"; "n"] else if (n =? 13)%N then ["\"; "r"] else if (n =? 9)%N then ["\"; "t"]
  else if (n =? 8)%N then ["\"; "b"] else if (n =? 12)%N then ["\"; "f"]
  else if (n <? 32)%N then ["\"; "u"; "0"; "0"; hex_digit (n / 16); hex_digit (n mod 16)]
  else [c].
Definition jescape (s : str) : str := flat_map jesc_char s.
Definition jstring (s : str) : str := """" :: jescape s ++ [""""].
(* reading a JSON string body back (the escapes the printer can produce) *)
Definition hex_val (c : ascii) : option N :=
  let n := N_of_ascii c in
  if ((48 <=? n) && (n <=? 57))%N then Some (n - 48)%N else if ((97 <=? n) && (n <=? 102))%N then Some (n - 87)%N else None.
Fixpoint junescape (s : str) : option str :=
  match s with
  | [] => Some []
  | c :: r =>
      if Ascii.eqb c "\" then
        match r with
        | """" :: r' => omap (cons """") (junescape r')
        | "\" :: r' => omap (cons "\") (junescape r')
        | "n" :: r' => omap (cons "010") (junescape r')
        | "r" :: r' => omap (cons "013") (junescape r')
        | "t" :: r' => omap (cons "009") (junescape r')
        | "b" :: r' => omap (cons "008") (junescape r')
        | "f" :: r' => omap (cons "012") (junescape r')
        | "u" :: "0" :: "0" :: h :: l :: r' =>
            match hex_val h, hex_val l with
            | Some a, Some b => omap (cons (ascii_of_N (a * 16 + b))) (junescape r')
            | _, _ => None end
        | _ => None
        end
      else if Ascii.eqb c """" then None
      else if (N_of_ascii c <? 32)%N then None
      else omap (cons c) (junescape r)
  end.
Definition comma : str := [","].
Fixpoint jprint (j : jv) : str :=
  match j with
  | JNull => lit "null"
  | JBool true => lit "true" | JBool false => lit "false"
  | JNum l => l
  | JStr s => jstring s
  | JArr l => "[" :: join comma (map jprint l) ++ ["]"]
  | JObj l => "{" :: join comma (map (fun kv => jstring (fst kv) ++ ":" :: jprint (snd kv)) l) ++ ["}"]
  end.

(* ---------- values that only the JSON encoders know ---------- *)
Inductive jval :=
| JV (v : uav)
| JVariant (v : option uav) (tnum : Z)          (* UAVariant(value, type) *)
| JQName (ns : Z) (name : str).                 (* UAQualifiedName *)

Definition is64 (k : ikind) : bool := match k with KInt64 | KUInt64 => true | _ => false end.
(* VariantType[typename].value *)
Definition variant_number (tn : str) : option Z :=
  let names := map lit ["Null"; "Boolean"; "SByte"; "Byte"; "Int16"; "UInt16"; "Int32"; "UInt32"; "Int64"; "UInt64"; "Float"; "Double"; "String";
                        "DateTime"; "Guid"; "ByteString"; "XmlElement"; "NodeId"; "ExpandedNodeId"; "StatusCode"; "QualifiedName"; "LocalizedText";
                        "ExtensionObject"; "DataValue"; "Variant"; "DiagnosticInfo"]%string in
  (fix go (l : list str) (i : Z) : option Z := match l with [] => None | n :: r => if str_eqb n tn then Some i else go r (i + 1)%Z end) names 0%Z.
Definition idtype_number (t : idtype) : Z := match t with Numeric => 0 | String_ => 1 | Guid => 2 | Opaque => 3 end%Z.

(* UANodeId.json_encode: the identifier of a non-numeric id is spliced between quotes as it is *)
Definition json_nodeid (n : nodeid) : str :=
  "{" :: (if (nid_ns n =? 0)%Z then [] else lit """Namespace"":" ++ decZ (nid_ns n) ++ comma)
  ++ (if (idtype_number (nid_type n) =? 0)%Z then [] else lit """IdType"":" ++ decZ (idtype_number (nid_type n)) ++ comma)
  ++ (match nid_type n with Numeric => lit """Id"":" ++ nid_value n | _ => lit """Id"":""" ++ nid_value n ++ [""""] end) ++ ["}"].
Definition json_loctext (text locale : option str) : str :=
  "{" :: lit """Text"":" ++ jstring (ostr text)
  ++ (match locale with Some l => lit ",""Locale"":" ++ jstring l | None => [] end) ++ ["}"].
Definition json_float (r : option str) : option str :=
  match r with
  | None => None
  | Some r => if str_eqb r (lit "inf") then Some (lit """Infinity""") else if str_eqb r (lit "-inf") then Some (lit """-Infinity""")
              else if str_eqb r (lit "nan") then Some (lit """NaN""") else Some r
  end.
(* str(element.value) inside UAListOf.json_encode *)
Definition list_item_text (v : uav) : res str :=
  match v with
  | VInt _ (Some z) | VEnum (Some z) _ _ => Ok (decZ z)
  | VInt _ None | VEnum None _ _ | VBool None | VFloat _ None | VString None | VGuid None | VByteString None => Ok (lit "<NA>")
  | VBool (Some true) => Ok (lit "True") | VBool (Some false) => Ok (lit "False")
  | VFloat _ (Some r) => Ok r
  | VString (Some s) | VGuid (Some s) | VXmlRaw s => Ok s
  | VNodeId n => Ok (nid_value n)
  | VLocText _ _ | VEUInfo _ _ _ _ _ _ | VRange _ _ | VExtObj _ _ => Err EOther       (* no .value: AttributeError, then UnboundLocalError *)
  | _ => Err EUnsupported
  end.

Definition i2f (E : ext) (z : Z) : res str :=
  match ext_lookup E (lit "i2f:" ++ decZ z) with Some (Some r) => Ok r | Some None => Err EOther | None => Err EUnsupported end.

(* json_encode: Ok None is Python's None *)
Fixpoint json_encode (E : ext) (v : uav) : res (option str) :=
  match v with
  | VBool b => Ok (match b with Some true => Some (lit "true") | Some false => Some (lit "false") | None => None end)
  | VInt _ None | VEnum None _ _ => Ok None
  | VInt k (Some z) => if is64 k then rmap (fun r => Some ("""" :: r ++ [""""])) (i2f E z) else Ok (Some (decZ z))
  | VEnum (Some z) _ _ => Ok (Some (decZ z))
  | VFloat _ f => Ok (json_float f)
  | VString s | VGuid s => Ok (omap jstring s)
  | VDateTime d => if dt_in_range d then Ok (Some ("""" :: iso_utc d ++ [""""])) else Err EOther
  | VByteString b => Ok (omap (fun b => jstring (b64enc b)) b)
  | VXmlRaw r => Ok (Some (jstring r))
  | VNodeId n => Ok (Some (json_nodeid n))
  | VLocText t l => Ok (Some (json_loctext t l))
  | VEUInfo uri unit t1 l1 t2 l2 =>
      Ok (Some (lit "{""TypeId"":{""Id"":888},""Body"":{""DisplayName"":" ++ json_loctext t1 l1 ++ lit ",""Description"":" ++ json_loctext t2 l2
                ++ lit ",""UnitId"":" ++ decZ unit ++ lit ",""NamespaceUri"":" ++ jstring uri ++ lit "}}"))
  | VRange lo hi =>
      Ok (Some (lit "{""TypeId"":{""Id"":885},""Body"":{""Low"":" ++ ostr (json_float (Some lo)) ++ lit ",""High"":" ++ ostr (json_float (Some hi)) ++ lit "}}"))
  | VExtObj tid body =>
      rbind (json_encode E body) (fun bj =>
      match bj with
      | None => Ok (Some (lit "null"))
      | Some bj =>
          Ok (Some (lit "{""TypeId"":" ++ json_nodeid tid ++ lit ",""Body"":" ++ bj
                    ++ (match body with VByteString _ => lit ",""Encoding"":1" | VXmlRaw _ | VXmlTree _ => lit ",""Encoding"":2" | _ => [] end) ++ ["}"]))
      end)
  | VList tn items =>
      rbind (rsequence (map list_item_text items)) (fun texts =>
      match variant_number tn with
      | Some n => Ok (Some (lit "{""Type"":" ++ decZ n ++ lit ",""Body"":[" ++ join comma texts ++ lit "]}"))
      | None => Err EKey
      end)
  | VXmlTree _ | VNone => Err EUnsupported
  end.
Definition json_encode_j (E : ext) (j : jval) : res (option str) :=
  match j with
  | JV v => json_encode E v
  | JQName ns name =>
      Ok (Some (lit "{""Name"":""" ++ name ++ [""""] ++ (if (ns =? 0)%Z then [] else lit ",""Uri"":" ++ decZ ns) ++ ["}"]))
  | JVariant None _ => Ok (Some (lit "null"))
  | JVariant (Some v) tnum =>
      if (tnum =? 0)%Z then Ok (Some (lit "null"))
      else rbind (json_encode E v) (fun b =>
           match b with
           | None => Ok (Some (lit "null"))
           | Some b => Ok (Some (lit "{""Type"":" ++ decZ tnum ++ lit ",""Body"":" ++ b ++ ["}"]))
           end)
  end.

(* ---------- the OPC UA JSON shape of a value (the specification side) ---------- *)
Definition shape_float (r : str) : jv :=
  if str_eqb r (lit "inf") then JStr (lit "Infinity") else if str_eqb r (lit "-inf") then JStr (lit "-Infinity")
  else if str_eqb r (lit "nan") then JStr (lit "NaN") else JNum r.
Definition shape_nodeid (n : nodeid) : jv :=
  JObj ((if (nid_ns n =? 0)%Z then [] else [(lit "Namespace", JNum (decZ (nid_ns n)))])
        ++ (if (idtype_number (nid_type n) =? 0)%Z then [] else [(lit "IdType", JNum (decZ (idtype_number (nid_type n))))])
        ++ [(lit "Id", match nid_type n with Numeric => JNum (nid_value n) | _ => JStr (nid_value n) end)]).
Definition shape_loctext (text locale : option str) : jv :=
  JObj ((lit "Text", JStr (ostr text)) :: match locale with Some l => [(lit "Locale", JStr l)] | None => [] end).
(* None: the value is null (json_encode returns None) *)
Definition shape (v : uav) : option jv :=
  match v with
  | VBool (Some b) => Some (JBool b)
  | VInt k (Some z) => if is64 k then None else Some (JNum (decZ z))
  | VEnum (Some z) _ _ => Some (JNum (decZ z))
  | VFloat _ (Some r) => Some (shape_float r)
  | VString (Some s) | VGuid (Some s) | VXmlRaw s => Some (JStr s)
  | VDateTime d => Some (JStr (iso_utc d))
  | VByteString (Some b) => Some (JStr (b64enc b))
  | VNodeId n => Some (shape_nodeid n)
  | VLocText t l => Some (shape_loctext t l)
  | VEUInfo uri unit t1 l1 t2 l2 =>
      Some (JObj [(lit "TypeId", JObj [(lit "Id", JNum (lit "888"))]);
                  (lit "Body", JObj [(lit "DisplayName", shape_loctext t1 l1); (lit "Description", shape_loctext t2 l2);
                                     (lit "UnitId", JNum (decZ unit)); (lit "NamespaceUri", JStr uri)])])
  | VRange lo hi =>
      Some (JObj [(lit "TypeId", JObj [(lit "Id", JNum (lit "885"))]); (lit "Body", JObj [(lit "Low", shape_float lo); (lit "High", shape_float hi)])])
  | _ => None
  end.
(* identifiers and names that can be spliced between quotes unchanged *)
Definition json_safe (s : str) : bool := str_eqb (jescape s) s.

(* wire format *)
Definition e_jv_none : sexp := Lst [].
