(* Proofs about interleaved parse calls (C20). *)
From Coq Require Import String List Arith Bool Lia PeanoNat.
Require Import PyStr Sexp M_C19 T_C19.
Import ListNotations.

Section DistinctFiles.
Variable ts0 : pool.
Variable f0 : fs.
Variable hdr : nat -> nat.                              (* the header of call i's input file *)
Hypothesis distinct : forall i j, path (ts0 i) = path (ts0 j) -> i = j.
Hypothesis started : forall i, at_ (ts0 i) = PExists.
Hypothesis clean : forall i, sides f0 (path (ts0 i)) = None.
Hypothesis present : forall i, inputs f0 (path (ts0 i)) = Some (hdr i).

Definition Inv (f : fs) (ts : pool) : Prop :=
  inputs f = inputs f0 /\ (forall i, path (ts i) = path (ts0 i)) /\ (forall i, inv1 (hdr i) f (ts i)).

Lemma inv1_frame h f f' t : sides f' (path t) = sides f (path t) -> inv1 h f t -> inv1 h f' t.
Proof. unfold inv1. intros ->. auto. Qed.

Lemma step_Inv f ts i : Inv f ts -> Inv (fst (tstep f (ts i))) (pupd ts i (snd (tstep f (ts i)))).
Proof.
  intros [Hi [Hp Hv]]. split; [|split].
  - now rewrite tstep_inputs.
  - intros j. unfold pupd. destruct (Nat.eqb_spec j i) as [->|Hne]; [|apply Hp].
    destruct (tstep_meta f (ts i)) as [-> _]. apply Hp.
  - intros j. unfold pupd. destruct (Nat.eqb_spec j i) as [->|Hne].
    + apply tstep_inv1; [|apply Hv]. rewrite Hi, Hp. apply present.
    + eapply inv1_frame; [|apply Hv]. apply tstep_frame. rewrite !Hp. intros Heq. now apply distinct in Heq.
Qed.
Lemma run_Inv sched : forall f ts, Inv f ts -> Inv (fst (run_sched sched f ts)) (snd (run_sched sched f ts)).
Proof.
  induction sched as [|i r IH]; intros f ts H; [exact H|].
  cbn [run_sched]. apply IH. now apply step_Inv.
Qed.
(* under EVERY schedule, a call that has finished returned the result of a lone call, none failed,
   and it left no side file *)
Theorem distinct_files_no_interference sched i r :
  at_ (snd (run_sched sched f0 ts0) i) = PDone r ->
  r = Good (hdr i) /\ sides (fst (run_sched sched f0 ts0)) (path (ts0 i)) = None.
Proof.
  intros Hdone.
  assert (I0 : Inv f0 ts0).
  { split; [reflexivity|split; [reflexivity|]]. intros j. unfold inv1. rewrite started. apply clean. }
  destruct (run_Inv sched f0 ts0 I0) as [_ [Hp Hv]]. specialize (Hv i). unfold inv1 in Hv. rewrite Hdone in Hv.
  rewrite Hp in Hv. exact Hv.
Qed.
(* the same for block schedules (a scheduled call runs to its next operation on the shared directory) *)
Lemma until_yield_props h fuel : forall f t, inputs f (path t) = Some h -> inv1 h f t ->
  inv1 h (fst (until_yield fuel f t)) (snd (until_yield fuel f t)) /\ inputs (fst (until_yield fuel f t)) = inputs f /\
  path (snd (until_yield fuel f t)) = path t /\ (forall q, q <> path t -> sides (fst (until_yield fuel f t)) q = sides f q).
Proof.
  induction fuel as [|fuel IH]; intros f t Hin Hv; [cbn; auto|].
  cbn [until_yield]. destruct (at_yield t); [cbn; auto|].
  pose proof (tstep_inputs f t) as Hi. pose proof (tstep_meta f t) as [Hp _].
  destruct (IH (fst (tstep f t)) (snd (tstep f t))) as [A [B [C D]]]; [now rewrite Hi, Hp | now apply tstep_inv1 |].
  split; [exact A|split; [congruence|split; [congruence|]]].
  intros q Hq. rewrite D by congruence. now apply tstep_frame.
Qed.
Lemma block_Inv f ts i : Inv f ts -> Inv (fst (block f (ts i))) (pupd ts i (snd (block f (ts i)))).
Proof.
  intros [Hi [Hp Hv]]. unfold block.
  pose proof (tstep_inputs f (ts i)) as Hi1. pose proof (tstep_meta f (ts i)) as [Hp1 Hn1].
  assert (Hin : inputs (fst (tstep f (ts i))) (path (snd (tstep f (ts i)))) = Some (hdr i)) by (rewrite Hi1, Hp1, Hi, Hp; apply present).
  assert (Hin0 : inputs f (path (ts i)) = Some (hdr i)) by (rewrite Hi, Hp; apply present).
  destruct (until_yield_props (hdr i) (fuel_for (nlines (ts i))) _ _ Hin (tstep_inv1 _ _ _ Hin0 (Hv i))) as [A [B [C D]]].
  split; [congruence|split].
  - intros j. unfold pupd. destruct (Nat.eqb_spec j i) as [->|Hne]; [|apply Hp]. rewrite C, Hp1. apply Hp.
  - intros j. unfold pupd. destruct (Nat.eqb_spec j i) as [->|Hne]; [exact A|].
    eapply inv1_frame; [|apply Hv].
    assert (Hq : path (ts j) <> path (ts i)) by (rewrite !Hp; intros Heq; now apply distinct in Heq).
    rewrite D by (rewrite Hp1; exact Hq). now apply tstep_frame.
Qed.
Lemma run_blocks_Inv sched : forall f ts, Inv f ts -> Inv (fst (run_blocks sched f ts)) (snd (run_blocks sched f ts)).
Proof.
  induction sched as [|i r IH]; intros f ts H; [exact H|].
  cbn [run_blocks]. apply IH. now apply block_Inv.
Qed.
Theorem distinct_files_no_interference_blocks sched i r :
  at_ (snd (run_blocks sched f0 ts0) i) = PDone r ->
  r = Good (hdr i) /\ sides (fst (run_blocks sched f0 ts0)) (path (ts0 i)) = None.
Proof.
  intros Hdone.
  assert (I0 : Inv f0 ts0).
  { split; [reflexivity|split; [reflexivity|]]. intros j. unfold inv1. rewrite started. apply clean. }
  destruct (run_blocks_Inv sched f0 ts0 I0) as [_ [Hp Hv]]. specialize (Hv i). unfold inv1 in Hv. rewrite Hdone in Hv.
  rewrite Hp in Hv. exact Hv.
Qed.
(* ... and that result is the one the lone call computes *)
Theorem solo_result i : snd (parse_call None true f0 (path (ts0 i)) (nlines (ts0 i))) = Good (hdr i).
Proof. apply clean_call_reads_current; [apply clean|apply present]. Qed.
End DistinctFiles.

(* the shared NodeId cache (functools.cache on cached_parse_nodeid): a memo table of a pure function that only
   grows; whatever the other calls inserted, a look-up returns the function's value *)
Section Cache.
Variable K V : Type.
Variable keq : K -> K -> bool.
Hypothesis keq_eq : forall a b, keq a b = true <-> a = b.
Variable fn : K -> V.
Fixpoint clookup (c : list (K * V)) (k : K) : option V :=
  match c with [] => None | (a, v) :: r => if keq a k then Some v else clookup r k end.
Definition cached (c : list (K * V)) (k : K) : list (K * V) * V :=
  match clookup c k with Some v => (c, v) | None => ((k, fn k) :: c, fn k) end.
Definition cache_ok (c : list (K * V)) : Prop := forall k v, clookup c k = Some v -> v = fn k.
Lemma cached_value c k : cache_ok c -> snd (cached c k) = fn k.
Proof. intros H. unfold cached. destruct (clookup c k) eqn:E; cbn; [now apply H|reflexivity]. Qed.
Lemma cached_ok c k : cache_ok c -> cache_ok (fst (cached c k)).
Proof.
  intros H. unfold cached. destruct (clookup c k) eqn:E; cbn [fst]; [exact H|].
  intros k' v. cbn. destruct (keq k k') eqn:Ek; [|apply H]. apply keq_eq in Ek. subst. now intros [= <-].
Qed.
(* any sequence of look-ups by any calls, in any order: every answer is the function's value *)
Fixpoint answers (c : list (K * V)) (ks : list K) : list V :=
  match ks with [] => [] | k :: r => snd (cached c k) :: answers (fst (cached c k)) r end.
Theorem cache_answers ks : forall c, cache_ok c -> answers c ks = map fn ks.
Proof.
  induction ks as [|k r IH]; intros c H; [reflexivity|]. cbn [answers map].
  rewrite cached_value by exact H. f_equal. apply IH. now apply cached_ok.
Qed.
End Cache.

(* two calls on the SAME file: refuted for the current protocol by concrete schedules *)
Definition two_same : pool := fun _ => start 0 2.
Theorem same_file_failure : exists sched i, at_ (snd (run_sched sched fs0 two_same) i) = PDone Failed.
Proof.
  (* 0 creates and completes the side file; 1 sees it exists; 0 reads and removes it; 1 fails to open it *)
  exists [0;0;0;0;0;0;0;0; 1;1;1; 0;0;0;0;0;0;0;0; 1;1;1;1]%nat, 1%nat. vm_compute. reflexivity.
Qed.
Theorem same_file_garbage : exists sched i, at_ (snd (run_sched sched fs0 two_same) i) = PDone Garbage.
Proof.
  (* 0 has only started writing when 1 checks, opens and reads the partial side file *)
  exists [0;0;0;0;0;0; 1;1;1;1;1;1;1;1;1;1;1;1;1;1]%nat, 1%nat. vm_compute. reflexivity.
Qed.
(* non-vacuity of the positive theorem: two calls on two files, interleaved step by step, both finish *)
Definition fs2 : fs := {| inputs := fun q => if Nat.eqb q 0 then Some 7 else if Nat.eqb q 1 then Some 8 else None; sides := fun _ => None |}.
Definition two_distinct : pool := fun i => start (if Nat.eqb i 0 then 0 else 1)%nat 1.
Example nv_distinct :
  let s := flat_map (fun _ => [0; 1]%nat) (seq 0 16) in
  at_ (snd (run_sched s fs2 two_distinct) 0) = PDone (Good 7) /\ at_ (snd (run_sched s fs2 two_distinct) 1) = PDone (Good 8).
Proof. vm_compute. auto. Qed.
