(* UAGraph._get_namespace_list: the caller's index -> URI table as the list handed to the parser *)
From Coq Require Import String Ascii List Bool Arith NArith ZArith Lia Permutation.
Require Import PyStr PyInt Sexp Xml M_C09 M_C08 Ns Table M_Parse T_Parse.
Import ListNotations.

Definition dict_max (d : list (nat * str)) : nat := fold_right Nat.max 0 (map fst d).
Definition dict_get (i : nat) (d : list (nat * str)) : str :=
  match find (fun p => Nat.eqb (fst p) i) d with Some p => snd p | None => lit "None" end.

Lemma ns_list_length : forall fuel i d, length (ns_list_of_dict fuel i d) = fuel.
Proof. induction fuel as [|f IH]; intros i d; cbn [ns_list_of_dict length]; [reflexivity | now rewrite IH]. Qed.

Lemma ns_list_nth : forall fuel i d k, k < fuel -> nth_error (ns_list_of_dict fuel i d) k = Some (dict_get (i + k) d).
Proof.
  induction fuel as [|f IH]; intros i d k Hk; [lia|].
  cbn [ns_list_of_dict]. destruct k as [|k]; cbn [nth_error].
  - rewrite Nat.add_0_r. reflexivity.
  - rewrite IH by lia. f_equal. f_equal. lia.
Qed.

Lemma dict_max_ge : forall d k u, In (k, u) d -> k <= dict_max d.
Proof.
  unfold dict_max. induction d as [|[k0 u0] d IH]; intros k u Hin; [destruct Hin|].
  cbn [map fst fold_right]. destruct Hin as [E|Hin].
  - inversion E; subst. lia.
  - specialize (IH _ _ Hin). lia.
Qed.

Lemma dict_get_in : forall d k u, NoDup (map fst d) -> In (k, u) d -> dict_get k d = u.
Proof.
  unfold dict_get. induction d as [|[k0 u0] d IH]; intros k u Hnd Hin; [destruct Hin|].
  cbn [find fst]. inversion Hnd as [|? ? Hnot Hnd']; subst.
  destruct (Nat.eqb k0 k) eqn:E.
  - apply Nat.eqb_eq in E; subst k0. destruct Hin as [E'|Hin]; [inversion E'; reflexivity|].
    exfalso. apply Hnot. change k with (fst (k, u)). now apply in_map.
  - destruct Hin as [E'|Hin]; [inversion E'; subst; rewrite Nat.eqb_refl in E; discriminate|].
    now apply IH.
Qed.

Lemma dict_get_absent : forall d k, ~ In k (map fst d) -> dict_get k d = lit "None".
Proof.
  unfold dict_get. intros d k Hn. destruct (find _ d) as [p|] eqn:F; [|reflexivity].
  apply find_some in F. destruct F as [Hin E]. apply Nat.eqb_eq in E. exfalso. apply Hn. rewrite <- E. now apply in_map.
Qed.

(* length: one entry per index up to the largest key *)
Theorem dict_list_length : forall d, length (namespace_list_of_dict d) = S (dict_max d).
Proof. intros d. unfold namespace_list_of_dict. apply ns_list_length. Qed.

(* every entry of the table stands at its own index *)
Theorem dict_list_entry : forall d k u, NoDup (map fst d) -> In (k, u) d -> nth_error (namespace_list_of_dict d) k = Some u.
Proof.
  intros d k u Hnd Hin. unfold namespace_list_of_dict. rewrite ns_list_nth.
  - cbn [Nat.add]. f_equal. now apply dict_get_in.
  - pose proof (dict_max_ge _ _ _ Hin). unfold dict_max in *. lia.
Qed.

(* an index below the largest key that the table does not assign holds the place holder "None" *)
Theorem dict_list_gap : forall d k, k <= dict_max d -> ~ In k (map fst d) -> nth_error (namespace_list_of_dict d) k = Some (lit "None").
Proof.
  intros d k Hk Hn. unfold namespace_list_of_dict. rewrite ns_list_nth by (unfold dict_max in Hk; lia).
  cbn [Nat.add]. f_equal. now apply dict_get_absent.
Qed.

Lemma dict_max_perm : forall d d', Permutation d d' -> dict_max d = dict_max d'.
Proof.
  unfold dict_max. induction 1 as [|x l l' _ IH|x y l|l l' l'' _ IH1 _ IH2]; cbn [map fold_right]; try lia; congruence.
Qed.

(* the list does not depend on the order in which the table's entries were inserted *)
Theorem dict_list_order_irrelevant : forall d d', NoDup (map fst d) -> Permutation d d' ->
  namespace_list_of_dict d = namespace_list_of_dict d'.
Proof.
  intros d d' Hnd Hp.
  assert (Hnd' : NoDup (map fst d')) by (eapply Permutation_NoDup; [apply Permutation_map; exact Hp | exact Hnd]).
  assert (Hget : forall k, dict_get k d = dict_get k d').
  { intros k. destruct (in_dec Nat.eq_dec k (map fst d)) as [Hin|Hn].
    - apply in_map_iff in Hin. destruct Hin as [[k0 u] [E Hin]]. cbn in E; subst k0.
      rewrite (dict_get_in d k u Hnd Hin). symmetry. apply dict_get_in; [exact Hnd'|]. eapply Permutation_in; eauto.
    - rewrite (dict_get_absent d k Hn). symmetry. apply dict_get_absent. intro H. apply Hn.
      eapply Permutation_in; [apply Permutation_sym, Permutation_map; exact Hp | exact H]. }
  unfold namespace_list_of_dict. pose proof (dict_max_perm _ _ Hp) as Hm. unfold dict_max in Hm. rewrite <- Hm.
  generalize (S (fold_right Nat.max 0 (map fst d))). intros fuel. generalize 0.
  induction fuel as [|f IH]; intros i; cbn [ns_list_of_dict]; [reflexivity|].
  f_equal; [apply (Hget i) | apply IH].
Qed.

(* composed with the parser: every entry of the caller's table keeps its index in the namespace list of the parse result *)
Theorem dict_entries_kept : forall E d docs p k u, NoDup (map fst d) -> In (k, u) d ->
  parse_files E (namespace_list_of_dict d) docs = Ok p -> nth_error (p_namespaces p) k = Some u.
Proof.
  intros E d docs p k u Hnd Hin Hp.
  destruct (C03_caller_prefix _ _ _ _ Hp) as [s Hs]. rewrite Hs.
  rewrite nth_error_app1.
  - now apply dict_list_entry.
  - rewrite dict_list_length. pose proof (dict_max_ge _ _ _ Hin). lia.
Qed.

Example dict_list_example :
  namespace_list_of_dict [(2, lit "urn:b"); (0, lit "http://opcfoundation.org/UA/"); (4, lit "urn:d")]
  = [lit "http://opcfoundation.org/UA/"; lit "None"; lit "urn:b"; lit "None"; lit "urn:d"].
Proof. vm_compute. reflexivity. Qed.
