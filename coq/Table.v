From Coq Require Import List Arith Lia Bool.
Import ListNotations.

Section Table.
Variable A : Type.
Variable eq_dec : forall a b : A, {a = b} + {a <> b}.

(* pandas drop_duplicates(keep="first") / factorize()'s uniques: first occurrences, in order *)
Fixpoint dedup_from (seen : list A) (l : list A) : list A :=
  match l with
  | [] => []
  | x :: r => if in_dec eq_dec x seen then dedup_from seen r else x :: dedup_from (x :: seen) r
  end.
Definition uniques (l : list A) : list A := dedup_from [] l.

Lemma dedup_from_In seen l x : In x (dedup_from seen l) <-> In x l /\ ~ In x seen.
Proof.
  revert seen; induction l as [|y r IH]; intros seen; cbn; [tauto|].
  destruct (in_dec eq_dec y seen) as [Hy|Hy].
  - rewrite IH. split; [tauto|]. intros [[->|H] Hn]; [contradiction|tauto].
  - cbn. rewrite IH. cbn. split.
    + intros [->|[H Hn]]; [tauto|]. split; [tauto|]. intros Hs. apply Hn. now right.
    + intros [[->|H] Hn]; [now left|]. destruct (eq_dec y x) as [->|Hne]; [now left|].
      right. split; [exact H|]. intros [E|Hs]; [contradiction|contradiction].
Qed.
Lemma dedup_from_NoDup seen l : NoDup (dedup_from seen l).
Proof.
  revert seen; induction l as [|y r IH]; intros seen; cbn; [constructor|].
  destruct (in_dec eq_dec y seen); [apply IH|]. constructor; [|apply IH].
  rewrite dedup_from_In. cbn. tauto.
Qed.
Theorem uniques_In l x : In x (uniques l) <-> In x l.
Proof. unfold uniques. rewrite dedup_from_In. cbn. tauto. Qed.
Theorem uniques_NoDup l : NoDup (uniques l).
Proof. apply dedup_from_NoDup. Qed.

(* a duplicate-free prefix is kept verbatim: node ids coincide with row positions *)
Lemma dedup_from_NoDup_prefix a : forall seen b, NoDup a -> (forall x, In x a -> ~ In x seen) ->
  dedup_from seen (a ++ b) = a ++ dedup_from (rev a ++ seen) b.
Proof.
  induction a as [|x a IH]; intros seen b Hnd Hs; [reflexivity|].
  inversion Hnd as [|? ? Hx Ha]; subst. cbn [app dedup_from].
  destruct (in_dec eq_dec x seen) as [Hin|_]; [exfalso; eapply Hs; [now left|exact Hin]|].
  f_equal. rewrite IH.
  - cbn [rev]. now rewrite <- app_assoc.
  - exact Ha.
  - intros y Hy [<-|Hys]; [contradiction | eapply Hs; [right; exact Hy|exact Hys]].
Qed.
Theorem uniques_prefix a b : NoDup a -> exists s, uniques (a ++ b) = a ++ s.
Proof. intros H. unfold uniques. rewrite dedup_from_NoDup_prefix by (auto; intros ? _ []). eauto. Qed.

(* factorize codes / Index.get_indexer: position of first occurrence, None (= -1 -> NA) when absent *)
Fixpoint index_of (x : A) (l : list A) : option nat :=
  match l with
  | [] => None
  | y :: r => if eq_dec x y then Some 0 else option_map S (index_of x r)
  end.
Lemma index_of_Some x l : In x l -> exists j, index_of x l = Some j /\ nth_error l j = Some x.
Proof.
  induction l as [|y r IH]; cbn; [contradiction|]. intros H.
  destruct (eq_dec x y) as [->|Hne]; [exists 0; auto|].
  destruct H as [->|H]; [contradiction|]. destruct (IH H) as [j [-> Hj]]. exists (S j). auto.
Qed.
Lemma index_of_None x l : ~ In x l -> index_of x l = None.
Proof.
  induction l as [|y r IH]; cbn; [reflexivity|]. intros H.
  destruct (eq_dec x y) as [->|Hne]; [exfalso; apply H; now left|]. rewrite IH; [reflexivity|tauto].
Qed.
Lemma index_of_inj l x y j : index_of x l = Some j -> index_of y l = Some j -> x = y.
Proof.
  revert j; induction l as [|z r IH]; intros j H1 H2; cbn in *; [discriminate|].
  destruct (eq_dec x z) as [->|Hx]; destruct (eq_dec y z) as [->|Hy]; auto.
  - injection H1 as <-. destruct (index_of y r); cbn in H2; discriminate.
  - injection H2 as <-. destruct (index_of x r); cbn in H1; discriminate.
  - destruct (index_of x r) as [n|] eqn:Ex; destruct (index_of y r) as [m|] eqn:Ey; cbn in *; try discriminate.
    injection H1 as <-. injection H2 as E. apply (IH n); [reflexivity | now rewrite E].
Qed.

(* C04: normalise then denormalise is the identity, column by column; missing stays missing *)
Definition code (lk : list A) (v : option A) : option nat := match v with Some x => index_of x lk | None => None end.
Definition decode (lk : list A) (c : option nat) : option A := match c with Some j => nth_error lk j | None => None end.
Theorem decode_code allids col :
  incl (flat_map (fun v => match v with Some x => [x] | None => [] end) col) allids ->
  map (decode (uniques allids)) (map (code (uniques allids)) col) = col.
Proof.
  intros Hincl. rewrite map_map. rewrite <- (map_id col) at 2. apply map_ext_in. intros [x|] Hin; [|reflexivity].
  cbn. assert (Hx : In x (uniques allids)).
  { apply uniques_In. apply Hincl. apply in_flat_map. exists (Some x). split; [exact Hin|now left]. }
  destruct (index_of_Some x _ Hx) as [j [-> Hj]]. exact Hj.
Qed.
Theorem code_injective allids x y j : code (uniques allids) (Some x) = Some j -> code (uniques allids) (Some y) = Some j -> x = y.
Proof. cbn. apply index_of_inj. Qed.
End Table.
