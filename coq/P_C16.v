(* C16 - value/DataType validation on write rejects exactly the mismatching variables *)
From Coq Require Import String Ascii List Bool Arith ZArith.
Require Import PyStr PyInt Sexp Xml M_C09 M_C08 M_C12 T_C12 M_Graph T_Graph.
Import ListNotations.
Open Scope char_scope.

(* no variable with a value: the write goes ahead *)
Theorem C16_nothing_to_validate : forall nodes dt c,
  written_rows nodes = [] -> validate_values nodes dt c = Ok [].
Proof. exact validate_nothing. Qed.

(* a variable with a value but no DataType: ValidationError *)
Theorem C16_missing_datatype : forall nodes dt,
  written_rows nodes <> [] ->
  (exists n, In n (written_rows nodes) /\ gn_datatype n = None) -> validate_values nodes dt true = Err EValidation.
Proof. exact validate_missing_datatype. Qed.

(* the decision when every written variable has a DataType: reject iff some non-skipped row has a class different from its DataType's name and not all such rows are enumerations; the names are those of all differing rows *)
Theorem C16_decision : forall nodes dt,
  written_rows nodes <> [] ->
  (forall n, In n (written_rows nodes) -> gn_datatype n <> None) ->
  let info := map (row_info dt) (written_rows nodes) in
  let potential := filter (fun i => negb (vskip i)) info in
  validate_values nodes dt true =
    Ok (if forallb vvalid potential then []
        else if existsb (fun i => negb (str_eqb (vi_class i) (lit "UAEnumeration"))) potential then map vi_display (filter (fun i => negb (vvalid i)) info)
        else []).
Proof. exact validate_decision. Qed.

(* list values and variables whose DataType is not a built-in name never cause a rejection on their own *)
Theorem C16_never : forall nodes dt,
  written_rows nodes <> [] -> (forall n, In n (written_rows nodes) -> gn_datatype n <> None) ->
  (forall n, In n (written_rows nodes) -> vskip (row_info dt n) = true) -> validate_values nodes dt true = Ok [].
Proof. exact validate_never. Qed.

(* faithful to the code (known finding): the message also names rows that can never offend *)
Theorem C16_message_over_inclusive_refuted : validate_values w_nodes [(12, lit "String")] true = Ok [lit "A"; lit "B"].
Proof. exact message_over_inclusive_refuted. Qed.

Print Assumptions C16_nothing_to_validate.
Print Assumptions C16_missing_datatype.
Print Assumptions C16_decision.
Print Assumptions C16_never.
Print Assumptions C16_message_over_inclusive_refuted.
