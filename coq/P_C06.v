From Coq Require Import List. Require Import M_Write.
Theorem placeholder_C06 : True. Proof. exact I. Qed.
Print Assumptions placeholder_C06.
