(* C06 - a written NodeSet denotes exactly the requested namespace's part of the graph.
   Full statement: for the document d = write_doc g U inc, read through its own namespace table, the declared nodes are
   exactly g's nodes in U (each once, with attributes and value) and the declared references are exactly g's references with
   an endpoint in U (inc = true) / those minus the dropped ones (inc = false).
   C06_partial: proved below are the reference-filter rule (what inc = false drops, exactly), that nothing is dropped with
   inc = true, and the error for an unknown namespace; the node/reference placement part of the statement is decided by the
   correspondence run (model document = lxml reading of the written text) and by the independent-reader oracle. *)
From Coq Require Import String Ascii List Bool Arith NArith ZArith.
Require Import PyStr PyInt Sexp Xml M_C09 M_C08 Ns Table M_Parse M_Write T_Write.
Import ListNotations.
Open Scope char_scope.

Theorem C06_refs_all : forall p w kz, wp_inc w = true -> use_refs p w kz = Ok (p_refs p).
Proof. exact use_refs_all. Qed.
Theorem C06_refs_filtered : forall p w kz refs, wp_inc w = false -> use_refs p w kz = Ok refs ->
  exists hmr htd, reftype_by_name (lit "HasModellingRule") (p_nodes p) = Ok hmr /\ reftype_by_name (lit "HasTypeDefinition") (p_nodes p) = Ok htd /\
  exists f, refs = filter f (p_refs p) /\
  forall t, f t = false <-> (~ (exists r, In r (p_nodes p) /\ nr_nodeid r = snd (fst t) /\ nid_ns (nr_nodeid r) = kz) /\ snd t <> hmr /\ snd t <> htd).
Proof. exact use_refs_filtered. Qed.
Theorem C06_unknown_namespace : forall p w, str_index (wp_uri w) (p_namespaces p) = None -> write_doc p w = Err EValue.
Proof. exact write_doc_unknown_namespace. Qed.
Theorem C06_header : forall p w d, write_doc p w = Ok d ->
  exists u1 rest, d_uris d = Some (u1 :: rest) /\
  (exists attrs req, d_models d = Some [{| me_attrs := (lit "ModelUri", u1) :: attrs; me_required := req |}]) /\ d_aliases d = Some [].
Proof. exact write_doc_header. Qed.

Print Assumptions C06_refs_all.
Print Assumptions C06_refs_filtered.
Print Assumptions C06_unknown_namespace.
Print Assumptions C06_header.
