(* C06 - a written NodeSet denotes exactly the requested namespace's part of the graph.
   Full statement: for the document d = write_doc g U inc, read through its own namespace table, the declared nodes are
   exactly g's nodes in U (each once, with attributes and value) and the declared references are exactly g's references with
   an endpoint in U (inc = true) / those minus the dropped ones (inc = false).
   Proved below: the reference-filter rule (what inc = false drops, exactly; nothing with inc = true); the error for an unknown
   namespace; and, under the regularity conditions `regular` (namespace list without repetition, indices in range, the written
   namespace non-empty and namespace 0 in use - the last two are exactly the negations of the recorded findings
   'empty-namespace' and 'namespace-without-base-use'): C06_written_rows_exact - the rows that become node elements are exactly
   the graph's nodes of namespace U, once each, in table order; C06_node_elements - each carries its node class and the NodeId
   ns=1;<same identifier>; C06_first_uri - index 1 of the document's own table is U (and the Model element names U), so that
   NodeId resolves to (U, identifier).  `regular` has a proved-sound decision procedure which the runner evaluates on every
   generated case.
   C06_reference_elements / C06_references_written_once: under a written node exactly the references that point at it (inverse) and those
   that leave it for a node that is not written (forward); every reference with an endpoint in U is written exactly once, no other is.
   C06_identifier_resolution: whatever index the writer prints for a NodeId of the graph, the document's own NamespaceUris table maps it
   back to the URI that node has in the graph (remap, compaction and the written table compose to the identity on URIs).
   C06_read_written: the reader obtains write_doc's document from the written characters.
   C06_partial: the attribute list of a node element (beyond NodeId) and its Value are decided by the
   correspondence run (model document = lxml reading of the written text) and by the independent-reader oracle. *)
From Coq Require Import String Ascii List Bool Arith NArith ZArith.
Require Import PyStr PyInt Sexp Xml M_C09 M_C08 Ns Table M_Parse M_Write T_Write T_Write2 XmlL M_C08d M_ParseText M_WriteText T_WriteText T_ReadWritten T_C05 T_C05r.
Import ListNotations.
Open Scope char_scope.

Theorem C06_refs_all : forall p w kz, wp_inc w = true -> use_refs p w kz = Ok (p_refs p).
Proof. exact use_refs_all. Qed.
Theorem C06_refs_filtered : forall p w kz refs, wp_inc w = false -> use_refs p w kz = Ok refs ->
  exists hmr htd, reftype_by_name (lit "HasModellingRule") (p_nodes p) = Ok hmr /\ reftype_by_name (lit "HasTypeDefinition") (p_nodes p) = Ok htd /\
  exists f, refs = filter f (p_refs p) /\
  forall t, f t = false <-> (~ (exists r, In r (p_nodes p) /\ nr_nodeid r = snd (fst t) /\ nid_ns (nr_nodeid r) = kz) /\ snd t <> hmr /\ snd t <> htd).
Proof. exact use_refs_filtered. Qed.
Theorem C06_unknown_namespace : forall p w, str_index (wp_uri w) (p_namespaces p) = None -> write_doc p w = Err EValue.
Proof. exact write_doc_unknown_namespace. Qed.
Theorem C06_header : forall p w d, write_doc p w = Ok d ->
  exists u1 rest, d_uris d = Some (u1 :: rest) /\
  (exists attrs req, d_models d = Some [{| me_attrs := (lit "ModelUri", u1) :: attrs; me_required := req |}]) /\ d_aliases d = Some [].
Proof. exact write_doc_header. Qed.

Theorem C06_written_rows_exact : forall p k refs, regular p k refs ->
  map (fun x : wrow => fst (fst x)) (w_written p k (w_in_use p k refs)) = filter (fun r => Z.eqb (nid_ns (nr_nodeid r)) (Z.of_nat k)) (p_nodes p).
Proof. exact written_rows_exact. Qed.
Theorem C06_node_elements : forall p w d k refs,
  str_index (wp_uri w) (p_namespaces p) = Some k -> use_refs p w (Z.of_nat k) = Ok refs -> regular p k refs -> write_doc p w = Ok d ->
  map (fun e => (ne_cls e, hd_error (ne_attrs e))) (d_nodes d)
  = map (fun r => (nr_cls r, Some (lit "NodeId", print_nodeid (with_nid_ns (nr_nodeid r) 1))))
        (filter (fun r => Z.eqb (nid_ns (nr_nodeid r)) (Z.of_nat k)) (p_nodes p)).
Proof. exact T_Write2.C06_node_elements. Qed.
Theorem C06_first_uri : forall p w d k refs,
  str_index (wp_uri w) (p_namespaces p) = Some k -> use_refs p w (Z.of_nat k) = Ok refs -> regular p k refs -> write_doc p w = Ok d ->
  exists rest attrs req, d_uris d = Some (wp_uri w :: rest) /\ d_models d = Some [{| me_attrs := (lit "ModelUri", wp_uri w) :: attrs; me_required := req |}].
Proof. exact T_Write2.C06_first_uri. Qed.
Theorem C06_regular_decidable : forall p k refs, regular_b p k refs = true -> regular p k refs.
Proof. exact regular_b_sound. Qed.

(* placement of the Reference elements: under a written node exactly the references that point at it (written as inverse references) and
   the references that leave it for a node that is not written (forward references); hence every reference with an endpoint in U is
   written exactly once and no other reference is written *)
Theorem C06_reference_elements : forall p k refs, regular p k refs -> forall me,
  In me (map (fun x : wrow => nr_nodeid (fst (fst x))) (w_written p k (w_in_use p k refs))) ->
  w_ref_elems p k (w_in_use p k refs) refs me =
  flat_map (fun t : triple => let '(s, tg, ty) := t in
    if mem_nid tg (map (fun x : wrow => nr_nodeid (fst (fst x))) (w_written p k (w_in_use p k refs)))
    then (if nid_eqb tg me then [{| re_attrs := [(lit "ReferenceType", w_text_of p k (w_in_use p k refs) ty); (lit "IsForward", lit "false")]; re_text := Some (w_text_of p k (w_in_use p k refs) s) |}] else [])
    else if nid_eqb s me then [{| re_attrs := [(lit "ReferenceType", w_text_of p k (w_in_use p k refs) ty)]; re_text := Some (w_text_of p k (w_in_use p k refs) tg) |}] else []) refs.
Proof. exact ref_elems_exact. Qed.
Theorem C06_references_written_once : forall p k refs, regular p k refs ->
  let in_use := w_in_use p k refs in
  let W := map (fun x : wrow => nr_nodeid (fst (fst x))) (w_written p k in_use) in
  NoDup W ->
  length (flat_map (w_ref_elems p k in_use refs) W) = length (filter (fun t : triple => mem_nid (snd (fst t)) W || mem_nid (fst (fst t)) W) refs).
Proof. exact refs_written_once. Qed.

(* what an XML reader followed by the parser's document reader obtains from the written TEXT is exactly the document write_doc describes
   (an empty NamespaceUris block is simply absent): the theorems about write_doc are theorems about what any reader sees *)
Theorem C06_read_written : forall lm p w fname d, classes_ok p = true -> text_clean lm p w = true -> write_doc p w = Ok d ->
  exists s, write_text lm p w = Ok s /\
            read_doc fname s = Ok {| d_name := fname; d_uris := match d_uris d with Some ((_ :: _) as u) => Some u | _ => None end;
                                     d_models := d_models d; d_aliases := d_aliases d; d_nodes := d_nodes d |}.
Proof. exact read_written. Qed.

(* "every identifier resolving through the document's own namespace table to the same (URI, identifier) as in the graph" *)
Theorem C06_identifier_resolution : forall p k refs r m, indices_ok p -> k < length (p_namespaces p) -> In r (p_nodes p) ->
  w_lookup p k (w_in_use p k refs) (nr_nodeid r) = Some m ->
  nid_type m = nid_type (nr_nodeid r) /\ nid_value m = nid_value (nr_nodeid r) /\
  nth (Z.to_nat (nid_ns m)) (map (fun i : Z => nth (Z.to_nat i) (w_newl (p_namespaces p) k) []) (w_in_use p k refs)) []
  = nth (Z.to_nat (nid_ns (nr_nodeid r))) (p_namespaces p) [].
Proof. exact identifier_resolution. Qed.

(* the references, writer composed with parser: the document written for U, parsed in any context whose table starts with the same
   namespace 0, yields exactly the graph's references with an endpoint in U (after the outgoing-reference switch) - none invented
   (sound), none lost (complete) - every source, target and type read back as the same identifier under the same namespace URI.
   Hypotheses: the regularity conditions, well-formed identifiers that do not end in a blank (the parser right-strips reference
   targets), and a graph closed under the references that touch U (what UAGraph's constructor checks, C11). *)
Theorem C06_references_roundtrip_sound : forall E ns p w d k refs ns1 fo,
  str_index (wp_uri w) (p_namespaces p) = Some k -> use_refs p w (Z.of_nat k) = Ok refs -> regular p k refs ->
  write_doc p w = Ok d -> parse_file E ns d = Ok (ns1, fo) ->
  (forall r, In r (p_nodes p) -> valid (nr_nodeid r) = true) ->
  (forall r, In r (p_nodes p) -> rstrip (nid_value (nr_nodeid r)) = nid_value (nr_nodeid r)) ->
  nth_error ns1 0 = Some (nth 0 (p_namespaces p) []) ->
  (forall t, In t refs -> touches p k refs t = true -> is_node p (fst (fst t)) /\ is_node p (snd (fst t)) /\ is_node p (snd t)) ->
  forall t', In t' (fo_refs fo) -> exists t, In t refs /\ touches p k refs t = true /\ same_triple p ns1 t t'.
Proof. exact refs_roundtrip_sound. Qed.
Theorem C06_references_roundtrip_complete : forall E ns p w d k refs ns1 fo,
  str_index (wp_uri w) (p_namespaces p) = Some k -> use_refs p w (Z.of_nat k) = Ok refs -> regular p k refs ->
  write_doc p w = Ok d -> parse_file E ns d = Ok (ns1, fo) ->
  (forall r, In r (p_nodes p) -> valid (nr_nodeid r) = true) ->
  (forall r, In r (p_nodes p) -> rstrip (nid_value (nr_nodeid r)) = nid_value (nr_nodeid r)) ->
  nth_error ns1 0 = Some (nth 0 (p_namespaces p) []) ->
  (forall t, In t refs -> touches p k refs t = true -> is_node p (fst (fst t)) /\ is_node p (snd (fst t)) /\ is_node p (snd t)) ->
  forall t, In t refs -> touches p k refs t = true -> exists t', In t' (fo_refs fo) /\ same_triple p ns1 t t'.
Proof. exact refs_roundtrip_complete. Qed.

Print Assumptions C06_refs_all.
Print Assumptions C06_refs_filtered.
Print Assumptions C06_unknown_namespace.
Print Assumptions C06_header.
Print Assumptions C06_written_rows_exact.
Print Assumptions C06_node_elements.
Print Assumptions C06_first_uri.
Print Assumptions C06_regular_decidable.
Print Assumptions C06_reference_elements.
Print Assumptions C06_references_written_once.
Print Assumptions C06_read_written.
Print Assumptions C06_identifier_resolution.
Print Assumptions C06_references_roundtrip_sound.
Print Assumptions C06_references_roundtrip_complete.
