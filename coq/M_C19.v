(* Model of the side-file protocol of nodeset_parser.iterparse_xml / json_parser.parse.pre_process_xml_to_json:
   one parse call as a state machine over its file-system and decoding operations, with failure injection.
   Shared by C19 (failures) and C20 (interleavings).  Definitions only. *)
From Coq Require Import String List Arith Bool PeanoNat.
Require Import PyStr Sexp.
Import ListNotations.

(* an input file is abstracted by the header (namespace table, models, aliases) its current content has;
   the side file is either being written (k of the header lines so far) or complete *)
Inductive side_content := SPartial (k : nat) (h : nat) | SFull (h : nat).
Record fs := { inputs : nat -> option nat; sides : nat -> option side_content }.
Definition upd {A} (f : nat -> option A) (p : nat) (c : option A) : nat -> option A := fun q => if Nat.eqb q p then c else f q.
Definition set_side (f : fs) (p : nat) (c : option side_content) : fs := {| inputs := inputs f; sides := upd (sides f) p c |}.
Definition set_input (f : fs) (p : nat) (h : option nat) : fs := {| inputs := upd (inputs f) p h; sides := sides f |}.

Inductive outcome := Good (h : nat) | Garbage | Failed.
Inductive pc :=
| PExists                       (* os.path.exists(file)                       parse_xml_files *)
| PIter                         (* ET.iterparse(file, ...) is constructed      iterparse_xml *)
| PIsfile                       (* os.path.isfile(side)                        try: *)
| PXmlParse                     (* ET.parse(file)                              pre_process_xml_to_json *)
| POpenW                        (* open(side, "w") *)
| PWrite (i : nat)              (* parse aliases / json.dumps / f.write of line i; i = nlines: close *)
| POpenR                        (* open(side, "r") *)
| PReadlines (c : side_content) (* f.readlines() *)
| PLoads (i : nat) (c : side_content)   (* json.loads of line i *)
| PFinIsfile (r : outcome)      (* finally: os.path.isfile(side) *)
| PFinRemove (r : outcome)      (*          os.remove(side) *)
| PBody (r : outcome)           (* the element loop: parse_nodeid, parse_value, ... *)
| PDone (r : outcome).
Record thread := { path : nat; nlines : nat; held : nat; at_ : pc }.
Definition goto (t : thread) (p : pc) : thread := {| path := path t; nlines := nlines t; held := held t; at_ := p |}.
Definition result_of (c : side_content) : outcome := match c with SFull h => Good h | SPartial _ _ => Garbage end.

(* one operation of the call, when it does not raise *)
Definition tstep (f : fs) (t : thread) : fs * thread :=
  let p := path t in
  match at_ t with
  | PExists => (f, goto t (match inputs f p with Some _ => PIter | None => PDone Failed end))
  | PIter => (f, goto t PIsfile)
  | PIsfile => (f, goto t (match sides f p with Some _ => POpenR | None => PXmlParse end))
  | PXmlParse => match inputs f p with
                 | Some h => (f, {| path := p; nlines := nlines t; held := h; at_ := POpenW |})
                 | None => (f, goto t (PFinIsfile Failed)) end
  | POpenW => (set_side f p (Some (SPartial 0 (held t))), goto t (PWrite 0))
  | PWrite i =>
      if i <? nlines t
      then ((match sides f p with Some _ => set_side f p (Some (SPartial (S i) (held t))) | None => f end), goto t (PWrite (S i)))
      else ((match sides f p with Some _ => set_side f p (Some (SFull (held t))) | None => f end), goto t POpenR)
  | POpenR => match sides f p with
              | Some c => (f, goto t (PReadlines c))
              | None => (f, goto t (PFinIsfile Failed)) end          (* FileNotFoundError *)
  | PReadlines c => (f, goto t (PLoads 0 c))
  | PLoads i c => if i <? nlines t then (f, goto t (PLoads (S i) c)) else (f, goto t (PFinIsfile (result_of c)))
  | PFinIsfile r => (f, goto t (match sides f p with Some _ => PFinRemove r | None => PBody r end))
  | PFinRemove r => match sides f p with
                    | Some _ => (set_side f p None, goto t (PBody r))
                    | None => (f, goto t (PDone Failed)) end         (* os.remove raises: someone else removed it *)
  | PBody r => (f, goto t (PDone r))
  | PDone _ => (f, t)
  end.

(* the operation about to run raises.  cleanup = true: the code as it is now (try/finally);
   cleanup = false: the code before the repair (no finally) *)
Definition in_try (p : pc) : bool :=
  match p with PIsfile | PXmlParse | POpenW | PWrite _ | POpenR | PReadlines _ | PLoads _ _ => true | _ => false end.
Definition is_fin (p : pc) : bool := match p with PFinIsfile _ | PFinRemove _ => true | _ => false end.
Definition is_done (p : pc) : bool := match p with PDone _ => true | _ => false end.
Definition fault (cleanup : bool) (t : thread) : thread :=
  if in_try (at_ t) && cleanup then goto t (PFinIsfile Failed) else goto t (PDone Failed).

(* run one call to completion; `k` = Some j injects a failure at the j-th operation that the property allows to fail
   (every operation except the two of the finally block) *)
Fixpoint exec (fuel : nat) (k : option nat) (cleanup : bool) (f : fs) (t : thread) : fs * thread :=
  match fuel with
  | O => (f, t)
  | S fuel' =>
      if is_done (at_ t) then (f, t)
      else if is_fin (at_ t) then exec fuel' k cleanup (fst (tstep f t)) (snd (tstep f t))
      else match k with
           | Some O => exec fuel' None cleanup f (fault cleanup t)
           | Some (S j) => exec fuel' (Some j) cleanup (fst (tstep f t)) (snd (tstep f t))
           | None => exec fuel' None cleanup (fst (tstep f t)) (snd (tstep f t))
           end
  end.
Definition start (p n : nat) : thread := {| path := p; nlines := n; held := 0; at_ := PExists |}.
(* enough fuel for any run of a call with n header lines *)
Definition fuel_for (n : nat) : nat := 2 * n + 16.
Definition parse_call (k : option nat) (cleanup : bool) (f : fs) (p n : nat) : fs * outcome :=
  let e := exec (fuel_for n) k cleanup f (start p n) in
  (fst e, match at_ (snd e) with PDone r => r | _ => Failed end).

(* ---- concurrency: any number of calls, any schedule ---- *)
Definition pool := nat -> thread.
Definition pupd (ts : pool) (i : nat) (t : thread) : pool := fun j => if Nat.eqb j i then t else ts j.
Fixpoint run_sched (sched : list nat) (f : fs) (ts : pool) : fs * pool :=
  match sched with
  | [] => (f, ts)
  | i :: r => run_sched r (fst (tstep f (ts i))) (pupd ts i (snd (tstep f (ts i))))
  end.

(* coarser schedules: a scheduled call runs from one yield point (an operation on the shared directory: exists, isfile,
   open for writing, close, open for reading, the two operations of the finally block, the element loop) to the next *)
Definition at_yield (t : thread) : bool :=
  match at_ t with
  | PExists | PIsfile | POpenW | POpenR | PFinIsfile _ | PFinRemove _ | PBody _ | PDone _ => true
  | PWrite i => negb (i <? nlines t)
  | _ => false end.
Fixpoint until_yield (fuel : nat) (f : fs) (t : thread) : fs * thread :=
  match fuel with
  | O => (f, t)
  | S k => if at_yield t then (f, t) else until_yield k (fst (tstep f t)) (snd (tstep f t))
  end.
Definition block (f : fs) (t : thread) : fs * thread := until_yield (fuel_for (nlines t)) (fst (tstep f t)) (snd (tstep f t)).
Fixpoint run_blocks (sched : list nat) (f : fs) (ts : pool) : fs * pool :=
  match sched with
  | [] => (f, ts)
  | i :: r => run_blocks r (fst (block f (ts i))) (pupd ts i (snd (block f (ts i))))
  end.

(* wire format *)
Definition e_outcome (o : outcome) : sexp :=
  match o with Good h => Lst [e_sym "good"%string; e_nat h] | Garbage => Lst [e_sym "garbage"%string] | Failed => Lst [e_sym "failed"%string] end.
Definition e_side (c : option side_content) : sexp :=
  match c with None => Lst [] | Some (SFull h) => Lst [e_sym "full"%string; e_nat h] | Some (SPartial k h) => Lst [e_sym "partial"%string; e_nat k; e_nat h] end.
