(* C01, the attribute columns: whatever XML attributes a node element has, the row reports each of them typed by cast_attr
   (node references through the alias table / namespace map, the integer columns, the two boolean columns, text otherwise); NodeId and
   BrowseName have their own columns; an attribute the element does not have is missing, or false for IsAbstract/Symmetric when the
   file has that column at all. *)
From Coq Require Import String Ascii List Bool Arith NArith ZArith Lia.
Require Import PyStr PyInt Sexp Xml M_C09 M_C08 Ns Table M_Parse T_Parse M_Write.
Import ListNotations.
Open Scope char_scope.

Fixpoint avlookup (k : str) (l : list (str * aval)) : option aval :=
  match l with [] => None | (a, v) :: t => if str_eqb a k then Some v else avlookup k t end.
Lemma node_attr_avlookup k r : node_attr k r = avlookup k (nr_attrs r).
Proof. unfold node_attr. induction (nr_attrs r) as [|[a v] t IH]; [reflexivity|]. cbn. destruct (str_eqb a k); [reflexivity|exact IH]. Qed.
Lemma alookup_app k a b : avlookup k (a ++ b) = match avlookup k a with Some v => Some v | None => avlookup k b end.
Proof. induction a as [|[x v] a IH]; [reflexivity|]. cbn. destruct (str_eqb x k); [reflexivity|exact IH]. Qed.
Lemma str_eqb_sym a b : str_eqb a b = str_eqb b a.
Proof. destruct (str_eqb a b) eqn:E.
  - apply str_eqb_eq in E. subst. symmetry. apply str_eqb_refl.
  - symmetry. apply str_eqb_neq. apply str_eqb_neq in E. congruence. Qed.

Definition own_column (a : str) : bool := str_eqb a (lit "NodeId") || str_eqb a (lit "BrowseName").

Section Attrs.
  Variables (nsmap : list (Z * Z)) (amap : list (str * nodeid)) (attrs : list (str * str)).
  Let f := fun k : str => match lookup_attr k attrs with
                          | Some v => rmap (fun n => [(k, ANode n)]) (parse_id v nsmap amap)
                          | None => Ok [] end.
  Let g0 := fun kv : str * str =>
             if str_eqb (fst kv) (lit "NodeId") || str_eqb (fst kv) (lit "BrowseName") || mem_str (fst kv) NODE_REF_ATTRS then Ok []
             else rmap (fun a => [(fst kv, a)]) (cast_attr (fst kv) (snd kv) nsmap amap).
  Lemma refattrs_lookup a : forall ks out, rsequence (map f ks) = Ok out ->
    avlookup a (concat out) =
    if mem_str a ks then match lookup_attr a attrs with Some v => match parse_id v nsmap amap with Ok n => Some (ANode n) | Err _ => None end | None => None end else None.
  Proof.
    induction ks as [|k ks IH]; intros out H.
    - cbn in H. injection H as <-. reflexivity.
    - cbn [map rsequence] in H. destruct (f k) as [x|] eqn:Ef; [|discriminate]. cbn [rbind] in H.
      destruct (rsequence (map f ks)) as [o|] eqn:Er; [|discriminate]. cbn [rmap] in H. injection H as <-.
      cbn [concat]. rewrite alookup_app. specialize (IH o eq_refl). cbn [mem_str existsb]. fold (mem_str a ks).
      unfold f in Ef. destruct (str_eqb a k) eqn:Eak.
      + apply str_eqb_eq in Eak. subst k. cbn [orb]. destruct (lookup_attr a attrs) as [v|].
        * destruct (parse_id v nsmap amap) as [n|]; [|discriminate]. cbn [rmap] in Ef. injection Ef as <-. cbn [avlookup]. now rewrite str_eqb_refl.
        * injection Ef as <-. cbn [avlookup]. rewrite IH. destruct (mem_str a ks); reflexivity.
      + cbn [orb]. assert (avlookup a x = None) as ->; [|exact IH].
        destruct (lookup_attr k attrs) as [v|]; [|injection Ef as <-; reflexivity].
        destruct (parse_id v nsmap amap); [|discriminate]. cbn [rmap] in Ef. injection Ef as <-. cbn [avlookup]. rewrite str_eqb_sym, Eak. reflexivity.
  Qed.
  Lemma refattrs_ok a v : forall ks out, rsequence (map f ks) = Ok out -> mem_str a ks = true -> lookup_attr a attrs = Some v ->
    exists n, parse_id v nsmap amap = Ok n.
  Proof.
    induction ks as [|k ks IH]; intros out H Hm Hl; [discriminate|].
    cbn [map rsequence] in H. destruct (f k) as [x|] eqn:Ef; [|discriminate]. cbn [rbind] in H.
    destruct (rsequence (map f ks)) as [o|] eqn:Er; [|discriminate]. cbn [mem_str existsb] in Hm. apply orb_true_iff in Hm as [Hm|Hm].
    - apply str_eqb_eq in Hm. subst k. unfold f in Ef. rewrite Hl in Ef. destruct (parse_id v nsmap amap) as [n|]; [eauto|discriminate].
    - exact (IH o eq_refl Hm Hl).
  Qed.
  Lemma others_ok a v : forall l out, rsequence (map g0 l) = Ok out -> own_column a || mem_str a NODE_REF_ATTRS = false -> lookup_attr a l = Some v ->
    exists x, cast_attr a v nsmap amap = Ok x.
  Proof.
    induction l as [|[k w] l IH]; intros out H Hs Hl; [discriminate|].
    cbn [map rsequence] in H. destruct (g0 (k, w)) as [x|] eqn:Eg; [|discriminate]. cbn [rbind] in H.
    destruct (rsequence (map g0 l)) as [o|] eqn:Er; [|discriminate]. cbn [lookup_attr] in Hl. destruct (str_eqb k a) eqn:Eka.
    - apply str_eqb_eq in Eka. subst k. injection Hl as ->. unfold g0 in Eg. cbn [fst snd] in Eg. fold (own_column a) in Eg. rewrite Hs in Eg.
      destruct (cast_attr a v nsmap amap) as [y|]; [eauto|discriminate].
    - exact (IH o eq_refl Hs Hl).
  Qed.
  Let g := fun kv : str * str =>
             if str_eqb (fst kv) (lit "NodeId") || str_eqb (fst kv) (lit "BrowseName") || mem_str (fst kv) NODE_REF_ATTRS then Ok []
             else rmap (fun a => [(fst kv, a)]) (cast_attr (fst kv) (snd kv) nsmap amap).
  Lemma others_lookup a : forall l out, rsequence (map g l) = Ok out ->
    avlookup a (concat out) =
    if own_column a || mem_str a NODE_REF_ATTRS then None
    else match lookup_attr a l with Some v => match cast_attr a v nsmap amap with Ok x => Some x | Err _ => None end | None => None end.
  Proof.
    induction l as [|[k v] l IH]; intros out H.
    - cbn in H. injection H as <-. cbn [concat avlookup lookup_attr]. destruct (own_column a || mem_str a NODE_REF_ATTRS); reflexivity.
    - cbn [map rsequence] in H. destruct (g (k, v)) as [x|] eqn:Eg; [|discriminate]. cbn [rbind] in H.
      destruct (rsequence (map g l)) as [o|] eqn:Er; [|discriminate]. cbn [rmap] in H. injection H as <-.
      cbn [concat]. rewrite alookup_app. specialize (IH o eq_refl). cbn [lookup_attr]. unfold g in Eg. cbn [fst snd] in Eg.
      destruct (str_eqb k a) eqn:Eka.
      + apply str_eqb_eq in Eka. subst k. fold (own_column a) in Eg. destruct (own_column a || mem_str a NODE_REF_ATTRS) eqn:Es.
        * injection Eg as <-. cbn [avlookup]. exact IH.
        * destruct (cast_attr a v nsmap amap) as [y|]; [|discriminate]. cbn [rmap] in Eg. injection Eg as <-. cbn [avlookup]. now rewrite str_eqb_refl.
      + assert (avlookup a x = None) as ->; [|exact IH].
        destruct (_ || _) in Eg; [injection Eg as <-; reflexivity|].
        destruct (cast_attr k v nsmap amap); [|discriminate]. cbn [rmap] in Eg. injection Eg as <-. cbn [avlookup]. now rewrite Eka.
  Qed.
End Attrs.

Lemma bools_lookup a cols attrs :
  avlookup a (flat_map (fun c => if mem_str c cols && negb (has_attr c attrs) then [(c, ABool false)] else []) BOOL_COLS)
  = if mem_str a BOOL_COLS && mem_str a cols && negb (has_attr a attrs) then Some (ABool false) else None.
Proof.
  unfold BOOL_COLS. cbn [map flat_map app mem_str existsb]. rewrite orb_false_r.
  destruct (str_eqb a (lit "IsAbstract")) eqn:E1; [apply str_eqb_eq in E1; subst a|].
  - cbn [orb andb]. destruct (mem_str (lit "IsAbstract") cols && negb (has_attr (lit "IsAbstract") attrs)) eqn:E; cbn [app avlookup].
    + reflexivity.
    + destruct (mem_str (lit "Symmetric") cols && negb (has_attr (lit "Symmetric") attrs)); reflexivity.
  - destruct (str_eqb a (lit "Symmetric")) eqn:E2; [apply str_eqb_eq in E2; subst a|].
    + cbn [orb andb]. destruct (mem_str (lit "IsAbstract") cols && negb (has_attr (lit "IsAbstract") attrs)); cbn [app avlookup];
        destruct (mem_str (lit "Symmetric") cols && negb (has_attr (lit "Symmetric") attrs)); reflexivity.
    + cbn [orb andb]. rewrite str_eqb_sym in E1. rewrite str_eqb_sym in E2.
      destruct (mem_str (lit "IsAbstract") cols && negb (has_attr (lit "IsAbstract") attrs));
        destruct (mem_str (lit "Symmetric") cols && negb (has_attr (lit "Symmetric") attrs)); cbn [app avlookup]; rewrite ?E1, ?E2; reflexivity.
Qed.
Lemma cast_ref a v nsmap amap : mem_str a NODE_REF_ATTRS = true -> cast_attr a v nsmap amap = rmap ANode (parse_id v nsmap amap).
Proof. unfold cast_attr. now intros ->. Qed.
Lemma bool_not_ref a : mem_str a BOOL_COLS = true -> own_column a || mem_str a NODE_REF_ATTRS = false.
Proof.
  unfold BOOL_COLS. cbn [map mem_str existsb]. rewrite orb_false_r. intros H. apply orb_true_iff in H as [H|H]; apply str_eqb_eq in H; subst a; reflexivity.
Qed.

Theorem attribute_columns E nsmap amap cols e row refs : parse_node E nsmap amap cols e = Ok (row, refs) -> forall a,
  match lookup_attr a (ne_attrs e) with
  | Some v => if own_column a then node_attr a row = None
              else exists x, cast_attr a v nsmap amap = Ok x /\ node_attr a row = Some x
  | None => node_attr a row = if mem_str a BOOL_COLS && mem_str a cols then Some (ABool false) else None
  end.
Proof.
  unfold parse_node. destruct (lookup_attr (lit "NodeId") (ne_attrs e)) as [nid|]; [|discriminate].
  destruct (parse_id nid nsmap amap) as [nodeid|]; [|discriminate]. cbn [rbind].
  destruct (rsequence (map _ NODE_REF_ATTRS)) as [refattrs|] eqn:Era; [|discriminate]. cbn [rbind].
  destruct (rsequence (map (parse_ref nodeid nsmap amap) (ne_refs e))) as [rs|]; [|discriminate]. cbn [rbind].
  destruct (dec_value_elem E (ne_value e)) as [value|]; [|discriminate]. cbn [rbind].
  destruct (lookup_attr (lit "BrowseName") (ne_attrs e)) as [bn|]; [|discriminate].
  destruct (split_browsename bn nsmap) as [nb|]; [|discriminate]. cbn [rbind].
  destruct (rsequence (map _ (ne_attrs e))) as [others|] eqn:Eo; [|discriminate]. cbn [rbind].
  set (bools := flat_map _ BOOL_COLS). intros H a. injection H as <- _.
  rewrite node_attr_avlookup. cbn [nr_attrs]. rewrite !alookup_app.
  rewrite (refattrs_lookup nsmap amap (ne_attrs e) a _ _ Era). rewrite (others_lookup nsmap amap a _ _ Eo). subst bools. rewrite bools_lookup.
  pose proof (fun v (H : lookup_attr a (ne_attrs e) = Some v) => H) as _.
  unfold has_attr. destruct (lookup_attr a (ne_attrs e)) as [v|] eqn:El.
  - cbn [negb]. rewrite andb_false_r. destruct (own_column a) eqn:Eown.
    + cbn [orb]. destruct (mem_str a NODE_REF_ATTRS) eqn:Er; [|reflexivity].
      exfalso. unfold own_column in Eown. unfold NODE_REF_ATTRS in Er. cbn [map mem_str existsb] in Er.
      apply orb_true_iff in Eown as [Eo1|Eo1]; apply str_eqb_eq in Eo1; subst a; discriminate.
    + cbn [orb]. destruct (mem_str a NODE_REF_ATTRS) eqn:Er.
      * rewrite (cast_ref a v nsmap amap Er).
        destruct (refattrs_ok nsmap amap (ne_attrs e) a v _ _ Era Er El) as [n Hn].
 rewrite Hn. exists (ANode n). split; reflexivity.
      * destruct (cast_attr a v nsmap amap) as [x|] eqn:Ec.
        { exists x. split; reflexivity. }
        destruct (others_ok nsmap amap a v _ _ Eo) as [y Hy]; [now rewrite Eown, Er|exact El|congruence].
  - cbn [negb]. rewrite andb_true_r. destruct (mem_str a BOOL_COLS) eqn:Eb.
    + rewrite (bool_not_ref a Eb). destruct (mem_str a NODE_REF_ATTRS); reflexivity.
    + cbn [andb]. destruct (mem_str a NODE_REF_ATTRS); destruct (own_column a || _); reflexivity.
Qed.

Definition attrs_match (nsmap : list (Z * Z)) (amap : list (str * nodeid)) (cols : list str) (e : node_elem) (row : node_row) : Prop :=
  forall a, match lookup_attr a (ne_attrs e) with
            | Some v => if own_column a then node_attr a row = None
                        else exists x, cast_attr a v nsmap amap = Ok x /\ node_attr a row = Some x
            | None => node_attr a row = if mem_str a BOOL_COLS && mem_str a cols then Some (ABool false) else None
            end.
(* for every row of a parsed file *)
Theorem file_attribute_columns E ns d ns1 fo : parse_file E ns d = Ok (ns1, fo) ->
  exists amap, (match d_aliases d with Some l => build_aliases l (zmap_of (snd (file_ns ns d))) | None => Ok [] end) = Ok amap /\
    Forall2 (fun e row => row_matches E (zmap_of (snd (file_ns ns d))) amap e row /\
                          attrs_match (zmap_of (snd (file_ns ns d))) amap (flat_map (fun e => map fst (ne_attrs e)) (d_nodes d)) e row)
            (d_nodes d) (fo_nodes fo).
Proof.
  unfold parse_file, file_ns. fold (with_ua ns).
  destruct (match d_aliases d with Some l => preprocess_aliases l | None => Ok tt end); [|discriminate]. cbn [rbind].
  destruct (match d_uris d with Some u => ns_extend (with_ua ns) u | None => (with_ua ns, []) end) as [n1 m]. cbn [snd].
  destruct (match d_aliases d with Some l => build_aliases l (zmap_of m) | None => Ok [] end) as [amap|]; [|discriminate]. cbn [rbind].
  destruct (d_nodes d) as [|e0 es] eqn:Ed; [discriminate|].
  set (cols := flat_map (fun e => map fst (ne_attrs e)) (e0 :: es)).
  destruct (rsequence _) as [rows|] eqn:Er; [|discriminate]. cbn [rbind]. intros H. inversion H; subst. cbn [fo_nodes].
  apply rsequence_Forall2 in Er. exists amap. split; [reflexivity|]. clearbody cols. clear -Er.
  induction Er as [|e [row refs] es1 rows1 He _ IH]; cbn [map]; constructor; [|exact IH]. cbn [fst]. split.
  - eapply parse_node_matches; eauto.
  - intros a. exact (attribute_columns E _ _ _ _ _ _ He a).
Qed.
(* what cast_attr does with each kind of attribute *)
Lemma cast_attr_text k v nsmap amap : mem_str k NODE_REF_ATTRS = false -> int_attr_cast k = None ->
  str_eqb k (lit "IsAbstract") || str_eqb k (lit "Symmetric") = false -> cast_attr k v nsmap amap = Ok (AStr v).
Proof. unfold cast_attr. now intros -> -> ->. Qed.
Lemma cast_attr_bool k v nsmap amap : str_eqb k (lit "IsAbstract") || str_eqb k (lit "Symmetric") = true ->
  cast_attr k v nsmap amap = Ok (ABool (negb (str_eqb v (lit "false") || str_eqb v []))).
Proof.
  intros H. unfold cast_attr. assert (mem_str k NODE_REF_ATTRS = false /\ int_attr_cast k = None) as [-> ->].
  { apply orb_true_iff in H as [H|H]; apply str_eqb_eq in H; subst k; split; reflexivity. }
  now rewrite H.
Qed.
