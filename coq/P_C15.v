(* C15 - queries and writes leave the graph unchanged; results do not depend on history. *)
From Coq Require Import String Ascii List Bool Arith NArith ZArith.
Require Import PyStr PyInt Sexp Xml M_C09 M_C08 Ns Table M_Parse M_Write M_C15 T_C15.
Import ListNotations.
Open Scope char_scope.

Theorem C15_frame : forall s o, fst (step true s o) = s.
Proof. exact frame. Qed.
Theorem C15_frame_history : forall ops s, fst (run_ops true s ops) = s.
Proof. exact frame_history. Qed.
Theorem C15_history_independent : forall ops s, snd (run_ops true s ops) = map (fun o => snd (step true s o)) ops.
Proof. exact history_independent. Qed.
Theorem C15_idempotent_write : forall s w, snd (run_ops true s [OWrite w; OWrite w]) = [snd (step true s (OWrite w)); snd (step true s (OWrite w))].
Proof. exact write_twice. Qed.
(* the code before the two repairs violated both statements (history: a version given once changed later writes) *)
Theorem C15_old_version_leaks_refuted :
  snd (step false (fst (step false g0 (OWrite w_newver))) (OWrite w_plain)) <> snd (step false g0 (OWrite w_plain)).
Proof. exact old_version_leaks_refuted. Qed.
Theorem C15_old_frame_refuted : exists o, fst (step false g0 o) <> g0.
Proof. exact old_frame_refuted. Qed.

Print Assumptions C15_frame.
Print Assumptions C15_frame_history.
Print Assumptions C15_history_independent.
Print Assumptions C15_idempotent_write.
Print Assumptions C15_old_version_leaks_refuted.
Print Assumptions C15_old_frame_refuted.
