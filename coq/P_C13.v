(* C13 - relatives and node paths enumerate exactly the walks of the graph. *)
From Coq Require Import String List Arith Bool Permutation.
Require Import PyStr Sexp M_C12 M_C13 T_C13.
Import ListNotations.

(* with a cut-off k: one row per walk of at most k references from a start node (as a multiset: parallel
   references give parallel walks), each start node once with length 0; for EVERY edge list, cyclic or not *)
Theorem C13_walks_cut : forall E desc k starts rows, find_relatives E desc (Some k) starts = Ok rows ->
  Permutation rows (flat_map (dfs E desc k) (start_rows starts)) /\
  (forall q, In q rows <-> exists s, In s starts /\ reaches E desc [s] q /\ row_len q <= k) /\
  filter len0 rows = start_rows starts.
Proof. exact find_relatives_cut. Qed.
(* without a cut-off, on an acyclic edge set: the call terminates and returns one row per walk *)
Theorem C13_walks_all : forall E desc starts,
  (forall s q, In s starts -> reaches E desc [s] q -> NoDup q) ->
  forall rows, find_relatives E desc None starts = Ok rows ->
  Permutation rows (flat_map (dfs E desc (length (universe E starts))) (start_rows starts)) /\
  forall q, In q rows <-> exists s, In s starts /\ reaches E desc [s] q.
Proof. exact find_relatives_all. Qed.
Theorem C13_walks_all_terminates : forall E desc starts,
  (forall s q, In s starts -> reaches E desc [s] q -> NoDup q) ->
  exists rows, find_relatives E desc None starts = Ok rows.
Proof. exact find_relatives_all_ok. Qed.
(* dfs is the declarative enumeration: exactly the walks of bounded length *)
Theorem C13_dfs_exact : forall E desc k p q, p <> [] ->
  (In q (dfs E desc k p) <-> reaches E desc p q /\ length q <= length p + k).
Proof. exact dfs_exact. Qed.
(* the columns: a row reached from start s has s as its start, and is a chain of edges in the chosen direction;
   conversely every such chain is a row (so `end` = last node, `len_path` = number of references, path = node sequence) *)
Theorem C13_row_start : forall E desc s q, reaches E desc [s] q -> row_start q = s /\ q <> [].
Proof. exact reaches_start. Qed.
Theorem C13_row_chain : forall E desc p q, reaches E desc p q -> chain E desc p -> chain E desc q.
Proof. exact reaches_chain. Qed.
Theorem C13_chain_row : forall E desc q s, chain E desc q -> last q 0 = s -> q <> [] -> reaches E desc [s] q.
Proof. exact chain_reaches. Qed.
(* node paths for a tree below the root *)
Theorem C13_paths : forall names E root out, node_paths names E root = Ok out ->
  exists rows, find_relatives E true None [root] = Ok rows /\
  let below := filter (fun p => 0 <? row_len p) rows in
  (NoDup (map row_end below) ->
     forall p, In p below ->
       In (row_end p, name_of names root ++ slash ++ join slash (map (name_of names) (tl (row_seq p)))) out) /\
  In (root, name_of names root ++ slash) out /\
  length out = S (length (nodup Nat.eq_dec (map row_end below))).
Proof. exact node_paths_tree. Qed.

Print Assumptions C13_walks_cut.
Print Assumptions C13_walks_all.
Print Assumptions C13_walks_all_terminates.
Print Assumptions C13_dfs_exact.
Print Assumptions C13_row_start.
Print Assumptions C13_row_chain.
Print Assumptions C13_chain_row.
Print Assumptions C13_paths.
