(* Proofs about the XML value encoders / the value parser (C08). *)
From Coq Require Import String Ascii List Bool NArith ZArith Lia.
Require Import PyStr PyInt Sexp Xml M_C09 M_C08 M_C08d.
Import ListNotations.
Open Scope char_scope.

(* ---------- small facts about strip, escape and friends ---------- *)
Lemma lstrip_nonspace c r : is_space c = false -> lstrip (c :: r) = c :: r.
Proof. intros H. cbn. now rewrite H. Qed.
Lemma strip_decZ z : strip (decZ z) = decZ z.
Proof.
  destruct z as [|p|p]; cbn [decZ].
  - reflexivity.
  - apply strip_digits, dec_all_digits.
  - apply strip_minus_digits; [apply dec_all_digits | apply dec_nonempty].
Qed.
Lemma decZ_nonempty z : decZ z <> [].
Proof. destruct z; cbn [decZ]; try apply dec_nonempty. discriminate. Qed.
Lemma has_escape_cr s : has CR (escape s) = has CR s.
Proof.
  induction s as [|c s IH]; [reflexivity|]. unfold escape in *. cbn [flat_map]. rewrite has_app, IH. cbn [has]. f_equal.
  unfold esc_char. destruct (Ascii.eqb_spec c "&"); [subst; reflexivity|]. destruct (Ascii.eqb_spec c "<"); [subst; reflexivity|].
  destruct (Ascii.eqb_spec c ">"); [subst; reflexivity|]. cbn. now rewrite orb_false_r.
Qed.
Lemma escape_nonempty s : s <> [] -> escape s <> [].
Proof.
  destruct s as [|c s]; [congruence|]. intros _. unfold escape. cbn [flat_map]. unfold esc_char.
  destruct (Ascii.eqb c "&"); [discriminate|]. destruct (Ascii.eqb c "<"); [discriminate|]. destruct (Ascii.eqb c ">"); discriminate.
Qed.

(* ---------- leaves: <Name [xmlns]>text</Name> ---------- *)
Definition leaf_tree (b : bool) (name text : str) : xtree := Elem str (list attr) str name (xa b) text [] [].
Definition leaf_node (name text : str) : nxml := NElem TYPES_NS name [] (match text with [] => None | _ => Some text end) [].

Lemma spell_attrs_xa b : spell_attrs (xa b) = if b then " " :: XMLNS_ATTR else [].
Proof. destruct b; reflexivity. Qed.
Lemma wrap_is_spell b name text : noq name = false ->
  wrap name b (escape text) = spell_treeq noq (leaf_tree b name text).
Proof.
  intros Hq. unfold wrap, tag_open, tag_close, spell_treeq, leaf_tree, spell, items_ofq, padq. rewrite Hq.
  cbn [flat_map app escape seg_of fst snd]. rewrite spell_attrs_xa. cbn [flat_map app]. rewrite !app_nil_r.
  destruct b; cbn [app]; rewrite <- ?app_assoc; cbn [app]; repeat (f_equal; try reflexivity); rewrite <- ?app_assoc; reflexivity.
Qed.
Lemma leaf_tree_ok b name text : name_ok name = true -> tree_ok (leaf_tree b name text) = true.
Proof. intros H. cbn [leaf_tree tree_ok forallb]. rewrite H. destruct b; reflexivity. Qed.
Lemma resolve_leaf (b : bool) name text : has ":" name = false ->
  resolve (if b then ([] : str) else TYPES_NS) [] (leaf_tree b name text) = leaf_node name text.
Proof.
  intros Hc. unfold leaf_tree, leaf_node. cbn [resolve]. rewrite (split_once_none _ _ Hc).
  destruct b; cbn; destruct text; reflexivity.
Qed.

(* reading back the written text of a leaf, whatever characters the text contains (except a carriage return) *)
Theorem leaf_text_roundtrip E b name text : name_ok name = true -> noq name = false -> has ":" name = false -> has CR name = false ->
  has CR text = false ->
  decode_text E (negb b) (wrap name b (escape text)) = decode E (leaf_node name text).
Proof.
  intros Hn Hq Hc Hcrn Hcr. unfold decode_text. rewrite (wrap_is_spell b name text Hq).
  rewrite xparse_spellq.
  - destruct b; cbn [negb]; [rewrite <- (resolve_leaf true name text Hc) | rewrite <- (resolve_leaf false name text Hc)]; reflexivity.
  - now apply leaf_tree_ok.
  - rewrite <- wrap_is_spell by exact Hq. unfold wrap, tag_open, tag_close.
    cbn [has]. rewrite !has_app. cbn [has]. rewrite !has_app. cbn [has]. rewrite has_escape_cr, Hcr, Hcrn.
    destruct b; reflexivity.
Qed.

(* ---------- the canonical form the round trip yields ---------- *)

Lemma name_facts_String : name_ok (lit "String") = true /\ noq (lit "String") = false /\ has ":" (lit "String") = false /\ has CR (lit "String") = false.
Proof. repeat split; reflexivity. Qed.
Lemma name_facts_Guid : name_ok (lit "Guid") = true /\ noq (lit "Guid") = false /\ has ":" (lit "Guid") = false /\ has CR (lit "Guid") = false.
Proof. repeat split; reflexivity. Qed.
Lemma name_facts_Boolean : name_ok (lit "Boolean") = true /\ noq (lit "Boolean") = false /\ has ":" (lit "Boolean") = false /\ has CR (lit "Boolean") = false.
Proof. repeat split; reflexivity. Qed.
Lemma name_facts_ikind k : name_ok (ikind_name k) = true /\ noq (ikind_name k) = false /\ has ":" (ikind_name k) = false /\ has CR (ikind_name k) = false.
Proof. destruct k; repeat split; reflexivity. Qed.
Lemma name_facts_float (d : bool) : let n := if d then lit "Double" else lit "Float" in
  name_ok n = true /\ noq n = false /\ has ":" n = false /\ has CR n = false.
Proof. destruct d; repeat split; reflexivity. Qed.

(* String and Guid: EVERY text without a carriage return survives, up to leading/trailing whitespace *)
Theorem roundtrip_string E b s : has CR s = false ->
  decode_text E (negb b) (encode b (VString (Some s))) = Ok (VString (canon_text (Some s))).
Proof.
  intros Hcr. destruct name_facts_String as [H1 [H2 [H3 H4]]]. cbn [encode].
  rewrite leaf_text_roundtrip by assumption. destruct s; reflexivity.
Qed.
Theorem roundtrip_guid E b s : has CR s = false ->
  decode_text E (negb b) (encode b (VGuid (Some s))) = Ok (VGuid (canon_text (Some s))).
Proof.
  intros Hcr. destruct name_facts_Guid as [H1 [H2 [H3 H4]]]. cbn [encode].
  rewrite leaf_text_roundtrip by assumption. destruct s; reflexivity.
Qed.
Lemma escape_nil : escape [] = []. Proof. reflexivity. Qed.
Theorem roundtrip_string_null E b : decode_text E (negb b) (encode b (VString None)) = Ok (VString None).
Proof.
  destruct name_facts_String as [H1 [H2 [H3 H4]]]. cbn [encode]. rewrite <- escape_nil.
  rewrite leaf_text_roundtrip by (assumption || reflexivity). reflexivity.
Qed.
Theorem roundtrip_guid_null E b : decode_text E (negb b) (encode b (VGuid None)) = Ok (VGuid None).
Proof.
  destruct name_facts_Guid as [H1 [H2 [H3 H4]]]. cbn [encode]. rewrite <- escape_nil.
  rewrite leaf_text_roundtrip by (assumption || reflexivity). reflexivity.
Qed.

(* Boolean *)
Theorem roundtrip_bool E b v : decode_text E (negb b) (encode b (VBool v)) = Ok (VBool v).
Proof.
  destruct name_facts_Boolean as [H1 [H2 [H3 H4]]]. cbn [encode].
  change (match v with Some true => lit "true" | Some false => lit "false" | None => [] end) with (bool_text v).
  assert (He : bool_text v = escape (bool_text v)) by (destruct v as [[]|]; reflexivity). rewrite He.
  rewrite leaf_text_roundtrip; try assumption; [|destruct v as [[]|]; reflexivity].
  destruct v as [[]|]; reflexivity.
Qed.

(* the eight integer types: every digit survives, for integers of ANY size *)
Lemma escape_decZ z : escape (decZ z) = decZ z.
Proof.
  assert (G : forall s, has "&" s = false -> has "<" s = false -> has ">" s = false -> escape s = s).
  { induction s as [|c s IH]; intros Ha Hl Hg; [reflexivity|]. cbn [has] in *.
    apply orb_false_iff in Ha as [Ha1 Ha2]. apply orb_false_iff in Hl as [Hl1 Hl2]. apply orb_false_iff in Hg as [Hg1 Hg2].
    unfold escape in *. cbn [flat_map]. unfold esc_char at 1. rewrite Ha1, Hl1, Hg1. cbn [app]. f_equal. now apply IH. }
  apply G; apply decZ_has; try reflexivity; discriminate.
Qed.
Lemma decZ_no_cr z : has CR (decZ z) = false.
Proof. apply decZ_has; [reflexivity|discriminate]. Qed.
Lemma decode_int_leaf E k z : (ikind_unsigned k = true -> (0 <= z)%Z) ->
  decode E (leaf_node (ikind_name k) (decZ z)) = Ok (VInt k (Some z)).
Proof.
  intros Hu. unfold leaf_node. pose proof (decZ_nonempty z) as Hne. destruct (decZ z) as [|c r] eqn:Ed; [congruence|]. rewrite <- Ed.
  assert (Hs : strip_opt (Some (decZ z)) = Some (decZ z)) by (cbn; now rewrite strip_decZ).
  assert (Hn : nonempty (Some (decZ z)) = true) by (rewrite Ed; reflexivity).
  destruct k; cbn [decode]; cbv beta iota; 
  (change (starts_with (lit "ListOf") _) with false; cbv iota);
  repeat match goal with |- context [mem_str ?n SIMPLE] => change (mem_str n SIMPLE) with true; cbv iota end;
  repeat match goal with |- context [ikind_of_name ?n] => let v := eval vm_compute in (ikind_of_name n) in change (ikind_of_name n) with v; cbv iota end;
  rewrite Hs, Hn; cbn [ostr]; rewrite py_int_decZ; cbn [ikind_unsigned andb]; try reflexivity;
  (destruct (Z.ltb_spec z 0); [exfalso; specialize (Hu eq_refl); lia | reflexivity]).
Qed.
Theorem roundtrip_int E b k z : (ikind_unsigned k = true -> (0 <= z)%Z) ->
  decode_text E (negb b) (encode b (VInt k (Some z))) = Ok (VInt k (Some z)).
Proof.
  intros Hu. destruct (name_facts_ikind k) as [H1 [H2 [H3 H4]]]. cbn [encode]. rewrite <- (escape_decZ z).
  rewrite leaf_text_roundtrip; try assumption; [|apply decZ_no_cr]. now apply decode_int_leaf.
Qed.
Theorem roundtrip_int_null E b k : decode_text E (negb b) (encode b (VInt k None)) = Ok (VInt k None).
Proof.
  destruct (name_facts_ikind k) as [H1 [H2 [H3 H4]]]. cbn [encode]. rewrite <- escape_nil.
  rewrite leaf_text_roundtrip by (assumption || reflexivity). destruct k; reflexivity.
Qed.
(* an enumeration value is written exactly as the Int32 it came from, and read back as that Int32 *)
Theorem enum_written_as_int32 b z s n : encode b (VEnum z s n) = encode b (VInt KInt32 z).
Proof. reflexivity. Qed.

(* ---------- floats: CPython's float()/repr() are external; the theorem holds for any table E that parses a repr to itself ---------- *)
Lemma is_plain_facts c : is_plain c = true ->
  Ascii.eqb c "&" = false /\ Ascii.eqb c "<" = false /\ Ascii.eqb c ">" = false /\ Ascii.eqb c CR = false /\ is_space c = false.
Proof. destruct c as [[] [] [] [] [] [] [] []]; cbn; intros H; try discriminate; repeat split; reflexivity. Qed.
Lemma plain_escape s : all_chars is_plain s = true -> escape s = s /\ has CR s = false.
Proof.
  induction s as [|c s IH]; intros H; [split; reflexivity|]. cbn [all_chars] in H. apply andb_true_iff in H as [Hc Hs].
  destruct (is_plain_facts c Hc) as [A [B [C [D _]]]]. destruct (IH Hs) as [E1 E2]. split.
  - unfold escape in *. cbn [flat_map]. unfold esc_char. rewrite A, B, C. cbn [app]. now f_equal.
  - cbn [has]. now rewrite D, E2.
Qed.
Lemma strip_nospace s : all_chars (fun c => negb (is_space c)) s = true -> strip s = s.
Proof.
  intros H. unfold strip, rstrip.
  assert (L : forall t, all_chars (fun c => negb (is_space c)) t = true -> lstrip t = t).
  { intros [|c r] Ht; [reflexivity|]. cbn [all_chars] in Ht. apply andb_true_iff in Ht as [Hc _].
    apply negb_true_iff in Hc. cbn. now rewrite Hc. }
  rewrite (L s H). rewrite L; [apply rev_involutive|].
  clear L. induction s as [|c r IH]; [reflexivity|]. cbn [all_chars rev] in *. apply andb_true_iff in H as [Hc Hr].
  assert (A : forall a b, all_chars (fun c => negb (is_space c)) a = true -> all_chars (fun c => negb (is_space c)) b = true ->
              all_chars (fun c => negb (is_space c)) (a ++ b) = true).
  { induction a as [|x a IHa]; cbn; intros b Ha Hb; [exact Hb|]. apply andb_true_iff in Ha as [-> Ha]. cbn. now apply IHa. }
  apply A; [now apply IH|cbn; now rewrite Hc].
Qed.
Lemma plain_strip s : all_chars is_plain s = true -> strip s = s.
Proof.
  intros H. apply strip_nospace. induction s as [|c s IH]; [reflexivity|]. cbn [all_chars] in *.
  apply andb_true_iff in H as [Hc Hs]. destruct (is_plain_facts c Hc) as [_ [_ [_ [_ Hsp]]]]. now rewrite Hsp, IH.
Qed.
Theorem roundtrip_float E b d r : fparse E r = Ok r -> plain r = true -> str_eqb r (lit "nan") = false ->
  decode_text E (negb b) (encode b (VFloat d (Some r))) = Ok (VFloat d (Some r)).
Proof.
  intros HE Hp Hnan. unfold plain in Hp. apply andb_true_iff in Hp as [Hp Hne].
  destruct (plain_escape r Hp) as [Hesc Hcr]. pose proof (plain_strip r Hp) as Hst.
  destruct (name_facts_float d) as [H1 [H2 [H3 H4]]]. cbn [encode]. rewrite Hnan. rewrite <- Hesc at 1.
  rewrite leaf_text_roundtrip; try assumption.
  destruct r as [|c r']; [discriminate|]. unfold leaf_node.
  destruct d; cbn [decode]; cbv beta iota;
  (change (starts_with (lit "ListOf") _) with false; cbv iota);
  repeat match goal with |- context [mem_str ?n SIMPLE] => change (mem_str n SIMPLE) with true; cbv iota end;
  repeat match goal with |- context [ikind_of_name ?n] => let v := eval vm_compute in (ikind_of_name n) in change (ikind_of_name n) with v; cbv iota end;
  cbn [strip_opt omap]; rewrite Hst; cbn [nonempty ostr];
  repeat match goal with |- context [str_eqb (lit ?a) (lit ?b)] => let v := eval vm_compute in (str_eqb (lit a) (lit b)) in change (str_eqb (lit a) (lit b)) with v end;
  cbn [orb]; rewrite HE; reflexivity.
Qed.
Theorem roundtrip_float_null E b d : decode_text E (negb b) (encode b (VFloat d None)) = Ok (VFloat d None).
Proof.
  destruct (name_facts_float d) as [H1 [H2 [H3 H4]]]. cbn [encode]. rewrite <- escape_nil.
  rewrite leaf_text_roundtrip by (assumption || reflexivity). destruct d; reflexivity.
Qed.
(* faithful to the code: a NaN value is written as an empty element and comes back as null (known finding nan-to-null) *)
Theorem float_nan_refuted E b d : decode_text E (negb b) (encode b (VFloat d (Some (lit "nan")))) = Ok (VFloat d None).
Proof. exact (roundtrip_float_null E b d). Qed.

(* ---------- lists: decoding a ListOf element is decoding its children (tree level) ---------- *)
Theorem decode_list E tn attrs children items :
  Forall2 (fun c v => decode E c = Ok v) children items ->
  (match items with [] => true | first :: _ => forallb (isinstance_of first) items end) = true ->
  decode E (NElem TYPES_NS (lit "ListOf" ++ tn) attrs None children) = Ok (VList tn items).
Proof.
  intros HF.
  assert (Hseq : rsequence (map (decode E) children) = Ok items).
  { induction HF as [|c v cs vs Hc _ IH]; [reflexivity|]. cbn [map rsequence]. rewrite Hc. cbn [rbind]. now rewrite IH. }
  intros Hh. cbn [decode]. change TYPES_NS with (lit "http://opcfoundation.org/UA/2008/02/Types.xsd"). cbv beta iota.
  assert (Hsw : starts_with (lit "ListOf") (lit "ListOf" ++ tn) = true) by apply starts_with_app. rewrite Hsw.
  rewrite Hseq. cbn [rbind]. assert (Hsk : skipn 6 (lit "ListOf" ++ tn) = tn) by reflexivity. rewrite Hsk.
  destruct items as [|first rest]; [reflexivity|]. now rewrite Hh.
Qed.
(* non-vacuity *)
Example nv_string : decode_text [] false (encode true (VString (Some (lit " a<b & ""c"" ")))) = Ok (VString (Some (lit "a<b & ""c"""))).
Proof. vm_compute. reflexivity. Qed.
Example nv_list : decode_text [] false (encode true (VList (lit "Int32") [VInt KInt32 (Some 1%Z); VInt KInt32 None; VInt KInt32 (Some (-7)%Z)]))
  = Ok (VList (lit "Int32") [VInt KInt32 (Some 1%Z); VInt KInt32 None; VInt KInt32 (Some (-7)%Z)]).
Proof. vm_compute. reflexivity. Qed.

(* ================= DateTime: the written text is read back as the same instant ================= *)
(* fixed-width decimal fields *)
Lemma digits_rev_length fuel : forall k n, 1 <= k -> (n < 10 ^ N.of_nat k)%N -> length (digits_rev fuel n) <= k.
Proof.
  induction fuel as [|f IH]; intros k n Hk Hn; [cbn; lia|]. cbn [digits_rev].
  destruct (N.ltb_spec n 10) as [Hlt|Hge]; [cbn; lia|]. cbn [length].
  destruct k as [|[|k]]; [lia| cbn in Hn; lia |].
  assert (length (digits_rev f (n / 10)) <= S k); [|lia]. apply IH; [lia|].
  rewrite Nat2N.inj_succ, N.pow_succ_r' in Hn. apply N.div_lt_upper_bound; lia.
Qed.
Lemma dec_length k n : 1 <= k -> (n < 10 ^ N.of_nat k)%N -> length (dec n) <= k.
Proof. intros Hk Hn. unfold dec. rewrite map_length, rev_length. now apply digits_rev_length. Qed.
Lemma parse_digits_zeros j : forall s acc, parse_digits (repeat "0" j ++ s) acc = parse_digits s (acc * 10 ^ N.of_nat j)%N.
Proof.
  induction j as [|j IH]; intros s acc; [cbn; f_equal; lia|]. cbn [repeat app parse_digits].
  change (is_digit "0") with true. cbv iota. rewrite IH. f_equal. change (digit_val "0") with 0%N.
  rewrite Nat2N.inj_succ, N.pow_succ_r'. lia.
Qed.
Lemma all_digits_pad w n : all_chars is_digit (pad_to w (dec n)) = true.
Proof.
  unfold pad_to. assert (A : forall a b, all_chars is_digit a = true -> all_chars is_digit b = true -> all_chars is_digit (a ++ b) = true).
  { induction a as [|x a IHa]; cbn; intros b Ha Hb; [exact Hb|]. apply andb_true_iff in Ha as [-> Ha]. cbn. now apply IHa. }
  apply A; [|apply dec_all_digits]. induction (w - length (dec n)) as [|k IH]; [reflexivity|]. cbn. exact IH.
Qed.
Lemma pad_length w n : 1 <= w -> (n < 10 ^ N.of_nat w)%N -> length (pad_to w (dec n)) = w.
Proof.
  intros Hw Hn. pose proof (dec_length w n Hw Hn). unfold pad_to. rewrite app_length, repeat_length. lia.
Qed.
Lemma py_nat_pad w n : 1 <= w -> py_nat (pad_to w (dec n)) = Some n.
Proof.
  intros Hw. unfold py_nat. pose proof (py_nat_dec n) as Hd. unfold py_nat in Hd.
  pose proof (dec_nonempty n) as Hne. unfold pad_to. destruct (repeat "0" (w - length (dec n)) ++ dec n) as [|c r] eqn:E.
  - apply app_eq_nil in E as [_ E]. congruence.
  - rewrite <- E. rewrite parse_digits_zeros. cbn [N.mul]. destruct (dec n) as [|c' r'] eqn:E2; [congruence|]. exact Hd.
Qed.
Lemma digits_n_pad w (z : Z) rest : 1 <= w -> (0 <= z < 10 ^ Z.of_nat w)%Z ->
  digits_n w (pad_to w (decZ z) ++ rest) = Some (z, rest).
Proof.
  intros Hw Hz. assert (Hd : decZ z = dec (Z.to_N z)) by (destruct z; cbn [decZ Z.to_N]; try reflexivity; lia).
  rewrite Hd. assert (Hn : (Z.to_N z < 10 ^ N.of_nat w)%N).
  { apply N2Z.inj_lt. rewrite Z2N.id by lia. rewrite N2Z.inj_pow, nat_N_Z. lia. }
  unfold digits_n. pose proof (pad_length w (Z.to_N z) Hw Hn) as Hl.
  rewrite firstn_app, Hl, Nat.sub_diag, firstn_O, app_nil_r, firstn_all2 by lia.
  rewrite Hl, Nat.eqb_refl, all_digits_pad. cbn [andb]. rewrite py_nat_pad by exact Hw. cbn [omap].
  rewrite skipn_app, Hl, Nat.sub_diag, skipn_O, skipn_all2 by lia. cbn [app]. now rewrite Z2N.id by lia.
Qed.
