(* C05, composed for the identity of nodes: writing namespace U and parsing the written document (in any parsing context) yields
   exactly one row per node of U, in table order, with the node's class and its NodeId re-indexed to U's position in the parser's
   namespace list.  Composition of C06_first_uri / C06_node_elements (writer), C03_identifier_index (namespace map of the parser),
   the row theorem of C01 and C09's round trip through a namespace map. *)
From Coq Require Import String Ascii List Bool Arith NArith ZArith Lia.
Require Import PyStr PyInt Sexp Xml M_C09 T_C09 M_C08 Ns Table M_Parse T_Parse M_Write T_Write T_Write2.
Import ListNotations.
Open Scope char_scope.

(* the row theorem of C01 with the alias table made explicit *)
Lemma file_rows_amap E ns d ns1 fo : parse_file E ns d = Ok (ns1, fo) ->
  exists amap, (match d_aliases d with Some l => build_aliases l (zmap_of (snd (file_ns ns d))) | None => Ok [] end) = Ok amap /\
               Forall2 (row_matches E (zmap_of (snd (file_ns ns d))) amap) (d_nodes d) (fo_nodes fo).
Proof.
  unfold parse_file, file_ns. fold (with_ua ns).
  destruct (match d_aliases d with Some l => preprocess_aliases l | None => Ok tt end); [|discriminate]. cbn [rbind].
  destruct (match d_uris d with Some u => ns_extend (with_ua ns) u | None => (with_ua ns, []) end) as [n1 m]. cbn [snd].
  destruct (match d_aliases d with Some l => build_aliases l (zmap_of m) | None => Ok [] end) as [amap|]; [|discriminate]. cbn [rbind].
  destruct (d_nodes d) as [|e0 es] eqn:Ed; [discriminate|].
  destruct (rsequence _) as [rows|] eqn:Er; [|discriminate]. cbn [rbind]. intros H. inversion H; subst. cbn [fo_nodes].
  apply rsequence_Forall2 in Er. exists amap. split; [reflexivity|]. clear -Er. induction Er as [|e [row refs] es1 rows1 He _ IH]; cbn [map]; constructor; [|exact IH].
  eapply parse_node_matches; eauto.
Qed.
Lemma hd_lookup (k v : str) (l : list (str * str)) : hd_error l = Some (k, v) -> lookup_attr k l = Some v.
Proof. destruct l as [|[a b] l]; [discriminate|]. cbn. intros H. injection H as -> ->. now rewrite str_eqb_refl. Qed.
Theorem nodeids_roundtrip E ns p w d k refs ns1 fo :
  str_index (wp_uri w) (p_namespaces p) = Some k -> use_refs p w (Z.of_nat k) = Ok refs -> regular p k refs ->
  (forall r, In r (p_nodes p) -> valid (nr_nodeid r) = true) ->
  write_doc p w = Ok d -> parse_file E ns d = Ok (ns1, fo) ->
  exists j, nth_error ns1 j = Some (wp_uri w) /\
    map (fun r => (nr_cls r, nr_nodeid r)) (fo_nodes fo)
    = map (fun r => (nr_cls r, with_ns (nr_nodeid r) (Z.of_nat j))) (filter (fun r => Z.eqb (nid_ns (nr_nodeid r)) (Z.of_nat k)) (p_nodes p)).
Proof.
  intros Hk Hrefs Hreg Hvalid Hw Hp.
  destruct (C06_first_uri p w d k refs Hk Hrefs Hreg Hw) as [rest [attrs [req [Hu _]]]].
  destruct (write_doc_header p w d Hw) as [_ [_ [_ [_ Hal]]]].
  destruct (C03_identifier_index ns d (wp_uri w :: rest) 0 (wp_uri w) [] Hu eq_refl) as [j [Hz Hn]]. rewrite app_nil_r in Hn.
  pose proof (parse_file_ns E ns d ns1 fo Hp) as ->. exists j. split; [exact Hn|].
  destruct (file_rows_amap E ns d _ fo Hp) as [amap [Ha HF]]. rewrite Hal in Ha. cbn [build_aliases] in Ha. injection Ha as <-.
  pose proof (C06_node_elements p w d k refs Hk Hrefs Hreg Hw) as Hne.
  set (rows := filter (fun r => Z.eqb (nid_ns (nr_nodeid r)) (Z.of_nat k)) (p_nodes p)) in *.
  assert (Hin : forall r, In r rows -> In r (p_nodes p)) by (intros r Hr; apply filter_In in Hr; tauto).
  clearbody rows. revert rows Hne Hin. induction HF as [|e row es rs He _ IH]; intros rows Hne Hin.
  - destruct rows; [reflexivity|discriminate].
  - destruct rows as [|r rows]; [discriminate|]. cbn [map] in Hne. injection Hne as Hc Ha Hrest. cbn [map]. f_equal; [|apply IH; [exact Hrest|intros r0 Hr0; apply Hin; now right]].
    destruct He as [Hcls [[nid [Hl Hpn]] _]]. pose proof (hd_lookup _ _ _ Ha) as Hl'.
    assert (En : Some nid = Some (print_nodeid (with_nid_ns (nr_nodeid r) 1))) by (rewrite <- Hl; exact Hl'). injection En as ->.
    rewrite (roundtrip_map (with_nid_ns (nr_nodeid r) 1) _ (Z.of_nat j)) in Hpn.
    + injection Hpn as <-. rewrite Hcls, Hc. reflexivity.
    + unfold valid. cbn [with_nid_ns nid_type nid_value]. apply (Hvalid r). apply Hin. now left.
    + discriminate.
    + exact Hz.
Qed.
