(* C08, structure level: the text xml_encode writes for ANY value of the clean domain is the writer's spelling of an element tree;
   an XML reader gives back that tree, which is vtree v; and the value parser on vtree v returns the canonical form of v.
   Nested values (lists, extension objects, the EU structures) are handled by structural induction. *)
From Coq Require Import String Ascii List Bool NArith ZArith Lia ZifyN ZifyBool.
Require Import PyStr PyInt Sexp Xml M_C09 T_C09 M_C08 M_C08d T_C08.
Import ListNotations.
Open Scope char_scope.

(* ================= 1. the spelled form of an element ================= *)
Lemma flat_map_flat_map {A B C} (f : B -> list C) (g : A -> list B) l : flat_map f (flat_map g l) = flat_map (fun x => flat_map f (g x)) l.
Proof. induction l as [|x l IH]; [reflexivity|]. cbn [flat_map]. now rewrite flat_map_app, IH. Qed.
Lemma spell_elem q n a txt ch tl :
  spell_treeq q (Elem _ _ _ n a txt ch tl) =
  "<" :: n ++ padq q n ++ spell_attrs a ++ ">" :: escape txt ++ flat_map (spell_treeq q) ch ++ "<" :: "/" :: n ++ ">" :: escape tl.
Proof.
  unfold spell_treeq, spell. cbn [escape flat_map app items_ofq]. rewrite flat_map_app. cbn [flat_map seg_of fst snd app].
  rewrite app_nil_r, flat_map_flat_map. f_equal. repeat (rewrite <- app_assoc; cbn [app]). reflexivity.
Qed.

Lemma spell_xleaf a name text : noq name = false ->
  spell_treeq noq (xleaf a name text) = "<" :: name ++ spell_attrs a ++ ">" :: escape text ++ tag_close name.
Proof. intros Hq. unfold xleaf. rewrite spell_elem. unfold padq. rewrite Hq. cbn [app flat_map escape]. unfold tag_close. now rewrite <- ?app_assoc. Qed.
Lemma spell_xnode a name ch : noq name = false ->
  spell_treeq noq (xnode a name ch) = "<" :: name ++ spell_attrs a ++ ">" :: flat_map (spell_treeq noq) ch ++ tag_close name.
Proof. intros Hq. unfold xnode. rewrite spell_elem. unfold padq. rewrite Hq. cbn [app flat_map escape]. unfold tag_close. now rewrite <- ?app_assoc. Qed.
Lemma wrap_attrs name b content : wrap name b content = "<" :: name ++ spell_attrs (xa b) ++ ">" :: content ++ tag_close name.
Proof. unfold wrap, tag_open. rewrite spell_attrs_xa. destruct b; cbn [app]; rewrite <- ?app_assoc; cbn [app]; rewrite <- ?app_assoc; reflexivity. Qed.
Lemma wrap_leaf name b text : noq name = false -> wrap name b (escape text) = spell_treeq noq (xleaf (xa b) name text).
Proof. intros Hq. now rewrite wrap_attrs, spell_xleaf. Qed.
Lemma wrap_node name b ch : noq name = false -> wrap name b (flat_map (spell_treeq noq) ch) = spell_treeq noq (xnode (xa b) name ch).
Proof. intros Hq. now rewrite wrap_attrs, spell_xnode. Qed.

(* ================= 2. the element tree of a value, and xml_encode as its spelling ================= *)
(* text the writer splices in WITHOUT escaping is admissible when escaping would not have changed it
   (identifiers, locales and range bounds with markup characters are the recorded finding C08-unescaped-markup) *)
Lemma rawok_escape s : rawok s = true -> escape s = s.
Proof. unfold rawok. intros H. now apply str_eqb_eq in H. Qed.
Definition is_safe (c : ascii) : bool := negb (Ascii.eqb c "&") && negb (Ascii.eqb c "<") && negb (Ascii.eqb c ">").
Lemma safe_escape s : all_chars is_safe s = true -> escape s = s.
Proof.
  induction s as [|c s IH]; intros H; [reflexivity|]. cbn [all_chars] in H. apply andb_true_iff in H as [Hc Hs].
  unfold is_safe in Hc. apply andb_true_iff in Hc as [Hc C]. apply andb_true_iff in Hc as [A B].
  apply negb_true_iff in A, B, C. unfold escape in *. cbn [flat_map]. unfold esc_char. rewrite A, B, C. cbn [app]. f_equal. now apply IH.
Qed.
Lemma all_chars_app8 p a b : all_chars p (a ++ b) = all_chars p a && all_chars p b.
Proof. induction a as [|x a IH]; [reflexivity|]. cbn. now rewrite IH, andb_assoc. Qed.
Lemma all_chars_weaken (p q : ascii -> bool) s : (forall c, p c = true -> q c = true) -> all_chars p s = true -> all_chars q s = true.
Proof. intros W. induction s as [|c s IH]; [reflexivity|]. cbn. intros H. apply andb_true_iff in H as [Hc Hs]. now rewrite (W c Hc), IH. Qed.
Lemma digit_safe c : is_digit c = true -> is_safe c = true.
Proof. destruct c as [[] [] [] [] [] [] [] []]; cbn; intros H; try discriminate; reflexivity. Qed.
Lemma decZ_safe z : all_chars is_safe (decZ z) = true.
Proof.
  assert (D : forall n, all_chars is_safe (dec n) = true) by (intros n; apply (all_chars_weaken is_digit); [apply digit_safe|apply dec_all_digits]).
  destruct z; cbn [decZ]; try apply D; cbn [all_chars]; now rewrite D.
Qed.
Lemma pad_safe n z : all_chars is_safe (pad_to n (decZ z)) = true.
Proof.
  unfold pad_to. rewrite all_chars_app8, decZ_safe, andb_true_r. induction (n - length (decZ z)) as [|k IH]; [reflexivity|]. cbn. exact IH.
Qed.
Lemma iso_utc_safe d : all_chars is_safe (iso_utc d) = true.
Proof. unfold iso_utc, z2. repeat (rewrite all_chars_app8 || cbn [all_chars] || rewrite pad_safe); try reflexivity. Qed.
Lemma b64_char_safe i : is_safe (b64_char i) = true.
Proof.
  unfold b64_char. destruct (N.ltb_spec i 26); [|destruct (N.ltb_spec i 52); [|destruct (N.ltb_spec i 62); [|destruct (N.eqb_spec i 62); reflexivity]]].
  - assert (E : exists k, (k < 26)%nat /\ i = N.of_nat k) by (exists (N.to_nat i); split; lia). destruct E as [k [Hk ->]].
    do 26 (destruct k as [|k]; [reflexivity|]). lia.
  - assert (E : exists k, (k < 26)%nat /\ i = (26 + N.of_nat k)%N) by (exists (N.to_nat (i - 26)); split; lia). destruct E as [k [Hk ->]].
    do 26 (destruct k as [|k]; [reflexivity|]). lia.
  - assert (E : exists k, (k < 10)%nat /\ i = (52 + N.of_nat k)%N) by (exists (N.to_nat (i - 52)); split; lia). destruct E as [k [Hk ->]].
    do 10 (destruct k as [|k]; [reflexivity|]). lia.
Qed.
Lemma b64enc_safe b : all_chars is_safe (b64enc b) = true.
Proof.
  assert (G : forall n (l : str), length l <= n -> all_chars is_safe (b64enc l) = true).
  { induction n as [|n IH]; intros l Hl; [destruct l; [reflexivity|cbn in Hl; lia]|].
    destruct l as [|x [|y [|z r]]]; cbn [b64enc all_chars]; rewrite ?b64_char_safe; try reflexivity.
    cbn [andb]. apply IH. cbn [length] in Hl. lia. }
  now apply (G (length b)).
Qed.

(* induction on values with nested lists *)
Section UavInd.
  Variable P : uav -> Prop.
  Hypothesis Hleaf : forall v, match v with VExtObj _ _ | VList _ _ => False | _ => True end -> P v.
  Hypothesis Hext : forall tid b, P b -> P (VExtObj tid b).
  Hypothesis Hlist : forall tn items, Forall P items -> P (VList tn items).
  Fixpoint uav_ind' (v : uav) : P v :=
    match v with
    | VExtObj tid b => Hext tid b (uav_ind' b)
    | VList tn items => Hlist tn items ((fix go (l : list uav) : Forall P l :=
                                           match l with [] => Forall_nil _ | x :: r => Forall_cons x (uav_ind' x) (go r) end) items)
    | v => Hleaf v I
    end.
End UavInd.

Lemma xt_list a tn items : xt a (VList tn items) = omap (xnode a (lit "ListOf" ++ tn)) (xts (xt []) items).
Proof. cbn [xt]. f_equal. unfold xts. induction items as [|x r IH]; [reflexivity|]. cbn [omapM]. now rewrite <- IH. Qed.

Lemma wrap_leaf_raw name b s : noq name = false -> escape s = s -> wrap name b s = spell_treeq noq (xleaf (xa b) name s).
Proof. intros Hq He. rewrite <- He at 1. now apply wrap_leaf. Qed.
Lemma escape_ostr_opt s : match s with Some s => escape s | None => [] end = escape (ostr s).
Proof. destruct s; reflexivity. Qed.
Lemma spell_leaf_wrap b name text : noq name = false -> spell_treeq noq (xleaf (xa b) name text) = wrap name b (escape text).
Proof. intros Hq. now rewrite wrap_leaf. Qed.
Lemma spell_node_wrap b name ch : noq name = false -> spell_treeq noq (xnode (xa b) name ch) = wrap name b (flat_map (spell_treeq noq) ch).
Proof. intros Hq. now rewrite wrap_node. Qed.
(* turns the spelling of an explicit tree into nested wraps, the form xml_encode is written in *)
Ltac spell_norm :=
  unfold xlt, enc_loctext_inner, enc_eu_lt;
  repeat (first [ rewrite spell_node_wrap by reflexivity | rewrite (spell_node_wrap false) by reflexivity
                | rewrite spell_leaf_wrap by reflexivity | rewrite (spell_leaf_wrap false) by reflexivity
                | progress cbn [flat_map] ]);
  rewrite ?app_nil_r.
Theorem enc_spell : forall v b t, xt (xa b) v = Some t -> encode b v = spell_treeq noq t.
Proof.
  induction v as [v Hv | tid body IH | tn items IH] using uav_ind'; intros b t Hx.
  - destruct v; try contradiction; cbn [xt] in Hx; try discriminate.
    + injection Hx as <-. cbn [encode]. apply wrap_leaf_raw; [reflexivity|destruct b0 as [[]|]; reflexivity].
    + injection Hx as <-. cbn [encode]. apply wrap_leaf_raw; [apply name_facts_ikind|destruct z; [apply escape_decZ|reflexivity]].
    + destruct (rawok (float_text f)) eqn:R; [|discriminate]. injection Hx as <-. cbn [encode].
      apply wrap_leaf_raw; [destruct dbl; reflexivity|now apply rawok_escape].
    + injection Hx as <-. cbn [encode]. rewrite escape_ostr_opt. now apply wrap_leaf.
    + injection Hx as <-. cbn [encode]. rewrite escape_ostr_opt. now apply wrap_leaf.
    + injection Hx as <-. cbn [encode]. apply wrap_leaf_raw; [reflexivity|apply safe_escape, iso_utc_safe].
    + injection Hx as <-. cbn [encode]. apply wrap_leaf_raw; [reflexivity|destruct b0; [apply safe_escape, b64enc_safe|reflexivity]].
    + destruct (rawok (print_nodeid n)) eqn:R; [|discriminate]. injection Hx as <-. cbn [encode].
      apply wrap_leaf_raw; [reflexivity|now apply rawok_escape].
    + destruct (rawok (ostr locale)) eqn:R; [|discriminate]. injection Hx as <-. cbn [encode]. apply rawok_escape in R.
      spell_norm. rewrite R, escape_ostr_opt. reflexivity.
    + destruct (rawok (eu_locale dn_locale)) eqn:R1; [|discriminate]. destruct (rawok (eu_locale desc_locale)) eqn:R2; [|discriminate].
      cbn [andb] in Hx. injection Hx as <-. cbn [encode]. apply rawok_escape in R1, R2. unfold eu_locale in *.
      spell_norm. rewrite R1, R2, escape_decZ. reflexivity.
    + destruct (rawok lo) eqn:R1; [|discriminate]. destruct (rawok hi) eqn:R2; [|discriminate]. cbn [andb] in Hx. injection Hx as <-.
      cbn [encode]. apply rawok_escape in R1, R2. spell_norm. rewrite R1, R2. reflexivity.
    + injection Hx as <-. cbn [encode]. apply wrap_leaf_raw; [reflexivity|destruct z; [apply escape_decZ|reflexivity]].
  - cbn [xt] in Hx. destruct (xt [] body) as [bt|] eqn:Eb; [|discriminate]. destruct (rawok (print_nodeid tid)) eqn:R; [|discriminate].
    injection Hx as <-. cbn [encode]. rewrite (IH false bt Eb). apply rawok_escape in R. spell_norm. rewrite R. reflexivity.
  - rewrite xt_list in Hx. destruct (xts (xt []) items) as [ch|] eqn:Ex; [|discriminate]. injection Hx as <-. cbn [encode].
    assert (Hf : flat_map (encode false) items = flat_map (spell_treeq noq) ch).
    { clear -IH Ex. revert ch Ex. induction IH as [|x r Hxx _ IHr]; intros ch Ex; unfold xts in *; cbn [omapM] in Ex; [injection Ex as <-; reflexivity|].
      destruct (xt [] x) as [tx|] eqn:E1; [|discriminate]. destruct (omapM (xt []) r) as [ts|] eqn:E2; [|discriminate]. injection Ex as <-.
      cbn [flat_map]. now rewrite (Hxx false tx E1), (IHr ts eq_refl). }
    rewrite Hf. unfold xnode. rewrite spell_elem. unfold padq.
    change ("L" :: "i" :: "s" :: "t" :: "O" :: "f" :: tn) with (lit "ListOf" ++ tn).
    assert (Hq : noq (lit "ListOf" ++ tn) = true) by apply starts_with_app. rewrite Hq, spell_attrs_xa. unfold tag_close.
    cbn [escape flat_map]. rewrite ?app_nil_r. repeat (rewrite <- app_assoc; cbn [app]). destruct b; reflexivity.
Qed.

(* ================= 3. the tree is well-formed, and an XML reader resolves it to vtree v ================= *)
Lemma xa_keys b : forallb (fun kv : attr => key_ok2 (fst kv)) (xa b) = true.
Proof. destruct b; reflexivity. Qed.
Lemma xleaf_ok a name text : name_ok name = true -> forallb (fun kv : attr => key_ok2 (fst kv)) a = true -> tree_ok (xleaf a name text) = true.
Proof. intros H1 H2. cbn [xleaf tree_ok forallb]. rewrite H1, andb_true_r. exact H2. Qed.
Lemma xnode_ok a name ch : name_ok name = true -> forallb (fun kv : attr => key_ok2 (fst kv)) a = true -> forallb tree_ok ch = true -> tree_ok (xnode a name ch) = true.
Proof. intros H1 H2 H3. cbn [xnode tree_ok]. rewrite H1, H3, andb_true_r. exact H2. Qed.
Theorem xt_tree_ok : forall v a t, forallb (fun kv : attr => key_ok2 (fst kv)) a = true -> names_ok v = true -> xt a v = Some t -> tree_ok t = true.
Proof.
  induction v as [v Hv | tid body IH | tn items IH] using uav_ind'; intros a t Ha Hn Hx.
  - destruct v; try contradiction; cbn [xt] in Hx; try discriminate;
      repeat match type of Hx with (if ?c then _ else _) = _ => destruct c; [|discriminate] end; injection Hx as <-;
      try (apply xleaf_ok; [|exact Ha]; try reflexivity; try (destruct k; reflexivity); try (destruct dbl; reflexivity)).
    + apply xnode_ok; [reflexivity|exact Ha|reflexivity].
    + apply xnode_ok; [reflexivity|exact Ha|reflexivity].
    + apply xnode_ok; [reflexivity|exact Ha|reflexivity].
  - cbn [xt] in Hx. destruct (xt [] body) as [bt|] eqn:Eb; [|discriminate]. destruct (rawok (print_nodeid tid)); [|discriminate]. injection Hx as <-.
    cbn [names_ok] in Hn. pose proof (IH [] bt eq_refl Hn Eb) as Hb.
    apply xnode_ok; [reflexivity|exact Ha|]. cbn [forallb]. rewrite andb_true_r. apply andb_true_iff. split; [reflexivity|].
    apply xnode_ok; [reflexivity|reflexivity|]. cbn [forallb]. now rewrite Hb.
  - rewrite xt_list in Hx. destruct (xts (xt []) items) as [ch|] eqn:Ex; [|discriminate]. injection Hx as <-.
    cbn [names_ok] in Hn. apply andb_true_iff in Hn as [Hn Hi]. apply andb_true_iff in Hn as [Hn1 Hn2].
    apply xnode_ok; [exact Hn1|exact Ha|]. clear -IH Hi Ex. unfold xts in Ex. revert ch Ex.
    induction IH as [|x r Hxx _ IHr]; intros ch Ex; cbn [omapM] in Ex; [injection Ex as <-; reflexivity|].
    destruct (xt [] x) as [tx|] eqn:E1; [|discriminate]. destruct (omapM (xt []) r) as [ts|] eqn:E2; [|discriminate]. injection Ex as <-.
    cbn [forallb] in *. apply andb_true_iff in Hi as [Hi1 Hi2]. rewrite (Hxx [] tx eq_refl Hi1 E1). now apply IHr.
Qed.

Definition rootd (b : bool) : str := if b then [] else TYPES_NS.
Lemma resolve_root b name txt ch tl : has ":" name = false ->
  resolve (rootd b) [] (Elem str (list attr) str name (xa b) txt ch tl) =
  NElem TYPES_NS name [] (match txt with [] => None | _ => Some txt end) (map (resolve TYPES_NS []) ch).
Proof. intros Hc. cbn [resolve]. rewrite (split_once_none _ _ Hc). destruct b; reflexivity. Qed.
Lemma resolve_xleaf b name text : has ":" name = false -> resolve (rootd b) [] (xleaf (xa b) name text) = tleaf name text.
Proof. intros Hc. unfold xleaf. now rewrite resolve_root. Qed.
Lemma resolve_xnode b name ch : has ":" name = false -> resolve (rootd b) [] (xnode (xa b) name ch) = tnode name (map (resolve TYPES_NS []) ch).
Proof. intros Hc. unfold xnode. now rewrite resolve_root. Qed.
Lemma vtree_list tn items : vtree (VList tn items) = omap (tnode (lit "ListOf" ++ tn)) (omapM vtree items).
Proof.
  cbn [vtree].
  assert (G : forall l acc,
    (fix go (l : list uav) (acc : list nxml) {struct l} : option nxml :=
       match l with
       | [] => Some (tnode (lit "ListOf" ++ tn) (rev acc))
       | x :: r => match vtree x with Some t => go r (t :: acc) | None => None end
       end) l acc = omap (fun ts => tnode (lit "ListOf" ++ tn) (rev acc ++ ts)) (omapM vtree l)).
  { induction l as [|x r IH]; intros acc; [cbn; now rewrite app_nil_r|]. cbn [omapM]. destruct (vtree x) as [t|]; [|reflexivity].
    rewrite IH. destruct (omapM vtree r) as [ts|]; [|reflexivity]. cbn [omap rev]. now rewrite <- app_assoc. }
  rewrite G. destruct (omapM vtree items); reflexivity.
Qed.
(* the XML reader's view of the written tree is vtree v: xml_encode at text level and vtree at element level describe the same document *)
Theorem xt_resolve : forall v b t, names_ok v = true -> xt (xa b) v = Some t -> vtree v = Some (resolve (rootd b) [] t).
Proof.
  induction v as [v Hv | tid body IH | tn items IH] using uav_ind'; intros b t Hn Hx.
  - destruct v; try contradiction; cbn [xt] in Hx; try discriminate;
      repeat match type of Hx with (if ?c then _ else _) = _ => destruct c; [|discriminate] end; injection Hx as <-; cbn [vtree];
      try (rewrite resolve_xleaf by (try reflexivity; try (destruct k; reflexivity); try (destruct dbl; reflexivity)); reflexivity).
    + rewrite resolve_xnode by reflexivity. reflexivity.
    + rewrite resolve_xnode by reflexivity. reflexivity.
    + rewrite resolve_xnode by reflexivity. reflexivity.
  - cbn [xt] in Hx. destruct (xt [] body) as [bt|] eqn:Eb; [|discriminate]. destruct (rawok (print_nodeid tid)); [|discriminate]. injection Hx as <-.
    cbn [names_ok] in Hn. cbn [vtree]. rewrite (IH false bt Hn Eb). rewrite resolve_xnode by reflexivity. reflexivity.
  - rewrite xt_list in Hx. destruct (xts (xt []) items) as [ch|] eqn:Ex; [|discriminate]. injection Hx as <-.
    cbn [names_ok] in Hn. apply andb_true_iff in Hn as [Hn Hi]. apply andb_true_iff in Hn as [Hn1 Hn2]. apply negb_true_iff in Hn2.
    rewrite vtree_list, resolve_xnode by exact Hn2.
    assert (Hm : omapM vtree items = Some (map (resolve TYPES_NS []) ch)).
    { clear -IH Hi Ex. unfold xts in Ex. revert ch Ex.
      induction IH as [|x r Hxx _ IHr]; intros ch Ex; cbn [omapM] in Ex; [injection Ex as <-; reflexivity|].
      destruct (xt [] x) as [tx|] eqn:E1; [|discriminate]. destruct (omapM (xt []) r) as [ts|] eqn:E2; [|discriminate]. injection Ex as <-.
      cbn [forallb] in Hi. apply andb_true_iff in Hi as [Hi1 Hi2]. cbn [omapM map]. rewrite (Hxx false tx Hi1 E1). now rewrite (IHr Hi2 ts eq_refl). }
    rewrite Hm. reflexivity.
Qed.

(* ================= 4. reading back the written text = decoding vtree v ================= *)
Theorem encode_read_as_vtree E v b t : names_ok v = true -> xt (xa b) v = Some t -> has CR (encode b v) = false ->
  exists n, vtree v = Some n /\ decode_text E (negb b) (encode b v) = decode E n.
Proof.
  intros Hn Hx Hcr. exists (resolve (rootd b) [] t). split; [now apply xt_resolve|].
  unfold decode_text. rewrite (enc_spell v b t Hx). rewrite xparse_spellq.
  - destruct b; reflexivity.
  - apply (xt_tree_ok v (xa b)); [apply xa_keys|exact Hn|exact Hx].
  - now rewrite <- (enc_spell v b t Hx).
Qed.

(* ================= 5. base64: every byte string is decoded from its encoding ================= *)
Ltac Zify.zify_post_hook ::= Z.div_mod_to_equations.
Lemma b64_val_char i : (i < 64)%N -> b64_val (b64_char i) = Some i.
Proof.
  intros H. assert (E : exists k, (k < 64)%nat /\ i = N.of_nat k) by (exists (N.to_nat i); split; lia). destruct E as [k [Hk ->]].
  do 64 (destruct k as [|k]; [reflexivity|]). lia.
Qed.
Lemma b64_char_not_pad i : Ascii.eqb (b64_char i) "=" = false.
Proof.
  unfold b64_char. destruct (N.ltb_spec i 26); [|destruct (N.ltb_spec i 52); [|destruct (N.ltb_spec i 62); [|destruct (N.eqb_spec i 62); reflexivity]]].
  - assert (E : exists k, (k < 26)%nat /\ i = N.of_nat k) by (exists (N.to_nat i); split; lia). destruct E as [k [Hk ->]].
    do 26 (destruct k as [|k]; [reflexivity|]). lia.
  - assert (E : exists k, (k < 26)%nat /\ i = (26 + N.of_nat k)%N) by (exists (N.to_nat (i - 26)); split; lia). destruct E as [k [Hk ->]].
    do 26 (destruct k as [|k]; [reflexivity|]). lia.
  - assert (E : exists k, (k < 10)%nat /\ i = (52 + N.of_nat k)%N) by (exists (N.to_nat (i - 52)); split; lia). destruct E as [k [Hk ->]].
    do 10 (destruct k as [|k]; [reflexivity|]). lia.
Qed.
Lemma byte_lt c : (N_of_ascii c < 256)%N. Proof. apply N_ascii_bounded. Qed.
Lemma ascii_back c : ascii_of_N (N_of_ascii c) = c. Proof. apply ascii_N_embedding. Qed.
(* the arithmetic of one group of three bytes *)
Lemma quad3 X Y Z : (X < 256)%N -> (Y < 256)%N -> (Z < 256)%N ->
  let n := (X * 65536 + Y * 256 + Z)%N in
  let va := (n / 262144)%N in let vb := ((n / 4096) mod 64)%N in let vc := ((n / 64) mod 64)%N in let vd := (n mod 64)%N in
  (va < 64 /\ vb < 64 /\ vc < 64 /\ vd < 64 /\ (va * 4 + vb / 16) mod 256 = X /\ ((vb mod 16) * 16 + vc / 4) mod 256 = Y /\ ((vc mod 4) * 64 + vd) mod 256 = Z)%N.
Proof. intros HX HY HZ. cbv zeta. repeat split; lia. Qed.
Lemma quad2 X Y : (X < 256)%N -> (Y < 256)%N ->
  let n := (X * 65536 + Y * 256)%N in
  let va := (n / 262144)%N in let vb := ((n / 4096) mod 64)%N in let vc := ((n / 64) mod 64)%N in
  (va < 64 /\ vb < 64 /\ vc < 64 /\ (va * 4 + vb / 16) mod 256 = X /\ ((vb mod 16) * 16 + vc / 4) mod 256 = Y)%N.
Proof. intros HX HY. cbv zeta. repeat split; lia. Qed.
Lemma quad1 X : (X < 256)%N ->
  let n := (X * 65536)%N in let va := (n / 262144)%N in let vb := ((n / 4096) mod 64)%N in
  (va < 64 /\ vb < 64 /\ (va * 4 + vb / 16) mod 256 = X)%N.
Proof. intros HX. cbv zeta. repeat split; lia. Qed.
Theorem b64_roundtrip_fuel : forall n b fuel, length b <= n -> length (b64enc b) <= fuel -> b64dec_fuel fuel (b64enc b) = Some b.
Proof.
  induction n as [|n IH]; intros b fuel Hb Hf.
  - destruct b; [destruct fuel; reflexivity|cbn in Hb; lia].
  - destruct b as [|x [|y [|z r]]].
    + destruct fuel; reflexivity.
    + cbn [b64enc] in *. destruct fuel as [|f]; [cbn in Hf; lia|]. cbn [b64dec_fuel]. change (Ascii.eqb "=" "=") with true. cbn [andb].
      destruct (quad1 (N_of_ascii x) (byte_lt x)) as [A [B C]]. rewrite (b64_val_char _ A), (b64_val_char _ B), C, ascii_back. reflexivity.
    + cbn [b64enc] in *. destruct fuel as [|f]; [cbn in Hf; lia|]. cbn [b64dec_fuel]. change (Ascii.eqb "=" "=") with true. cbn [andb].
      rewrite b64_char_not_pad.
      destruct (quad2 (N_of_ascii x) (N_of_ascii y) (byte_lt x) (byte_lt y)) as [A [B [C [D F]]]].
      rewrite (b64_val_char _ A), (b64_val_char _ B), (b64_val_char _ C), D, F, !ascii_back. reflexivity.
    + cbn [b64enc] in *. destruct fuel as [|f]; [cbn in Hf; lia|]. cbn [b64dec_fuel]. rewrite b64_char_not_pad, andb_false_r.
      destruct (quad3 (N_of_ascii x) (N_of_ascii y) (N_of_ascii z) (byte_lt x) (byte_lt y) (byte_lt z)) as [A [B [C [D [F [G H]]]]]].
      rewrite (b64_val_char _ A), (b64_val_char _ B), (b64_val_char _ C), (b64_val_char _ D), F, G, H, !ascii_back.
      rewrite (IH r f); [reflexivity| cbn [length] in Hb; lia | cbn [length] in Hf; lia].
Qed.
Theorem b64_roundtrip b : b64dec (b64enc b) = Some b.
Proof. unfold b64dec. now apply (b64_roundtrip_fuel (length b)). Qed.
Lemma b64enc_nonempty b : b <> [] -> b64enc b <> [].
Proof. destruct b as [|x [|y [|z r]]]; intros H; try congruence; discriminate. Qed.
Lemma safe_nospace_b64 b : strip (b64enc b) = b64enc b.
Proof.
  apply strip_nospace.
  assert (G : forall n (l : str), length l <= n -> all_chars (fun c => negb (is_space c)) (b64enc l) = true).
  { assert (S : forall i, negb (is_space (b64_char i)) = true).
    { intros i. unfold b64_char. destruct (N.ltb_spec i 26); [|destruct (N.ltb_spec i 52); [|destruct (N.ltb_spec i 62); [|destruct (N.eqb_spec i 62); reflexivity]]].
      - assert (E : exists k, (k < 26)%nat /\ i = N.of_nat k) by (exists (N.to_nat i); split; lia). destruct E as [k [Hk ->]].
        do 26 (destruct k as [|k]; [reflexivity|]). lia.
      - assert (E : exists k, (k < 26)%nat /\ i = (26 + N.of_nat k)%N) by (exists (N.to_nat (i - 26)); split; lia). destruct E as [k [Hk ->]].
        do 26 (destruct k as [|k]; [reflexivity|]). lia.
      - assert (E : exists k, (k < 10)%nat /\ i = (52 + N.of_nat k)%N) by (exists (N.to_nat (i - 52)); split; lia). destruct E as [k [Hk ->]].
        do 10 (destruct k as [|k]; [reflexivity|]). lia. }
    induction n as [|n IH]; intros l Hl; [destruct l; [reflexivity|cbn in Hl; lia]|].
    destruct l as [|x [|y [|z r]]]; cbn [b64enc all_chars]; rewrite ?S; try reflexivity.
    cbn [andb]. apply IH. cbn [length] in Hl. lia. }
  now apply (G (length b)).
Qed.

(* ================= 6. DateTime: the written text is read back as the UTC instant ================= *)
Lemma take_while_stop p a x r : all_chars p a = true -> p x = false -> take_while p (a ++ x :: r) = (a, x :: r).
Proof.
  induction a as [|c a IH]; intros Ha Hx; [cbn; now rewrite Hx|]. cbn [all_chars] in Ha. apply andb_true_iff in Ha as [Hc Ha].
  cbn [app take_while]. rewrite Hc, (IH Ha Hx). reflexivity.
Qed.
Lemma pad_decZ w z : (0 <= z)%Z -> pad_to w (decZ z) = pad_to w (dec (Z.to_N z)).
Proof. intros H. destruct z; try reflexivity. lia. Qed.
Lemma days_in_le y m : (days_in y m <= 31)%Z.
Proof. unfold days_in. destruct (m =? 2)%Z; [destruct (is_leap y); lia|]. destruct ((m =? 4) || (m =? 6) || (m =? 9) || (m =? 11))%Z; lia. Qed.
Lemma obind_Some {A B} (x : A) (f : A -> option B) : obind (Some x) f = f x. Proof. reflexivity. Qed.
Theorem parse_iso_written d : dt_wf (to_utc d) = true -> parse_iso (iso_utc d) = Some (as_utc d).
Proof.
  unfold dt_wf, as_utc, iso_utc, z2. set (u := to_utc d). intros H.
  repeat (apply andb_true_iff in H as [H ?]).
  repeat match goal with Hx : (_ <=? _)%Z = true |- _ => apply Z.leb_le in Hx | Hx : (_ <? _)%Z = true |- _ => apply Z.ltb_lt in Hx end.
  unfold parse_iso.
  rewrite <- ?app_assoc. cbn [app].
  rewrite (digits_n_pad 4 (dy u)) by (cbn; lia). rewrite obind_Some. cbv beta iota. cbn [expect]. change (Ascii.eqb "-" "-") with true. cbv iota. rewrite obind_Some. cbv beta.
  rewrite (digits_n_pad 2 (dmo u)) by (cbn; lia). rewrite obind_Some. cbv beta iota. cbn [expect]. change (Ascii.eqb "-" "-") with true. cbv iota. rewrite obind_Some. cbv beta.
  rewrite (digits_n_pad 2 (dd u)) by (cbn; pose proof (days_in_le (dy u) (dmo u)); lia). rewrite obind_Some. cbv beta iota. cbn [expect]. change (Ascii.eqb "T" "T") with true. cbv iota. rewrite obind_Some. cbv beta.
  rewrite (digits_n_pad 2 (dh u)) by (cbn; lia). rewrite obind_Some. cbv beta iota. cbn [expect]. change (Ascii.eqb ":" ":") with true. cbv iota. rewrite obind_Some. cbv beta.
  rewrite (digits_n_pad 2 (dmi u)) by (cbn; lia). rewrite obind_Some. cbv beta iota. cbn [expect]. change (Ascii.eqb ":" ":") with true. cbv iota. rewrite obind_Some. cbv beta.
  rewrite (digits_n_pad 2 (ds u)) by (cbn; lia). rewrite obind_Some. cbv beta iota.
  rewrite (pad_decZ 6 (dus u)) by lia.
  assert (Hn : (Z.to_N (dus u) < 10 ^ N.of_nat 6)%N) by (cbn; lia).
  rewrite (take_while_stop is_digit (pad_to 6 (dec (Z.to_N (dus u)))) "Z" []) by (apply all_digits_pad || reflexivity).
  unfold len_in. rewrite (pad_length 6 _ ltac:(lia) Hn). cbn [Nat.leb andb Nat.sub repeat]. rewrite app_nil_r, (py_nat_pad 6) by lia.
  cbn [omap]. rewrite obind_Some. cbv beta iota. rewrite obind_Some. cbv beta. rewrite Z2N.id by lia.
  repeat match goal with Hx : (_ <= _)%Z |- _ => apply Z.leb_le in Hx | Hx : (_ < _)%Z |- _ => apply Z.ltb_lt in Hx end.
  repeat match goal with Hx : _ = true |- _ => rewrite Hx; clear Hx end. reflexivity.
Qed.

(* ---- the civil-date arithmetic of astimezone: every day number is a valid date ---- *)
Definition civ_doe (doe : Z) : Z * Z * Z :=
  let yoe := ((doe - doe / 1460 + doe / 36524 - doe / 146096) / 365)%Z in
  let doy := (doe - (365 * yoe + yoe / 4 - yoe / 100))%Z in
  let mp := ((5 * doy + 2) / 153)%Z in
  let d := (doy - (153 * mp + 2) / 5 + 1)%Z in
  let m := (if (mp <? 10)%Z then mp + 3 else mp - 9)%Z in
  ((if (m <=? 2)%Z then yoe + 1 else yoe)%Z, m, d).
Definition civ_check (doe : Z) : bool :=
  let '(yo, m, d) := civ_doe doe in ((0 <=? yo) && (yo <=? 400) && (1 <=? m) && (m <=? 12) && (1 <=? d) && (d <=? days_in yo m))%Z.
Definition sweep_step (st : Z * bool) : Z * bool := ((fst st + 1)%Z, snd st && civ_check (fst st)).
Lemma sweep_inv n : forall i, (0 <= i < Z.of_N n)%Z -> snd (N.iter n sweep_step (0%Z, true)) = true -> civ_check i = true.
Proof.
  induction n as [|n IH] using N.peano_ind; intros i Hi; [lia|].
  rewrite N.iter_succ. unfold sweep_step at 1. cbn [fst snd].
  assert (F : forall k, fst (N.iter k sweep_step (0%Z, true)) = Z.of_N k).
  { induction k as [|k IHk] using N.peano_ind; [reflexivity|]. rewrite N.iter_succ. unfold sweep_step at 1. cbn [fst]. rewrite IHk. lia. }
  intros H. apply andb_true_iff in H as [H1 H2]. rewrite F in H2.
  destruct (Z.eq_dec i (Z.of_N n)) as [->|Hne]; [exact H2|]. apply IH; [lia|exact H1].
Qed.
Lemma civ_sweep : snd (N.iter 146097 sweep_step (0%Z, true)) = true.
Proof. vm_compute. reflexivity. Qed.
Lemma civ_check_all doe : (0 <= doe < 146097)%Z -> civ_check doe = true.
Proof. intros H. apply (sweep_inv 146097); [exact H|exact civ_sweep]. Qed.
Lemma is_leap_period y k : is_leap (y + k * 400) = is_leap y.
Proof.
  unfold is_leap.
  assert (A : ((y + k * 400) mod 4 = y mod 4)%Z) by (replace (k * 400)%Z with ((k * 100) * 4)%Z by lia; apply Z.mod_add; lia).
  assert (B : ((y + k * 400) mod 100 = y mod 100)%Z) by (replace (k * 400)%Z with ((k * 4) * 100)%Z by lia; apply Z.mod_add; lia).
  assert (C : ((y + k * 400) mod 400 = y mod 400)%Z) by (apply Z.mod_add; lia).
  now rewrite A, B, C.
Qed.
Lemma days_in_period y k m : days_in (y + k * 400) m = days_in y m.
Proof. unfold days_in. now rewrite is_leap_period. Qed.
Lemma civil_from_days_eq z :
  civil_from_days z = (let era := ((z + 719468) / 146097)%Z in let '(yo, m, d) := civ_doe (z + 719468 - era * 146097) in ((yo + era * 400)%Z, m, d)).
Proof.
  unfold civil_from_days, civ_doe. cbv zeta.
  set (era := ((z + 719468) / 146097)%Z). set (doe := (z + 719468 - era * 146097)%Z).
  set (yoe := ((doe - doe / 1460 + doe / 36524 - doe / 146096) / 365)%Z).
  set (doy := (doe - (365 * yoe + yoe / 4 - yoe / 100))%Z). set (mp := ((5 * doy + 2) / 153)%Z).
  destruct ((if (mp <? 10)%Z then mp + 3 else mp - 9) <=? 2)%Z; f_equal; f_equal; lia.
Qed.
Theorem civil_valid z : let '(y, m, d) := civil_from_days z in (1 <= m <= 12 /\ 1 <= d <= days_in y m)%Z.
Proof.
  rewrite civil_from_days_eq. cbv zeta. set (era := ((z + 719468) / 146097)%Z).
  assert (Hd : (0 <= z + 719468 - era * 146097 < 146097)%Z) by (subst era; lia).
  pose proof (civ_check_all _ Hd) as Hc. unfold civ_check in Hc. destruct (civ_doe (z + 719468 - era * 146097)) as [[yo m] d].
  repeat (apply andb_true_iff in Hc as [Hc ?]).
  repeat match goal with Hx : (_ <=? _)%Z = true |- _ => apply Z.leb_le in Hx end. rewrite days_in_period. lia.
Qed.
(* an aware DateTime whose UTC instant lies in years 1..9999 is written as a valid date *)
Theorem to_utc_wf d : (0 <= ds d < 60)%Z -> (0 <= dus d < 1000000)%Z -> (0 <= dh d < 24)%Z -> (0 <= dmi d < 60)%Z ->
  (match dtz d with Some off => off <> 0%Z | None => False end) -> dt_in_range d = true -> dt_wf (to_utc d) = true.
Proof.
  intros Hs Hus Hh Hmi Htz Hr. unfold dt_in_range in Hr. unfold dt_wf.
  destruct (dtz d) as [off|] eqn:Etz; [|contradiction].
  assert (Eu : to_utc d =
    let total := (dh d * 60 + dmi d - off)%Z in let shift := (total / 1440)%Z in let rem := (total mod 1440)%Z in
    let '(y, m, dd') := civil_from_days (days_from_civil (dy d) (dmo d) (dd d) + shift) in
    {| dy := y; dmo := m; dd := dd'; dh := (rem / 60)%Z; dmi := (rem mod 60)%Z; ds := ds d; dus := dus d; dtz := Some 0%Z |}).
  { unfold to_utc. rewrite Etz. destruct off; try reflexivity. contradiction. }
  rewrite Eu in *. cbv zeta in *.
  pose proof (civil_valid (days_from_civil (dy d) (dmo d) (dd d) + (dh d * 60 + dmi d - off) / 1440)) as Hv.
  destruct (civil_from_days (days_from_civil (dy d) (dmo d) (dd d) + (dh d * 60 + dmi d - off) / 1440)) as [[y m] dd'].
  cbn [dy dmo dd dh dmi ds dus] in *. apply andb_true_iff in Hr as [Hr1 Hr2].
  rewrite Hr1, Hr2. cbn [andb].
  repeat (apply andb_true_iff; split); try (apply Z.leb_le; lia); try (apply Z.ltb_lt; lia).
Qed.

(* ================= 7. the value parser on vtree v ================= *)
(* dispatch of parse_value_element on the element name (closed computations) *)
Lemma decode_String E a text ch : decode E (NElem TYPES_NS (lit "String") a text ch) = Ok (VString (norm_empty (strip_opt text))).
Proof. reflexivity. Qed.
Lemma decode_Guid E a text ch : decode E (NElem TYPES_NS (lit "Guid") a text ch) = Ok (VGuid (norm_empty (strip_opt text))).
Proof. reflexivity. Qed.
Lemma decode_LocText E a text ch : decode E (NElem TYPES_NS (lit "LocalizedText") a text ch) = rmap (fun '(t, l) => VLocText t l) (dec_loctext ch).
Proof. reflexivity. Qed.
Lemma decode_ByteString E a text ch : decode E (NElem TYPES_NS (lit "ByteString") a text ch) =
  match strip_opt text with None => Ok (VByteString None) | Some s => match b64dec s with Some b => Ok (VByteString (norm_empty (Some b))) | None => Err EUnsupported end end.
Proof. reflexivity. Qed.
Lemma decode_DateTime E a text ch : decode E (NElem TYPES_NS (lit "DateTime") a text ch) =
  match strip_opt text with None => Err EType | Some s => match parse_iso s with Some d => Ok (VDateTime d) | None => Err EUnsupported end end.
Proof. reflexivity. Qed.
Lemma decode_Boolean E a text ch : decode E (NElem TYPES_NS (lit "Boolean") a text ch) =
  if nonempty (strip_opt text) then Ok (VBool (Some (str_eqb (ostr (strip_opt text)) (lit "true") || str_eqb (ostr (strip_opt text)) (lit "True")))) else Ok (VBool None).
Proof. reflexivity. Qed.
Lemma decode_Float E (d : bool) a text ch : decode E (NElem TYPES_NS (if d then lit "Double" else lit "Float") a text ch) =
  if nonempty (strip_opt text) then rmap (fun r => VFloat d (Some r)) (fparse E (ostr (strip_opt text))) else Ok (VFloat d None).
Proof. destruct d; reflexivity. Qed.
Lemma decode_Int E k a text ch : decode E (NElem TYPES_NS (ikind_name k) a text ch) =
  if nonempty (strip_opt text) then match py_int (ostr (strip_opt text)) with Some z => if ikind_unsigned k && (z <? 0)%Z then Err EValue else Ok (VInt k (Some z)) | None => Err EValue end
  else Ok (VInt k None).
Proof. destruct k; reflexivity. Qed.

Lemma ntext_tleaf name s : ntext (tleaf name s) = norm_empty (Some s).
Proof. destruct s; reflexivity. Qed.
Lemma dec_loctext_children t l : loc_ok l = true ->
  dec_loctext [tleaf (lit "Locale") (ostr l); tleaf (lit "Text") (ostr t)] = Ok (norm_empty t, canon_locale l).
Proof.
  intros Hok. unfold dec_loctext.
  change (nfind TYPES_NS (lit "Text") [tleaf (lit "Locale") (ostr l); tleaf (lit "Text") (ostr t)]) with (Some (tleaf (lit "Text") (ostr t))).
  change (nfind TYPES_NS (lit "Locale") [tleaf (lit "Locale") (ostr l); tleaf (lit "Text") (ostr t)]) with (Some (tleaf (lit "Locale") (ostr l))).
  cbv beta iota. rewrite !ntext_tleaf.
  assert (Ht : norm_empty (Some (ostr t)) = norm_empty t) by (destruct t as [[|]|]; reflexivity). rewrite Ht.
  assert (Hl : match norm_empty (Some (ostr l)) with Some raw => match strip raw with [] => None | _ :: _ => Some raw end | None => None end = canon_locale l).
  { destruct l as [[|c r]|]; reflexivity. }
  rewrite Hl. unfold loc_ok in Hok. destruct (canon_locale l); [now rewrite Hok|reflexivity].
Qed.

(* the canonical form a value is read back as *)

Lemma dt_ok_written d : dt_ok d = true -> parse_iso (iso_utc d) = Some (as_utc d).
Proof.
  unfold dt_ok. intros H. apply andb_true_iff in H as [H Hw]. apply andb_true_iff in H as [H Hr].
  apply parse_iso_written.
  repeat (apply andb_true_iff in H as [H ?]).
  repeat match goal with Hx : (_ <=? _)%Z = true |- _ => apply Z.leb_le in Hx | Hx : (_ <? _)%Z = true |- _ => apply Z.ltb_lt in Hx end.
  destruct (dtz d) as [[|p|p]|] eqn:Etz.
  - unfold to_utc. now rewrite Etz.
  - apply to_utc_wf; try lia; [rewrite Etz; discriminate|exact Hr].
  - apply to_utc_wf; try lia; [rewrite Etz; discriminate|exact Hr].
  - unfold to_utc. now rewrite Etz.
Qed.
Lemma iso_utc_nonempty d : iso_utc d <> [].
Proof. unfold iso_utc. destruct (pad_to 4 (decZ (dy (to_utc d)))); discriminate. Qed.
Lemma pad_all (p : ascii -> bool) : (forall c, is_digit c = true -> p c = true) -> p "-" = true -> forall n z, all_chars p (pad_to n (decZ z)) = true.
Proof.
  intros Hd Hm n z. unfold pad_to. rewrite all_chars_app8.
  assert (D : forall k, all_chars p (dec k) = true) by (intros k; apply (all_chars_weaken is_digit); [exact Hd|apply dec_all_digits]).
  assert (Z0 : p "0" = true) by (apply Hd; reflexivity).
  apply andb_true_iff. split.
  - induction (n - length (decZ z)) as [|k IH]; [reflexivity|]. cbn. now rewrite Z0.
  - destruct z; cbn [decZ]; try apply D. cbn [all_chars]. now rewrite Hm, D.
Qed.
Lemma iso_utc_nospace d : strip (iso_utc d) = iso_utc d.
Proof.
  apply strip_nospace. unfold iso_utc, z2.
  assert (Hd : forall c, is_digit c = true -> negb (is_space c) = true) by (intros c; destruct c as [[] [] [] [] [] [] [] []]; cbn; intros H; try discriminate; reflexivity).
  repeat (rewrite all_chars_app8 || cbn [all_chars] || rewrite (pad_all _ Hd eq_refl)); try reflexivity.
Qed.

Lemma nfind_hit ns name c l : str_eqb (nns c) ns && str_eqb (nname c) name = true -> nfind ns name (c :: l) = Some c.
Proof. intros H. cbn [nfind]. now rewrite H. Qed.
Lemma nfind_miss ns name c l : str_eqb (nns c) ns && str_eqb (nname c) name = false -> nfind ns name (c :: l) = nfind ns name l.
Proof. intros H. cbn [nfind]. now rewrite H. Qed.
Ltac nf := repeat (first [rewrite nfind_hit by reflexivity | rewrite nfind_miss by reflexivity]).

Lemma canon_text_leaf s : norm_empty (strip_opt (ntext (tleaf (lit "String") (ostr s)))) = canon_text s /\
                          norm_empty (strip_opt (ntext (tleaf (lit "Guid") (ostr s)))) = canon_text s.
Proof. destruct s as [[|c r]|]; split; reflexivity. Qed.
Lemma plain_nonempty (r : str) : plain r = true -> exists (c : ascii) (r2 : str), r = c :: r2.
Proof. unfold plain. destruct r as [|c r']; [rewrite andb_false_r; discriminate|]. intros _. eauto. Qed.
Lemma decode_float_leaf E (d : bool) r : float_ok E r = true -> decode E (tleaf (if d then lit "Double" else lit "Float") r) = Ok (VFloat d (Some r)).
Proof.
  unfold float_ok. intros H. apply andb_true_iff in H as [Hp Hf]. destruct (plain_nonempty r Hp) as [c [r' Er]].
  unfold plain in Hp. apply andb_true_iff in Hp as [Hp _]. pose proof (plain_strip r Hp) as Hs.
  subst r. unfold tleaf. rewrite decode_Float. cbv iota. cbn [strip_opt omap]. rewrite Hs. cbn [nonempty ostr].
  destruct (fparse E (c :: r')) as [r''|]; [|discriminate]. apply str_eqb_eq in Hf. subst r''. reflexivity.
Qed.
Lemma print_nodeid_nonempty n : print_nodeid n <> [].
Proof. unfold print_nodeid. destruct (nid_ns n =? 0)%Z; discriminate. Qed.

Lemma decode_eu_tree E uri unit t1 l1 t2 l2 : str_eqb uri [] = false -> loc_ok (Some (eu_locale l1)) = true -> loc_ok (Some (eu_locale l2)) = true ->
  decode E (tnode (lit "ExtensionObject")
              [tnode (lit "TypeId") [tleaf (lit "Identifier") (lit "i=888")];
               tnode (lit "Body") [tnode (lit "EUInformation")
                  [tleaf (lit "NamespaceUri") uri; tleaf (lit "UnitId") (decZ unit);
                   tloctext (lit "DisplayName") t1 l1 (Some (lit "en")); tloctext (lit "Description") t2 l2 (Some (lit "en"))]]])
  = Ok (VEUInfo (rstrip uri) unit (norm_empty t1) (canon_locale (Some (eu_locale l1))) (norm_empty t2) (canon_locale (Some (eu_locale l2)))).
Proof.
  intros Hu H1 H2.
  set (eu := tnode (lit "EUInformation") [tleaf (lit "NamespaceUri") uri; tleaf (lit "UnitId") (decZ unit);
                   tloctext (lit "DisplayName") t1 l1 (Some (lit "en")); tloctext (lit "Description") t2 l2 (Some (lit "en"))]).
  change (decode E (tnode (lit "ExtensionObject") [tnode (lit "TypeId") [tleaf (lit "Identifier") (lit "i=888")]; tnode (lit "Body") [eu]]))
    with (dec_eu E (Some (tnode (lit "Body") [eu]))).
  unfold dec_eu. cbn [nchildren tnode]. nf. subst eu. cbn [nchildren tnode]. nf.
  rewrite !ntext_tleaf. destruct uri as [|uc ur]; [discriminate|]. cbn [norm_empty].
  pose proof (decZ_nonempty unit) as Hne. destruct (decZ unit) as [|dc dr] eqn:Ed; [congruence|]. cbn [norm_empty]. rewrite <- Ed.
  rewrite strip_decZ, py_int_decZ. unfold tloctext. cbn [nchildren tnode].
  change (match l1 with Some l => l | None => ostr (Some (lit "en")) end) with (ostr (Some (eu_locale l1))).
  change (match l2 with Some l => l | None => ostr (Some (lit "en")) end) with (ostr (Some (eu_locale l2))).
  rewrite (dec_loctext_children t1 (Some (eu_locale l1)) H1), (dec_loctext_children t2 (Some (eu_locale l2)) H2). reflexivity.
Qed.
Lemma float_ok_parts E r : float_ok E r = true -> fparse E (strip r) = Ok r /\ r <> [].
Proof.
  unfold float_ok. intros H. apply andb_true_iff in H as [Hp Hf]. destruct (plain_nonempty r Hp) as [c [r' Er]].
  unfold plain in Hp. apply andb_true_iff in Hp as [Hp _]. rewrite (plain_strip r Hp).
  destruct (fparse E r) as [r''|]; [|discriminate]. apply str_eqb_eq in Hf. subst r''. split; [reflexivity|subst r; discriminate].
Qed.
Lemma decode_range_tree E lo hi : float_ok E lo = true -> float_ok E hi = true -> float_gt E lo hi = false ->
  decode E (tnode (lit "ExtensionObject")
              [tnode (lit "TypeId") [tleaf (lit "Identifier") (lit "i=885")];
               tnode (lit "Body") [tnode (lit "Range") [tleaf (lit "Low") lo; tleaf (lit "High") hi]]])
  = Ok (VRange lo hi).
Proof.
  intros Hl Hh Hg. destruct (float_ok_parts E lo Hl) as [Pl Nl]. destruct (float_ok_parts E hi Hh) as [Ph Nh].
  set (rg := tnode (lit "Range") [tleaf (lit "Low") lo; tleaf (lit "High") hi]).
  change (decode E (tnode (lit "ExtensionObject") [tnode (lit "TypeId") [tleaf (lit "Identifier") (lit "i=885")]; tnode (lit "Body") [rg]]))
    with (dec_range E (Some (tnode (lit "Body") [rg]))).
  unfold dec_range. cbn [nchildren tnode]. nf. subst rg. cbn [nchildren tnode]. nf. rewrite !ntext_tleaf.
  destruct lo as [|lc lr]; [congruence|]. destruct hi as [|hc hr]; [congruence|]. cbn [norm_empty].
  rewrite Pl, Ph. cbn [rbind]. now rewrite Hg.
Qed.
Lemma decode_ext_bytes E tid b : valid tid = true -> is_numeric_ns0 tid (lit "888") = false -> is_numeric_ns0 tid (lit "885") = false ->
  decode E (tnode (lit "ExtensionObject") [tnode (lit "TypeId") [tleaf (lit "Identifier") (print_nodeid tid)];
                                           tnode (lit "Body") [tleaf (lit "ByteString") (match b with Some b => b64enc b | None => [] end)]])
  = Ok (VExtObj tid (VByteString (norm_empty b))).
Proof.
  intros Hv H8 H5.
  assert (Hb : decode E (tleaf (lit "ByteString") (match b with Some b => b64enc b | None => [] end)) = Ok (VByteString (norm_empty b))).
  { unfold tleaf. rewrite decode_ByteString. destruct b as [[|c r]|]; try reflexivity.
    pose proof (b64enc_nonempty (c :: r) ltac:(discriminate)) as Hne. destruct (b64enc (c :: r)) as [|e er] eqn:Ee; [congruence|]. rewrite <- Ee.
    cbn [strip_opt omap]. rewrite safe_nospace_b64, b64_roundtrip. reflexivity. }
  pose proof (print_nodeid_nonempty tid) as Hpn. pose proof (roundtrip tid Hv) as Hrt.
  unfold tnode at 1. cbn [decode]. change TYPES_NS with (lit "http://opcfoundation.org/UA/2008/02/Types.xsd") at 1. cbv beta iota.
  change (starts_with (lit "ListOf") (lit "ExtensionObject")) with false. change (mem_str (lit "ExtensionObject") SIMPLE) with false.
  change (str_eqb (lit "ExtensionObject") (lit "TypeId")) with false. change (str_eqb (lit "ExtensionObject") (lit "LocalizedText")) with false.
  change (str_eqb (lit "ExtensionObject") (lit "ExtensionObject")) with true. cbv iota.
  unfold typeid_of. nf. cbn [nchildren tnode]. nf. rewrite ntext_tleaf.
  assert (Hne : norm_empty (Some (print_nodeid tid)) = Some (print_nodeid tid)) by (destruct (print_nodeid tid); [congruence|reflexivity]).
  rewrite Hne, Hrt. cbv iota. rewrite H8, H5.
  change (str_eqb TYPES_NS TYPES_NS) with true. change (str_eqb (lit "TypeId") (lit "Body")) with false. change (str_eqb (lit "Body") (lit "Body")) with true.
  cbn [andb]. cbv iota. rewrite Hb. destruct (norm_empty b); reflexivity.
Qed.

(* the value parser on the element structure of a written value returns the canonical form of the value *)
Theorem decode_vtree E : forall v n, dom08 E v = true -> vtree v = Some n -> decode E n = Ok (canon v).
Proof.
  induction v as [v Hv | tid body IH | tn items IH] using uav_ind'; intros n Hd Hn.
  - destruct v; try contradiction; cbn [dom08] in Hd; try discriminate; cbn [vtree] in Hn; injection Hn as <-; cbn [canon].
    + (* Boolean *) destruct b as [[]|]; reflexivity.
    + (* integers *) destruct z as [z|]; [|unfold tleaf; rewrite decode_Int; reflexivity].
      apply decode_int_leaf. intros Hu. rewrite Hu in Hd. cbn in Hd. now apply Z.leb_le in Hd.
    + (* floats *) destruct f as [r|]; [|unfold tleaf; rewrite decode_Float; reflexivity].
      change ["n"; "a"; "n"] with (lit "nan").
      destruct (str_eqb r (lit "nan")) eqn:En; [unfold tleaf; rewrite decode_Float; reflexivity|]. cbn [orb] in Hd. now apply decode_float_leaf.
    + (* String *) unfold tleaf at 1. rewrite decode_String. f_equal. f_equal. apply (canon_text_leaf s).
    + (* Guid *) unfold tleaf at 1. rewrite decode_Guid. f_equal. f_equal. apply (canon_text_leaf s).
    + (* DateTime *) unfold tleaf. rewrite decode_DateTime. pose proof (iso_utc_nonempty d) as Hne.
      destruct (iso_utc d) as [|c r] eqn:Ei; [congruence|]. rewrite <- Ei. cbn [strip_opt omap]. rewrite iso_utc_nospace, (dt_ok_written d Hd). reflexivity.
    + (* ByteString *) unfold tleaf. rewrite decode_ByteString. destruct b as [[|c r]|]; try reflexivity.
      pose proof (b64enc_nonempty (c :: r) ltac:(discriminate)) as Hne. destruct (b64enc (c :: r)) as [|e er] eqn:Ee; [congruence|]. rewrite <- Ee.
      cbn [strip_opt omap]. rewrite safe_nospace_b64, b64_roundtrip. reflexivity.
    + (* LocalizedText *)
      change (decode E (NElem TYPES_NS (lit "LocalizedText") [] None [tleaf (lit "Locale") (ostr locale); tleaf (lit "Text") (ostr text)])
              = Ok (VLocText (norm_empty text) (canon_locale locale))). rewrite decode_LocText, (dec_loctext_children text locale Hd). reflexivity.
    + (* EUInformation *) apply andb_true_iff in Hd as [Hd H2]. apply andb_true_iff in Hd as [Hu H1]. apply negb_true_iff in Hu. now apply decode_eu_tree.
    + (* Range *) apply andb_true_iff in Hd as [Hd Hg]. apply andb_true_iff in Hd as [Hl Hh]. apply negb_true_iff in Hg. now apply decode_range_tree.
    + (* enumeration: the Int32 it came from *) destruct z as [z|]; [|reflexivity]. apply (decode_int_leaf E KInt32 z). discriminate.
  - cbn [dom08] in Hd. apply andb_true_iff in Hd as [Hd Hb]. apply andb_true_iff in Hd as [Hd H5]. apply andb_true_iff in Hd as [Hv H8].
    apply negb_true_iff in H8, H5. destruct body; try discriminate. cbn [vtree] in Hn. injection Hn as <-. cbn [canon]. now apply decode_ext_bytes.
  - cbn [dom08] in Hd. apply andb_true_iff in Hd as [Hd Hh]. rewrite vtree_list in Hn. destruct (omapM vtree items) as [ch|] eqn:Ech; [|discriminate].
    injection Hn as <-. cbn [canon]. unfold tnode. apply decode_list; [|exact Hh].
    clear Hh. revert ch Ech. induction IH as [|x r Hx _ IHr]; intros ch Ech; cbn [omapM] in Ech; [injection Ech as <-; constructor|].
    destruct (vtree x) as [tx|] eqn:E1; [|discriminate]. destruct (omapM vtree r) as [ts|] eqn:E2; [|discriminate]. injection Ech as <-.
    cbn [forallb] in Hd. apply andb_true_iff in Hd as [Hd1 Hd2]. cbn [map]. constructor; [now apply Hx|now apply IHr].
Qed.

(* ================= 8. the round trip, for every value of the clean domain ================= *)
Theorem roundtrip_general E v b : clean b v = true -> dom08 E v = true -> decode_text E (negb b) (encode b v) = Ok (canon v).
Proof.
  unfold clean. intros Hc Hd. apply andb_true_iff in Hc as [Hc Hcr]. apply andb_true_iff in Hc as [Hn Hx]. apply negb_true_iff in Hcr.
  destruct (xt (xa b) v) as [t|] eqn:Ex; [|discriminate].
  destruct (encode_read_as_vtree E v b t Hn Ex Hcr) as [n [Hvt Hdec]]. rewrite Hdec. now apply decode_vtree.
Qed.
(* reading back is a projection: the canonical form is in the domain's image and is its own canonical form (leaf types) *)
Example nv_general_1 :
  let v := VList (lit "LocalizedText") [VLocText (Some (lit "a<b & c")) (Some (lit "en-US")); VLocText None None; VLocText (Some (lit " x ")) (Some (lit "de"))] in
  clean true v = true /\ dom08 [] v = true /\ canon v = v.
Proof. vm_compute. repeat split. Qed.
Example nv_general_2 :
  let v := VExtObj {| nid_ns := 2; nid_type := String_; nid_value := lit "My;Type" |} (VByteString (Some (lit "hello, world"))) in
  clean false v = true /\ dom08 [] v = true.
Proof. vm_compute. repeat split. Qed.
Example nv_general_3 :
  let d := {| dy := 2024; dmo := 2; dd := 29; dh := 1; dmi := 15; ds := 7; dus := 250000; dtz := Some 330%Z |} in
  clean true (VDateTime d) = true /\ dom08 [] (VDateTime d) = true /\
  canon (VDateTime d) = VDateTime {| dy := 2024; dmo := 2; dd := 28; dh := 19; dmi := 45; ds := 7; dus := 250000; dtz := Some 0%Z |}.
Proof. vm_compute. repeat split. Qed.
Example nv_general_4 :
  let E := [(lit "1.5", Some (lit "1.5")); (lit "-2.0", Some (lit "-2.0"))] in
  let v := VList (lit "ExtensionObject") [VEUInfo (lit "http://u ") 4408652 (Some (lit "m/s")) None None (Some (lit "en")); VEUInfo (lit "urn:x") (-1) None None None None] in
  clean true v = true /\ dom08 E v = true /\ clean false (VRange (lit "-2.0") (lit "1.5")) = true /\ dom08 E (VRange (lit "-2.0") (lit "1.5")) = true.
Proof. vm_compute. repeat split. Qed.
