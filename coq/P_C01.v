(* C01 - every declared node becomes exactly one faithful row of the nodes table *)
From Coq Require Import String Ascii List Bool Arith NArith ZArith.
Require Import PyStr PyInt Sexp Xml M_C09 M_C08 Ns Table M_Parse T_Parse.
Import ListNotations.
Open Scope char_scope.

(* exactly one row per node element of a file, in document order; each row carries the element's class, the NodeId its text (or alias) denotes under the file's namespace map, the split browse name with its namespace, the right-stripped first DisplayName/Description, the decoded Value *)
Theorem C01_file_rows : forall E ns d ns1 fo,
  parse_file E ns d = Ok (ns1, fo) ->
  exists amap, Forall2 (row_matches E (zmap_of (snd (file_ns ns d))) amap) (d_nodes d) (fo_nodes fo).
Proof. exact C01_file_rows. Qed.

(* the nodes table of a file set is the concatenation of the per-file rows (files kept by the caller filter, in path order): no other rows *)
Theorem C01_row_count : forall E caller docs p,
  parse_files E caller docs = Ok p ->
  exists ns fos, parse_seq E caller (sort_docs (match caller with [] => docs | _ => filter (keep_file caller) docs end)) = Ok (ns, fos) /\
  p_nodes p = flat_map fo_nodes fos.
Proof. exact C01_row_count. Qed.

(* DisplayName / Description: first child, trailing whitespace removed, empty when absent *)
Theorem C01_first_text : forall t, first_text (Some (Some t)) = rstrip t /\ first_text None = [] /\ first_text (Some None) = [].
Proof. exact C01_first_text_spec. Qed.

(* faithful to the code (known finding): only the second ':'-component of a prefixed browse name survives *)
Theorem C01_browsename_second_colon_refuted : split_browsename (lit "1:Var:colon") [(0%Z, 0%Z); (1%Z, 1%Z)] = Ok (lit "Var", Some 1%Z).
Proof. exact C01_browsename_second_colon_refuted. Qed.

(* faithful to the code (known finding): AccessLevel/EventNotifier/ValueRank wrap to Int8 *)
Theorem C01_int_attr_faithful k z nsmap amap : int_attr_range k z = true -> cast_attr k (decZ z) nsmap amap = Ok (AInt z).
Proof. exact (T_Parse.C01_int_attr_faithful k z nsmap amap). Qed.
Theorem C01_sampling_interval_wrap_refuted : cast_attr (lit "MinimumSamplingInterval") (lit "3000000000") [] [] = Ok (AInt (-1294967296)%Z).
Proof. exact C01_sampling_interval_wrap_refuted. Qed.

Print Assumptions C01_file_rows.
Print Assumptions C01_row_count.
Print Assumptions C01_first_text.
Print Assumptions C01_browsename_second_colon_refuted.
Print Assumptions C01_int_attr_faithful.
Print Assumptions C01_sampling_interval_wrap_refuted.
