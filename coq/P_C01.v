(* C01 - every declared node becomes exactly one faithful row of the nodes table *)
From Coq Require Import String Ascii List Bool Arith NArith ZArith.
Require Import PyStr PyInt Sexp Xml M_C09 M_C08 Ns Table M_Parse T_Parse M_Write T_ParseAttrs M_Iter T_Iter.
Import ListNotations.
Open Scope char_scope.

(* exactly one row per node element of a file, in document order; each row carries the element's class, the NodeId its text (or alias) denotes under the file's namespace map, the split browse name with its namespace, the right-stripped first DisplayName/Description, the decoded Value *)
Theorem C01_file_rows : forall E ns d ns1 fo,
  parse_file E ns d = Ok (ns1, fo) ->
  exists amap, Forall2 (row_matches E (zmap_of (snd (file_ns ns d))) amap) (d_nodes d) (fo_nodes fo).
Proof. exact C01_file_rows. Qed.

(* the nodes table of a file set is the concatenation of the per-file rows (files kept by the caller filter, in path order): no other rows *)
Theorem C01_row_count : forall E caller docs p,
  parse_files E caller docs = Ok p ->
  exists ns fos, parse_seq E caller (sort_docs (match caller with [] => docs | _ => filter (keep_file caller) docs end)) = Ok (ns, fos) /\
  p_nodes p = flat_map fo_nodes fos.
Proof. exact C01_row_count. Qed.

(* DisplayName / Description: first child, trailing whitespace removed, empty when absent *)
Theorem C01_first_text : forall t, first_text (Some (Some t)) = rstrip t /\ first_text None = [] /\ first_text (Some None) = [].
Proof. exact C01_first_text_spec. Qed.

(* faithful to the code (known finding): only the second ':'-component of a prefixed browse name survives *)
Theorem C01_browsename_second_colon_refuted : split_browsename (lit "1:Var:colon") [(0%Z, 0%Z); (1%Z, 1%Z)] = Ok (lit "Var", Some 1%Z).
Proof. exact C01_browsename_second_colon_refuted. Qed.

(* faithful to the code (known finding): AccessLevel/EventNotifier/ValueRank wrap to Int8 *)
Theorem C01_int_attr_faithful k z nsmap amap : int_attr_range k z = true -> cast_attr k (decZ z) nsmap amap = Ok (AInt z).
Proof. exact (T_Parse.C01_int_attr_faithful k z nsmap amap). Qed.
Theorem C01_sampling_interval_wrap_refuted : cast_attr (lit "MinimumSamplingInterval") (lit "3000000000") [] [] = Ok (AInt (-1294967296)%Z).
Proof. exact C01_sampling_interval_wrap_refuted. Qed.

(* "the value of every XML attribute the element has ... attributes the element does not have are reported as missing (or false for
   IsAbstract/Symmetric)": for EVERY attribute name a, the row's column a is the element's attribute typed by cast_attr - a node reference
   (alias or NodeId text through the file's namespace map) for DataType/ParentNodeId/MethodDeclarationId, an integer for the integer
   columns, a boolean for IsAbstract/Symmetric, the text otherwise; NodeId and BrowseName are their own columns; an absent attribute is
   missing, or false for the two boolean columns when some node of the file has that column *)
Theorem C01_attribute_columns : forall E nsmap amap cols e row refs, parse_node E nsmap amap cols e = Ok (row, refs) -> forall a,
  match lookup_attr a (ne_attrs e) with
  | Some v => if own_column a then node_attr a row = None
              else exists x, cast_attr a v nsmap amap = Ok x /\ node_attr a row = Some x
  | None => node_attr a row = if mem_str a BOOL_COLS && mem_str a cols then Some (ABool false) else None
  end.
Proof. exact attribute_columns. Qed.
Theorem C01_file_attribute_columns : forall E ns d ns1 fo, parse_file E ns d = Ok (ns1, fo) ->
  exists amap, (match d_aliases d with Some l => build_aliases l (zmap_of (snd (file_ns ns d))) | None => Ok [] end) = Ok amap /\
    Forall2 (fun e row => row_matches E (zmap_of (snd (file_ns ns d))) amap e row /\
                          attrs_match (zmap_of (snd (file_ns ns d))) amap (flat_map (fun e => map fst (ne_attrs e)) (d_nodes d)) e row)
            (d_nodes d) (fo_nodes fo).
Proof. exact file_attribute_columns. Qed.
Theorem C01_node_reference_attribute : forall a v nsmap amap, mem_str a NODE_REF_ATTRS = true -> cast_attr a v nsmap amap = rmap ANode (parse_nodeid v nsmap amap).
Proof. exact cast_ref. Qed.
Theorem C01_boolean_attribute : forall k v nsmap amap, str_eqb k (lit "IsAbstract") || str_eqb k (lit "Symmetric") = true ->
  cast_attr k v nsmap amap = Ok (ABool (negb (str_eqb v (lit "false") || str_eqb v []))).
Proof. exact cast_attr_bool. Qed.
Theorem C01_text_attribute : forall k v nsmap amap, mem_str k NODE_REF_ATTRS = false -> int_attr_cast k = None ->
  str_eqb k (lit "IsAbstract") || str_eqb k (lit "Symmetric") = false -> cast_attr k v nsmap amap = Ok (AStr v).
Proof. exact cast_attr_text. Qed.

(* ---- documents larger than the parser's internal batch (M_Iter.v, T_Iter.v): the event loop of iterparse_xml hands the collected node elements to
   process_elem_batch every `batchsize` counted events.  Whatever the batch size, the batches concatenated are the collected elements in order: none
   lost, none twice; and for the events of a document they are exactly its node elements ---- *)
Theorem C01_batching_irrelevant : forall (A : Type) bs bs' (evs : list (event A)), concat (batches_of bs evs) = concat (batches_of bs' evs).
Proof. intros A. exact batch_size_irrelevant. Qed.
Theorem C01_batches_collect : forall (A : Type) bs (evs : list (event A)), concat (batches_of bs evs) = collect false evs.
Proof. intros A. exact batches_concat. Qed.
Theorem C01_batches_are_the_nodes : forall d bs, concat (batches_of bs (events_of_doc d)) = map Some (d_nodes d).
Proof. exact doc_batches. Qed.

Print Assumptions C01_file_rows.
Print Assumptions C01_row_count.
Print Assumptions C01_first_text.
Print Assumptions C01_browsename_second_colon_refuted.
Print Assumptions C01_int_attr_faithful.
Print Assumptions C01_sampling_interval_wrap_refuted.
Print Assumptions C01_attribute_columns.
Print Assumptions C01_file_attribute_columns.
Print Assumptions C01_node_reference_attribute.
Print Assumptions C01_boolean_attribute.
Print Assumptions C01_text_attribute.
Print Assumptions C01_batching_irrelevant.
Print Assumptions C01_batches_collect.
Print Assumptions C01_batches_are_the_nodes.
