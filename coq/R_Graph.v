From Coq Require Import String Ascii List Bool Arith ZArith.
Require Import PyStr PyInt Sexp Xml M_C09 M_C08 R_C08 M_C12 R_C12 M_Graph.
Import ListNotations.
Definition d_gnode (x : sexp) : option gnode :=
  match x with
  | Lst [i; c; b; d; dt; v] =>
      obind (d_nat i) (fun i => obind (d_str c) (fun c => obind (d_str b) (fun b => obind (d_str d) (fun d => obind (d_opt d_nat dt) (fun dt =>
      omap (fun v => {| gn_id := i; gn_cls := c; gn_bname := b; gn_display := d; gn_datatype := dt; gn_value := v |}) (d_opt d_uav v))))))
  | _ => None end.
Definition e_closed (c : closed_result) : sexp :=
  match c with CClosed => Lst [e_sym "closed"] | CMissingSources r => Lst [e_sym "missing-sources"; e_list e_ref r] | CMissingTargets r => Lst [e_sym "missing-targets"; e_list e_ref r] end.
Definition run_graph (cmd : str) (args : list sexp) : option sexp :=
  if str_eqb cmd (lit "c11_closed") then
    match args with [i; r] => obind (d_list d_nat i) (fun i => omap (fun r => e_closed (check_closed i r)) (d_list d_ref r)) | _ => None end
  else if str_eqb cmd (lit "c11_lookup") then
    match args with [n; nm; c] => obind (d_list d_gnode n) (fun n => obind (d_str nm) (fun nm => omap (fun c => e_res e_nat (lookup_browsename n nm c)) (d_opt d_str c))) | _ => None end
  else if str_eqb cmd (lit "c16_validate") then
    match args with [n; d; c] => obind (d_list d_gnode n) (fun n => obind (d_list (d_pair d_nat d_str) d) (fun d => omap (fun c => e_res (e_list e_str) (validate_values n d c)) (d_bool c))) | _ => None end
  else if str_eqb cmd (lit "c17_transform") then
    match args with [n; r] => obind (d_list d_gnode n) (fun n => omap (fun r => e_res (e_list (e_opt e_uav)) (transform_enums n r)) (d_list d_ref r)) | _ => None end
  else None.
