From Coq Require Import String Ascii List Bool Arith ZArith.
Require Import PyStr PyInt Sexp Xml M_C09 M_C08 R_C08 Ns Table M_Parse M_ParseText M_Iter.
Import ListNotations.

Definition d_ref_elem (x : sexp) : option ref_elem :=
  match x with Lst [a; t] => obind (d_attrs a) (fun a => omap (fun t => {| re_attrs := a; re_text := t |}) (d_ostr t)) | _ => None end.
Definition d_node_elem (x : sexp) : option node_elem :=
  match x with
  | Lst [c; a; di; de; r; v] =>
      obind (d_str c) (fun c => obind (d_attrs a) (fun a => obind (d_opt d_ostr di) (fun di => obind (d_opt d_ostr de) (fun de =>
      obind (d_list d_ref_elem r) (fun r => omap (fun v => {| ne_cls := c; ne_attrs := a; ne_display := di; ne_desc := de; ne_refs := r; ne_value := v |})
      (d_opt d_nxml v))))))
  | _ => None end.
Definition d_model_elem (x : sexp) : option model_elem :=
  match x with Lst [a; r] => obind (d_attrs a) (fun a => omap (fun r => {| me_attrs := a; me_required := r |}) (d_list d_attrs r)) | _ => None end.
Definition d_doc (x : sexp) : option doc :=
  match x with
  | Lst [n; u; m; al; nodes] =>
      obind (d_str n) (fun n => obind (d_opt (d_list d_str) u) (fun u => obind (d_opt (d_list d_model_elem) m) (fun m =>
      obind (d_opt (d_list (d_pair d_str d_ostr)) al) (fun al => omap (fun nodes => {| d_name := n; d_uris := u; d_models := m; d_aliases := al; d_nodes := nodes |})
      (d_list d_node_elem nodes)))))
  | _ => None end.

Definition e_aval (a : aval) : sexp :=
  match a with AStr s => Lst [e_sym "s"; e_str s] | ABool b => Lst [e_sym "b"; e_bool b] | AInt z => Lst [e_sym "i"; e_Z z] | ANode n => Lst [e_sym "n"; e_nodeid n] end.
Definition e_node_row (r : node_row) : sexp :=
  Lst [e_str (nr_cls r); e_nodeid (nr_nodeid r); e_str (nr_bname r); e_opt e_Z (nr_bns r); e_str (nr_display r); e_str (nr_desc r);
       e_list (e_pair e_str e_aval) (nr_attrs r); e_opt e_uav (nr_value r); e_Z (nr_ns r)].
Definition e_triple (t : triple) : sexp := Lst [e_nodeid (fst (fst t)); e_nodeid (snd (fst t)); e_nodeid (snd t)].
Definition e_model_out (m : model_out) : sexp :=
  Lst [e_ostr (mo_uri m); e_ostr (mo_pubdate m); e_ostr (mo_version m);
       e_list (fun r => Lst [e_ostr (fst (fst r)); e_ostr (snd (fst r)); e_ostr (snd r)]) (mo_required m)].
Definition e_onat (o : option nat) : sexp := e_opt e_nat o.
Definition e_parsed (p : parsed) : sexp :=
  let lk := lookup_table p in
  Lst [e_list e_str (p_namespaces p); e_list e_node_row (p_nodes p); e_list e_triple (p_refs p); e_list e_model_out (p_models p);
       e_list e_nodeid lk;
       e_list (fun r => let n := normalize_node lk r in Lst [e_onat (nn_id n); e_onat (nn_parent n); e_onat (nn_datatype n); e_onat (nn_methoddecl n)]) (p_nodes p);
       e_list (fun t => let '(a, b, c) := normalize_ref lk t in Lst [e_onat a; e_onat b; e_onat c]) (p_refs p)].

Definition d_ekind (x : sexp) : option ekind :=
  obind (d_str x) (fun s =>
    if str_eqb s (lit "UANodeSet") then Some KNodeSet else if str_eqb s (lit "Uri") then Some KUri else if str_eqb s (lit "NamespaceUris") then Some KNsUris
    else if str_eqb s (lit "Model") then Some KModel else if str_eqb s (lit "RequiredModel") then Some KReqModel else if str_eqb s (lit "Alias") then Some KAlias
    else if str_eqb s (lit "node") then Some KNode else None).
Definition d_event (x : sexp) : option (event unit) :=
  match x with Lst [e; k] => obind (d_bool e) (fun e => omap (fun k => {| ev_end := e; ev_kind := k; ev_elem := tt |}) (d_ekind k)) | _ => None end.
Definition run_parse (cmd : str) (args : list sexp) : option sexp :=
  if str_eqb cmd (lit "parse_text_files") then
    match args with
    | [e; c; f] => obind (d_ext e) (fun e => obind (d_list d_str c) (fun c => omap (fun f => e_res e_parsed (parse_text_files e c f)) (d_list (d_pair d_str d_str) f)))
    | _ => None end
  else if str_eqb cmd (lit "parse_files") then
    match args with
    | [e; c; d] => obind (d_ext e) (fun e => obind (d_list d_str c) (fun c => omap (fun d => e_res e_parsed (parse_files e c d)) (d_list d_doc d)))
    | _ => None end
  else if str_eqb cmd (lit "iter_batches") then
    match args with [b; evs] => obind (d_nat b) (fun b => omap (fun evs => e_list e_nat (map (@length unit) (batches_of b evs))) (d_list d_event evs)) | _ => None end
  else if str_eqb cmd (lit "ns_list_of_dict") then
    match args with [d] => omap (fun d => e_list e_str (namespace_list_of_dict d)) (d_list (d_pair d_nat d_str) d) | _ => None end
  else None.
