From Coq Require Import String Ascii List Bool ZArith.
Require Import PyStr PyInt Sexp Xml M_C09 M_C08 M_C08d.
Import ListNotations.

Definition e_ostr (o : option str) : sexp := e_opt e_str o.
Fixpoint e_nxml (t : nxml) : sexp :=
  match t with NElem ns l a x ch => Lst [e_str ns; e_str l; e_list (e_pair e_str e_str) a; e_ostr x; Lst (map e_nxml ch)] end.
Definition e_ikind (k : ikind) : sexp := e_str (ikind_name k).
Definition e_dt (d : dt) : sexp :=
  Lst [e_Z (dy d); e_Z (dmo d); e_Z (dd d); e_Z (dh d); e_Z (dmi d); e_Z (ds d); e_Z (dus d); e_opt e_Z (dtz d)].
Fixpoint e_uav (v : uav) : sexp :=
  match v with
  | VBool b => Lst [e_sym "bool"; e_opt e_bool b]
  | VInt k z => Lst [e_sym "int"; e_ikind k; e_opt e_Z z]
  | VFloat d f => Lst [e_sym "float"; e_bool d; e_ostr f]
  | VString s => Lst [e_sym "string"; e_ostr s]
  | VGuid s => Lst [e_sym "guid"; e_ostr s]
  | VDateTime d => Lst [e_sym "datetime"; e_dt d]
  | VByteString b => Lst [e_sym "bytes"; e_ostr b]
  | VNodeId n => Lst [e_sym "nodeid"; e_nodeid n]
  | VLocText t l => Lst [e_sym "loctext"; e_ostr t; e_ostr l]
  | VEUInfo u n a b c d => Lst [e_sym "eu"; e_str u; e_Z n; e_ostr a; e_ostr b; e_ostr c; e_ostr d]
  | VRange lo hi => Lst [e_sym "range"; e_str lo; e_str hi]
  | VExtObj t b => Lst [e_sym "ext"; e_nodeid t; e_uav b]
  | VXmlRaw r => Lst [e_sym "xmlraw"; e_str r]
  | VXmlTree t => Lst [e_sym "xmltree"; e_nxml t]
  | VList tn items => Lst [e_sym "list"; e_str tn; Lst (map e_uav items)]
  | VEnum z s n => Lst [e_sym "enum"; e_opt e_Z z; e_str s; e_str n]
  | VNone => Lst [e_sym "none"]
  end.
Definition d_ostr : sexp -> option (option str) := d_opt d_str.
Definition d_dt (x : sexp) : option dt :=
  match x with
  | Lst [y; mo; d; h; mi; s; us; tz] =>
      obind (d_Z y) (fun y => obind (d_Z mo) (fun mo => obind (d_Z d) (fun d => obind (d_Z h) (fun h => obind (d_Z mi) (fun mi =>
      obind (d_Z s) (fun s => obind (d_Z us) (fun us => omap (fun tz => {| dy := y; dmo := mo; dd := d; dh := h; dmi := mi; ds := s; dus := us; dtz := tz |}) (d_opt d_Z tz))))))))
  | _ => None end.
Definition d_ostr0 : sexp -> option (option str) := d_opt d_str.
Definition d_attrs : sexp -> option (list (str * str)) := d_list (d_pair d_str d_str).
Fixpoint d_nxml (x : sexp) : option nxml :=
  match x with
  | Lst [ns; l; a; t; Lst ch] =>
      obind (d_str ns) (fun ns => obind (d_str l) (fun l => obind (d_attrs a) (fun a => obind (d_ostr0 t) (fun t =>
      omap (NElem ns l a t) (sequence (map d_nxml ch))))))
  | _ => None end.
Definition tag_is (t : str) (s : string) : bool := str_eqb t (lit s).
Fixpoint d_uav (x : sexp) : option uav :=
  match x with
  | Lst (Atom t :: args) =>
      if tag_is t "bool" then match args with [b] => omap VBool (d_opt d_bool b) | _ => None end
      else if tag_is t "int" then match args with [k; z] => obind (obind (d_str k) ikind_of_name) (fun k => omap (VInt k) (d_opt d_Z z)) | _ => None end
      else if tag_is t "float" then match args with [d; f] => obind (d_bool d) (fun d => omap (VFloat d) (d_ostr f)) | _ => None end
      else if tag_is t "string" then match args with [s] => omap VString (d_ostr s) | _ => None end
      else if tag_is t "guid" then match args with [s] => omap VGuid (d_ostr s) | _ => None end
      else if tag_is t "datetime" then match args with [d] => omap VDateTime (d_dt d) | _ => None end
      else if tag_is t "bytes" then match args with [s] => omap VByteString (d_ostr s) | _ => None end
      else if tag_is t "nodeid" then match args with [n] => omap VNodeId (d_nodeid n) | _ => None end
      else if tag_is t "loctext" then match args with [a; b] => obind (d_ostr a) (fun a => omap (VLocText a) (d_ostr b)) | _ => None end
      else if tag_is t "eu" then
        match args with
        | [u; n; a; b; c; d] => obind (d_str u) (fun u => obind (d_Z n) (fun n => obind (d_ostr a) (fun a => obind (d_ostr b) (fun b =>
                                obind (d_ostr c) (fun c => omap (VEUInfo u n a b c) (d_ostr d))))))
        | _ => None end
      else if tag_is t "range" then match args with [a; b] => obind (d_str a) (fun a => omap (VRange a) (d_str b)) | _ => None end
      else if tag_is t "ext" then match args with [n; b] => obind (d_nodeid n) (fun n => omap (VExtObj n) (d_uav b)) | _ => None end
      else if tag_is t "xmlraw" then match args with [s] => omap VXmlRaw (d_str s) | _ => None end
      else if tag_is t "xmltree" then match args with [s] => omap VXmlTree (d_nxml s) | _ => None end
      else if tag_is t "list" then
        match args with [tn; Lst items] => obind (d_str tn) (fun tn => omap (VList tn) (sequence (map d_uav items))) | _ => None end
      else if tag_is t "enum" then match args with [z; s; n] => obind (d_opt d_Z z) (fun z => obind (d_str s) (fun s => omap (VEnum z s) (d_str n))) | _ => None end
      else if tag_is t "none" then Some VNone
      else None
  | _ => None
  end.
Definition d_ext : sexp -> option ext := d_list (d_pair d_str d_ostr).
Definition run_c08 (cmd : str) (args : list sexp) : option sexp :=
  if str_eqb cmd (lit "c08_encode") then
    match args with [b; v] => obind (d_bool b) (fun b => omap (fun v => if encodable v then e_str (encode b v) else e_err EOther) (d_uav v)) | _ => None end
  else if str_eqb cmd (lit "c08_decode") then
    match args with [e; w; s] => obind (d_ext e) (fun e => obind (d_bool w) (fun w => omap (fun s => e_res e_uav (decode_text e w s)) (d_str s))) | _ => None end
  else if str_eqb cmd (lit "c08_roundtrip") then
    match args with [e; b; v] => obind (d_ext e) (fun e => obind (d_bool b) (fun b => omap (fun v =>
       if encodable v then Lst [e_str (encode b v); e_res e_uav (decode_text e (negb b) (encode b v))] else e_err EOther) (d_uav v))) | _ => None end
  else if str_eqb cmd (lit "c08_domain") then
    (* is the value in the domain of theorem C08_roundtrip, and what does the theorem say it is read back as *)
    match args with [e; b; v] => obind (d_ext e) (fun e => obind (d_bool b) (fun b => omap (fun v =>
       Lst [e_bool (clean b v && dom08 e v); e_uav (canon v)]) (d_uav v))) | _ => None end
  else if str_eqb cmd (lit "xml_parse") then
    match args with [s] => omap (fun s => e_opt e_nxml (omap (resolve [] []) (xparse s))) (d_str s) | _ => None end
  else None.
