(* C17 - enumeration values are attached without altering the data *)
From Coq Require Import String Ascii List Bool Arith ZArith.
Require Import PyStr PyInt Sexp Xml M_C09 M_C08 M_C12 T_C12 M_Graph T_Graph.
Import ListNotations.
Open Scope char_scope.

(* without an Enumeration node nothing changes *)
Theorem C17_no_enumeration : forall nodes refs,
  existsb (fun n => str_eqb (gn_bname n) (lit "Enumeration")) nodes = false ->
  transform_enums nodes refs = Ok (map gn_value nodes).
Proof. exact transform_no_enumeration. Qed.

(* an Int32 value of a defined enumeration becomes the enumeration value with the same integer, the string defined for it and the enumeration's name *)
Theorem C17_exact : forall z name d s,
  zassoc z d = Some s ->
  enum_of_value (VInt KInt32 (Some z)) (Some (name, d)) = Ok (VEnum (Some z) s name).
Proof. exact enum_value_exact. Qed.

(* applying the transformation to its own result changes nothing *)
Theorem C17_idempotent : forall v def w,
  enum_of_value v def = Ok w -> enum_of_value w def = Ok w.
Proof. exact enum_value_idempotent. Qed.

(* one value per node; the value of every node that is not an enum-typed variable is unchanged *)
Theorem C17_frame : forall nodes refs vals eid,
  transform_enums nodes refs = Ok vals -> first_unique_dt (lit "Enumeration") nodes = Ok eid ->
  Forall2 (fun n v => enum_var eid refs n = false -> v = gn_value n) nodes vals.
Proof. exact transform_frame. Qed.

(* faithful to the code (known finding): a list value collapses to its first element *)
Theorem C17_list_truncated_refuted : enum_of_value (VList (lit "Int32") [VInt KInt32 (Some 1%Z); VInt KInt32 (Some 2%Z)]) (Some (lit "E", [(1%Z, lit "On")]))
  = Ok (VEnum (Some 1%Z) (lit "On") (lit "E")).
Proof. exact list_truncated_refuted. Qed.

(* faithful to the code (known finding): an integer without a defined string is a KeyError *)
Theorem C17_undefined_int_refuted : enum_of_value (VInt KInt32 (Some 7%Z)) (Some (lit "E", [(1%Z, lit "On")])) = Err EKey.
Proof. exact undefined_int_refuted. Qed.

(* faithful to the code (known finding): an enumeration without definition yields 'Unknown' *)
Theorem C17_no_definition_refuted : enum_of_value (VInt KInt32 (Some 7%Z)) None = Ok (VEnum (Some 7%Z) (lit "Unknown") (lit "Unknown")).
Proof. exact no_definition_refuted. Qed.

Print Assumptions C17_no_enumeration.
Print Assumptions C17_exact.
Print Assumptions C17_idempotent.
Print Assumptions C17_frame.
Print Assumptions C17_list_truncated_refuted.
Print Assumptions C17_undefined_int_refuted.
Print Assumptions C17_no_definition_refuted.
