(* The JSON reader reads back what jprint writes: for every JSON value whose number literals are well formed,
   jparse (jprint j) = Some j.  With C10_shape this gives "the encoded text parses as JSON and has the OPC UA shape". *)
From Coq Require Import String Ascii List Bool Arith NArith ZArith Lia.
Require Import PyStr PyInt Sexp M_C09 M_C08 M_C10 M_C10r T_C10.
Import ListNotations.
Open Scope char_scope.

Section JvInd.
  Variable P : jv -> Prop.
  Hypothesis Hleaf : forall j, match j with JArr _ | JObj _ => False | _ => True end -> P j.
  Hypothesis Harr : forall l, Forall P l -> P (JArr l).
  Hypothesis Hobj : forall l, Forall (fun kv => P (snd kv)) l -> P (JObj l).
  Fixpoint jv_ind' (j : jv) : P j :=
    match j with
    | JArr l => Harr l ((fix go (l : list jv) : Forall P l := match l with [] => Forall_nil _ | x :: r => Forall_cons x (jv_ind' x) (go r) end) l)
    | JObj l => Hobj l ((fix go (l : list (str * jv)) : Forall (fun kv => P (snd kv)) l :=
                           match l with [] => Forall_nil _ | x :: r => Forall_cons x (jv_ind' (snd x)) (go r) end) l)
    | j => Hleaf j I
    end.
End JvInd.

(* ---- string literals ---- *)
Lemma jraw_char c s' : jraw (jesc_char c ++ s') = omap (fun p => (jesc_char c ++ fst p, snd p)) (jraw s').
Proof. destruct c as [[] [] [] [] [] [] [] []]; cbn; destruct (jraw s') as [[a b]|]; reflexivity. Qed.
Lemma jraw_escape s rest : jraw (jescape s ++ """" :: rest) = Some (jescape s, rest).
Proof.
  induction s as [|c s IH]; [reflexivity|]. unfold jescape in *. cbn [flat_map]. rewrite <- app_assoc, jraw_char, IH. reflexivity.
Qed.
Lemma jstr_lit_print s rest : jstr_lit (jstring s ++ rest) = Some (s, rest).
Proof.
  unfold jstring, jstr_lit. cbn [app]. rewrite <- app_assoc. cbn [app]. rewrite jraw_escape. cbn [obind fst snd]. now rewrite junescape_jescape.
Qed.
(* ---- numbers ---- *)
Definition rest_ok (rest : str) : bool := match rest with [] => true | c :: _ => negb (is_numch c) end.
Lemma take_num_all l rest : all_chars is_numch l = true -> rest_ok rest = true -> take_num (l ++ rest) = (l, rest).
Proof.
  induction l as [|c l IH]; intros Hl Hr.
  - destruct rest as [|c r]; [reflexivity|]. cbn in *. apply negb_true_iff in Hr. now rewrite Hr.
  - cbn [all_chars] in Hl. apply andb_true_iff in Hl as [Hc Hl]. cbn [app take_num]. rewrite Hc, (IH Hl Hr). reflexivity.
Qed.

(* ---- values ---- *)
Lemma numch_facts c : is_numch c = true ->
  Ascii.eqb "n" c = false /\ Ascii.eqb "t" c = false /\ Ascii.eqb "f" c = false /\ Ascii.eqb c """" = false /\ Ascii.eqb c "[" = false /\ Ascii.eqb c "{" = false
  /\ Ascii.eqb c "]" = false /\ Ascii.eqb c "}" = false.
Proof. destruct c as [[] [] [] [] [] [] [] []]; cbn; intros H; try discriminate; repeat split; reflexivity. Qed.
(* the first character of a printed value is never a closing bracket, a comma or a colon *)
Lemma jprint_head j : jv_ok j = true -> exists c t, jprint j = c :: t /\ Ascii.eqb c "]" = false /\ Ascii.eqb c "}" = false.
Proof.
  destruct j as [|[]|l|s|l|l]; intros H; cbn [jprint jv_ok] in *.
  - exists "n", (lit "ull"). repeat split.
  - exists "t", (lit "rue"). repeat split.
  - exists "f", (lit "alse"). repeat split.
  - unfold num_ok in H. apply andb_true_iff in H as [Ha Hn]. destruct l as [|c l]; [discriminate|]. cbn [all_chars] in Ha. apply andb_true_iff in Ha as [Hc _].
    destruct (numch_facts c Hc) as [_ [_ [_ [_ [_ [_ [A B]]]]]]]. exists c, l. repeat split; assumption.
  - unfold jstring. eexists _, _. repeat split.
  - eexists _, _. repeat split.
  - eexists _, _. repeat split.
Qed.
Definition Pv (j : jv) : Prop := jv_ok j = true -> forall fuel rest, 2 * length (jprint j ++ rest) < fuel -> rest_ok rest = true -> jparse_v fuel (jprint j ++ rest) = Some (j, rest).
Lemma items_roundtrip : forall l x, Forall Pv (x :: l) -> forallb jv_ok (x :: l) = true -> forall fuel rest,
  2 * length (join comma (map jprint (x :: l)) ++ "]" :: rest) + 1 < fuel -> jparse_items fuel (join comma (map jprint (x :: l)) ++ "]" :: rest) = Some (x :: l, rest).
Proof.
  induction l as [|y l' IH]; intros x HF Hok fuel rest Hf; inversion HF as [|? ? Hx HFl]; subst;
    cbn [forallb] in Hok; apply andb_true_iff in Hok as [Hxo Hlo]; (destruct fuel as [|f]; [lia|]); cbn [jparse_items].
  - cbn [map join]. rewrite (Hx Hxo f ("]" :: rest)); [reflexivity| cbn [map join] in Hf; lia | reflexivity].
  - change (join comma (map jprint (x :: y :: l'))) with (jprint x ++ comma ++ join comma (map jprint (y :: l'))) in *.
    rewrite <- !app_assoc in *. cbn [comma app] in *.
    rewrite (Hx Hxo f ("," :: join comma (map jprint (y :: l')) ++ "]" :: rest)); [|repeat (rewrite ?app_length in *; cbn [length] in * ); lia|reflexivity]. cbn [obind snd fst].
    rewrite (IH y HFl Hlo f rest); [reflexivity|]. repeat (rewrite ?app_length in *; cbn [length] in * ). lia.
Qed.
Definition member_text (kv : str * jv) : str := jstring (fst kv) ++ ":" :: jprint (snd kv).
Lemma members_roundtrip : forall l x, Forall (fun kv => Pv (snd kv)) (x :: l) -> forallb (fun kv => jv_ok (snd kv)) (x :: l) = true -> forall fuel rest,
  2 * length (join comma (map member_text (x :: l)) ++ "}" :: rest) + 1 < fuel ->
  jparse_members fuel (join comma (map member_text (x :: l)) ++ "}" :: rest) = Some (x :: l, rest).
Proof.
  induction l as [|y l' IH]; intros [k v] HF Hok fuel rest Hf; inversion HF as [|? ? Hx HFl]; subst; cbn [snd] in Hx;
    cbn [forallb snd] in Hok; apply andb_true_iff in Hok as [Hxo Hlo]; (destruct fuel as [|f]; [lia|]); cbn [jparse_members].
  - cbn [map join]. unfold member_text at 1. cbn [fst snd]. rewrite <- !app_assoc. rewrite jstr_lit_print. cbn [obind snd fst app].
    rewrite (Hx Hxo f ("}" :: rest)); [reflexivity| |reflexivity].
    cbn [map join] in Hf. unfold member_text in Hf. cbn [fst snd] in Hf. repeat (rewrite ?app_length in *; cbn [length] in * ). lia.
  - change (join comma (map member_text ((k, v) :: y :: l'))) with (member_text (k, v) ++ comma ++ join comma (map member_text (y :: l'))) in *.
    unfold member_text at 1. cbn [fst snd]. rewrite <- !app_assoc. rewrite jstr_lit_print. cbn [obind snd fst app comma].
    rewrite (Hx Hxo f ("," :: join comma (map member_text (y :: l')) ++ "}" :: rest)); [| |reflexivity].
    + cbn [obind snd fst]. rewrite (IH y HFl Hlo f rest); [reflexivity|].
      unfold member_text at 1 in Hf. cbn [fst snd comma] in Hf. repeat (rewrite ?app_length in *; cbn [length] in * ). lia.
    + unfold member_text at 1 in Hf. cbn [fst snd comma] in Hf. repeat (rewrite ?app_length in *; cbn [length] in * ). lia.
Qed.
Lemma sw_null rest : starts_with (lit "null") (lit "null" ++ rest) = true. Proof. apply starts_with_app. Qed.
Lemma not_close {A} c (t' : str) (X : str -> A) (Y : A) : Ascii.eqb c "]" = false -> match c :: t' with "]" :: r' => X r' | _ => Y end = Y.
Proof. destruct c as [[] [] [] [] [] [] [] []]; intros; try discriminate; reflexivity. Qed.
Theorem jparse_v_print : forall j, Pv j.
Proof.
  induction j as [j Hj | l IH | l IH] using jv_ind'; unfold Pv; intros Hok fuel rest Hf Hr; (destruct fuel as [|f]; [lia|]).
  - destruct j as [|[]|l|s|l|l]; try contradiction; cbn [jprint jparse_v].
    + rewrite sw_null. reflexivity.
    + reflexivity.
    + reflexivity.
    + cbn [jv_ok] in Hok. unfold num_ok in Hok. apply andb_true_iff in Hok as [Ha Hn]. destruct l as [|c l]; [discriminate|].
      pose proof Ha as Ha'. cbn [all_chars] in Ha'. apply andb_true_iff in Ha' as [Hc _].
      destruct (numch_facts c Hc) as [N1 [N2 [N3 [N4 [N5 [N6 _]]]]]].
      cbn [app]. change (lit "null") with ("n" :: lit "ull"). change (lit "true") with ("t" :: lit "rue"). change (lit "false") with ("f" :: lit "alse").
      cbn [starts_with]. rewrite N1, N2, N3. cbn [andb]. rewrite N4, N5, N6, Hc.
      change (c :: l ++ rest) with ((c :: l) ++ rest). rewrite (take_num_all (c :: l) rest Ha Hr). reflexivity.
    + change (jstring s ++ rest) with ("""" :: (jescape s ++ [""""]) ++ rest). cbn [starts_with lit Ascii.eqb Bool.eqb andb].
      change ("""" :: (jescape s ++ [""""]) ++ rest) with (jstring s ++ rest). rewrite jstr_lit_print. reflexivity.
  - cbn [jprint]. destruct l as [|x l].
    + reflexivity.
    + cbn [jv_ok] in Hok. destruct (jprint_head x) as [c [t [Hc [C1 C2]]]]; [cbn [forallb] in Hok; apply andb_true_iff in Hok; tauto|].
      change (("[" :: join comma (map jprint (x :: l)) ++ ["]"]) ++ rest) with ("[" :: (join comma (map jprint (x :: l)) ++ ["]"]) ++ rest) in *.
      rewrite <- app_assoc in *. cbn [app] in *.
      cbn [starts_with lit Ascii.eqb Bool.eqb andb].
      assert (Hh : exists t', join comma (map jprint (x :: l)) ++ "]" :: rest = c :: t').
      { destruct l; cbn [map join]; rewrite Hc; eexists; reflexivity. }
      destruct Hh as [t' Ht']. assert (E : jparse_items f (join comma (map jprint (x :: l)) ++ "]" :: rest) = Some (x :: l, rest)).
      { apply (items_roundtrip l x IH Hok f rest). cbn [jprint app length] in Hf. rewrite <- app_assoc in Hf. cbn [app] in Hf. lia. }
      cbn [jparse_v starts_with lit Ascii.eqb Bool.eqb andb]. rewrite Ht' in *.
      change (starts_with (lit "null") ("[" :: c :: t')) with false. change (starts_with (lit "true") ("[" :: c :: t')) with false.
      change (starts_with (lit "false") ("[" :: c :: t')) with false. cbv iota.
      etransitivity; [exact (not_close c t' (fun r' => Some (JArr [], r')) _ C1)|]. rewrite E. reflexivity.
  - cbn [jprint]. destruct l as [|x l].
    + reflexivity.
    + cbn [jv_ok] in Hok.
      change (map (fun kv => jstring (fst kv) ++ ":" :: jprint (snd kv)) (x :: l)) with (map member_text (x :: l)) in *.
      change (("{" :: join comma (map member_text (x :: l)) ++ ["}"]) ++ rest) with ("{" :: (join comma (map member_text (x :: l)) ++ ["}"]) ++ rest) in *.
      rewrite <- app_assoc in *. cbn [app] in *.
      cbn [starts_with lit Ascii.eqb Bool.eqb andb].
      assert (Hh : exists t', join comma (map member_text (x :: l)) ++ "}" :: rest = """" :: t').
      { destruct l; cbn [map join]; unfold member_text at 1, jstring; eexists; reflexivity. }
      destruct Hh as [t' Ht']. assert (E : jparse_members f (join comma (map member_text (x :: l)) ++ "}" :: rest) = Some (x :: l, rest)).
      { apply (members_roundtrip l x IH Hok f rest). cbn [jprint] in Hf.
        change (map (fun kv => jstring (fst kv) ++ ":" :: jprint (snd kv)) (x :: l)) with (map member_text (x :: l)) in Hf.
        cbn [app length] in Hf. rewrite <- app_assoc in Hf. cbn [app] in Hf. lia. }
      cbn [jparse_v starts_with lit Ascii.eqb Bool.eqb andb]. rewrite Ht' in *.
      change (starts_with (lit "null") ("{" :: """" :: t')) with false. change (starts_with (lit "true") ("{" :: """" :: t')) with false.
      change (starts_with (lit "false") ("{" :: """" :: t')) with false. cbv iota. rewrite E. reflexivity.
Qed.
Theorem jparse_print j : jv_ok j = true -> jparse (jprint j) = Some j.
Proof.
  intros H. unfold jparse. pose proof (jparse_v_print j H (2 * length (jprint j) + 2) [] ) as P. rewrite app_nil_r in P. rewrite P; [reflexivity| lia | reflexivity].
Qed.

(* ---- the encoders' texts parse as JSON with the OPC UA shape ---- *)
Lemma digit_numch c : is_digit c = true -> is_numch c = true. Proof. unfold is_numch. intros ->. reflexivity. Qed.
Lemma dec_num_ok n : num_ok (dec n) = true.
Proof.
  unfold num_ok. apply andb_true_iff. split.
  - pose proof (dec_digits_only n) as H. induction (dec n) as [|c r IH]; [reflexivity|]. cbn [all_chars].
    rewrite (digit_numch c) by (apply H; now left). apply IH. intros c' Hc'. apply H. now right.
  - pose proof (dec_nonempty n). destruct (dec n); [congruence|reflexivity].
Qed.
Lemma decZ_num_ok z : num_ok (decZ z) = true.
Proof.
  destruct z; cbn [decZ]; try apply dec_num_ok. pose proof (dec_num_ok (Npos p)) as H. unfold num_ok in *. apply andb_true_iff in H as [H _].
  cbn [all_chars]. rewrite H. reflexivity.
Qed.
Lemma shape_float_ok r : float_ok r = true -> jv_ok (shape_float r) = true.
Proof.
  unfold float_ok, shape_float. intros H. destruct (str_eqb r (lit "inf")); [reflexivity|]. destruct (str_eqb r (lit "-inf")); [reflexivity|].
  destruct (str_eqb r (lit "nan")); [reflexivity|]. exact H.
Qed.
Lemma shape_nodeid_ok n : nid_ok n = true -> jv_ok (shape_nodeid n) = true.
Proof.
  unfold nid_ok, shape_nodeid. intros H. destruct (nid_ns n =? 0)%Z; destruct (idtype_number (nid_type n) =? 0)%Z; cbn [app jv_ok forallb snd];
    rewrite ?decZ_num_ok; cbn [andb]; destruct (nid_type n); cbn [jv_ok]; rewrite ?H; reflexivity.
Qed.
Lemma shape_loctext_ok t l : jv_ok (shape_loctext t l) = true. Proof. destruct l; reflexivity. Qed.
Lemma shape_jv_ok v j : texts_ok v = true -> shape v = Some j -> jv_ok j = true.
Proof.
  intros Ht Hs. destruct v; cbn [shape texts_ok] in *; try discriminate.
  all: repeat match goal with
       | H : match ?o with Some _ => _ | None => _ end = Some _ |- _ => destruct o; [|discriminate]
       | H : (if ?b then _ else _) = Some _ |- _ => destruct b; [discriminate|]
       end; try (injection Hs as <-); try reflexivity.
  all: cbn [jv_ok forallb snd]; rewrite ?decZ_num_ok, ?shape_loctext_ok; try reflexivity.
  - now apply shape_float_ok.
  - now apply shape_nodeid_ok.
  - apply andb_true_iff in Ht as [A B]. rewrite (shape_float_ok _ A), (shape_float_ok _ B). reflexivity.
Qed.
(* the statement of C10 inside the model: the text the encoder returns is read by the JSON reader as the value the OPC UA encoding prescribes *)
Theorem parses_as_json E v j : dom10 v = true -> texts_ok v = true -> shape v = Some j ->
  exists s, json_encode E v = Ok (Some s) /\ jparse s = Some j.
Proof.
  intros Hd Ht Hs. exists (jprint j). split.
  - rewrite (json_encode_shape E v Hd), Hs. reflexivity.
  - apply jparse_print. exact (shape_jv_ok v j Ht Hs).
Qed.
Theorem ext_parses_as_json E tid body j : nid_dom tid = true -> nid_ok tid = true -> shape_ext tid body = Some j ->
  exists s, json_encode E (VExtObj tid body) = Ok (Some s) /\ jparse s = Some j.
Proof.
  intros Hd Ht Hs. exists (jprint j). split; [exact (json_ext_shape E tid body j Hd Hs)|]. apply jparse_print.
  destruct body; cbn [shape_ext] in Hs; try discriminate.
  - destruct b; [|discriminate]. injection Hs as <-. cbn [jv_ok forallb snd]. rewrite (shape_nodeid_ok tid Ht). reflexivity.
  - injection Hs as <-. cbn [jv_ok forallb snd]. rewrite (shape_nodeid_ok tid Ht). reflexivity.
Qed.
Theorem variant_parses_as_json E v tnum j : (tnum <> 0)%Z -> dom10 v = true -> texts_ok v = true -> shape v = Some j ->
  exists s, json_encode_j E (JVariant (Some v) tnum) = Ok (Some s) /\ jparse s = Some (JObj [(lit "Type", JNum (decZ tnum)); (lit "Body", j)]).
Proof.
  intros Hn Hd Ht Hs. eexists. split; [rewrite (json_variant E v tnum Hn Hd), Hs; reflexivity|]. apply jparse_print.
  cbn [jv_ok forallb snd]. rewrite decZ_num_ok, (shape_jv_ok v j Ht Hs). reflexivity.
Qed.
(* not vacuous, and a malformed text is refused *)
Example parses_example : jparse (lit "{""Type"":11,""Body"":[1.5,""a\""b"",null,{""Id"":85}]}")
  = Some (JObj [(lit "Type", JNum (lit "11")); (lit "Body", JArr [JNum (lit "1.5"); JStr (lit "a""b"); JNull; JObj [(lit "Id", JNum (lit "85"))]])]).
Proof. vm_compute. reflexivity. Qed.
Example bare_words_refused : jparse (lit "{""Type"":12,""Body"":[a b]}") = None. Proof. vm_compute. reflexivity. Qed.

(* a Variant built without an explicit type carries the built-in Type number of its value's class *)
Lemma variant_type_nonzero v t : variant_type_of v = Some t -> (t <> 0)%Z.
Proof. destruct v as [| k | [] | | | | | | | | | | | | | |]; try destruct k; cbn; intros H; try discriminate; injection H as <-; discriminate. Qed.
Theorem variant_auto_parses E v t j : variant_type_of v = Some t -> dom10 v = true -> texts_ok v = true -> shape v = Some j ->
  exists s, json_encode_variant_auto E (Some v) = Ok (Some s) /\ jparse s = Some (JObj [(lit "Type", JNum (decZ t)); (lit "Body", j)]).
Proof.
  intros Ht Hd Hx Hs. unfold json_encode_variant_auto. rewrite Ht. exact (variant_parses_as_json E v t j (variant_type_nonzero v t Ht) Hd Hx Hs).
Qed.
(* the inferred numbers are the built-in type numbers of the OPC UA specification (VariantType of the class's name) *)
Theorem variant_type_table :
  (forall b, variant_type_of (VBool b) = variant_number (lit "Boolean")) /\ (forall k z, variant_type_of (VInt k z) = variant_number (ikind_name k)) /\
  (forall f, variant_type_of (VFloat false f) = variant_number (lit "Float")) /\ (forall f, variant_type_of (VFloat true f) = variant_number (lit "Double")) /\
  (forall s, variant_type_of (VString s) = variant_number (lit "String")) /\ (forall d, variant_type_of (VDateTime d) = variant_number (lit "DateTime")) /\
  (forall s, variant_type_of (VGuid s) = variant_number (lit "Guid")) /\ (forall b, variant_type_of (VByteString b) = variant_number (lit "ByteString")) /\
  (forall r, variant_type_of (VXmlRaw r) = variant_number (lit "XmlElement")) /\ (forall n, variant_type_of (VNodeId n) = variant_number (lit "NodeId")) /\
  (forall t l, variant_type_of (VLocText t l) = variant_number (lit "LocalizedText")) /\ (forall t b, variant_type_of (VExtObj t b) = variant_number (lit "ExtensionObject")) /\
  (forall z s n, variant_type_of (VEnum z s n) = variant_number (lit "Int32")).
Proof. repeat split; try reflexivity. intros [] z; reflexivity. Qed.
