(* C12 - closures and type-constrained selections agree with graph reachability. *)
From Coq Require Import String List Arith Bool Relations.
Require Import PyStr Sexp M_C12 T_C12.
Import ListNotations.

(* (a,b), a<>b, is in the closure exactly when b is reachable from a over one or more references;
   every pair appears once.  For EVERY finite edge list (no bound on nodes or rounds). *)
Theorem C12_closure : forall E c, closure E = Ok c ->
  (forall a b, In (a, b) c <-> a <> b /\ clos_trans nat (edge E) a b) /\ NoDup c.
Proof. exact closure_correct. Qed.
(* the only way the closure fails is the documented assertion on a self reference *)
Theorem C12_closure_error : forall E, (exists e, closure E = Err e) <-> exists a, In (a, a) E.
Proof. exact closure_error. Qed.
(* subtypes: reachable along HasSubtype, plus the type itself (when it occurs in a type reference) *)
Theorem C12_subtypes : forall types hst trefs c, subtypes_of types hst trefs = Ok c ->
  (forall t s, In (t, s) c <-> In t types /\ subtype_or_self hst trefs t s) /\ NoDup c.
Proof. exact subtypes_of_correct. Qed.
Theorem C12_supertypes : forall types hst trefs c, supertypes_of types hst trefs = Ok c ->
  (forall s t, In (s, t) c <-> In t types /\ subtype_or_self hst trefs s t) /\ NoDup c.
Proof. exact supertypes_of_correct. Qed.
(* selecting by type returns exactly the references whose type is the type or one of its subtypes,
   in input order and multiplicity *)
Theorem C12_select : forall inst types hst trefs out, constrain inst types hst trefs = Ok out ->
  exists f, out = filter f inst /\ forall r, f r = true <-> selected types hst trefs r.
Proof. exact constrain_correct. Qed.
Theorem C12_select_by_name : forall name inst tn trefs out, select_by_name name inst tn trefs = Ok out ->
  exists t hst, reftype_id name tn = Ok t /\ reftype_id (lit "HasSubtype") tn = Ok hst /\
  exists f, out = filter f inst /\ forall r, f r = true <-> selected [t] hst trefs r.
Proof. exact select_by_name_correct. Qed.
Theorem C12_reftype_id : forall name tn t, reftype_id name tn = Ok t ->
  exists n, In n tn /\ tn_id n = t /\ tn_class n = lit "UAReferenceType" /\ tn_bname n = name.
Proof. exact reftype_id_correct. Qed.
(* the modelling-rule variants split a selection by whether the target has a HasModellingRule reference *)
Theorem C12_no_modelling_rule : forall kind inst tn trefs out, trg_has_no_mr kind inst tn trefs = Ok out ->
  exists sel mr, select_by_name kind inst tn trefs = Ok sel /\ select_by_name (lit "HasModellingRule") inst tn trefs = Ok mr /\
  exists f, out = filter f sel /\ forall r, f r = true <-> ~ exists m, In m mr /\ r_src m = r_trg r.
Proof. exact trg_has_no_mr_correct. Qed.
Theorem C12_has_modelling_rule : forall inst tn trefs out, trg_has_mr inst tn trefs = Ok out ->
  exists sel mr, select_by_name (lit "HierarchicalReferences") inst tn trefs = Ok sel /\
    select_by_name (lit "HasModellingRule") inst tn trefs = Ok mr /\
    forall r, In r out <-> In r sel /\ exists m, In m mr /\ r_src m = r_trg r.
Proof. exact trg_has_mr_correct. Qed.
(* circular-reference detection reports exactly the nodes lying on a cycle, each once *)
Theorem C12_cycles : forall E l, cycle_nodes E = Ok l ->
  (forall a, In a l <-> clos_trans nat (edge E) a a) /\ NoDup l.
Proof. exact cycle_nodes_correct. Qed.
(* faithful to the code: a reference type that is no endpoint of any type reference selects nothing,
   not even the references of exactly that type (known finding C12-isolated-type) *)
Theorem C12_isolated_type_refuted :
  exists inst types hst trefs out r, constrain inst types hst trefs = Ok out /\ In r inst /\ In (r_type r) types /\ ~ In r out.
Proof. exact select_isolated_type_refuted. Qed.

Print Assumptions C12_closure.
Print Assumptions C12_closure_error.
Print Assumptions C12_subtypes.
Print Assumptions C12_supertypes.
Print Assumptions C12_select.
Print Assumptions C12_select_by_name.
Print Assumptions C12_reftype_id.
Print Assumptions C12_no_modelling_rule.
Print Assumptions C12_has_modelling_rule.
Print Assumptions C12_cycles.
Print Assumptions C12_isolated_type_refuted.
