(* Model of the XML value encoders (ua_data_types.*.xml_encode) and of the value parser
   (value_parser.parse_value_element / parse_singular_value / parse_list_value / parse_localized_text /
   parse_engineering_units / parse_eu_range).  Definitions only. *)
From Coq Require Import String Ascii List Bool NArith ZArith.
Require Import PyStr PyInt Sexp Xml M_C09.
Import ListNotations.
Open Scope char_scope.

Definition TYPES_NS : str := lit "http://opcfoundation.org/UA/2008/02/Types.xsd".
Definition XMLNS_ATTR : str := lit "xmlns=""http://opcfoundation.org/UA/2008/02/Types.xsd""".

Inductive ikind := KSByte | KByte | KInt16 | KUInt16 | KInt32 | KUInt32 | KInt64 | KUInt64.
Definition ikind_name (k : ikind) : str :=
  match k with KSByte => lit "SByte" | KByte => lit "Byte" | KInt16 => lit "Int16" | KUInt16 => lit "UInt16"
  | KInt32 => lit "Int32" | KUInt32 => lit "UInt32" | KInt64 => lit "Int64" | KUInt64 => lit "UInt64" end.
Definition ikind_unsigned (k : ikind) : bool := match k with KByte | KUInt16 | KUInt32 | KUInt64 => true | _ => false end.
Definition all_ikinds : list ikind := [KSByte; KByte; KInt16; KUInt16; KInt32; KUInt32; KInt64; KUInt64].

(* a datetime.datetime: civil fields, microseconds, optional UTC offset in minutes (None = naive) *)
Record dt := { dy : Z; dmo : Z; dd : Z; dh : Z; dmi : Z; ds : Z; dus : Z; dtz : option Z }.

(* UA values.  Floats are identified by Python's repr of the float ("nan", "inf", "-inf", "0.1", ...); None = pd.NA *)
Inductive uav :=
| VBool (b : option bool)
| VInt (k : ikind) (z : option Z)
| VFloat (dbl : bool) (f : option str)
| VString (s : option str)
| VGuid (s : option str)
| VDateTime (d : dt)
| VByteString (b : option str)
| VNodeId (n : nodeid)
| VLocText (text : option str) (locale : option str)
| VEUInfo (uri : str) (unit : Z) (dn_text dn_locale desc_text desc_locale : option str)
| VRange (lo hi : str)
| VExtObj (tid : nodeid) (body : uav)
| VXmlRaw (raw : str)                 (* UAXMLElement as constructed by a caller: any string *)
| VXmlTree (t : nxml)                 (* UAXMLElement as produced by the parser: the element's infoset *)
| VList (tn : str) (items : list uav)
| VEnum (z : option Z) (s n : str)
| VNone.                              (* the parser's Python None *)

(* ---------- helpers ---------- *)
Definition ostr (o : option str) : str := match o with Some s => s | None => [] end.
Definition tag_open (name : str) (xmlns : bool) : str :=
  "<" :: name ++ (if xmlns then " " :: XMLNS_ATTR else []) ++ [">"].
Definition tag_close (name : str) : str := "<" :: "/" :: name ++ [">"].
Definition wrap (name : str) (xmlns : bool) (content : str) : str := tag_open name xmlns ++ content ++ tag_close name.

(* UADateTime._utc_isoformat: an aware value is converted to UTC (astimezone), then written as
   "%04d-%02d-%02dT%02d:%02d:%02d.%06dZ" *)
Definition pad_to (n : nat) (s : str) : str := repeat "0" (n - length s) ++ s.
Definition z2 (z : Z) : str := pad_to 2 (decZ z).
(* proleptic Gregorian day number (days since 1970-01-01) and back *)
Definition days_from_civil (y m d : Z) : Z :=
  let y' := if (m <=? 2)%Z then (y - 1)%Z else y in
  let era := (y' / 400)%Z in
  let yoe := (y' - era * 400)%Z in
  let doy := ((153 * (m + (if (2 <? m)%Z then -3 else 9)) + 2) / 5 + d - 1)%Z in
  let doe := (yoe * 365 + yoe / 4 - yoe / 100 + doy)%Z in
  (era * 146097 + doe - 719468)%Z.
Definition civil_from_days (z : Z) : Z * Z * Z :=
  let z := (z + 719468)%Z in
  let era := (z / 146097)%Z in
  let doe := (z - era * 146097)%Z in
  let yoe := ((doe - doe / 1460 + doe / 36524 - doe / 146096) / 365)%Z in
  let y := (yoe + era * 400)%Z in
  let doy := (doe - (365 * yoe + yoe / 4 - yoe / 100))%Z in
  let mp := ((5 * doy + 2) / 153)%Z in
  let d := (doy - (153 * mp + 2) / 5 + 1)%Z in
  let m := (if (mp <? 10)%Z then mp + 3 else mp - 9)%Z in
  ((if (m <=? 2)%Z then y + 1 else y)%Z, m, d).
Definition to_utc (d : dt) : dt :=
  match dtz d with
  | None => d
  | Some 0%Z => d                                  (* already UTC: astimezone leaves the fields alone *)
  | Some off =>
      let total := (dh d * 60 + dmi d - off)%Z in
      let shift := (total / 1440)%Z in
      let rem := (total mod 1440)%Z in
      let '(y, m, dd') := civil_from_days (days_from_civil (dy d) (dmo d) (dd d) + shift) in
      {| dy := y; dmo := m; dd := dd'; dh := (rem / 60)%Z; dmi := (rem mod 60)%Z; ds := ds d; dus := dus d; dtz := Some 0%Z |}
  end.
(* astimezone raises OverflowError when the UTC instant leaves years 1..9999 *)
Definition dt_in_range (d : dt) : bool := let u := to_utc d in ((1 <=? dy u) && (dy u <=? 9999))%Z.
Definition iso_utc (d0 : dt) : str :=
  let d := to_utc d0 in
  pad_to 4 (decZ (dy d)) ++ "-" :: z2 (dmo d) ++ "-" :: z2 (dd d) ++ "T" :: z2 (dh d) ++ ":" :: z2 (dmi d) ++ ":" :: z2 (ds d)
  ++ "." :: pad_to 6 (decZ (dus d)) ++ ["Z"].

(* base64.b64encode / b64decode (standard alphabet, '=' padding) *)
Definition b64_char (i : N) : ascii :=
  if (i <? 26)%N then ascii_of_N (65 + i) else if (i <? 52)%N then ascii_of_N (97 + (i - 26))
  else if (i <? 62)%N then ascii_of_N (48 + (i - 52)) else if (i =? 62)%N then "+" else "/".
Definition b64_val (c : ascii) : option N :=
  let n := N_of_ascii c in
  if ((65 <=? n) && (n <=? 90))%N then Some (n - 65)%N else if ((97 <=? n) && (n <=? 122))%N then Some (n - 97 + 26)%N
  else if ((48 <=? n) && (n <=? 57))%N then Some (n - 48 + 52)%N else if (n =? 43)%N then Some 62%N else if (n =? 47)%N then Some 63%N else None.
Fixpoint b64enc (b : str) : str :=
  match b with
  | [] => []
  | [x] => let n := (N_of_ascii x * 65536)%N in [b64_char (n / 262144); b64_char ((n / 4096) mod 64); "="; "="]
  | [x; y] => let n := (N_of_ascii x * 65536 + N_of_ascii y * 256)%N in
              [b64_char (n / 262144); b64_char ((n / 4096) mod 64); b64_char ((n / 64) mod 64); "="]
  | x :: y :: z :: r => let n := (N_of_ascii x * 65536 + N_of_ascii y * 256 + N_of_ascii z)%N in
              b64_char (n / 262144) :: b64_char ((n / 4096) mod 64) :: b64_char ((n / 64) mod 64) :: b64_char (n mod 64) :: b64enc r
  end.
(* strict decoder: groups of four alphabet characters, '=' only at the end; anything else is outside the model *)
Fixpoint b64dec_fuel (fuel : nat) (s : str) : option str :=
  match fuel with
  | O => match s with [] => Some [] | _ => None end
  | S f =>
    match s with
    | [] => Some []
    | a :: b :: c :: d :: r =>
        if (match r with [] => true | _ => false end) && Ascii.eqb d "=" then
          if Ascii.eqb c "=" then
            match b64_val a, b64_val b with
            | Some va, Some vb => Some [ascii_of_N ((va * 4 + vb / 16) mod 256)]
            | _, _ => None end
          else
            match b64_val a, b64_val b, b64_val c with
            | Some va, Some vb, Some vc => Some [ascii_of_N ((va * 4 + vb / 16) mod 256); ascii_of_N (((vb mod 16) * 16 + vc / 4) mod 256)]
            | _, _, _ => None end
        else
          match b64_val a, b64_val b, b64_val c, b64_val d, b64dec_fuel f r with
          | Some va, Some vb, Some vc, Some vd, Some rest =>
              Some (ascii_of_N ((va * 4 + vb / 16) mod 256) :: ascii_of_N (((vb mod 16) * 16 + vc / 4) mod 256)
                    :: ascii_of_N (((vc mod 4) * 64 + vd) mod 256) :: rest)
          | _, _, _, _, _ => None end
    | _ => None
    end
  end.
Definition b64dec (s : str) : option str := b64dec_fuel (length s) s.

(* UALocalizedText.is_valid_locale: ^[a-zA-Z]{2,3}(?:[_-][a-zA-Z]{2,3}(?:[_-](?:\w{2,8}|\d{3}))?)?(?:\.[a-zA-Z0-9]{2,8})?$
   on ASCII input (\w = letters, digits, underscore); `$` also matches before one final newline *)
Definition is_alpha (c : ascii) : bool := let n := N_of_ascii c in (((65 <=? n) && (n <=? 90)) || ((97 <=? n) && (n <=? 122)))%N.
Definition is_alnum (c : ascii) : bool := is_alpha c || is_digit c.
Definition is_word (c : ascii) : bool := is_alnum c || Ascii.eqb c "_".
Definition is_sep (c : ascii) : bool := Ascii.eqb c "_" || Ascii.eqb c "-".
Fixpoint take_while (p : ascii -> bool) (s : str) : str * str :=
  match s with c :: r => if p c then let '(a, b) := take_while p r in (c :: a, b) else ([], s) | [] => ([], []) end.
Definition len_in (lo hi : nat) (s : str) : bool := Nat.leb lo (length s) && Nat.leb (length s) hi.
(* optional variant part and end of string *)
Definition locale_tail (s : str) : bool :=
  let s' := match s with
            | "." :: r => let '(v, rest) := take_while is_alnum r in if len_in 2 8 v then Some rest else None
            | _ => Some s end in
  match s' with Some [] => true | Some [c] => Ascii.eqb c "010" | _ => false end.
(* all ways to split off a prefix of word characters of admissible length (regex backtracking over \w{2,8}) *)
Fixpoint region_ok (fuel : nat) (taken : nat) (s : str) : bool :=
  (Nat.leb 2 taken && Nat.leb taken 8 && locale_tail s) ||
  match fuel, s with
  | S f, c :: r => if is_word c then region_ok f (S taken) r else false
  | _, _ => false
  end.
Fixpoint script_ok (fuel : nat) (taken : nat) (s : str) : bool :=
  (* after 2..3 letters of the script: optionally [_-] region, then the tail *)
  (Nat.leb 2 taken && Nat.leb taken 3 &&
     (locale_tail s || match s with c :: r => is_sep c && region_ok 9 0 r | [] => false end)) ||
  match fuel, s with
  | S f, c :: r => if is_alpha c then script_ok f (S taken) r else false
  | _, _ => false
  end.
Fixpoint lang_ok (fuel : nat) (taken : nat) (s : str) : bool :=
  (Nat.leb 2 taken && Nat.leb taken 3 &&
     (locale_tail s || match s with c :: r => is_sep c && script_ok 4 0 r | [] => false end)) ||
  match fuel, s with
  | S f, c :: r => if is_alpha c then lang_ok f (S taken) r else false
  | _, _ => false
  end.
Definition valid_locale (s : str) : bool := lang_ok 4 0 s.

(* ---------- xml_encode, character for character ---------- *)
Definition enc_loctext_inner (text locale : option str) : str :=
  wrap (lit "Locale") false (ostr locale) ++ wrap (lit "Text") false (match text with Some t => escape t | None => [] end).
Definition enc_eu_lt (name : str) (text locale : option str) : str :=
  wrap name false (wrap (lit "Locale") false (match locale with Some l => l | None => lit "en" end)
                   ++ wrap (lit "Text") false (escape (ostr text))).
Fixpoint encode (xmlns : bool) (v : uav) : str :=
  match v with
  | VBool b => wrap (lit "Boolean") xmlns (match b with Some true => lit "true" | Some false => lit "false" | None => [] end)
  | VInt k z => wrap (ikind_name k) xmlns (match z with Some z => decZ z | None => [] end)
  | VEnum z _ _ => wrap (lit "Int32") xmlns (match z with Some z => decZ z | None => [] end)
  | VFloat dbl f => wrap (if dbl then lit "Double" else lit "Float") xmlns
                      (match f with Some r => if str_eqb r (lit "nan") then [] else r | None => [] end)
  | VString s => wrap (lit "String") xmlns (match s with Some s => escape s | None => [] end)
  | VGuid s => wrap (lit "Guid") xmlns (match s with Some s => escape s | None => [] end)
  | VDateTime d => wrap (lit "DateTime") xmlns (iso_utc d)
  | VByteString b => wrap (lit "ByteString") xmlns (match b with Some b => b64enc b | None => [] end)
  | VNodeId n => wrap (lit "Identifier") xmlns (print_nodeid n)
  | VLocText t l => wrap (lit "LocalizedText") xmlns (enc_loctext_inner t l)
  | VEUInfo uri unit dt_ dl et el =>
      wrap (lit "ExtensionObject") xmlns
        (wrap (lit "TypeId") false (wrap (lit "Identifier") false (lit "i=888")) ++
         wrap (lit "Body") false
           (wrap (lit "EUInformation") false
              (wrap (lit "NamespaceUri") false (escape uri) ++ wrap (lit "UnitId") false (decZ unit) ++
               enc_eu_lt (lit "DisplayName") dt_ dl ++ enc_eu_lt (lit "Description") et el)))
  | VRange lo hi =>
      wrap (lit "ExtensionObject") xmlns
        (wrap (lit "TypeId") false (wrap (lit "Identifier") false (lit "i=885")) ++
         wrap (lit "Body") false (wrap (lit "Range") false (wrap (lit "Low") false lo ++ wrap (lit "High") false hi)))
  | VExtObj tid body =>
      wrap (lit "ExtensionObject") xmlns
        (wrap (lit "TypeId") false (wrap (lit "Identifier") false (print_nodeid tid)) ++ wrap (lit "Body") false (encode false body))
  | VXmlRaw raw => raw
  | VXmlTree _ => []
  | VList tn items =>
      "<" :: lit "ListOf" ++ tn ++ " " :: (if xmlns then " " :: XMLNS_ATTR else []) ++ ">" ::
      flat_map (encode false) items ++ tag_close (lit "ListOf" ++ tn)
  | VNone => []
  end.

(* xml_encode raises only for a DateTime whose UTC instant is not representable *)
Fixpoint encodable (v : uav) : bool :=
  match v with
  | VDateTime d => dt_in_range d
  | VExtObj _ b => encodable b
  | VList _ items => forallb encodable items
  | _ => true
  end.

(* ---------- the parser ---------- *)
(* external functions: CPython float(text) (with the repr of the result), supplied as a table by the caller;
   a text that is not in the table is outside the model *)
Definition ext := list (str * option str).
Fixpoint ext_lookup (E : ext) (k : str) : option (option str) :=
  match E with [] => None | (a, b) :: r => if str_eqb a k then Some b else ext_lookup r k end.
Definition fparse (E : ext) (s : str) : res str :=
  match ext_lookup E s with Some (Some r) => Ok r | Some None => Err EValue | None => Err EUnsupported end.

(* strict ISO-8601 as dateutil reads it: YYYY-MM-DDTHH:MM:SS[.f{1,6}][Z|+HH:MM|-HH:MM]; anything else is outside the model *)
Definition digits_n (n : nat) (s : str) : option (Z * str) :=
  let d := firstn n s in
  if Nat.eqb (length d) n && all_chars is_digit d then omap (fun v => (Z.of_N v, skipn n s)) (py_nat d) else None.
Definition expect (c : ascii) (s : str) : option str := match s with x :: r => if Ascii.eqb x c then Some r else None | [] => None end.
Definition is_leap (y : Z) : bool := ((y mod 4 =? 0) && (negb (y mod 100 =? 0) || (y mod 400 =? 0)))%Z.
Definition days_in (y m : Z) : Z :=
  if (m =? 2)%Z then (if is_leap y then 29 else 28)%Z
  else if ((m =? 4) || (m =? 6) || (m =? 9) || (m =? 11))%Z then 30%Z else 31%Z.
Definition parse_iso (s : str) : option dt :=
  obind (digits_n 4 s) (fun '(y, s) => obind (expect "-" s) (fun s => obind (digits_n 2 s) (fun '(mo, s) =>
  obind (expect "-" s) (fun s => obind (digits_n 2 s) (fun '(d, s) => obind (expect "T" s) (fun s =>
  obind (digits_n 2 s) (fun '(h, s) => obind (expect ":" s) (fun s => obind (digits_n 2 s) (fun '(mi, s) =>
  obind (expect ":" s) (fun s => obind (digits_n 2 s) (fun '(sec, s) =>
  let '(us, s) := match s with
                  | "." :: r => let '(f, rest) := take_while is_digit r in
                                if len_in 1 6 f then (omap (fun v => Z.of_N v) (py_nat (f ++ repeat "0" (6 - length f))), rest) else (None, rest)
                  | _ => (Some 0%Z, s) end in
  obind us (fun us =>
  let tz := match s with
            | [] => Some None
            | ["Z"] => Some (Some 0%Z)
            | sg :: r => if Ascii.eqb sg "+" || Ascii.eqb sg "-" then
                           obind (digits_n 2 r) (fun '(oh, r) => obind (expect ":" r) (fun r => obind (digits_n 2 r) (fun '(om, r) =>
                             match r with [] => if ((oh <? 24) && (om <? 60))%Z then Some (Some ((if Ascii.eqb sg "-" then -1 else 1) * (oh * 60 + om))%Z) else None
                             | _ => None end)))
                         else None
            end in
  obind tz (fun tz =>
  if ((1 <=? y) && (1 <=? mo) && (mo <=? 12) && (1 <=? d) && (d <=? days_in y mo) && (h <? 24) && (mi <? 60) && (sec <? 60))%Z
  then Some {| dy := y; dmo := mo; dd := d; dh := h; dmi := mi; ds := sec; dus := us; dtz := tz |} else None))))))))))))).

Definition strip_opt (t : option str) : option str := omap strip t.
Definition nonempty (s : option str) : bool := match s with Some (_ :: _) => true | _ => false end.
Definition ikind_of_name (s : str) : option ikind :=
  find (fun k => str_eqb (ikind_name k) s) all_ikinds.
(* UAString / UAGuid / UAByteString constructors turn the empty value into pd.NA *)
Definition norm_empty (s : option str) : option str := match s with Some [] => None | x => x end.

(* parse_localized_text(el) *)
Definition dec_loctext (ch : list nxml) : res (option str * option str) :=
  let text := match nfind TYPES_NS (lit "Text") ch with Some t => ntext t | None => None end in
  let locale := match nfind TYPES_NS (lit "Locale") ch with
                | Some l => match ntext l with Some raw => (match strip raw with [] => None | _ => Some raw end) | None => None end
                | None => None end in
  match locale with
  | Some l => if valid_locale l then Ok (text, locale) else Err EValue
  | None => Ok (text, None)
  end.
Definition typeid_of (ch : list nxml) : option (res nodeid) :=
  match nfind TYPES_NS (lit "TypeId") ch with
  | None => None
  | Some t => Some (match nfind TYPES_NS (lit "Identifier") (nchildren t) with
                    | Some i => match ntext i with Some s => parse_nodeid s [] [] | None => Err EType end
                    | None => Err EOther end)       (* None.text -> AttributeError *)
  end.
Definition is_numeric_ns0 (n : nodeid) (v : str) : bool :=
  Z.eqb (nid_ns n) 0 && match nid_type n with Numeric => true | _ => false end && str_eqb (nid_value n) v.

Definition dec_eu (E : ext) (body : option nxml) : res uav :=
  match body with
  | None => Ok VNone
  | Some b =>
      match nfind TYPES_NS (lit "EUInformation") (nchildren b) with
      | None => Ok VNone
      | Some eu =>
          let ch := nchildren eu in
          match nfind TYPES_NS (lit "NamespaceUri") ch with
          | None => Err EOther
          | Some u =>
              match ntext u with
              | None => Ok VNone
              | Some uri =>
                  match nfind TYPES_NS (lit "UnitId") ch with
                  | None => Err EOther
                  | Some un =>
                      match ntext un with
                      | None => Err EOther
                      | Some ut =>
                          match py_int (strip ut) with
                          | None => Err EValue
                          | Some unit =>
                              match nfind TYPES_NS (lit "DisplayName") ch, nfind TYPES_NS (lit "Description") ch with
                              | Some dn, Some de =>
                                  rbind (dec_loctext (nchildren dn)) (fun '(t1, l1) =>
                                  rbind (dec_loctext (nchildren de)) (fun '(t2, l2) =>
                                  Ok (VEUInfo (rstrip uri) unit t1 l1 t2 l2)))
                              | _, _ => Err EOther
                              end
                          end
                      end
                  end
              end
          end
      end
  end.
Definition float_gt (E : ext) (a b : str) : bool :=
  (* low > high on the floats denoted by two reprs: supplied by the caller under the key "gt:a:b" *)
  match ext_lookup E (lit "gt:" ++ a ++ ":" :: b) with Some (Some _) => true | _ => false end.
Definition dec_range (E : ext) (body : option nxml) : res uav :=
  match body with
  | None => Ok VNone
  | Some b =>
      match nfind TYPES_NS (lit "Range") (nchildren b) with
      | None => Ok VNone
      | Some r =>
          match nfind TYPES_NS (lit "Low") (nchildren r), nfind TYPES_NS (lit "High") (nchildren r) with
          | Some lo, Some hi =>
              match ntext lo, ntext hi with
              | Some tl, Some th =>
                  rbind (fparse E (strip tl)) (fun l => rbind (fparse E (strip th)) (fun h =>
                  if float_gt E l h then Err EValue else Ok (VRange l h)))
              | _, _ => Err EOther
              end
          | _, _ => Err EOther
          end
      end
  end.

Definition SIMPLE : list str :=
  map lit ["Boolean"; "SByte"; "Byte"; "Int16"; "UInt16"; "Int32"; "UInt32"; "Int64"; "UInt64"; "Float"; "Double";
           "String"; "DateTime"; "Guid"; "ByteString"; "NodeId"]%string.
Definition mem_str (s : str) (l : list str) : bool := existsb (str_eqb s) l.
(* class of a decoded value, for UAListOf's homogeneity check: isinstance(element, type(first)) *)
Definition vclass (v : uav) : str :=
  match v with
  | VBool _ => lit "Boolean" | VInt k _ => ikind_name k | VFloat true _ => lit "Double" | VFloat false _ => lit "Float"
  | VString _ => lit "String" | VGuid _ => lit "Guid" | VDateTime _ => lit "DateTime" | VByteString _ => lit "ByteString"
  | VNodeId _ => lit "NodeId" | VLocText _ _ => lit "LocalizedText" | VEUInfo _ _ _ _ _ _ => lit "EngineeringUnits"
  | VRange _ _ => lit "EURange" | VExtObj _ _ => lit "ExtensionObject" | VXmlRaw _ | VXmlTree _ => lit "XMLElement"
  | VList _ _ => lit "ListOf" | VEnum _ _ _ => lit "Enumeration" | VNone => lit "None" end.
(* isinstance(b, type(a)): same class, or b's class derives from a's (UAGuid < UAString, UAEnumeration < UAInt32) *)
Definition isinstance_of (a b : uav) : bool :=
  str_eqb (vclass a) (vclass b) ||
  (str_eqb (vclass a) (lit "String") && str_eqb (vclass b) (lit "Guid")) ||
  (str_eqb (vclass a) (lit "Int32") && str_eqb (vclass b) (lit "Enumeration")).

(* parse_value_element *)
Fixpoint decode (E : ext) (t : nxml) : res uav :=
  match t with
  | NElem ns name _ text ch =>
    match ns with
    | [] => Err EOther                      (* tagsplit does not match a tag without a namespace *)
    | _ =>
    if starts_with (lit "ListOf") name then
      rbind (rsequence (map (decode E) ch)) (fun items =>
      match items with
      | [] => Ok (VList (skipn 6 name) [])
      | first :: _ => if forallb (isinstance_of first) items then Ok (VList (skipn 6 name) items) else Err EType
      end)
    else if mem_str name SIMPLE then
      let stripped := strip_opt text in
      match ikind_of_name name with
      | Some k =>
          if nonempty stripped then
            match py_int (ostr stripped) with
            | Some z => if ikind_unsigned k && (z <? 0)%Z then Err EValue else Ok (VInt k (Some z))
            | None => Err EValue end
          else Ok (VInt k None)
      | None =>
        if str_eqb name (lit "Float") || str_eqb name (lit "Double") then
          if nonempty stripped then rmap (fun r => VFloat (str_eqb name (lit "Double")) (Some r)) (fparse E (ostr stripped))
          else Ok (VFloat (str_eqb name (lit "Double")) None)
        else if str_eqb name (lit "String") then Ok (VString (norm_empty stripped))
        else if str_eqb name (lit "Guid") then Ok (VGuid (norm_empty stripped))
        else if str_eqb name (lit "DateTime") then
          match stripped with
          | None => Err EType
          | Some s => match parse_iso s with Some d => Ok (VDateTime d) | None => Err EUnsupported end
          end
        else if str_eqb name (lit "Boolean") then
          if nonempty stripped then Ok (VBool (Some (str_eqb (ostr stripped) (lit "true") || str_eqb (ostr stripped) (lit "True"))))
          else Ok (VBool None)
        else if str_eqb name (lit "ByteString") then
          match stripped with
          | None => Ok (VByteString None)
          | Some s => match b64dec s with Some b => Ok (VByteString (norm_empty (Some b))) | None => Err EUnsupported end
          end
        else (* NodeId *)
          match text with
          | None => Ok VNone
          | Some raw =>
              if nonempty stripped then rmap VNodeId (parse_nodeid raw [] [])
              else match ch with
                   | c :: _ => match ntext c with Some s => rmap VNodeId (parse_nodeid s [] []) | None => Err EType end
                   | [] => Err EOther end
          end
      end
    else if str_eqb name (lit "TypeId") then
      match nfind TYPES_NS (lit "Identifier") ch with
      | Some i => match ntext i with Some s => rmap VNodeId (parse_nodeid s [] []) | None => Err EType end
      | None => Err EOther end
    else if str_eqb name (lit "LocalizedText") then
      rmap (fun '(t, l) => VLocText t l) (dec_loctext ch)
    else if str_eqb name (lit "ExtensionObject") then
      let body := nfind TYPES_NS (lit "Body") ch in
      match typeid_of ch with
      | Some (Err e) => Err e
      | tid =>
          let tid' := match tid with Some (Ok n) => Some n | _ => None end in
          if match tid' with Some n => is_numeric_ns0 n (lit "888") | None => false end then dec_eu E body
          else if match tid' with Some n => is_numeric_ns0 n (lit "885") | None => false end then dec_range E body
          else
            (* first child of the Body element, found among THIS element's children *)
            let inner := (fix find_body (l : list nxml) : option (res uav) :=
                            match l with
                            | [] => None
                            | NElem bns bname _ _ bch :: r =>
                                if str_eqb bns TYPES_NS && str_eqb bname (lit "Body")
                                then match bch with c :: _ => Some (decode E c) | [] => None end
                                else find_body r
                            end) ch in
            match inner with
            | Some (Err e) => Err e
            | Some (Ok VNone) | None => Ok VNone
            | Some (Ok b) =>
                match tid' with
                | None => Ok VNone
                | Some n =>
                    match b with
                    | VByteString _ | VXmlTree _ | VXmlRaw _ => Ok (VExtObj n b)
                    | _ => Err EType            (* body must be UAByteString, UAStructure or UAXMLElement *)
                    end
                end
            end
      end
    else Ok (VXmlTree t)
    end
  end.

(* findval: the Value child of a node element *)
Definition dec_value_elem (E : ext) (value_elem : option nxml) : res (option uav) :=
  match value_elem with
  | None => Ok None
  | Some v => match nchildren v with [] => Ok None | c :: _ => rmap Some (decode E c) end
  end.

(* the fragment as the parser sees it: optionally wrapped in <Value xmlns=Types> (include_xmlns = False) *)
Definition decode_text (E : ext) (wrapped : bool) (s : str) : res uav :=
  match xparse s with
  | None => Err EXml
  | Some t =>
      let n := resolve (if wrapped then TYPES_NS else []) [] t in
      decode E n
  end.

(* ---------- the element structure of an encoded value (what an XML reader makes of xml_encode's text, for values whose
   raw-spliced parts contain no markup characters) ---------- *)
Definition tleaf (name text : str) : nxml := NElem TYPES_NS name [] (match text with [] => None | _ => Some text end) [].
Definition tnode (name : str) (children : list nxml) : nxml := NElem TYPES_NS name [] None children.
Definition tloctext (name : str) (text locale : option str) (default_locale : option str) : nxml :=
  tnode name [tleaf (lit "Locale") (match locale with Some l => l | None => ostr default_locale end); tleaf (lit "Text") (ostr text)].
Fixpoint vtree (v : uav) : option nxml :=
  match v with
  | VBool b => Some (tleaf (lit "Boolean") (match b with Some true => lit "true" | Some false => lit "false" | None => [] end))
  | VInt k z => Some (tleaf (ikind_name k) (match z with Some z => decZ z | None => [] end))
  | VEnum z _ _ => Some (tleaf (lit "Int32") (match z with Some z => decZ z | None => [] end))
  | VFloat dbl f => Some (tleaf (if dbl then lit "Double" else lit "Float") (match f with Some r => if str_eqb r (lit "nan") then [] else r | None => [] end))
  | VString s => Some (tleaf (lit "String") (ostr s))
  | VGuid s => Some (tleaf (lit "Guid") (ostr s))
  | VDateTime d => Some (tleaf (lit "DateTime") (iso_utc d))
  | VByteString b => Some (tleaf (lit "ByteString") (match b with Some b => b64enc b | None => [] end))
  | VNodeId n => Some (tleaf (lit "Identifier") (print_nodeid n))
  | VLocText t l => Some (tloctext (lit "LocalizedText") t l None)
  | VEUInfo uri unit t1 l1 t2 l2 =>
      Some (tnode (lit "ExtensionObject")
              [tnode (lit "TypeId") [tleaf (lit "Identifier") (lit "i=888")];
               tnode (lit "Body") [tnode (lit "EUInformation")
                  [tleaf (lit "NamespaceUri") uri; tleaf (lit "UnitId") (decZ unit);
                   tloctext (lit "DisplayName") t1 l1 (Some (lit "en")); tloctext (lit "Description") t2 l2 (Some (lit "en"))]]])
  | VRange lo hi =>
      Some (tnode (lit "ExtensionObject")
              [tnode (lit "TypeId") [tleaf (lit "Identifier") (lit "i=885")];
               tnode (lit "Body") [tnode (lit "Range") [tleaf (lit "Low") lo; tleaf (lit "High") hi]]])
  | VExtObj tid body =>
      match vtree body with
      | Some b => Some (tnode (lit "ExtensionObject") [tnode (lit "TypeId") [tleaf (lit "Identifier") (print_nodeid tid)]; tnode (lit "Body") [b]])
      | None => None end
  | VXmlTree t => Some t
  | VXmlRaw _ | VNone => None
  | VList tn items =>
      (fix go (l : list uav) (acc : list nxml) : option nxml :=
         match l with
         | [] => Some (tnode (lit "ListOf" ++ tn) (rev acc))
         | x :: r => match vtree x with Some t => go r (t :: acc) | None => None end
         end) items []
  end.
