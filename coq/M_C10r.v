(* A JSON reader for the texts the encoders produce (no whitespace between tokens; numbers are kept as their literal text): the
   counterpart of jprint, so that "the text parses as JSON and has this shape" is a statement inside the model.  Definitions only. *)
From Coq Require Import String Ascii List Bool NArith ZArith.
Require Import PyStr PyInt Sexp Xml M_C09 M_C08 M_C10.
Import ListNotations.
Open Scope char_scope.

(* the raw (still escaped) characters of a string literal up to its closing quote *)
Fixpoint jraw (s : str) : option (str * str) :=
  match s with
  | [] => None
  | c :: r =>
      if Ascii.eqb c """" then Some ([], r)
      else if Ascii.eqb c "\" then match r with d :: r' => omap (fun p => (c :: d :: fst p, snd p)) (jraw r') | [] => None end
      else omap (fun p => (c :: fst p, snd p)) (jraw r)
  end.
Definition is_numch (c : ascii) : bool := is_digit c || Ascii.eqb c "-" || Ascii.eqb c "+" || Ascii.eqb c "." || Ascii.eqb c "e" || Ascii.eqb c "E".
Fixpoint take_num (s : str) : str * str := match s with c :: r => if is_numch c then let p := take_num r in (c :: fst p, snd p) else ([], s) | [] => ([], []) end.
Definition jstr_lit (s : str) : option (str * str) :=
  match s with """" :: r => obind (jraw r) (fun p => omap (fun t => (t, snd p)) (junescape (fst p))) | _ => None end.
Fixpoint jparse_v (fuel : nat) (s : str) : option (jv * str) :=
  match fuel with
  | O => None
  | S f =>
      if starts_with (lit "null") s then Some (JNull, skipn 4 s)
      else if starts_with (lit "true") s then Some (JBool true, skipn 4 s)
      else if starts_with (lit "false") s then Some (JBool false, skipn 5 s)
      else match s with
           | [] => None
           | c :: r =>
               if Ascii.eqb c """" then omap (fun p => (JStr (fst p), snd p)) (jstr_lit s)
               else if Ascii.eqb c "[" then
                 match r with
                 | "]" :: r' => Some (JArr [], r')
                 | _ => omap (fun p => (JArr (fst p), snd p)) (jparse_items f r)
                 end
               else if Ascii.eqb c "{" then
                 match r with
                 | "}" :: r' => Some (JObj [], r')
                 | _ => omap (fun p => (JObj (fst p), snd p)) (jparse_members f r)
                 end
               else if is_numch c then let p := take_num s in Some (JNum (fst p), snd p)
               else None
           end
  end
with jparse_items (fuel : nat) (s : str) : option (list jv * str) :=
  match fuel with
  | O => None
  | S f =>
      obind (jparse_v f s) (fun p =>
      match snd p with
      | "," :: r => omap (fun q => (fst p :: fst q, snd q)) (jparse_items f r)
      | "]" :: r => Some ([fst p], r)
      | _ => None
      end)
  end
with jparse_members (fuel : nat) (s : str) : option (list (str * jv) * str) :=
  match fuel with
  | O => None
  | S f =>
      obind (jstr_lit s) (fun k =>
      match snd k with
      | ":" :: r =>
          obind (jparse_v f r) (fun p =>
          match snd p with
          | "," :: r' => omap (fun q => ((fst k, fst p) :: fst q, snd q)) (jparse_members f r')
          | "}" :: r' => Some ([(fst k, fst p)], r')
          | _ => None
          end)
      | _ => None
      end)
  end.
Definition jparse (s : str) : option jv :=
  match jparse_v (2 * length s + 2) s with Some (j, []) => Some j | _ => None end.

(* ---- the values the theorems speak about (decidable; evaluated on every generated case) ---- *)
Definition num_ok (l : str) : bool := all_chars is_numch l && match l with [] => false | _ => true end.
Fixpoint jv_ok (j : jv) {struct j} : bool :=
  match j with JNum l => num_ok l | JArr l => forallb jv_ok l | JObj l => forallb (fun kv => jv_ok (snd kv)) l | _ => true end.
(* no 64-bit integers, no lists, identifiers that need no escaping *)
Definition dom10 (v : uav) : bool :=
  match v with
  | VInt k (Some _) => negb (is64 k)
  | VDateTime d => dt_in_range d
  | VNodeId n => match nid_type n with Numeric => true | _ => json_safe (nid_value n) end
  | VExtObj _ _ | VList _ _ | VXmlTree _ | VNone => false
  | _ => true
  end.
Definition nid_dom (n : nodeid) : bool := match nid_type n with Numeric => true | _ => json_safe (nid_value n) end.
Definition shape_ext (tid : nodeid) (body : uav) : option jv :=
  match body with
  | VByteString (Some b) => Some (JObj [(lit "TypeId", shape_nodeid tid); (lit "Body", JStr (b64enc b)); (lit "Encoding", JNum (lit "1"))])
  | VXmlRaw r => Some (JObj [(lit "TypeId", shape_nodeid tid); (lit "Body", JStr r); (lit "Encoding", JNum (lit "2"))])
  | _ => None
  end.
(* number texts supplied from outside the model (repr of a float, the digits of a numeric identifier) look like numbers *)
Definition float_ok (r : str) : bool := str_eqb r (lit "inf") || str_eqb r (lit "-inf") || str_eqb r (lit "nan") || num_ok r.
Definition nid_ok (n : nodeid) : bool := match nid_type n with Numeric => num_ok (nid_value n) | _ => true end.
Definition texts_ok (v : uav) : bool :=
  match v with
  | VFloat _ (Some r) => float_ok r
  | VRange lo hi => float_ok lo && float_ok hi
  | VNodeId n => nid_ok n
  | _ => true
  end.

(* UAVariant.__post_init__ without an explicit type: the built-in Type number is inferred from the EXACT class of the value
   (ua_class_type_to_variant_type.get(type(value))); classes outside the table raise *)
Definition variant_type_of (v : uav) : option Z :=
  match v with
  | VBool _ => Some 1
  | VInt KSByte _ => Some 2 | VInt KByte _ => Some 3 | VInt KInt16 _ => Some 4 | VInt KUInt16 _ => Some 5
  | VInt KInt32 _ => Some 6 | VInt KUInt32 _ => Some 7 | VInt KInt64 _ => Some 8 | VInt KUInt64 _ => Some 9
  | VEnum _ _ _ => Some 6
  | VFloat false _ => Some 10 | VFloat true _ => Some 11
  | VString _ => Some 12 | VDateTime _ => Some 13 | VGuid _ => Some 14 | VByteString _ => Some 15
  | VXmlRaw _ | VXmlTree _ => Some 16
  | VNodeId _ => Some 17 | VLocText _ _ => Some 21 | VExtObj _ _ => Some 22
  | VEUInfo _ _ _ _ _ _ | VRange _ _ | VList _ _ | VNone => None
  end%Z.
Definition json_encode_variant_auto (E : ext) (v : option uav) : res (option str) :=
  match v with
  | None => json_encode_j E (JVariant None 0)
  | Some x => match variant_type_of x with Some t => json_encode_j E (JVariant (Some x) t) | None => Err EValue end
  end.
