(* Proofs about the event loop of iterparse_xml (M_Iter.v): batching never changes what is collected. *)
From Coq Require Import List Bool Arith Lia.
Require Import PyStr Sexp M_Parse M_Iter.
Import ListNotations.

Section Loop.
  Context {A : Type}.
  Definition flat (s : lstate A) : list A := concat (ls_batches s) ++ ls_elems s.
  Lemma concat_snoc (l : list (list A)) x : concat (l ++ [x]) = concat l ++ x.
  Proof. rewrite concat_app. cbn. now rewrite app_nil_r. Qed.
  Lemma lstep_flat bs (s : lstate A) e :
    flat (lstep bs s e) = flat s ++ match classify (ls_found s) e with Skip => [] | Go app _ => if app then [ev_elem e] else [] end
    /\ ls_found (lstep bs s e) = match classify (ls_found s) e with Skip => ls_found s | Go _ f => f end.
  Proof.
    unfold lstep, flat. destruct (classify (ls_found s) e) as [|app f]; [now rewrite app_nil_r|].
    destruct (Nat.eqb (ls_i s mod bs) 0); cbn [ls_elems ls_batches ls_found]; (split; [|reflexivity]).
    - rewrite concat_snoc, app_nil_r. destruct app; [now rewrite app_assoc | now rewrite !app_nil_r].
    - destruct app; [now rewrite app_assoc | now rewrite !app_nil_r].
  Qed.
  Lemma fold_flat bs : forall evs (s : lstate A), flat (fold_left (lstep bs) evs s) = flat s ++ collect (ls_found s) evs.
  Proof.
    induction evs as [|e r IH]; intros s; cbn [fold_left collect]; [now rewrite app_nil_r|].
    rewrite IH. destruct (lstep_flat bs s e) as [Hf Hd]. rewrite Hf, Hd.
    destruct (classify (ls_found s) e) as [|app f]; [now rewrite app_nil_r | now rewrite app_assoc].
  Qed.
  (* whatever the batch size (any number of counted events per batch, down to one), the batches handed on, concatenated, are the collected elements in order *)
  Theorem batches_concat bs (evs : list (event A)) : concat (batches_of bs evs) = collect false evs.
  Proof.
    unfold batches_of. pose proof (fold_flat bs evs linit) as H. unfold flat in H. cbn [linit ls_batches ls_elems ls_found concat app] in H.
    destruct (ls_elems (fold_left (lstep bs) evs linit)) as [|x l] eqn:E.
    - now rewrite app_nil_r in H.
    - now rewrite concat_snoc.
  Qed.
  Corollary batch_size_irrelevant bs bs' (evs : list (event A)) : concat (batches_of bs evs) = concat (batches_of bs' evs).
  Proof. now rewrite !batches_concat. Qed.
  (* no batch is handed on twice and none is lost: the number of elements over all batches is the number collected *)
  Corollary batches_total bs (evs : list (event A)) : length (concat (batches_of bs evs)) = length (collect false evs).
  Proof. now rewrite batches_concat. Qed.
  Lemma collect_app : forall (l r : list (event A)) found,
    collect found (l ++ r) = collect found l ++ collect (fold_left (fun f e => match classify f e with Skip => f | Go _ f' => f' end) l found) r.
  Proof.
    induction l as [|e l IH]; intros r found; cbn [app collect fold_left]; [reflexivity|].
    destruct (classify found e) as [|app f]; [apply IH | rewrite IH; now rewrite app_assoc].
  Qed.
End Loop.

(* the events of a document: exactly its node elements are collected, in document order, with or without NamespaceUris / Models / Aliases *)
Lemma collect_uris (us : list str) found r :
  collect found (flat_map (fun _ : str => pair_ev KUri (@None node_elem)) us ++ r) = (if found then flat_map (fun _ => [None]) us else []) ++ collect found r.
Proof.
  induction us as [|u us IH]; cbn [flat_map app]; [destruct found; reflexivity|].
  unfold pair_ev at 1. cbn [app collect classify ev_kind ev_end ev ev_elem]. destruct found; cbn [negb andb app]; rewrite IH; reflexivity.
Qed.
Lemma collect_reqs {B} (l : list B) found r :
  collect found (flat_map (fun _ : B => pair_ev KReqModel (@None node_elem)) l ++ r) = collect found r.
Proof. induction l as [|x l IH]; cbn [flat_map app]; [reflexivity|]. unfold pair_ev at 1. cbn [app collect classify ev_kind ev_end ev]. exact IH. Qed.
Lemma collect_models (ms : list model_elem) found r :
  collect found (flat_map (fun m => [ev false KModel None] ++ flat_map (fun _ => pair_ev KReqModel (@None node_elem)) (me_required m) ++ [ev true KModel None]) ms ++ r) = collect found r.
Proof.
  induction ms as [|m ms IH]; cbn [flat_map app]; [reflexivity|].
  cbn [collect classify ev_kind ev]. rewrite <- !app_assoc. rewrite collect_reqs. cbn [app collect classify ev_kind ev]. exact IH.
Qed.
Lemma collect_aliases {B} (l : list B) found r :
  collect found (flat_map (fun _ : B => pair_ev KAlias (@None node_elem)) l ++ r) = collect found r.
Proof. induction l as [|x l IH]; cbn [flat_map app]; [reflexivity|]. unfold pair_ev at 1. cbn [app collect classify ev_kind ev_end ev]. exact IH. Qed.
Lemma collect_nodes (ns : list node_elem) found r :
  collect found (flat_map (fun n => pair_ev KNode (Some n)) ns ++ r) = map Some ns ++ collect found r.
Proof.
  induction ns as [|n ns IH]; cbn [flat_map app map]; [reflexivity|].
  unfold pair_ev at 1. cbn [app collect classify ev_kind ev_end ev ev_elem]. now rewrite IH.
Qed.
Theorem events_collect_nodes (d : doc) : collect false (events_of_doc d) = map Some (d_nodes d).
Proof.
  unfold events_of_doc. cbn [app collect classify ev_kind ev].
  assert (Tail : forall found, collect found (match d_models d with
     | Some ms => flat_map (fun m => [ev false KModel None] ++ flat_map (fun _ => pair_ev KReqModel None) (me_required m) ++ [ev true KModel None]) ms
     | None => [] end
  ++ match d_aliases d with Some al => flat_map (fun _ => pair_ev KAlias None) al | None => [] end
  ++ flat_map (fun n => pair_ev KNode (Some n)) (d_nodes d)
  ++ [ev true KNodeSet None]) = map Some (d_nodes d)).
  { intros found.
    assert (T2 : forall f, collect f (match d_aliases d with Some al => flat_map (fun _ => pair_ev KAlias None) al | None => [] end
                 ++ flat_map (fun n => pair_ev KNode (Some n)) (d_nodes d) ++ [ev true KNodeSet (@None node_elem)]) = map Some (d_nodes d)).
    { intros f. destruct (d_aliases d) as [al|]; [rewrite collect_aliases|cbn [app]]; rewrite collect_nodes; cbn [collect classify ev_kind ev]; now rewrite app_nil_r. }
    destruct (d_models d) as [ms|]; [rewrite collect_models|cbn [app]]; apply T2. }
  destruct (d_uris d) as [us|].
  - cbn [app collect classify ev_kind ev_end ev negb andb]. rewrite <- app_assoc. rewrite collect_uris.
    cbn [app collect classify ev_kind ev_end ev negb andb]. apply Tail.
  - cbn [app]. apply Tail.
Qed.
(* composed: for every document and every batch size the loop hands on exactly the document's node elements, each once, in order *)
Theorem doc_batches (d : doc) bs : concat (batches_of bs (events_of_doc d)) = map Some (d_nodes d).
Proof. rewrite batches_concat. apply events_collect_nodes. Qed.

(* non-vacuity: three nodes, a batch of two counted events: the batches are cut in the middle of the document *)
Example batches_example :
  let n := {| ev_end := true; ev_kind := KNode; ev_elem := 7 |} in
  let evs := [ev false KNodeSet 0; ev false KNode 1; ev true KNode 1; ev false KModel 0; ev true KModel 0; ev false KNode 2; ev true KNode 2; ev false KNode 3; ev true KNode 3; ev true KNodeSet 0] in
  batches_of 2 evs = [[]; [1]; [2]; [3]] /\ batches_of 1000 evs = [[1; 2; 3]] /\ collect false evs = [1; 2; 3].
Proof. cbv. repeat split. Qed.
