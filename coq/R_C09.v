From Coq Require Import String Ascii List Bool ZArith.
Require Import PyStr PyInt Sexp M_C09.
Import ListNotations.
Definition run_c09 (cmd : str) (args : list sexp) : option sexp :=
  if str_eqb cmd (lit "c09_parse") then
    match args with
    | [t; m; a] =>
        obind (d_str t) (fun t => obind (d_list (d_pair d_Z d_Z) m) (fun m =>
        omap (fun a => e_res e_nodeid (parse_nodeid t m a)) (d_list (d_pair d_str d_nodeid) a)))
    | _ => None end
  else if str_eqb cmd (lit "c09_parse_old") then
    match args with
    | [t] => omap (fun t => e_res e_nodeid (parse_nodeid_old t [] [])) (d_str t)
    | _ => None end
  else if str_eqb cmd (lit "c09_print") then
    match args with
    | [n] => omap (fun n => Lst [e_str (print_nodeid n); e_bool (valid n)]) (d_nodeid n)
    | _ => None end
  else None.
