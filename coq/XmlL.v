(* Layout-aware spelling: the writer of the library puts extra blanks between attributes, before '>' and before '/>', and
   starts the document with an XML declaration.  An ltree records that layout; erase forgets it.  Theorem xparse_spell_l: the
   spelled text of any well-named ltree is read back as its erased tree, whatever the texts and attribute values contain. *)
From Coq Require Import String Ascii List Bool Arith Lia.
Require Import PyStr Xml.
Import ListNotations.
Open Scope char_scope.

Record gattr := { ga_pad : nat; ga_kv : attr }.            (* ga_pad extra blanks before the usual single blank *)
Definition spell_gattr (g : gattr) : str := repeat " " (ga_pad g) ++ spell_attr (ga_kv g).
Definition spell_gattrs (l : list gattr) : str := flat_map spell_gattr l.
Inductive ltree := LElem (n : str) (a : list gattr) (trail : nat) (selfclose : bool) (txt : str) (ch : list ltree) (tail : str).
Fixpoint erase (t : ltree) : xtree :=
  match t with LElem n a _ sc txt ch tl => Elem str (list attr) str n (map ga_kv a) (if sc then [] else txt) (if sc then [] else map erase ch) tl end.
Definition slash_of (sc : bool) : str := if sc then ["/"] else [].
Fixpoint items_l (t : ltree) : list item :=
  match t with
  | LElem n a trail sc txt ch tl =>
      if sc then [(n ++ spell_gattrs a ++ repeat " " trail ++ ["/"], tl)]
      else (n ++ spell_gattrs a ++ repeat " " trail, txt) :: flat_map items_l ch ++ [("/" :: n, tl)]
  end.
Definition spell_l (prolog : list item) (t : ltree) : str := spell [] (prolog ++ items_l t).
Fixpoint ltree_ok (t : ltree) : bool :=
  match t with
  | LElem n a trail sc txt ch tl =>
      name_ok n && forallb (fun g => key_ok2 (fst (ga_kv g))) a
      && (if sc then (match a with [] => Nat.ltb 0 trail | _ => true end) && match txt with [] => true | _ => false end && match ch with [] => true | _ => false end
          else forallb ltree_ok ch)
  end.

Section LInd.
  Variable P : ltree -> Prop.
  Hypothesis H : forall n a trail sc txt ch tl, Forall P ch -> P (LElem n a trail sc txt ch tl).
  Fixpoint ltree_ind' (t : ltree) : P t :=
    match t with LElem n a trail sc txt ch tl =>
      H n a trail sc txt ch tl ((fix go (l : list ltree) : Forall P l := match l with [] => Forall_nil _ | x :: r => Forall_cons x (ltree_ind' x) (go r) end) ch) end.
End LInd.

(* ---- attributes with extra blanks ---- *)
Lemma lstrip_sp_repeat n s : lstrip_sp (repeat " " n ++ s) = lstrip_sp s.
Proof. induction n as [|n IH]; [reflexivity|]. cbn [repeat app lstrip_sp]. exact IH. Qed.
Lemma key_of_padded n k : key_ok k = true -> key_of (repeat " " n ++ " " :: k ++ ["="]) = Some k.
Proof. intros H. pose proof (key_of_spelled k H) as K. unfold key_of in *. now rewrite lstrip_sp_repeat. Qed.
Lemma has_repeat_blank c n : c <> " " -> has c (repeat " " n) = false.
Proof. intros Hc. induction n as [|n IH]; [reflexivity|]. cbn [repeat has]. rewrite IH, orb_false_r. destruct (Ascii.eqb_spec " " c); [congruence|reflexivity]. Qed.
Lemma spell_gattr_shape g rest :
  spell_gattr g ++ rest = (repeat " " (ga_pad g) ++ " " :: fst (ga_kv g) ++ ["="]) ++ """" :: (escape_attr (snd (ga_kv g)) ++ """" :: rest).
Proof.
  unfold spell_gattr. rewrite <- app_assoc. destruct (ga_kv g) as [k v]. rewrite spell_attr_shape. cbn [fst snd]. now rewrite <- app_assoc.
Qed.
Theorem parse_attrs_g l tail : forallb (fun g => key_ok (fst (ga_kv g))) l = true -> has """" tail = false ->
  parse_attrs (spell_gattrs l ++ tail) = Some (map ga_kv l, tail).
Proof.
  unfold parse_attrs, spell_gattrs. intros Hk Ht. induction l as [|g l IH].
  - cbn. now rewrite split_all_none.
  - cbn [forallb] in Hk. apply andb_true_iff in Hk as [Hk Hl]. cbn [flat_map map]. rewrite <- app_assoc, spell_gattr_shape.
    rewrite split_all_app.
    2:{ rewrite has_app, has_repeat_blank by discriminate. cbn [orb]. apply (key_no_quote _ Hk). }
    rewrite split_all_app by (apply escape_attr_clean; auto).
    cbn [pair_up]. rewrite key_of_padded by exact Hk. cbn [obind]. rewrite unescape_escape_attr. cbn [obind]. rewrite (IH Hl).
    destruct (ga_kv g); reflexivity.
Qed.

(* ---- one tag ---- *)
Lemma all_blank_repeat n : all_blank (repeat " " n) = true.
Proof. induction n as [|n IH]; [reflexivity|]. cbn. exact IH. Qed.
Lemma rev_repeat {A} (x : A) n : rev (repeat x n) = repeat x n.
Proof.
  induction n as [|n IH]; [reflexivity|]. cbn [repeat rev]. rewrite IH. clear IH. induction n as [|n IH]; [reflexivity|]. cbn [repeat app]. now rewrite IH.
Qed.
Lemma strip_slash_blank n : strip_slash (repeat " " n) = Some false.
Proof.
  unfold strip_slash. rewrite rev_repeat. destruct n as [|n]; [reflexivity|]. cbn [repeat]. change (all_blank (" " :: repeat " " n)) with (all_blank (repeat " " (S n))).
  now rewrite all_blank_repeat.
Qed.
Lemma strip_slash_slash n : strip_slash (repeat " " n ++ ["/"]) = Some true.
Proof. unfold strip_slash. rewrite rev_app_distr. cbn [rev app]. now rewrite rev_repeat, all_blank_repeat. Qed.
Definition region (a : list gattr) (trail : nat) (sc : bool) : str := spell_gattrs a ++ repeat " " trail ++ slash_of sc.
Lemma keys2_ok a : forallb (fun g => key_ok2 (fst (ga_kv g))) a = true -> forallb (fun g => key_ok (fst (ga_kv g))) a = true.
Proof.
  intros H. rewrite forallb_forall in *. intros g Hg. specialize (H g Hg). unfold key_ok2 in H.
  apply andb_true_iff in H as [H _]. now apply andb_true_iff in H as [H _].
Qed.
Lemma region_blank a trail sc : (a <> [] \/ 0 < trail) -> exists r, region a trail sc = " " :: r.
Proof.
  intros [Ha|Ht]; unfold region.
  - destruct a as [|g a]; [congruence|]. unfold spell_gattrs. cbn [flat_map]. unfold spell_gattr at 1. destruct (ga_pad g) as [|p].
    + cbn [repeat app]. unfold spell_attr. cbn [app]. eexists. reflexivity.
    + cbn [repeat app]. eexists. reflexivity.
  - destruct a as [|g a].
    + cbn [spell_gattrs flat_map app]. destruct trail as [|t]; [lia|]. cbn [repeat app]. eexists. reflexivity.
    + unfold spell_gattrs. cbn [flat_map]. unfold spell_gattr at 1. destruct (ga_pad g) as [|p]; cbn [repeat app]; [unfold spell_attr; cbn [app]|]; eexists; reflexivity.
Qed.
Lemma no_quote_tail trail sc : has """" (repeat " " trail ++ slash_of sc) = false.
Proof. rewrite has_app, has_repeat_blank by discriminate. destruct sc; reflexivity. Qed.
Lemma parse_tag_l n a trail sc txt : name_ok n = true -> forallb (fun g => key_ok2 (fst (ga_kv g))) a = true ->
  (sc = true -> a <> [] \/ 0 < trail) ->
  parse_tag (n ++ region a trail sc, txt) =
  Some (if sc then [TOpen str (list attr) str n (map ga_kv a) []; TClose str (list attr) str n txt] else [TOpen str (list attr) str n (map ga_kv a) txt]).
Proof.
  intros Hn Ha Hsc. destruct (name_ok_parts n Hn) as [Hsp [Hsl [_ [_ [_ [_ [c [r [-> [Hq [Hs Hb]]]]]]]]]]].
  unfold parse_tag. cbn [app]. destruct (Ascii.eqb_spec c "/"); [contradiction|]. destruct (Ascii.eqb_spec c "?"); [contradiction|].
  assert (Hcase : (a = [] /\ trail = 0) \/ (a <> [] \/ 0 < trail)).
  { destruct a; [destruct trail; [left; split; reflexivity|right; right; lia]|right; left; discriminate]. }
  destruct Hcase as [[-> ->]|Hne].
  - destruct sc; [destruct (Hsc eq_refl) as [H|H]; [congruence|lia]|].
    unfold region. cbn [spell_gattrs flat_map repeat slash_of app map]. rewrite app_nil_r.
    rewrite (split_once_none _ _ Hsp). now rewrite (no_slash_end _ Hsl).
  - destruct (region_blank a trail sc Hne) as [rr Er]. rewrite Er.
    change (c :: r ++ " " :: rr) with ((c :: r) ++ " " :: rr). rewrite (split_once_app _ _ _ Hsp). rewrite <- Er. unfold region.
    rewrite parse_attrs_g; [|now apply keys2_ok|apply no_quote_tail].
    destruct sc; cbn [slash_of]; [now rewrite strip_slash_slash|now rewrite app_nil_r, strip_slash_blank].
Qed.

(* ---- the whole tree ---- *)
Lemma spell_gattrs_clean c a : (c = "<" \/ c = ">") -> forallb (fun g => key_ok2 (fst (ga_kv g))) a = true -> has c (spell_gattrs a) = false.
Proof.
  intros Hc Ha. induction a as [|g a IH]; [reflexivity|]. cbn [forallb] in Ha. apply andb_true_iff in Ha as [Hg Ha].
  unfold spell_gattrs. cbn [flat_map]. rewrite has_app. fold (spell_gattrs a). rewrite (IH Ha), orb_false_r.
  unfold spell_gattr. rewrite has_app, has_repeat_blank by (destruct Hc; subst; discriminate). cbn [orb].
  pose proof (spell_attrs_clean c [ga_kv g] Hc) as S. unfold spell_attrs in S. cbn [flat_map] in S. rewrite app_nil_r in S. apply S. cbn [forallb]. now rewrite Hg.
Qed.
Lemma body_tag_ok n a trail sc : name_ok n = true -> forallb (fun g => key_ok2 (fst (ga_kv g))) a = true -> tag_ok (n ++ region a trail sc) = true.
Proof.
  intros Hn Ha. destruct (name_ok_parts n Hn) as [_ [_ [Hlt [Hgt _]]]]. unfold tag_ok, region.
  rewrite !has_app, Hlt, Hgt, (spell_gattrs_clean "<" a), (spell_gattrs_clean ">" a), !has_repeat_blank by (auto || discriminate). now destruct sc.
Qed.
Lemma items_l_shape n a trail sc txt ch tl :
  items_l (LElem n a trail sc txt ch tl) =
  if sc then [(n ++ region a trail true, tl)] else (n ++ region a trail false, txt) :: flat_map items_l ch ++ [("/" :: n, tl)].
Proof. cbn [items_l]. unfold region, slash_of. destruct sc; [reflexivity|]. now rewrite app_nil_r. Qed.
Lemma ltree_ok_inv n a trail sc txt ch tl : ltree_ok (LElem n a trail sc txt ch tl) = true ->
  name_ok n = true /\ forallb (fun g => key_ok2 (fst (ga_kv g))) a = true /\
  (sc = true -> (a <> [] \/ 0 < trail) /\ txt = [] /\ ch = []) /\ (sc = false -> Forall (fun c => ltree_ok c = true) ch).
Proof.
  cbn [ltree_ok]. intros H. apply andb_true_iff in H as [H Hs]. apply andb_true_iff in H as [Hn Ha].
  split; [exact Hn|]. split; [exact Ha|]. split.
  - intros ->. apply andb_true_iff in Hs as [Hs Hc]. apply andb_true_iff in Hs as [Hs Ht]. split; [|split].
    + destruct a; [right; now apply Nat.ltb_lt|left; discriminate].
    + destruct txt; [reflexivity|discriminate].
    + destruct ch; [reflexivity|discriminate].
  - intros ->. apply Forall_forall. intros c Hin. rewrite forallb_forall in Hs. now apply Hs.
Qed.
Lemma items_l_tag_ok t : ltree_ok t = true -> forallb (fun it => tag_ok (fst it)) (items_l t) = true.
Proof.
  induction t as [n a trail sc txt ch tl IH] using ltree_ind'. intros H.
  destruct (ltree_ok_inv _ _ _ _ _ _ _ H) as [Hn [Ha [Hsc Hch]]]. rewrite items_l_shape. destruct sc.
  - cbn [forallb fst]. now rewrite (body_tag_ok n a trail true Hn Ha).
  - cbn [forallb fst]. rewrite (body_tag_ok n a trail false Hn Ha). cbn [andb]. rewrite forallb_app. cbn [forallb fst]. rewrite (close_tag_ok n Hn), andb_true_r.
    specialize (Hch eq_refl). clear H Hsc. induction IH as [|c ch' Hc1 _ IHch]; [reflexivity|]. inversion Hch; subst. cbn [flat_map]. rewrite forallb_app.
    apply andb_true_iff. split; [now apply Hc1|now apply IHch].
Qed.
Lemma sequence_app {A} (l1 l2 : list (option A)) r1 r2 : sequence l1 = Some r1 -> sequence l2 = Some r2 -> sequence (l1 ++ l2) = Some (r1 ++ r2).
Proof.
  revert r1. induction l1 as [|x l1 IHl]; intros r1 Hs1 Hs2; cbn in *; [inversion Hs1; exact Hs2|].
  destruct x; [|discriminate]. destruct (sequence l1) eqn:E; [|discriminate]. inversion Hs1; subst. now rewrite (IHl l eq_refl Hs2).
Qed.
Lemma items_l_tokens t : ltree_ok t = true ->
  exists tss, sequence (map parse_tag (items_l t)) = Some tss /\ concat tss = toks str (list attr) str (erase t).
Proof.
  induction t as [n a trail sc txt ch tl IH] using ltree_ind'. intros H.
  destruct (ltree_ok_inv _ _ _ _ _ _ _ H) as [Hn [Ha [Hsc Hch]]]. rewrite items_l_shape. destruct sc.
  - destruct (Hsc eq_refl) as [Hne [-> ->]]. cbn [map sequence]. rewrite (parse_tag_l n a trail true tl Hn Ha (fun _ => Hne)). cbn [sequence].
    eexists. split; [reflexivity|]. reflexivity.
  - specialize (Hch eq_refl). cbn [map]. rewrite (parse_tag_l n a trail false txt Hn Ha ltac:(discriminate)). cbn [sequence].
    assert (G : exists tss, sequence (map parse_tag (flat_map items_l ch ++ [("/" :: n, tl)])) = Some tss /\
                            concat tss = flat_map (toks str (list attr) str) (map erase ch) ++ [TClose str (list attr) str n tl]).
    { clear H Hsc. induction IH as [|c ch' Hc1 _ IHch].
      - eexists. split; reflexivity.
      - inversion Hch; subst. destruct (Hc1 ltac:(assumption)) as [t1 [S1 C1]]. destruct (IHch ltac:(assumption)) as [t2 [S2 C2]].
        cbn [flat_map map]. rewrite <- app_assoc, map_app. exists (t1 ++ t2). split; [now apply sequence_app|].
        rewrite concat_app, C1, C2. now rewrite <- app_assoc. }
    destruct G as [tss [S C]]. rewrite S. eexists. split; [reflexivity|]. cbn [concat erase toks app]. now rewrite C.
Qed.
(* the declaration and other processing instructions in front of the root element *)
Definition prolog_ok (pro : list item) : bool := forallb (fun it => tag_ok (fst it) && match fst it with "?" :: _ => true | _ => false end) pro.
Lemma prolog_tokens pro : prolog_ok pro = true -> sequence (map parse_tag pro) = Some (map (fun _ => []) pro).
Proof.
  induction pro as [|[body txt] pro IH]; intros H; [reflexivity|]. cbn [prolog_ok forallb fst] in H. apply andb_true_iff in H as [Hb Hp].
  apply andb_true_iff in Hb as [_ Hq]. destruct body as [|c b]; [discriminate|]. destruct (Ascii.eqb_spec c "?") as [->|Hnq]; [|destruct c as [[] [] [] [] [] [] [] []]; try discriminate; exfalso; apply Hnq; reflexivity].
  cbn [map sequence]. unfold parse_tag at 1. cbn. fold (prolog_ok pro) in Hp. now rewrite (IH Hp).
Qed.
Lemma concat_nils {A B} (l : list A) : concat (map (fun _ => @nil B) l) = [].
Proof. induction l; [reflexivity|exact IHl]. Qed.
Theorem xparse_spell_l pro t : prolog_ok pro = true -> ltree_ok t = true -> has CR (spell_l pro t) = false -> xparse (spell_l pro t) = Some (erase t).
Proof.
  intros Hp Ht Hcr. unfold xparse. rewrite norm_nl_id by exact Hcr. unfold spell_l. rewrite lex_spell.
  2:{ rewrite forallb_app. apply andb_true_iff. split; [|now apply items_l_tag_ok].
      unfold prolog_ok in Hp. rewrite forallb_forall in *. intros it Hit. specialize (Hp it Hit). now apply andb_true_iff in Hp as [Hp _]. }
  destruct (items_l_tokens t Ht) as [tss [S C]]. rewrite map_app, (sequence_app _ _ _ _ (prolog_tokens pro Hp) S).
  rewrite concat_app, concat_nils, C. cbn [app]. apply parse_toks. apply str_eqb_refl.
Qed.
