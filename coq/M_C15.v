(* Model of the read-only operations of a UAGraph as a state machine with the aliasing of the code made explicit:
   which operation touches which part of the graph object.  Definitions only. *)
From Coq Require Import String Ascii List Bool Arith NArith ZArith.
Require Import PyStr PyInt Sexp Xml M_C09 M_C08 Ns Table M_Parse M_Write.
Import ListNotations.
Open Scope char_scope.

(* the graph object: its tables, the dtype of the ns column (true = Int8 as built), namespaces, models *)
Record gstate := { gs_tables : parsed; gs_ns_int8 : bool }.
Inductive op :=
| OWrite (w : wparams)                         (* write_nodeset *)
| ONormNodes (uri : option str)                (* get_normalized_nodes_df *)
| ONormRefs (uri : option str)                 (* get_normalized_references_df *)
| OLookup (name : str) (cls : option str)      (* *_by_browsename *)
| OQuery (tag : str).                          (* closures, paths, neighbours, circular references, ...: pure functions of the tables *)
Inductive out := OutDoc (d : res doc) | OutOther (tag : str).

(* create_header_xml, old code: the model dict found in the caller's list gets the new version assigned *)
Definition set_version_in_place (models : list model_out) (uri : str) (v : str) : list model_out :=
  (fix go (l : list model_out) (done : bool) : list model_out :=
     match l with
     | [] => []
     | m :: r => if negb done && match mo_uri m with Some u => str_eqb u uri | None => false end
                 then {| mo_uri := mo_uri m; mo_pubdate := mo_pubdate m; mo_version := Some v; mo_required := mo_required m |} :: go r true
                 else m :: go r done
     end) models false.
Definition with_models (p : parsed) (ms : list model_out) : parsed :=
  {| p_namespaces := p_namespaces p; p_nodes := p_nodes p; p_refs := p_refs p; p_models := ms |}.

(* one operation.  fixed = true: the code as it is now; fixed = false: the code before the two repairs *)
Definition step (fixed : bool) (s : gstate) (o : op) : gstate * out :=
  match o with
  | OWrite w =>
      let d := write_doc (gs_tables s) w in
      if fixed then (s, OutDoc d)
      else
        (* the header is built before the nodes: the version leaks even when the write fails later; the ns column is
           recomputed (and re-typed) when outgoing references are excluded *)
        let tables' := match wp_newver w, d with
                       | Some v, Ok doc => match d_uris doc with Some (u1 :: _) => with_models (gs_tables s) (set_version_in_place (p_models (gs_tables s)) u1 v) | _ => gs_tables s end
                       | _, _ => gs_tables s end in
        ({| gs_tables := tables'; gs_ns_int8 := gs_ns_int8 s && wp_inc w |}, OutDoc d)
  | ONormNodes _ => (s, OutOther (lit "normalized-nodes"))
  | ONormRefs _ => (s, OutOther (lit "normalized-references"))
  | OLookup _ _ => (s, OutOther (lit "lookup"))
  | OQuery t => (s, OutOther t)
  end.
Fixpoint run_ops (fixed : bool) (s : gstate) (ops : list op) : gstate * list out :=
  match ops with
  | [] => (s, [])
  | o :: r => let s1 := step fixed s o in let rest := run_ops fixed (fst s1) r in (fst rest, snd s1 :: snd rest)
  end.
