From Coq Require Import String Ascii List Bool ZArith.
Require Import PyStr PyInt Sexp Xml M_C09 M_C08 R_C08 M_C10.
Import ListNotations.
Definition d_jval (x : sexp) : option jval :=
  match x with
  | Lst [Atom t; a; b] =>
      if str_eqb t (lit "variant") then obind (d_opt d_uav a) (fun v => omap (JVariant v) (d_Z b))
      else if str_eqb t (lit "qname") then obind (d_Z a) (fun ns => omap (JQName ns) (d_str b))
      else omap JV (d_uav x)
  | _ => omap JV (d_uav x)
  end.
Definition run_c10 (cmd : str) (args : list sexp) : option sexp :=
  if str_eqb cmd (lit "c10_json") then
    match args with [e; v] => obind (d_ext e) (fun e => omap (fun v => e_res (e_opt e_str) (json_encode_j e v)) (d_jval v)) | _ => None end
  else None.
