From Coq Require Import String Ascii List Bool ZArith.
Require Import PyStr PyInt Sexp Xml M_C09 M_C08 R_C08 M_C10 M_C10r.
Import ListNotations.
Definition d_jval (x : sexp) : option jval :=
  match x with
  | Lst [Atom t; a; b] =>
      if str_eqb t (lit "variant") then obind (d_opt d_uav a) (fun v => omap (JVariant v) (d_Z b))
      else if str_eqb t (lit "qname") then obind (d_Z a) (fun ns => omap (JQName ns) (d_str b))
      else omap JV (d_uav x)
  | _ => omap JV (d_uav x)
  end.
Fixpoint e_jv (j : jv) : sexp :=
  match j with
  | JNull => Lst [e_sym "null"]
  | JBool b => Lst [e_sym "bool"; e_bool b]
  | JNum s => Lst [e_sym "num"; e_str s]
  | JStr s => Lst [e_sym "str"; e_str s]
  | JArr l => Lst [e_sym "arr"; Lst (map e_jv l)]
  | JObj l => Lst [e_sym "obj"; Lst (map (fun kv => Lst [e_str (fst kv); e_jv (snd kv)]) l)]
  end.
(* is the value inside the theorems' domain, and what do they say the reader returns *)
Definition c10_domain (v : jval) : sexp :=
  match v with
  | JV (VExtObj tid body) => Lst [e_bool (nid_dom tid && nid_ok tid && match shape_ext tid body with Some _ => true | None => false end); e_opt e_jv (shape_ext tid body)]
  | JV v => Lst [e_bool (dom10 v && texts_ok v && match shape v with Some _ => true | None => false end); e_opt e_jv (shape v)]
  | JVariant (Some v) tnum =>
      Lst [e_bool (negb (tnum =? 0)%Z && dom10 v && texts_ok v);
           (* a null body: C10_variant gives the text null *)
           e_opt e_jv (Some (match shape v with Some j => JObj [(lit "Type", JNum (decZ tnum)); (lit "Body", j)] | None => JNull end))]
  | _ => Lst [e_bool false; Lst []]
  end.
Definition run_c10 (cmd : str) (args : list sexp) : option sexp :=
  if str_eqb cmd (lit "c10_variant_auto") then
    (* a Variant constructed without a type: [external table; value or ()] *)
    match args with [e; v] => obind (d_ext e) (fun e => omap (fun v => e_res (e_opt e_str) (json_encode_variant_auto e v)) (d_opt d_uav v)) | _ => None end
  else if str_eqb cmd (lit "c10_variant_type") then
    match args with [v] => omap (fun v => e_opt e_Z (variant_type_of v)) (d_uav v) | _ => None end
  else if str_eqb cmd (lit "c10_json") then
    match args with [e; v] => obind (d_ext e) (fun e => omap (fun v => e_res (e_opt e_str) (json_encode_j e v)) (d_jval v)) | _ => None end
  else if str_eqb cmd (lit "c10_parse") then
    match args with [t] => omap (fun t => e_opt e_jv (jparse t)) (d_str t) | _ => None end
  else if str_eqb cmd (lit "c10_domain") then
    match args with [v] => omap c10_domain (d_jval v) | _ => None end
  else None.
