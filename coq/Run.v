(* Run: one entry point for every executable model definition. *)
From Coq Require Import String Ascii List Bool.
Require Import PyStr Sexp R_C09 R_C12 R_C13 R_C14 R_C19 R_C08 R_C10 R_Parse R_C18 R_Graph R_Write.
Import ListNotations.
Fixpoint first_some (l : list (str -> list sexp -> option sexp)) (cmd : str) (args : list sexp) : option sexp :=
  match l with [] => None | f :: r => match f cmd args with Some x => Some x | None => first_some r cmd args end end.
Definition handlers : list (str -> list sexp -> option sexp) := [run_c09; run_c12; run_c13; run_c14; run_c19; run_c08; run_c10; run_parse; run_c18; run_graph; run_write].
Definition run (x : sexp) : sexp :=
  match x with
  | Lst (Atom cmd :: args) => match first_some handlers cmd args with Some y => y | None => bad_request end
  | _ => bad_request
  end.
