(* C05, assembled over a whole parse: the per-file theorems of T_C05r / T_C05n lifted to the result of parse_files on a set of documents
   (the untouched base file and the written files), with every identifier read in the FINAL namespace table. *)
From Coq Require Import String Ascii List Bool Arith NArith ZArith Lia Sorted.
Require Import PyStr PyInt Sexp Xml M_C09 T_C09 M_C08 Ns Table M_Parse T_Parse M_Write T_Write T_Write2 T_C05 T_C05r T_ParseAttrs T_C05n.
Import ListNotations.
Open Scope char_scope.

(* every document of a parsed sequence was parsed under a table that extends the start table, into a table the final one extends *)
Lemma parse_seq_member E : forall docs ns ns' fos, parse_seq E ns docs = Ok (ns', fos) ->
  (forall d, In d docs -> exists nsb nsa fo, parse_file E nsb d = Ok (nsa, fo) /\ In fo fos /\ (exists s, nsb = ns ++ s) /\ (exists s, ns' = nsa ++ s)) /\
  (forall fo, In fo fos -> exists d nsb nsa, In d docs /\ parse_file E nsb d = Ok (nsa, fo) /\ (exists s, nsb = ns ++ s) /\ (exists s, ns' = nsa ++ s)).
Proof.
  induction docs as [|d0 r IH]; intros ns ns' fos H; cbn in H.
  - inversion H; subst. split; [intros d []|intros fo []].
  - destruct (parse_file E ns d0) as [[ns1 fo0]|] eqn:Ef; [|discriminate]. cbn in H.
    destruct (parse_seq E ns1 r) as [[ns2 fos2]|] eqn:Es; [|discriminate]. cbn in H. inversion H; subst.
    destruct (IH _ _ _ Es) as [IH1 IH2]. destruct (parse_seq_ns E _ _ _ _ Es) as [[s2 H2] _].
    pose proof (parse_file_ns _ _ _ _ _ Ef) as Hn1. destruct (file_ns_prefix ns d0) as [s1 H1]. rewrite <- Hn1 in H1.
    split.
    + intros d [<-|Hd].
      * exists ns, ns1, fo0. split; [exact Ef|]. split; [now left|]. split; [exists []; now rewrite app_nil_r|eauto].
      * destruct (IH1 d Hd) as [nsb [nsa [fo [P [I [[sb Hb] Ha]]]]]]. exists nsb, nsa, fo. split; [exact P|]. split; [now right|]. split; [|exact Ha].
        exists (s1 ++ sb). rewrite Hb, H1, app_assoc. reflexivity.
    + intros fo [<-|Hfo].
      * exists d0, ns, ns1. split; [now left|]. split; [exact Ef|]. split; [exists []; now rewrite app_nil_r|eauto].
      * destruct (IH2 fo Hfo) as [d [nsb [nsa [I [P [[sb Hb] Ha]]]]]]. exists d, nsb, nsa. split; [now right|]. split; [exact P|]. split; [|exact Ha].
        exists (s1 ++ sb). rewrite Hb, H1, app_assoc. reflexivity.
Qed.
Lemma insert_doc_In d l x : In x (insert_doc d l) <-> x = d \/ In x l.
Proof. induction l as [|y r IH]; cbn [insert_doc]; [cbn; intuition|]. destruct (str_leb (d_name d) (d_name y)); cbn [In]; [intuition|]. rewrite IH. intuition. Qed.
Lemma sort_docs_In l x : In x (sort_docs l) <-> In x l.
Proof. unfold sort_docs. induction l as [|y r IH]; cbn [fold_right]; [reflexivity|]. rewrite insert_doc_In, IH. cbn. intuition. Qed.
(* reading an identifier in a longer table *)
Lemma same_node_mono p ns1 s n n' : same_node p ns1 n n' -> same_node p (ns1 ++ s) n n'.
Proof. intros [A [B [C D]]]. repeat split; try assumption. now apply nth_error_prefix. Qed.
Lemma same_triple_mono p ns1 s t t' : same_triple p ns1 t t' -> same_triple p (ns1 ++ s) t t'.
Proof. intros [A [B C]]. exact (conj (same_node_mono _ _ s _ _ A) (conj (same_node_mono _ _ s _ _ B) (same_node_mono _ _ s _ _ C))). Qed.
Lemma file_table_nonempty E nsb d nsa fo : parse_file E nsb d = Ok (nsa, fo) -> nsa <> [].
Proof. intros H. pose proof (parse_file_ns _ _ _ _ _ H) as ->. pose proof (file_ns_ua nsb d) as Hin. intros E0. rewrite E0 in Hin. contradiction. Qed.

Definition kept (caller : list str) (docs : list doc) : list doc := match caller with [] => docs | _ => filter (keep_file caller) docs end.

Section Assembled.
  Variables (E : ext) (caller : list str) (docs : list doc) (q : parsed).
  Hypothesis Hq : parse_files E caller docs = Ok q.
  (* the graph p, one of whose namespaces was written into the document d of the set *)
  Variables (p : parsed) (w : wparams) (d : doc) (k : nat) (refs : list triple).
  Hypothesis Hd : In d (kept caller docs).
  Hypothesis Hk : str_index (wp_uri w) (p_namespaces p) = Some k.
  Hypothesis Hrefs : use_refs p w (Z.of_nat k) = Ok refs.
  Hypothesis Hreg : regular p k refs.
  Hypothesis Hw : write_doc p w = Ok d.
  Hypothesis Hvalid : forall r, In r (p_nodes p) -> valid (nr_nodeid r) = true.
  Hypothesis Hclean : forall r, In r (p_nodes p) -> rstrip (nid_value (nr_nodeid r)) = nid_value (nr_nodeid r).
  Hypothesis Hzero : nth_error (p_namespaces q) 0 = Some (nth 0 (p_namespaces p) []).

  Lemma file_of_d : exists nsb nsa fo s, parse_file E nsb d = Ok (nsa, fo) /\ p_namespaces q = nsa ++ s /\ nth_error nsa 0 = Some (nth 0 (p_namespaces p) []) /\
    (forall t, In t (fo_refs fo) -> In t (p_refs q)) /\ (forall r, In r (fo_nodes fo) -> In r (p_nodes q)).
  Proof.
    destruct (C02_all_files E caller docs q Hq) as [nsq [fos [Hseq [_ Hrefs_q]]]]. fold (kept caller docs) in Hseq.
    destruct (C01_row_count E caller docs q Hq) as [nsq' [fos' [Hseq' Hnodes]]]. fold (kept caller docs) in Hseq'. rewrite Hseq in Hseq'. injection Hseq' as <- <-.
    assert (Hns : p_namespaces q = nsq).
    { unfold parse_files in Hq. fold (kept caller docs) in Hq. destruct (kept caller docs); [discriminate|]. rewrite Hseq in Hq. cbn [rbind] in Hq. injection Hq as <-. reflexivity. }
    destruct (parse_seq_member E _ _ _ _ Hseq) as [M _]. destruct (M d (proj2 (sort_docs_In _ d) Hd)) as [nsb [nsa [fo [P [I [_ [s Hs]]]]]]].
    exists nsb, nsa, fo, s. split; [exact P|]. split; [now rewrite Hns|]. split.
    - rewrite Hns, Hs in Hzero. pose proof (file_table_nonempty _ _ _ _ _ P) as Hne. destruct nsa as [|a0 nsa]; [congruence|]. exact Hzero.
    - split.
      + intros t Ht. apply Hrefs_q. eauto.
      + intros r Hr. rewrite Hnodes. apply in_flat_map. eauto.
  Qed.
  (* every reference of the graph with an endpoint in the written namespace is in the parsed reference table, read in the final namespace table *)
  Theorem refs_assembled_complete : (forall t, In t refs -> touches p k refs t = true -> is_node p (fst (fst t)) /\ is_node p (snd (fst t)) /\ is_node p (snd t)) ->
    forall t, In t refs -> touches p k refs t = true -> exists t', In t' (p_refs q) /\ same_triple p (p_namespaces q) t t'.
  Proof.
    intros Hclosed t Hin Hto. destruct file_of_d as [nsb [nsa [fo [s [P [Hs [Hz [Hr _]]]]]]]].
    destruct (refs_roundtrip_complete E nsb p w d k refs nsa fo Hk Hrefs Hreg Hw P Hvalid Hclean Hz Hclosed t Hin Hto) as [t' [Ht' S]].
    exists t'. split; [now apply Hr|]. rewrite Hs. now apply same_triple_mono.
  Qed.
  (* every node of the written namespace has its row in the parsed node table, with the same class and the same (URI, identifier) in the final table *)
  Theorem rows_assembled : forall x, In x (w_written p k (w_in_use p k refs)) ->
    exists nsb r', In r' (p_nodes q) /\ parsed_row_of E nsb p d k refs x r' /\ nr_cls r' = nr_cls (fst (fst x)) /\ same_node p (p_namespaces q) (nr_nodeid (fst (fst x))) (nr_nodeid r').
  Proof.
    intros x Hx. destruct file_of_d as [nsb [nsa [fo [s [P [Hs [Hz [_ Hn]]]]]]]].
    pose proof (rows_match E nsb p w d k refs nsa fo Hk Hrefs Hw P) as HF.
    destruct (Forall2_In_l _ _ _ x HF Hx) as [r' [Hr' [Hrm Ham]]]. exists nsb, r'. split; [now apply Hn|]. split; [split; assumption|]. split.
    - exact (row_class E nsb p d k refs x r' Hrm).
    - rewrite Hs. apply same_node_mono. exact (row_nodeid E nsb p w d k refs nsa fo Hk Hrefs Hreg Hw P Hvalid Hclean Hz x r' Hx Hrm).
  Qed.
End Assembled.
(* where a parsed triple comes from: one of the kept documents, parsed under a table the final one extends *)
Theorem triple_origin E caller docs q : parse_files E caller docs = Ok q -> forall t, In t (p_refs q) ->
  exists d nsb nsa fo s, In d (kept caller docs) /\ parse_file E nsb d = Ok (nsa, fo) /\ In t (fo_refs fo) /\ p_namespaces q = nsa ++ s.
Proof.
  intros Hq t Ht. destruct (C02_all_files E caller docs q Hq) as [nsq [fos [Hseq [_ Hr]]]]. fold (kept caller docs) in Hseq.
  assert (Hns : p_namespaces q = nsq).
  { unfold parse_files in Hq. fold (kept caller docs) in Hq. destruct (kept caller docs); [discriminate|]. rewrite Hseq in Hq. cbn [rbind] in Hq. injection Hq as <-. reflexivity. }
  apply Hr in Ht as [fo [Hfo Ht]]. destruct (parse_seq_member E _ _ _ _ Hseq) as [_ M]. destruct (M fo Hfo) as [d [nsb [nsa [Hd [P [_ [s Hs]]]]]]].
  exists d, nsb, nsa, fo, s. split; [exact (proj1 (sort_docs_In _ d) Hd)|]. split; [exact P|]. split; [exact Ht|]. now rewrite Hns.
Qed.
(* ... and when that document is one the writer produced from the graph, the triple is one of the graph's references with an endpoint in the
   written namespace, read in the final table *)
Theorem refs_assembled_sound E caller docs q : parse_files E caller docs = Ok q -> forall t', In t' (p_refs q) ->
  exists d nsb nsa fo s, In d (kept caller docs) /\ parse_file E nsb d = Ok (nsa, fo) /\ In t' (fo_refs fo) /\ p_namespaces q = nsa ++ s /\
  forall p w k refs, str_index (wp_uri w) (p_namespaces p) = Some k -> use_refs p w (Z.of_nat k) = Ok refs -> regular p k refs -> write_doc p w = Ok d ->
    (forall r, In r (p_nodes p) -> valid (nr_nodeid r) = true) ->
    (forall r, In r (p_nodes p) -> rstrip (nid_value (nr_nodeid r)) = nid_value (nr_nodeid r)) ->
    nth_error (p_namespaces q) 0 = Some (nth 0 (p_namespaces p) []) ->
    (forall t, In t refs -> touches p k refs t = true -> is_node p (fst (fst t)) /\ is_node p (snd (fst t)) /\ is_node p (snd t)) ->
    exists t, In t refs /\ touches p k refs t = true /\ same_triple p (p_namespaces q) t t'.
Proof.
  intros Hq t' Ht'. destruct (triple_origin E caller docs q Hq t' Ht') as [d [nsb [nsa [fo [s [Hd [P [Hin Hs]]]]]]]].
  exists d, nsb, nsa, fo, s. repeat (split; [assumption|]). intros p w k refs Hk Hrefs Hreg Hw Hv Hc Hz Hcl.
  assert (Hz' : nth_error nsa 0 = Some (nth 0 (p_namespaces p) [])).
  { rewrite Hs in Hz. pose proof (file_table_nonempty _ _ _ _ _ P) as Hne. destruct nsa as [|a0 nsa]; [congruence|]. exact Hz. }
  destruct (refs_roundtrip_sound E nsb p w d k refs nsa fo Hk Hrefs Hreg Hw P Hv Hc Hz' Hcl t' Hin) as [t [A [B C]]].
  exists t. split; [exact A|]. split; [exact B|]. rewrite Hs. now apply same_triple_mono.
Qed.
