(* Reading the written text: the document an XML reader + M_ParseText.doc_of_nxml obtain from the text-level writer model is the
   element-level document write_doc produced (up to an empty NamespaceUris block).  This closes the gap between M_Write (on which the
   C06 theorems are stated) and M_WriteText (which is compared with the implementation's bytes). *)
From Coq Require Import String Ascii List Bool Arith NArith ZArith Lia.
Require Import PyStr PyInt Sexp Xml XmlL M_C09 T_C09 M_C08 M_C08d T_C08 T_C08s Ns Table M_Parse M_ParseText M_Write M_WriteText T_WriteText.
Import ListNotations.
Open Scope char_scope.

(* ---------- the value trees: erasing the layout and resolving namespaces ---------- *)
Lemma map_ga0 (r : list attr) : map ga_kv (map (fun kv => {| ga_pad := 0; ga_kv := kv |}) r) = r.
Proof. induction r as [|x r IH]; [reflexivity|]. cbn. now rewrite IH. Qed.
Lemma erase_embed : forall t, erase (embed t) = t.
Proof.
  induction t as [n a txt ch tl IH] using (xml_ind' str (list attr) str). cbn [embed erase]. f_equal.
  - destruct a as [|kv r]; [reflexivity|]. cbn [map ga_kv]. now rewrite map_ga0.
  - rewrite map_map. induction IH as [|c ch' Hc _ IHch]; [reflexivity|]. cbn [map]. now rewrite Hc, IHch.
Qed.
Fixpoint nocolon (t : xtree) : bool := match t with Elem _ _ _ n _ _ ch _ => negb (has ":" n) && forallb nocolon ch end.
Lemma resolve_nocolon : forall t, nocolon t = true -> forall d pfx, resolve d pfx t = resolve d [] t.
Proof.
  induction t as [n a txt ch tl IH] using (xml_ind' str (list attr) str). intros H d pfx. cbn [nocolon] in H. apply andb_true_iff in H as [Hn Hc]. apply negb_true_iff in Hn.
  cbn [resolve]. rewrite (split_once_none _ _ Hn). f_equal. rewrite app_nil_r.
  rewrite forallb_forall in Hc. induction IH as [|c ch' Hc1 _ IHch]; [reflexivity|]. cbn [map].
  rewrite (Hc1 (Hc c (or_introl eq_refl)) _ (flat_map (fun kv => match decl_prefix kv with Some d0 => [d0] | None => [] end) a ++ pfx)).
  rewrite (Hc1 (Hc c (or_introl eq_refl)) _ (flat_map (fun kv => match decl_prefix kv with Some d0 => [d0] | None => [] end) a)).
  f_equal. apply IHch. intros x Hx. apply Hc. now right.
Qed.
Lemma xleaf_nocolon a name text : has ":" name = false -> nocolon (xleaf a name text) = true.
Proof. intros H. cbn [xleaf nocolon forallb]. now rewrite H. Qed.
Lemma xnode_nocolon a name ch : has ":" name = false -> forallb nocolon ch = true -> nocolon (xnode a name ch) = true.
Proof. intros H Hc. cbn [xnode nocolon]. now rewrite H, Hc. Qed.
Theorem xt_nocolon : forall v a t, names_ok v = true -> xt a v = Some t -> nocolon t = true.
Proof.
  induction v as [v Hv | tid body IH | tn items IH] using uav_ind'; intros a t Hn Hx.
  - destruct v; try contradiction; cbn [xt] in Hx; try discriminate;
      repeat match type of Hx with (if ?c then _ else _) = _ => destruct c; [|discriminate] end; injection Hx as <-;
      try (apply xleaf_nocolon; try reflexivity; try (destruct k; reflexivity); try (destruct dbl; reflexivity)); reflexivity.
  - cbn [xt] in Hx. destruct (xt [] body) as [bt|] eqn:Eb; [|discriminate]. destruct (rawok (print_nodeid tid)); [|discriminate]. injection Hx as <-.
    cbn [names_ok] in Hn. pose proof (IH [] bt Hn Eb) as Hb. cbn [xnode xleaf nocolon forallb]. rewrite Hb. reflexivity.
  - rewrite xt_list in Hx. destruct (xts (xt []) items) as [ch|] eqn:Ex; [|discriminate]. injection Hx as <-.
    cbn [names_ok] in Hn. apply andb_true_iff in Hn as [Hn Hi]. apply andb_true_iff in Hn as [_ Hn2]. apply negb_true_iff in Hn2.
    apply xnode_nocolon; [exact Hn2|]. unfold xts in Ex. revert ch Ex.
    induction IH as [|x r Hxx _ IHr]; intros ch Ex; cbn [omapM] in Ex; [injection Ex as <-; reflexivity|].
    destruct (xt [] x) as [tx|] eqn:E1; [|discriminate]. destruct (omapM (xt []) r) as [ts|] eqn:E2; [|discriminate]. injection Ex as <-.
    cbn [forallb] in *. apply andb_true_iff in Hi as [Hi1 Hi2]. rewrite (Hxx [] tx Hi1 E1). now apply IHr.
Qed.
Lemma xt_root : forall v a t, xt a v = Some t -> exists n txt ch, t = Elem str (list attr) str n a txt ch [].
Proof.
  intros v a t Hx. destruct v; cbn [xt] in Hx; try discriminate;
    repeat match type of Hx with (if ?c then _ else _) = _ => destruct c; [|discriminate] end;
    try (injection Hx as <-; unfold xleaf, xnode; eauto; fail).
  - destruct (xt [] v) as [bt|]; [|discriminate]. destruct (rawok (print_nodeid tid)); [|discriminate]. injection Hx as <-. unfold xnode. eauto.
  - destruct ((fix go (l : list uav) : option (list xtree) := match l with [] => Some [] | x :: r => match xt [] x, go r with Some t, Some ts => Some (t :: ts) | _, _ => None end end) items) as [ch|]; [|discriminate].
    cbn [omap] in Hx. injection Hx as <-. unfold xnode. eauto.
Qed.
(* inside <Value> the value's tree is resolved to vtree v, whatever default namespace and prefixes surround it *)
Theorem value_tree_resolved v t d pfx : names_ok v = true -> xt (xa true) v = Some t -> vtree v = Some (resolve d pfx t).
Proof.
  intros Hn Hx. rewrite (resolve_nocolon t (xt_nocolon v _ t Hn Hx) d pfx). rewrite (xt_resolve v true t Hn Hx). f_equal.
  destruct (xt_root v _ t Hx) as [n [txt [ch ->]]]. reflexivity.
Qed.

(* ---------- reading a node element back ---------- *)
Definition PFX : list (str * str) := [(lit "xsd", lit "http://www.w3.org/2001/XMLSchema"); (lit "xsi", lit "http://www.w3.org/2001/XMLSchema-instance")].
Definition topt (s : str) : option str := match s with [] => None | _ => Some s end.
Definition ref_read (r : ref_elem) : ref_elem :=
  {| re_attrs := (lit "ReferenceType", find_attr (lit "ReferenceType") (re_attrs r))
                 :: match lookup_attr (lit "IsForward") (re_attrs r) with Some v => [(lit "IsForward", v)] | None => [] end;
     re_text := topt (ostr (re_text r)) |}.
Lemma ref_read_ok r : ref_of (resolve NODESET_NS_ PFX (erase (ref_ltree r))) = ref_read r.
Proof. unfold ref_ltree, ref_read. destruct (lookup_attr (lit "IsForward") (re_attrs r)); reflexivity. Qed.
Lemma ref_is_ua r : is_ua (lit "Reference") (resolve NODESET_NS_ PFX (erase (ref_ltree r))) = true.
Proof. unfold ref_ltree. destruct (lookup_attr (lit "IsForward") (re_attrs r)); reflexivity. Qed.
Definition node_read (e : node_elem) (vt : option xtree) : node_elem :=
  {| ne_cls := ne_cls e;
     ne_attrs := (lit "NodeId", find_attr (lit "NodeId") (ne_attrs e))
                 :: match lookup_attr (lit "SymbolicName") (ne_attrs e) with Some s => [(lit "SymbolicName", s)] | None => [] end
                 ++ (lit "BrowseName", find_attr (lit "BrowseName") (ne_attrs e)) :: other_attrs e;
     ne_display := Some (topt (match ne_display e with Some (Some d) => d | _ => [] end));
     ne_desc := omap (fun d => topt (ostr d)) (ne_desc e);
     ne_refs := map ref_read (ne_refs e);
     ne_value := omap (fun t => NElem NODESET_NS_ (lit "Value") [] None [resolve NODESET_NS_ PFX t]) vt |}.
Definition attrs_plain (l : list (str * str)) : bool := forallb (fun kv => negb (is_decl kv)) l.
Lemma plain_assoc l : attrs_plain l = true -> assoc_str (lit "xmlns") l = None.
Proof.
  induction l as [|[k v] l IH]; intros H; [reflexivity|]. cbn [attrs_plain forallb] in H. apply andb_true_iff in H as [Hk Hl]. cbn [assoc_str].
  unfold is_decl in Hk. cbn [fst] in Hk. apply negb_true_iff in Hk. apply orb_false_iff in Hk as [Hk _]. rewrite Hk. now apply IH.
Qed.
Lemma plain_prefixes l : attrs_plain l = true -> flat_map (fun kv : attr => match decl_prefix kv with Some d => [d] | None => [] end) l = [].
Proof.
  induction l as [|[k v] l IH]; intros H; [reflexivity|]. cbn [attrs_plain forallb] in H. apply andb_true_iff in H as [Hk Hl]. cbn [flat_map].
  unfold is_decl in Hk. cbn [fst] in Hk. apply negb_true_iff in Hk. apply orb_false_iff in Hk as [_ Hk]. unfold decl_prefix. cbn [fst]. rewrite Hk. cbn [app]. now apply IH.
Qed.
Lemma plain_filter l : attrs_plain l = true -> filter (fun kv : attr => negb (is_decl kv)) l = l.
Proof. induction l as [|kv l IH]; intros H; [reflexivity|]. cbn [attrs_plain forallb] in H. apply andb_true_iff in H as [Hk Hl]. cbn [filter]. rewrite Hk. f_equal. now apply IH. Qed.
Lemma class_nocolon c : mem_str c NODE_CLASSES = true -> has ":" c = false.
Proof.
  unfold mem_str, NODE_CLASSES. cbn [map existsb]. intros H. repeat (apply orb_true_iff in H as [H|H]; [apply str_eqb_eq in H; subst c; reflexivity|]). discriminate.
Qed.
Lemma filter_all {A} (q : A -> bool) l : (forall x, In x l -> q x = true) -> filter q l = l.
Proof. induction l as [|x l IH]; intros H; [reflexivity|]. cbn [filter]. rewrite (H x (or_introl eq_refl)). f_equal. apply IH. intros y Hy. apply H. now right. Qed.
Lemma refs_read_ok refs :
  map ref_of (kids (lit "Reference") (NElem NODESET_NS_ (lit "References") [] None (map (resolve NODESET_NS_ PFX) (map erase (map ref_ltree refs))))) = map ref_read refs.
Proof.
  unfold kids. cbn [nchildren]. rewrite filter_all.
  - rewrite !map_map. apply map_ext. intros r. apply ref_read_ok.
  - intros x Hx. rewrite !map_map in Hx. apply in_map_iff in Hx as [r [<- _]]. apply ref_is_ua.
Qed.
Lemma filter_hit {A} (q : A -> bool) x l : q x = true -> filter q (x :: l) = x :: filter q l.
Proof. intros H. cbn [filter]. now rewrite H. Qed.
Lemma filter_miss {A} (q : A -> bool) x l : q x = false -> filter q (x :: l) = filter q l.
Proof. intros H. cbn [filter]. now rewrite H. Qed.
Ltac kf := repeat (first [rewrite filter_hit by reflexivity | rewrite filter_miss by reflexivity]).
Definition node_attr_list (e : node_elem) : list (str * str) :=
  (lit "NodeId", find_attr (lit "NodeId") (ne_attrs e))
  :: match lookup_attr (lit "SymbolicName") (ne_attrs e) with Some s => [(lit "SymbolicName", s)] | None => [] end
  ++ (lit "BrowseName", find_attr (lit "BrowseName") (ne_attrs e)) :: other_attrs e.
Lemma map_pair_id {A B} (l : list (A * B)) : map (fun x => (fst x, snd x)) l = l.
Proof. induction l as [|[a b] l IH]; [reflexivity|]. cbn. now rewrite IH. Qed.
Lemma node_gattrs e :
  map ga_kv (ga 0 (lit "NodeId") (find_attr (lit "NodeId") (ne_attrs e))
         :: match lookup_attr (lit "SymbolicName") (ne_attrs e) with Some s => [ga 0 (lit "SymbolicName") s] | None => [] end
         ++ ga (match lookup_attr (lit "SymbolicName") (ne_attrs e) with Some _ => 1 | None => 0 end) (lit "BrowseName") (find_attr (lit "BrowseName") (ne_attrs e))
         :: map (fun kv => ga 0 (fst kv) (snd kv)) (other_attrs e)) = node_attr_list e.
Proof.
  unfold node_attr_list. destruct (lookup_attr (lit "SymbolicName") (ne_attrs e)); cbn [map app ga ga_kv]; rewrite map_map; cbn [ga ga_kv]; repeat f_equal; apply map_pair_id.
Qed.
Theorem node_read_ok e vt : mem_str (ne_cls e) NODE_CLASSES = true -> attrs_plain (other_attrs e) = true ->
  node_of (resolve NODESET_NS_ PFX (erase (node_ltree e vt))) = node_read e vt.
Proof.
  intros Hc Ho. pose proof (class_nocolon _ Hc) as Hnc.
  assert (Hp : attrs_plain (node_attr_list e) = true).
  { unfold node_attr_list, attrs_plain in *. destruct (lookup_attr (lit "SymbolicName") (ne_attrs e)); cbn [app forallb]; rewrite Ho; reflexivity. }
  unfold node_ltree. cbn [erase]. rewrite node_gattrs. cbn [resolve]. rewrite (plain_assoc _ Hp), (plain_prefixes _ Hp), (plain_filter _ Hp), (split_once_none _ _ Hnc).
  cbn [app fst snd]. unfold node_read. fold (node_attr_list e).
  destruct (ne_desc e) as [d|]; destruct vt as [t|]; cbn [map app erase omap].
  all: unfold node_of; cbn [nname nattrs].
  all: f_equal.
  all: try (unfold first_kid; cbn [nchildren]; nf; reflexivity).
  all: try (unfold first_kid; cbn [nchildren]; nf; cbn [omap ntext]; unfold topt; destruct (match ne_display e with Some (Some d0) => d0 | _ => [] end); reflexivity).
  all: try (unfold first_kid; cbn [nchildren]; nf; cbn [omap ntext]; unfold topt; destruct (ostr d); reflexivity).
  all: try (unfold kids at 2; cbn [nchildren]; kf; cbn [filter flat_map]; rewrite app_nil_r;
            change (resolve NODESET_NS_ PFX (Elem str (list attr) str (lit "References") [] [] (map erase (map ref_ltree (ne_refs e))) []))
              with (NElem NODESET_NS_ (lit "References") [] None (map (resolve NODESET_NS_ PFX) (map erase (map ref_ltree (ne_refs e)))));
            apply refs_read_ok).
  all: unfold first_kid; cbn [nchildren]; nf; rewrite erase_embed; reflexivity.
Qed.

(* ---------- the whole document ---------- *)
Definition node_ok (e : node_elem) : bool := mem_str (ne_cls e) NODE_CLASSES && attrs_plain (other_attrs e).
Lemma node_head e vt : node_ok e = true ->
  nns (resolve NODESET_NS_ PFX (erase (node_ltree e vt))) = NODESET_NS_ /\ nname (resolve NODESET_NS_ PFX (erase (node_ltree e vt))) = ne_cls e.
Proof.
  unfold node_ok. intros H. apply andb_true_iff in H as [Hc Ho]. pose proof (class_nocolon _ Hc) as Hnc.
  assert (Hp : attrs_plain (node_attr_list e) = true).
  { unfold node_attr_list, attrs_plain in *. destruct (lookup_attr (lit "SymbolicName") (ne_attrs e)); cbn [app forallb]; rewrite Ho; reflexivity. }
  unfold node_ltree. cbn [erase]. rewrite node_gattrs. cbn [resolve]. rewrite (plain_assoc _ Hp), (split_once_none _ _ Hnc). split; reflexivity.
Qed.
Definition zip_read (nodes : list node_elem) (vts : list (option xtree)) : list node_elem :=
  (fix go (l : list node_elem) (v : list (option xtree)) := match l with [] => [] | e :: r => node_read e (hd None v) :: go r (tl v) end) nodes vts.
Definition req_read (a : list (str * str)) : list (str * str) :=
  (lit "ModelUri", find_attr (lit "ModelUri") a) :: match lookup_attr (lit "Version") a with Some v => [(lit "Version", v)] | None => [] end
  ++ [(lit "PublicationDate", find_attr (lit "PublicationDate") a)].
Definition doc_read (fname lm : str) (d : doc) (vts : list (option xtree)) : doc :=
  let uris := match d_uris d with Some u => u | None => [] end in
  let m := match d_models d with Some (m :: _) => m | _ => {| me_attrs := []; me_required := [] |} end in
  {| d_name := fname;
     d_uris := match uris with [] => None | _ => Some uris end;
     d_models := Some [{| me_attrs := [(lit "ModelUri", find_attr (lit "ModelUri") (me_attrs m)); (lit "PublicationDate", find_attr (lit "PublicationDate") (me_attrs m));
                                       (lit "Version", find_attr (lit "Version") (me_attrs m))];
                          me_required := map req_read (me_required m) |}];
     d_aliases := Some [];
     d_nodes := zip_read (d_nodes d) vts |}.
Definition RN (t : ltree) : nxml := resolve NODESET_NS_ PFX (erase t).
Lemma nodes_tail_read nodes : forall vts, forallb node_ok nodes = true ->
  map node_of (filter (fun t => str_eqb (nns t) NODESET_NS_ && mem_str (nname t) NODE_CLASSES) (map RN (zip_ltrees nodes vts))) = zip_read nodes vts
  /\ (forall name, mem_str name NODE_CLASSES = false -> nfind NODESET_NS_ name (map RN (zip_ltrees nodes vts)) = None).
Proof.
  unfold zip_ltrees, zip_read. induction nodes as [|e r IH]; intros vts H; [split; reflexivity|]. cbn [forallb] in H. apply andb_true_iff in H as [He Hr].
  destruct (IH (tl vts) Hr) as [IH1 IH2]. destruct (node_head e (hd None vts) He) as [Hns Hnm].
  pose proof He as He'. unfold node_ok in He'. apply andb_true_iff in He' as [Hc Ho].
  cbn [map]. split.
  - cbn [filter]. unfold RN in *. rewrite Hns, Hnm, str_eqb_refl, Hc. cbn [andb map]. rewrite IH1. f_equal. now apply node_read_ok.
  - intros name Hname. cbn [nfind]. unfold RN in *. rewrite Hns, Hnm, str_eqb_refl. cbn [andb].
    destruct (str_eqb (ne_cls e) name) eqn:E; [apply str_eqb_eq in E; subst name; congruence|]. now apply IH2.
Qed.
Lemma required_read req : map nattrs (kids (lit "RequiredModel") (NElem NODESET_NS_ (lit "Model") [] None (map RN (required_ltrees req)))) = map req_read req.
Proof.
  unfold kids. cbn [nchildren].
  assert (G : forall last a, is_ua (lit "RequiredModel") (RN (required_ltree last a)) = true /\ nattrs (RN (required_ltree last a)) = req_read a).
  { intros last a. unfold RN, required_ltree, req_read. destruct (lookup_attr (lit "Version") a); split; reflexivity. }
  assert (L : forall req, Forall (fun x => is_ua (lit "RequiredModel") x = true) (map RN (required_ltrees req)) /\ map nattrs (map RN (required_ltrees req)) = map req_read req).
  { clear req. induction req as [|a r IH]; [split; [constructor|reflexivity]|]. destruct r as [|b r].
    - cbn [required_ltrees map]. destruct (G true a) as [G1 G2]. split; [repeat constructor; exact G1|now rewrite G2].
    - change (required_ltrees (a :: b :: r)) with (required_ltree false a :: required_ltrees (b :: r)). cbn [map]. destruct IH as [I1 I2]. destruct (G false a) as [G1 G2].
      split; [constructor; [exact G1|exact I1]|]. rewrite G2. f_equal. exact I2. }
  destruct (L req) as [L1 L2]. rewrite filter_all; [exact L2|]. intros x Hx. rewrite Forall_forall in L1. now apply L1.
Qed.
Lemma uris_read uris : map (fun x => ostr (ntext x)) (kids (lit "Uri") (NElem NODESET_NS_ (lit "NamespaceUris") [] (Some NL) (map RN (map (fun u => LElem (lit "Uri") [] 0 false u [] NL) uris)))) = uris.
Proof.
  unfold kids. cbn [nchildren]. rewrite filter_all.
  - rewrite !map_map. induction uris as [|u r IH]; [reflexivity|]. cbn [map]. rewrite IH. f_equal. unfold RN. cbn. destruct u; reflexivity.
  - intros x Hx. rewrite map_map in Hx. apply in_map_iff in Hx as [u [<- _]]. reflexivity.
Qed.
Definition MODEL_N (m : model_elem) : nxml :=
  NElem NODESET_NS_ (lit "Model") [(lit "ModelUri", find_attr (lit "ModelUri") (me_attrs m)); (lit "PublicationDate", find_attr (lit "PublicationDate") (me_attrs m));
                                   (lit "Version", find_attr (lit "Version") (me_attrs m))]
        (topt (match me_required m with [] => [] | _ => LF :: lit "        " end)) (map RN (required_ltrees (me_required m))).
Definition MODELS_N (m : model_elem) : nxml := NElem NODESET_NS_ (lit "Models") [] (Some (LF :: lit "    ")) [MODEL_N m].
Definition ALIASES_N (tl : str) : nxml := NElem NODESET_NS_ (lit "Aliases") [] None [].
Definition NSURIS_N (uris : list str) : nxml :=
  NElem NODESET_NS_ (lit "NamespaceUris") [] (Some NL) (map RN (map (fun u => LElem (lit "Uri") [] 0 false u [] NL) uris)).
Lemma model_read m : model_of (MODEL_N m) = {| me_attrs := [(lit "ModelUri", find_attr (lit "ModelUri") (me_attrs m)); (lit "PublicationDate", find_attr (lit "PublicationDate") (me_attrs m));
                                                            (lit "Version", find_attr (lit "Version") (me_attrs m))]; me_required := map req_read (me_required m) |}.
Proof.
  unfold model_of, MODEL_N. cbn [nattrs]. f_equal.
  pose proof (required_read (me_required m)) as R. unfold kids in *. cbn [nchildren] in *. exact R.
Qed.
Theorem doc_read_ok fname lm d vts : forallb node_ok (d_nodes d) = true ->
  doc_of_nxml fname (resolve [] [] (erase (doc_ltree lm d vts))) = Ok (doc_read fname lm d vts).
Proof.
  intros Hn. unfold doc_ltree, doc_read. cbv zeta.
  set (uris := match d_uris d with Some u => u | None => [] end).
  set (m := match d_models d with Some (m :: _) => m | _ => {| me_attrs := []; me_required := [] |} end).
  destruct (nodes_tail_read (d_nodes d) vts Hn) as [T1 T2].
  set (tail := map RN (zip_ltrees (d_nodes d) vts)) in *.
  assert (Eroot : resolve [] [] (erase (LElem (lit "UANodeSet")
        [ga 0 (lit "LastModified") lm; ga 1 (lit "xmlns:xsd") (lit "http://www.w3.org/2001/XMLSchema");
         ga 0 (lit "xmlns:xsi") (lit "http://www.w3.org/2001/XMLSchema-instance"); ga 0 (lit "xmlns") NODESET_NS]
        0 false (match uris with [] => [LF; LF] | _ => NL end)
        (match uris with [] => [] | _ => [LElem (lit "NamespaceUris") [] 0 false NL (map (fun u => LElem (lit "Uri") [] 0 false u [] NL) uris) [LF; LF]] end
         ++ LElem (lit "Models") [] 0 false (LF :: lit "    ")
              [LElem (lit "Model") [ga 0 (lit "ModelUri") (find_attr (lit "ModelUri") (me_attrs m)); ga 0 (lit "PublicationDate") (find_attr (lit "PublicationDate") (me_attrs m));
                                    ga 0 (lit "Version") (find_attr (lit "Version") (me_attrs m))]
                     0 false (match me_required m with [] => [] | _ => LF :: lit "        " end) (required_ltrees (me_required m)) NL] NL
         :: LElem (lit "Aliases") [] 0 false [] [] (match d_nodes d with [] => [LF; LF] | _ => NL end)
         :: zip_ltrees (d_nodes d) vts) []))
      = NElem NODESET_NS_ (lit "UANodeSet") [(lit "LastModified", lm)] (Some (match uris with [] => [LF; LF] | _ => NL end))
          ((match uris with [] => [] | _ => [NSURIS_N uris] end) ++ MODELS_N m :: ALIASES_N [] :: tail)).
  { subst tail. unfold RN. cbn [erase]. cbn [map ga ga_kv]. cbn [resolve]. f_equal.
    - destruct uris; reflexivity.
    - rewrite !map_app. cbn [map]. rewrite !map_map. apply (f_equal2 (@app nxml)).
      + destruct uris as [|s us]; [reflexivity|]. unfold NSURIS_N, RN. cbn [map erase]. rewrite ?map_map. cbn. rewrite ?map_map. cbn. reflexivity.
      + apply (f_equal2 (@cons nxml)); [unfold MODELS_N, MODEL_N, RN; cbn [erase map]; rewrite ?map_map; cbn; rewrite ?map_map; cbn; reflexivity|].
        apply (f_equal2 (@cons nxml)); [reflexivity|]. apply map_ext. intros t0. reflexivity. }
  rewrite Eroot. clear Eroot. unfold doc_of_nxml.
  change (is_ua (lit "UANodeSet") (NElem NODESET_NS_ (lit "UANodeSet") [(lit "LastModified", lm)] (Some (match uris with [] => [LF; LF] | _ => NL end))
          ((match uris with [] => [] | _ => [NSURIS_N uris] end) ++ MODELS_N m :: ALIASES_N [] :: tail))) with true. cbn [negb]. cbv iota.
  unfold first_kid. cbn [nchildren].
  destruct uris as [|u0 ur] eqn:Eu; cbn [app].
  - nf. cbn [kids]. unfold kids at 1. cbn [nchildren ALIASES_N filter map sequence omap]. cbv iota.
    rewrite (T2 (lit "NamespaceUris") eq_refl). cbn [omap]. f_equal. f_equal.
    + unfold kids. cbn [nchildren MODELS_N]. kf. cbn [filter map]. now rewrite model_read.
    + kf. exact T1.
  - nf. unfold kids at 1. cbn [nchildren ALIASES_N filter map sequence omap]. cbv iota. cbn [omap]. f_equal. f_equal.
    + f_equal. apply (uris_read (u0 :: ur)).
    + unfold kids. cbn [nchildren MODELS_N]. kf. cbn [filter map]. now rewrite model_read.
    + kf. exact T1.
Qed.

(* ---------- what write_doc produces is exactly what is read back ---------- *)
Lemma text_of_nonempty p k in_use n : w_text_of p k in_use n <> [].
Proof. unfold w_text_of. destruct (w_lookup p k in_use n); [apply print_nodeid_nonempty|discriminate]. Qed.
Lemma lookup_none_keys k (l : list (str * str)) : (forall kv, In kv l -> str_eqb (fst kv) k = false) -> lookup_attr k l = None.
Proof. induction l as [|[a b] l IH]; intros H; [reflexivity|]. cbn [lookup_attr]. pose proof (H (a, b) (or_introl eq_refl)) as Hab. cbn [fst] in Hab. rewrite Hab. apply IH. intros kv Hkv. apply H. now right. Qed.
Section Canonical.
  Variables (p : parsed) (k : nat) (in_use : list Z) (refs : list triple) (x : wrow).
  Let e := w_node_elem p k in_use refs x.
  Let r := fst (fst x).
  Definition OTH : list (str * str) :=
    flat_map (fun a =>
      match (if str_eqb a (lit "IsAbstract") && negb (ends_with (lit "Type") (nr_cls r)) then None
             else if str_eqb a (lit "Symmetric") && negb (str_eqb (nr_cls r) (lit "UAReferenceType")) then None
             else node_attr a r) with
      | None => []
      | Some v =>
          let s := match v with
                   | AStr s => if is_bool_attr a then map lower_ascii s else s
                   | ABool true => lit "true" | ABool false => lit "false"
                   | AInt z => decZ z
                   | ANode n => match w_lookup p k in_use n with Some m => print_nodeid m | None => [] end end in
          match s with [] => [] | _ => [(a, s)] end
      end) WRITTEN_ATTRS.
  Lemma OTH_keys kv : In kv OTH -> In (fst kv) WRITTEN_ATTRS.
  Proof.
    unfold OTH. intros H. apply in_flat_map in H as [a [Ha Hkv]].
    destruct (if str_eqb a (lit "IsAbstract") && negb (ends_with (lit "Type") (nr_cls r)) then None
              else if str_eqb a (lit "Symmetric") && negb (str_eqb (nr_cls r) (lit "UAReferenceType")) then None else node_attr a r) as [v|]; [|contradiction].
    cbv zeta in Hkv. match type of Hkv with In _ (match ?s with [] => [] | _ => _ end) => destruct s; [contradiction|] end. destruct Hkv as [<-|[]]. exact Ha.
  Qed.
  Lemma written_key_facts a : In a WRITTEN_ATTRS -> is_special_attr a = false /\ starts_with xmlns_prefix a = false /\ str_eqb a (lit "xmlns") = false.
  Proof. unfold WRITTEN_ATTRS. cbn [map In]. intros H. repeat (destruct H as [<-|H]; [repeat split; reflexivity|]). contradiction. Qed.
  Lemma e_attrs : ne_attrs e = (lit "NodeId", w_text_of p k in_use (nr_nodeid r))
                   :: match node_attr (lit "SymbolicName") r with Some (AStr s) => [(lit "SymbolicName", s)] | _ => [] end
                   ++ (lit "BrowseName", match obind (snd x) (w_compact in_use) with Some b => decZ b | None => lit "<NA>" end ++ ":" :: nr_bname r) :: OTH.
  Proof. reflexivity. Qed.
  Lemma OTH_lookup_special key : is_special_attr key = true -> lookup_attr key OTH = None.
  Proof.
    intros Hs. apply lookup_none_keys. intros kv Hkv. pose proof (OTH_keys kv Hkv) as Hk. destruct (written_key_facts _ Hk) as [Hn _].
    destruct (str_eqb (fst kv) key) eqn:E; [|reflexivity]. apply str_eqb_eq in E. rewrite E in Hn. congruence.
  Qed.
  Lemma OTH_filter : filter (fun kv : str * str => negb (is_special_attr (fst kv))) OTH = OTH.
  Proof. apply filter_all. intros kv Hkv. destruct (written_key_facts _ (OTH_keys kv Hkv)) as [Hn _]. now rewrite Hn. Qed.
  Lemma OTH_plain : attrs_plain OTH = true.
  Proof.
    unfold attrs_plain. apply forallb_forall. intros kv Hkv. destruct (written_key_facts _ (OTH_keys kv Hkv)) as [_ [H1 H2]]. unfold is_decl. now rewrite H1, H2.
  Qed.
  Theorem node_attr_list_canonical : node_attr_list e = ne_attrs e /\ other_attrs e = OTH.
  Proof.
    assert (Ho : other_attrs e = OTH).
    { unfold other_attrs. rewrite e_attrs. cbn [filter fst]. change (is_special_attr (lit "NodeId")) with true. cbn [negb].
      rewrite filter_app. cbn [filter fst]. change (is_special_attr (lit "BrowseName")) with true. cbn [negb]. rewrite OTH_filter.
      destruct (node_attr (lit "SymbolicName") r) as [[s| | |]|]; reflexivity. }
    split; [|exact Ho]. unfold node_attr_list. rewrite Ho, e_attrs. unfold find_attr. cbn [lookup_attr].
    change (str_eqb (lit "NodeId") (lit "NodeId")) with true. change (str_eqb (lit "NodeId") (lit "SymbolicName")) with false. change (str_eqb (lit "NodeId") (lit "BrowseName")) with false. cbv iota.
    assert (L : forall key pre, lookup_attr key (pre ++ (lit "BrowseName", match obind (snd x) (w_compact in_use) with Some b => decZ b | None => lit "<NA>" end ++ ":" :: nr_bname r) :: OTH)
                = match lookup_attr key pre with Some v => Some v | None => if str_eqb (lit "BrowseName") key then Some (match obind (snd x) (w_compact in_use) with Some b => decZ b | None => lit "<NA>" end ++ ":" :: nr_bname r) else lookup_attr key OTH end).
    { intros key pre. induction pre as [|[a b] pre IH]; [reflexivity|]. cbn [app lookup_attr]. destruct (str_eqb a key); [reflexivity|exact IH]. }
    rewrite !L. rewrite (OTH_lookup_special (lit "SymbolicName") eq_refl).
    destruct (node_attr (lit "SymbolicName") r) as [[s| | |]|]; reflexivity.
  Qed.
End Canonical.

Lemma topt_nonempty (s : str) : s <> [] -> topt s = Some s.
Proof. destruct s; [congruence|reflexivity]. Qed.
Lemma refs_read_id p k in_use refs me : map ref_read (w_ref_elems p k in_use refs me) = w_ref_elems p k in_use refs me.
Proof.
  unfold w_ref_elems. cbv zeta. induction refs as [|[[s tg] ty] l IH]; [reflexivity|]. cbn [flat_map]. rewrite map_app, IH. f_equal.
  destruct (existsb _ _); [destruct (str_eqb _ _)|destruct (str_eqb _ _)]; try reflexivity; cbn [map]; unfold ref_read; cbn [re_attrs re_text ostr];
    rewrite (topt_nonempty _ (text_of_nonempty p k in_use _)); reflexivity.
Qed.
Theorem node_read_id p k in_use refs x vt : value_tree_of x = Some vt -> node_read (w_node_elem p k in_use refs x) vt = w_node_elem p k in_use refs x.
Proof.
  intros Hv. destruct (node_attr_list_canonical p k in_use refs x) as [Ha _].
  unfold node_read. fold (node_attr_list (w_node_elem p k in_use refs x)). rewrite Ha.
  assert (Hd : Some (topt (match ne_display (w_node_elem p k in_use refs x) with Some (Some d) => d | _ => [] end)) = ne_display (w_node_elem p k in_use refs x)).
  { unfold w_node_elem. cbn [ne_display]. destruct (nr_display (fst (fst x))); reflexivity. }
  assert (He : omap (fun d => topt (ostr d)) (ne_desc (w_node_elem p k in_use refs x)) = ne_desc (w_node_elem p k in_use refs x)).
  { unfold w_node_elem. cbn [ne_desc omap]. destruct (nr_desc (fst (fst x))); reflexivity. }
  assert (Hr : map ref_read (ne_refs (w_node_elem p k in_use refs x)) = ne_refs (w_node_elem p k in_use refs x)) by apply refs_read_id.
  assert (Hval : omap (fun t => NElem NODESET_NS_ (lit "Value") [] None [resolve NODESET_NS_ PFX t]) vt = ne_value (w_node_elem p k in_use refs x)).
  { unfold w_node_elem. cbn [ne_value]. unfold value_tree_of, is_var_row in Hv.
    destruct (str_eqb (nr_cls (fst (fst x))) (lit "UAVariable") || str_eqb (nr_cls (fst (fst x))) (lit "UAVariableType")); [|injection Hv as <-; reflexivity].
    destruct (nr_value (fst (fst x))) as [v|]; [|injection Hv as <-; reflexivity].
    destruct (names_ok v) eqn:En; [|discriminate]. destruct (xt (xa true) v) as [t|] eqn:Et; [|discriminate]. injection Hv as <-.
    cbn [omap]. rewrite (value_tree_resolved v t NODESET_NS_ PFX En Et). reflexivity. }
  rewrite Hd, He, Hr, Hval. destruct (w_node_elem p k in_use refs x); reflexivity.
Qed.

Definition classes_ok (p : parsed) : bool := forallb (fun r => mem_str (nr_cls r) NODE_CLASSES) (p_nodes p).
Lemma written_in_nodes p k in_use x : In x (w_written p k in_use) -> In (fst (fst x)) (p_nodes p).
Proof. unfold w_written, w_nodes1. intros H. apply filter_In in H as [H _]. apply in_map_iff in H as [r [<- Hr]]. exact Hr. Qed.
Lemma zip_read_written p k in_use refs : forall rows vts, omapM value_tree_of rows = Some vts ->
  zip_read (map (w_node_elem p k in_use refs) rows) vts = map (w_node_elem p k in_use refs) rows.
Proof.
  unfold zip_read. induction rows as [|x rows IH]; intros vts H; [reflexivity|]. cbn [omapM] in H.
  destruct (value_tree_of x) as [o|] eqn:Ex; [|discriminate]. destruct (omapM value_tree_of rows) as [os|] eqn:El; [|discriminate]. injection H as <-.
  cbn [map hd tl]. rewrite (node_read_id p k in_use refs x o Ex). f_equal. now apply IH.
Qed.
Lemma req_read_id (u : str) (v : option str) (pd : str) :
  req_read ((lit "ModelUri", u) :: match v with Some v => [(lit "Version", v)] | None => [] end ++ [(lit "PublicationDate", pd)])
  = (lit "ModelUri", u) :: match v with Some v => [(lit "Version", v)] | None => [] end ++ [(lit "PublicationDate", pd)].
Proof. destruct v; reflexivity. Qed.
(* C05/C06/C07: what an XML reader and the document reader of the parser obtain from the written text IS the document write_doc describes *)
Theorem read_written lm p w fname d : classes_ok p = true -> text_clean lm p w = true -> write_doc p w = Ok d ->
  exists s, write_text lm p w = Ok s /\
            read_doc fname s = Ok {| d_name := fname; d_uris := match d_uris d with Some ((_ :: _) as u) => Some u | _ => None end;
                                     d_models := d_models d; d_aliases := d_aliases d; d_nodes := d_nodes d |}.
Proof.
  intros Hcls Hclean Hw.
  destruct (write_text_wellformed lm p w Hclean) as [d' [vts [s [Hw' [Hv [Hs Hx]]]]]]. rewrite Hw in Hw'. injection Hw' as <-.
  exists s. split; [exact Hs|]. unfold read_doc. rewrite Hx.
  (* the shape of d *)
  unfold write_doc in Hw. destruct (str_index (wp_uri w) (p_namespaces p)) as [k|] eqn:Ek; [|discriminate].
  destruct (use_refs p w (Z.of_nat k)) as [refs|] eqn:Er; [|discriminate]. cbn [rbind] in Hw.
  destruct (map (fun i : Z => nth (Z.to_nat i) (w_newl (p_namespaces p) k) []) (w_in_use p k refs)) as [|u0 [|u1 rest]] eqn:En; try discriminate.
  match type of Hw with (if ?c then _ else _) = _ => destruct c; [discriminate|] end.
  assert (Hrows : written_rows p w = w_written p k (w_in_use p k refs)) by (unfold written_rows; now rewrite Ek, Er).
  unfold value_trees in Hv. rewrite Hrows in Hv.
  injection Hw as <-.
  rewrite doc_read_ok.
  - f_equal. unfold doc_read. cbn [d_uris d_models d_nodes d_aliases tl].
    assert (Hm : forall (A : list (str * str)) (R R' : list (list (str * str))), R = R' ->
              Some [{| me_attrs := A; me_required := R |}] = Some [{| me_attrs := A; me_required := R' |}]) by (intros; subst; reflexivity).
    rewrite (zip_read_written p k (w_in_use p k refs) refs _ vts Hv). f_equal. apply Hm. cbn [me_required].
    destruct (find _ (p_models p)) as [m|]; [|reflexivity]. rewrite map_map. apply map_ext. intros [[ru rp] rv]. cbn [fst snd]. apply req_read_id.
  - cbn [d_nodes]. apply forallb_forall. intros e He. apply in_map_iff in He as [x [<- Hx']]. unfold node_ok. apply andb_true_iff. split.
    + unfold w_node_elem. cbn [ne_cls]. unfold classes_ok in Hcls. rewrite forallb_forall in Hcls. apply Hcls. now apply (written_in_nodes p k (w_in_use p k refs)).
    + destruct (node_attr_list_canonical p k (w_in_use p k refs) refs x) as [_ Ho]. rewrite Ho. apply OTH_plain.
Qed.
