(* Model of nodeset_parser.parse_xml_files / parse_xml_without_normalization / iterparse_xml / get_attrib_df /
   normalize_wrt_nodeid / extend_namespace_map / exclude_files_not_in_namespaces and of
   json_parser.parse.pre_process_xml_to_json (the header lines).  Documents are given as the element structure lxml
   presents.  Definitions only. *)
From Coq Require Import String Ascii List Bool Arith NArith ZArith.
Require Import PyStr PyInt Sexp Xml M_C09 M_C08 Ns Table.
Import ListNotations.
Open Scope char_scope.

Definition UA_URI : str := lit "http://opcfoundation.org/UA/".

(* ---------- documents ---------- *)
Record ref_elem := { re_attrs : list (str * str); re_text : option str }.
Record node_elem := {
  ne_cls : str;                              (* UAObject, UAVariable, ... *)
  ne_attrs : list (str * str);               (* the element's XML attributes, in document order *)
  ne_display : option (option str);          (* first DisplayName child: absent / its text *)
  ne_desc : option (option str);             (* first Description child *)
  ne_refs : list ref_elem;                   (* every Reference under every References child *)
  ne_value : option nxml                     (* the Value child *)
}.
Record model_elem := { me_attrs : list (str * str); me_required : list (list (str * str)) }.
Record doc := {
  d_name : str;                              (* file path *)
  d_uris : option (list str);                (* NamespaceUris *)
  d_models : option (list model_elem);       (* Models *)
  d_aliases : option (list (str * option str));   (* Aliases: Alias attribute, text *)
  d_nodes : list node_elem
}.

(* ---------- parse output ---------- *)
Inductive aval := AStr (s : str) | ABool (b : bool) | AInt (z : Z) | ANode (n : nodeid).
Record node_row := {
  nr_cls : str; nr_nodeid : nodeid; nr_bname : str; nr_bns : option Z;
  nr_display : str; nr_desc : str;
  nr_attrs : list (str * aval);              (* every other attribute column that has a value in this row *)
  nr_value : option uav; nr_ns : Z
}.
Record model_out := { mo_uri : option str; mo_pubdate : option str; mo_version : option str;
                      mo_required : list (option str * option str * option str) }.   (* uri, publication date, version *)
Definition triple := (nodeid * nodeid * nodeid)%type.
Record file_out := { fo_nodes : list node_row; fo_refs : list triple; fo_models : list model_out }.

(* ---------- namespaces ---------- *)
Definition ns_add := add str str_eq_dec.
Definition ns_index (u : str) (l : list str) : nat := Ns.index_of str str_eq_dec u l.
(* extend_namespace_map(existing, local uris, {0: 0}) *)
Definition ns_extend (ex : list str) (local : list str) : list str * list (nat * nat) := extend str str_eq_dec ex local 0.
Definition zmap_of (m : list (nat * nat)) : list (Z * Z) := (0%Z, 0%Z) :: map (fun p => (Z.of_nat (fst p), Z.of_nat (snd p))) m.
(* UAGraph._get_namespace_list(dict): gaps become the string "None" *)
Fixpoint ns_list_of_dict (fuel : nat) (i : nat) (d : list (nat * str)) : list str :=
  match fuel with
  | O => []
  | S f => (match find (fun p => Nat.eqb (fst p) i) d with Some p => snd p | None => lit "None" end) :: ns_list_of_dict f (S i) d
  end.
Definition namespace_list_of_dict (d : list (nat * str)) : list str :=
  ns_list_of_dict (S (fold_right Nat.max 0 (map fst d))) 0 d.

(* ---------- one file ---------- *)
Fixpoint lookup_attr (k : str) (l : list (str * str)) : option str :=
  match l with [] => None | (a, b) :: r => if str_eqb a k then Some b else lookup_attr k r end.
(* dict(elem.attrib): a repeated key cannot occur in well-formed XML *)
Definition NODE_REF_ATTRS : list str := map lit ["DataType"; "ParentNodeId"; "MethodDeclarationId"]%string.
(* the integer columns and the pandas dtype each is cast to (get_attrib_df): the widths of the schema's types, except
   MinimumSamplingInterval (a Duration in the schema, Int32 in the table) *)
Definition wrap_int (bits : Z) (z : Z) : Z :=
  let m := (2 ^ bits)%Z in let r := (z mod m)%Z in if (r <? m / 2)%Z then r else (r - m)%Z.
Definition wrap_uint (bits : Z) (z : Z) : Z := (z mod 2 ^ bits)%Z.
Definition int_attr_cast (k : str) : option (Z -> Z) :=
  if str_eqb k (lit "ValueRank") then Some (wrap_int 32)
  else if str_eqb k (lit "AccessLevel") then Some (wrap_uint 32)
  else if str_eqb k (lit "EventNotifier") then Some (wrap_uint 8)
  else if str_eqb k (lit "MinimumSamplingInterval") then Some (wrap_int 32)
  else None.

Definition parse_id (s : str) (nsmap : list (Z * Z)) (amap : list (str * nodeid)) : res nodeid := parse_nodeid s nsmap amap.

(* the Alias elements: pre_process_xml_to_json parses every alias text without a namespace map (any failure aborts),
   then iterparse builds the table with the namespace map *)
Fixpoint build_aliases (l : list (str * option str)) (nsmap : list (Z * Z)) : res (list (str * nodeid)) :=
  match l with
  | [] => Ok []
  | (a, t) :: r =>
      match t with
      | None => Err EType
      | Some t => rbind (parse_nodeid t nsmap []) (fun n => rmap (fun rest => rest ++ [(a, n)]) (build_aliases r nsmap))
      end
  end.
(* later aliases overwrite earlier ones (dict assignment): look-ups go through the reversed list *)
Definition preprocess_aliases (l : list (str * option str)) : res unit :=
  rmap (fun _ => tt) (rsequence (map (fun at_ => match snd at_ with Some t => parse_nodeid t [] [] | None => Err EType end) l)).

Definition is_forward (a : list (str * str)) : bool :=
  match lookup_attr (lit "IsForward") a with Some v => negb (str_eqb v (lit "false")) | None => true end.
Definition parse_ref (src : nodeid) (nsmap : list (Z * Z)) (amap : list (str * nodeid)) (r : ref_elem) : res triple :=
  match re_text r with
  | None => Err EOther                                            (* None.rstrip() *)
  | Some t =>
      rbind (parse_id (rstrip t) nsmap amap) (fun trg =>
      match lookup_attr (lit "ReferenceType") (re_attrs r) with
      | None => Err EKey
      | Some ty => rbind (parse_id ty nsmap amap) (fun ty =>
                   Ok (if is_forward (re_attrs r) then (src, trg, ty) else (trg, src, ty)))
      end)
  end.

Definition first_text (o : option (option str)) : str := match o with Some (Some t) => rstrip t | _ => [] end.

(* browse name: int(x.split(":")[0]) through the namespace map, x.split(":")[1] *)
Definition split_browsename (bn : str) (nsmap : list (Z * Z)) : res (str * option Z) :=
  if has ":" bn then
    match split_all ":" bn with
    | pfx :: name :: _ => match py_int pfx with Some k => Ok (name, zlookup k nsmap) | None => Err EValue end
    | _ => Err EOther
    end
  else Ok (bn, Some 0%Z).

(* typing of one attribute value, given the columns this FILE has *)
Definition cast_attr (k v : str) (nsmap : list (Z * Z)) (amap : list (str * nodeid)) : res aval :=
  if mem_str k NODE_REF_ATTRS then rmap ANode (parse_id v nsmap amap)
  else match int_attr_cast k with
  | Some f => match py_int v with Some z => Ok (AInt (f z)) | None => Err EValue end
  | None =>
  if str_eqb k (lit "IsAbstract") || str_eqb k (lit "Symmetric") then Ok (ABool (negb (str_eqb v (lit "false") || str_eqb v [])))
  else Ok (AStr v)
  end.
Definition BOOL_COLS : list str := map lit ["IsAbstract"; "Symmetric"]%string.

Definition has_attr (k : str) (a : list (str * str)) : bool := match lookup_attr k a with Some _ => true | None => false end.
Definition parse_node (E : ext) (nsmap : list (Z * Z)) (amap : list (str * nodeid)) (file_cols : list str) (e : node_elem)
  : res (node_row * list triple) :=
  match lookup_attr (lit "NodeId") (ne_attrs e) with
  | None => Err EKey
  | Some nid =>
      rbind (parse_id nid nsmap amap) (fun nodeid =>
      (* parse_node_attrib: DataType, ParentNodeId, MethodDeclarationId *)
      rbind (rsequence (map (fun k => match lookup_attr k (ne_attrs e) with
                                      | Some v => rmap (fun n => [(k, ANode n)]) (parse_id v nsmap amap)
                                      | None => Ok [] end) NODE_REF_ATTRS)) (fun refattrs =>
      rbind (rsequence (map (parse_ref nodeid nsmap amap) (ne_refs e))) (fun refs =>
      rbind (dec_value_elem E (ne_value e)) (fun value =>
      match lookup_attr (lit "BrowseName") (ne_attrs e) with
      | None => Err EType
      | Some bn =>
          rbind (split_browsename bn nsmap) (fun nb =>
          rbind (rsequence (map (fun kv =>
                   if str_eqb (fst kv) (lit "NodeId") || str_eqb (fst kv) (lit "BrowseName") || mem_str (fst kv) NODE_REF_ATTRS then Ok []
                   else rmap (fun a => [(fst kv, a)]) (cast_attr (fst kv) (snd kv) nsmap amap)) (ne_attrs e))) (fun others =>
          let bools := flat_map (fun c => if mem_str c file_cols && negb (has_attr c (ne_attrs e)) then [(c, ABool false)] else []) BOOL_COLS in
          Ok ({| nr_cls := ne_cls e; nr_nodeid := nodeid; nr_bname := fst nb; nr_bns := snd nb;
                 nr_display := first_text (ne_display e); nr_desc := first_text (ne_desc e);
                 nr_attrs := concat refattrs ++ concat others ++ bools; nr_value := value; nr_ns := nid_ns nodeid |}, refs)))
      end))))
  end.

Definition triple_eq_dec (a b : triple) : {a = b} + {a <> b}.
Proof. repeat decide equality; try apply Z.eq_dec; apply Ascii.ascii_dec. Defined.
Definition nodeid_eq_dec (a b : nodeid) : {a = b} + {a <> b}.
Proof. repeat decide equality; try apply Z.eq_dec; apply Ascii.ascii_dec. Defined.

Definition model_of (m : model_elem) : model_out :=
  {| mo_uri := lookup_attr (lit "ModelUri") (me_attrs m); mo_pubdate := lookup_attr (lit "PublicationDate") (me_attrs m);
     mo_version := lookup_attr (lit "Version") (me_attrs m);
     mo_required := map (fun r => (lookup_attr (lit "ModelUri") r, lookup_attr (lit "PublicationDate") r, lookup_attr (lit "Version") r)) (me_required m) |}.

(* parse_xml_without_normalization on one file, given the namespace list so far *)
Definition parse_file (E : ext) (namespaces : list str) (d : doc) : res (list str * file_out) :=
  let ns0 := if in_dec str_eq_dec UA_URI namespaces then namespaces else namespaces ++ [UA_URI] in
  rbind (match d_aliases d with Some l => preprocess_aliases l | None => Ok tt end) (fun _ =>
  let '(ns1, m) := match d_uris d with Some u => ns_extend ns0 u | None => (ns0, []) end in
  let nsmap := zmap_of m in
  rbind (match d_aliases d with Some l => build_aliases l nsmap | None => Ok [] end) (fun amap_rev =>
  let amap := amap_rev in
  match d_nodes d with
  | [] => Err EValue                                               (* pd.concat([]) : No objects to concatenate *)
  | nodes =>
      let file_cols := flat_map (fun e => map fst (ne_attrs e)) nodes in
      rbind (rsequence (map (parse_node E nsmap amap file_cols) nodes)) (fun rows =>
      Ok (ns1, {| fo_nodes := map fst rows;
                  fo_refs := uniques triple triple_eq_dec (flat_map snd rows);
                  fo_models := match d_models d with Some l => map model_of l | None => [] end |}))
  end)).

(* ---------- many files ---------- *)
Definition NODESET2_NAME : str := lit "Opc.Ua.NodeSet2.xml".
Definition ends_with (suffix s : str) : bool := starts_with (rev suffix) (rev s).
(* get_xml_namespaces *)
Definition file_namespaces (d : doc) : list str :=
  if ends_with NODESET2_NAME (d_name d) then [lit "http://opcfoundation.org/UA"; UA_URI]
  else match d_models d with
       | Some l => flat_map (fun m => match lookup_attr (lit "ModelUri") (me_attrs m) with Some (c :: u) => [c :: u] | _ => [] end) l
       | None => [] end.
(* exclude_files_not_in_namespaces (None entries of the caller's list are dropped before the test) *)
Definition keep_file (caller : list str) (d : doc) : bool :=
  existsb (fun n => match n with [] => false | _ => mem_str n (file_namespaces d) end) caller.
(* files.sort(): by path, byte-wise *)
Fixpoint str_leb (a b : str) : bool :=
  match a, b with
  | [], _ => true
  | _ :: _, [] => false
  | x :: a', y :: b' => if (N_of_ascii x <? N_of_ascii y)%N then true else if (N_of_ascii y <? N_of_ascii x)%N then false else str_leb a' b'
  end.
Fixpoint insert_doc (d : doc) (l : list doc) : list doc :=
  match l with [] => [d] | x :: r => if str_leb (d_name d) (d_name x) then d :: l else x :: insert_doc d r end.
Definition sort_docs (l : list doc) : list doc := fold_right insert_doc [] l.

Record parsed := { p_namespaces : list str; p_nodes : list node_row; p_refs : list triple; p_models : list model_out }.
Fixpoint parse_seq (E : ext) (namespaces : list str) (docs : list doc) : res (list str * list file_out) :=
  match docs with
  | [] => Ok (namespaces, [])
  | d :: r => rbind (parse_file E namespaces d) (fun '(ns1, fo) =>
              rbind (parse_seq E ns1 r) (fun '(ns2, fos) => Ok (ns2, fo :: fos)))
  end.
(* parse_xml_files(files, namespaces): caller = None is the empty list *)
Definition parse_files (E : ext) (caller : list str) (docs : list doc) : res parsed :=
  let docs1 := match caller with [] => docs | _ => filter (keep_file caller) docs end in
  match docs1 with
  | [] => Err EValue
  | _ =>
      rbind (parse_seq E caller (sort_docs docs1)) (fun '(ns, fos) =>
      Ok {| p_namespaces := ns; p_nodes := flat_map fo_nodes fos; p_refs := uniques triple triple_eq_dec (flat_map fo_refs fos); p_models := flat_map fo_models fos |})
  end.

(* ---------- normalize_wrt_nodeid ---------- *)
Definition ref_attr (k : str) (r : node_row) : option nodeid :=
  (fix go (l : list (str * aval)) := match l with [] => None | (a, ANode n) :: t => if str_eqb a k then Some n else go t | _ :: t => go t end) (nr_attrs r).
Definition opt_list {A} (o : option A) : list A := match o with Some a => [a] | None => [] end.
(* allids: NodeId, ParentNodeId, DataType, MethodDeclarationId of the nodes, then Src, Trg, ReferenceType *)
Definition all_ids (p : parsed) : list nodeid :=
  map nr_nodeid (p_nodes p)
  ++ flat_map (fun r => opt_list (ref_attr (lit "ParentNodeId") r)) (p_nodes p)
  ++ flat_map (fun r => opt_list (ref_attr (lit "DataType") r)) (p_nodes p)
  ++ flat_map (fun r => opt_list (ref_attr (lit "MethodDeclarationId") r)) (p_nodes p)
  ++ map (fun t => fst (fst t)) (p_refs p) ++ map (fun t => snd (fst t)) (p_refs p) ++ map snd (p_refs p).
Definition lookup_table (p : parsed) : list nodeid := uniques nodeid nodeid_eq_dec (all_ids p).
Definition id_of (lk : list nodeid) (n : nodeid) : option nat := Table.index_of nodeid nodeid_eq_dec n lk.
Record norm_node := { nn_id : option nat; nn_parent : option nat; nn_datatype : option nat; nn_methoddecl : option nat }.
Definition normalize_node (lk : list nodeid) (r : node_row) : norm_node :=
  {| nn_id := id_of lk (nr_nodeid r);
     nn_parent := obind (ref_attr (lit "ParentNodeId") r) (id_of lk);
     nn_datatype := obind (ref_attr (lit "DataType") r) (id_of lk);
     nn_methoddecl := obind (ref_attr (lit "MethodDeclarationId") r) (id_of lk) |}.
Definition normalize_ref (lk : list nodeid) (t : triple) : option nat * option nat * option nat :=
  (id_of lk (fst (fst t)), id_of lk (snd (fst t)), id_of lk (snd t)).
