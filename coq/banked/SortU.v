From Coq Require Import List Permutation Sorted Relations Bool.
Import ListNotations.

Section SortUnique.
Variable A : Type.
Variable leb : A -> A -> bool.
Hypothesis leb_total : forall x y, leb x y = true \/ leb y x = true.
Hypothesis leb_trans : forall x y z, leb x y = true -> leb y z = true -> leb x z = true.
Hypothesis leb_antisym : forall x y, leb x y = true -> leb y x = true -> x = y.
Definition le (x y : A) : Prop := leb x y = true.

(* insertion sort: what "sort_values(by=all columns)" denotes for a total order on rows *)
Fixpoint insert (x : A) (l : list A) : list A :=
  match l with [] => [x] | y :: r => if leb x y then x :: l else y :: insert x r end.
Fixpoint isort (l : list A) : list A :=
  match l with [] => [] | x :: r => insert x (isort r) end.

Lemma insert_perm x l : Permutation (x :: l) (insert x l).
Proof.
  induction l as [|y r IH]; cbn; [reflexivity|].
  destruct (leb x y); [reflexivity|]. rewrite perm_swap. now constructor.
Qed.
Lemma isort_perm l : Permutation l (isort l).
Proof. induction l as [|x r IH]; cbn; [constructor|]. rewrite <- insert_perm. now constructor. Qed.

Lemma insert_sorted x l : StronglySorted le l -> StronglySorted le (insert x l).
Proof.
  induction 1 as [|y r Hs IH Hall]; cbn; [repeat constructor|].
  destruct (leb x y) eqn:E.
  - constructor; [now constructor|]. constructor; [exact E|].
    eapply Forall_impl; [|exact Hall]. intros z Hz. eapply leb_trans; eauto.
  - constructor; [exact IH|].
    assert (Hyx : le y x) by (destruct (leb_total x y); [congruence|assumption]).
    eapply Permutation_Forall; [apply insert_perm|]. now constructor.
Qed.
Lemma isort_sorted l : StronglySorted le (isort l).
Proof. induction l as [|x r IH]; cbn; [constructor|now apply insert_sorted]. Qed.

(* two sorted permutations of one another are equal: the table is canonical *)
Lemma sorted_perm_eq l : forall l', StronglySorted le l -> StronglySorted le l' -> Permutation l l' -> l = l'.
Proof.
  induction l as [|x r IH]; intros l' Hs Hs' Hp.
  - apply Permutation_nil in Hp. now subst.
  - destruct l' as [|x' r']; [apply Permutation_sym, Permutation_nil in Hp; discriminate|].
    inversion Hs as [|? ? Hsr Hall]; subst. inversion Hs' as [|? ? Hsr' Hall']; subst.
    assert (x = x').
    { assert (Hin : In x (x' :: r')) by (eapply Permutation_in; [exact Hp|now left]).
      assert (Hin' : In x' (x :: r)) by (eapply Permutation_in; [apply Permutation_sym; exact Hp|now left]).
      destruct Hin as [->|Hin]; [reflexivity|]. destruct Hin' as [->|Hin']; [reflexivity|].
      rewrite Forall_forall in Hall, Hall'. apply leb_antisym; [now apply Hall | now apply Hall']. }
    subst x'. f_equal. apply IH; auto. now apply Permutation_cons_inv in Hp.
Qed.

Theorem sort_canonical l l' : Permutation l l' -> isort l = isort l'.
Proof.
  intros Hp. apply sorted_perm_eq; try apply isort_sorted.
  rewrite <- (isort_perm l), <- (isort_perm l'). exact Hp.
Qed.
End SortUnique.
Print Assumptions sort_canonical.
