From Coq Require Import List Arith Bool Lia Relations PeanoNat.
Import ListNotations.

Definition rel := list (nat * nat).
Definition peqb (p q : nat * nat) : bool := (fst p =? fst q) && (snd p =? snd q).
Lemma peqb_eq p q : peqb p q = true <-> p = q.
Proof.
  destruct p as [a b], q as [c d]; unfold peqb; cbn. rewrite andb_true_iff, !Nat.eqb_eq.
  split; [intros [-> ->]; reflexivity | intros H; inversion H; auto].
Qed.
Definition mem (p : nat * nat) (R : rel) : bool := existsb (peqb p) R.
Lemma mem_In p R : mem p R = true <-> In p R.
Proof.
  unfold mem. rewrite existsb_exists. split.
  - intros [q [Hq He]]. apply peqb_eq in He. now subst.
  - intros H. exists p. split; [exact H | now apply peqb_eq].
Qed.
Fixpoint dedup (R : rel) : rel :=
  match R with [] => [] | p :: r => if mem p r then dedup r else p :: dedup r end.
Lemma dedup_In p R : In p (dedup R) <-> In p R.
Proof.
  induction R as [|q r IH]; cbn; [tauto|].
  destruct (mem q r) eqn:E.
  - rewrite IH. apply mem_In in E. split; [auto | intros [->|H]; auto].
  - cbn. rewrite IH. tauto.
Qed.
Lemma dedup_NoDup R : NoDup (dedup R).
Proof.
  induction R as [|q r IH]; cbn; [constructor|].
  destruct (mem q r) eqn:E; [exact IH|].
  constructor; [|exact IH]. rewrite dedup_In. intros H. apply mem_In in H. congruence.
Qed.

Definition compose (R S : rel) : rel :=
  flat_map (fun p => flat_map (fun q => if snd p =? fst q then [(fst p, snd q)] else []) S) R.
Lemma compose_In a d R S : In (a, d) (compose R S) <-> exists b, In (a, b) R /\ In (b, d) S.
Proof.
  unfold compose. rewrite in_flat_map. split.
  - intros [[a' b] [HR H]]. apply in_flat_map in H as [[c d'] [HS H]]. cbn in H.
    destruct (Nat.eqb_spec b c) as [->|]; [|contradiction].
    destruct H as [H|[]]. inversion H; subst. eauto.
  - intros [b [HR HS]]. exists (a, b). split; [exact HR|].
    apply in_flat_map. exists (b, d). split; [exact HS|]. cbn. rewrite Nat.eqb_refl. now left.
Qed.

Definition sq (R : rel) : rel := dedup (compose R R).
Fixpoint iter (fuel : nat) (R : rel) : rel :=
  match fuel with
  | O => R
  | S f => let R' := sq R in if length R' =? length R then R' else iter f R'
  end.

Section Closure.
Variable E : rel.
Variable V : list nat.
Hypothesis V_NoDup : NoDup V.
Hypothesis E_in_V : forall a b, In (a, b) E -> In a V /\ In b V.
Definition edge (a b : nat) : Prop := In (a, b) E.

Record Inv (R : rel) : Prop := {
  inv_nodup : NoDup R;
  inv_dom : forall a b, In (a, b) R -> In a V /\ In b V;
  inv_refl : forall v, In v V -> In (v, v) R;
  inv_edges : forall a b, In (a, b) E -> In (a, b) R;
  inv_sound : forall a b, In (a, b) R -> clos_refl_trans nat edge a b
}.

Lemma sq_grows R : Inv R -> incl R (sq R).
Proof.
  intros I [a b] H. unfold sq. rewrite dedup_In, compose_In.
  exists b. split; [exact H|]. apply (inv_refl R I). now apply (inv_dom R I) in H.
Qed.

Lemma sq_Inv R : Inv R -> Inv (sq R).
Proof.
  intros I. split.
  - apply dedup_NoDup.
  - intros a d H. unfold sq in H. rewrite dedup_In, compose_In in H. destruct H as [b [H1 H2]].
    split; [now apply (inv_dom R I) in H1 | now apply (inv_dom R I) in H2].
  - intros v Hv. apply (sq_grows R I). now apply (inv_refl R I).
  - intros a b H. apply (sq_grows R I). now apply (inv_edges R I).
  - intros a d H. unfold sq in H. rewrite dedup_In, compose_In in H. destruct H as [b [H1 H2]].
    eapply rt_trans; [apply (inv_sound R I _ _ H1) | apply (inv_sound R I _ _ H2)].
Qed.

Lemma Inv_bound R : Inv R -> length R <= length V * length V.
Proof.
  intros I. rewrite <- prod_length. apply NoDup_incl_length; [apply (inv_nodup R I)|].
  intros [a b] H. apply in_prod; now apply (inv_dom R I) in H.
Qed.

Definition closed (R : rel) : Prop := forall a b c, In (a, b) R -> In (b, c) R -> In (a, c) R.

Lemma stable_closed R : Inv R -> length (sq R) = length R -> closed (sq R).
Proof.
  intros I Hlen.
  assert (Hback : incl (sq R) R).
  { apply NoDup_length_incl; [apply (inv_nodup R I) | lia | now apply sq_grows]. }
  intros a b c H1 H2. apply (sq_grows R I). apply Hback in H1. apply Hback in H2.
  apply Hback. unfold sq. rewrite dedup_In, compose_In. eauto.
Qed.

Lemma iter_spec fuel : forall R, Inv R -> length V * length V - length R < fuel ->
  Inv (iter fuel R) /\ closed (iter fuel R).
Proof.
  induction fuel as [|f IH]; intros R I Hf; [lia|].
  cbn [iter]. destruct (Nat.eqb_spec (length (sq R)) (length R)) as [Heq|Hne].
  - split; [now apply sq_Inv | now apply stable_closed].
  - assert (I' := sq_Inv R I).
    assert (length R <= length (sq R)) by (apply NoDup_incl_length; [apply (inv_nodup R I) | now apply sq_grows]).
    assert (B := Inv_bound (sq R) I').
    apply IH; [exact I' | lia].
Qed.

Definition R0 : rel := dedup (E ++ map (fun v => (v, v)) V).
Lemma R0_Inv : Inv R0.
Proof.
  unfold R0. split.
  - apply dedup_NoDup.
  - intros a b H. rewrite dedup_In, in_app_iff, in_map_iff in H.
    destruct H as [H|[v [Hv Hin]]]; [now apply E_in_V | inversion Hv; subst; auto].
  - intros v Hv. rewrite dedup_In, in_app_iff, in_map_iff. right. eauto.
  - intros a b H. rewrite dedup_In, in_app_iff. now left.
  - intros a b H. rewrite dedup_In, in_app_iff, in_map_iff in H.
    destruct H as [H|[v [Hv Hin]]]; [now apply rt_step | inversion Hv; subst; apply rt_refl].
Qed.

Definition tc : rel :=
  filter (fun p => negb (fst p =? snd p)) (iter (S (length V * length V)) R0).

Theorem tc_correct a b : In (a, b) tc <-> a <> b /\ clos_trans nat edge a b.
Proof.
  unfold tc. rewrite filter_In. cbn [fst snd].
  destruct (iter_spec (S (length V * length V)) R0 R0_Inv ltac:(lia)) as [I C].
  set (R := iter (S (length V * length V)) R0) in *.
  rewrite negb_true_iff, Nat.eqb_neq. split.
  - intros [H Hne]. split; [exact Hne|].
    apply (inv_sound R I) in H. apply clos_rt_rtn1 in H.
    (* a reflexive-transitive path between different nodes is a transitive one *)
    induction H as [|y z Hyz Hay IHy]; [congruence|].
    destruct (Nat.eq_dec a y) as [->|Hn]; [now apply t_step|].
    eapply t_trans; [apply IHy; exact Hn | now apply t_step].
  - intros [Hne H]. split; [|exact Hne].
    induction H as [x y Hxy | x y z _ IH1 _ IH2].
    + now apply (inv_edges R I).
    + destruct (Nat.eq_dec x y) as [->|Hxy]; [destruct (Nat.eq_dec y z); [congruence|auto]|].
      destruct (Nat.eq_dec y z) as [->|Hyz]; [auto|].
      eapply C; [apply IH1 | apply IH2]; assumption.
Qed.

Theorem tc_NoDup : NoDup tc.
Proof.
  unfold tc. apply NoDup_filter.
  destruct (iter_spec (S (length V * length V)) R0 R0_Inv ltac:(lia)) as [I _]. apply (inv_nodup _ I).
Qed.
End Closure.
Print Assumptions tc_correct.
