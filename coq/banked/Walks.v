From Coq Require Import List Arith Bool Lia Permutation.
Import ListNotations.

Section Walks.
Variable node : Type.
Variable succs : node -> list node.     (* targets of the edges leaving a node, one entry per (parallel) edge *)

(* rows are paths stored last-node-first; a start row is [s] *)
Definition path := list node.
Definition extend (p : path) : list path :=
  match p with [] => [] | v :: _ => map (fun t => t :: p) (succs v) end.
Definition step (F : list path) : list path := flat_map extend F.

(* find_relatives: the frontier loop, cut after k joins; every frontier is appended to the result *)
Fixpoint bfs (k : nat) (F : list path) : list path :=
  F ++ match k with 0 => [] | S k' => bfs k' (step F) end.

(* specification: depth-first enumeration of all walks with at most k edges continuing p *)
Fixpoint dfs (k : nat) (p : path) : list path :=
  p :: match k with 0 => [] | S k' => flat_map (dfs k') (extend p) end.

Lemma flat_map_cons_perm {A B} (f : A -> B) (g : A -> list B) l :
  Permutation (flat_map (fun x => f x :: g x) l) (map f l ++ flat_map g l).
Proof.
  induction l as [|x l IH]; cbn; [constructor|].
  constructor. rewrite IH. rewrite !app_assoc. apply Permutation_app_tail. apply Permutation_app_comm.
Qed.

Theorem bfs_dfs k : forall F, Permutation (bfs k F) (flat_map (dfs k) F).
Proof.
  induction k as [|k IH]; intros F.
  - cbn [bfs dfs]. rewrite app_nil_r. rewrite <- (map_id F) at 1.
    rewrite (flat_map_cons_perm (fun p => p) (fun _ => [])). rewrite map_id.
    assert (E : flat_map (fun _ : path => @nil path) F = []) by (induction F; auto). now rewrite E, app_nil_r.
  - cbn [bfs dfs]. rewrite (flat_map_cons_perm (fun p => p) (fun p => flat_map (dfs k) (extend p))).
    rewrite map_id. apply Permutation_app_head. rewrite IH. unfold step.
    clear IH. induction F as [|p F IHF]; cbn [flat_map]; [constructor|].
    rewrite flat_map_app. now apply Permutation_app_head.
Qed.

(* what the specification contains: exactly the walks, and the row carries length and end *)
Inductive walk_from : path -> path -> Prop :=       (* walk_from p q : q extends p along edges *)
| wf_refl p : walk_from p p
| wf_step p q t v : walk_from p (v :: q) -> In t (succs v) -> walk_from p (t :: v :: q).

Lemma dfs_sound k : forall p q, In q (dfs k p) -> p <> [] -> walk_from p q /\ length q <= length p + k.
Proof.
  induction k as [|k IH]; intros p q H Hp; cbn in H.
  - destruct H as [<-|[]]. split; [constructor|lia].
  - destruct H as [<-|H]; [split; [constructor|lia]|].
    apply in_flat_map in H as [p' [Hp' Hq]]. destruct p as [|v r]; [contradiction|]. cbn in Hp'.
    apply in_map_iff in Hp' as [t [<- Ht]].
    destruct (IH _ _ Hq ltac:(discriminate)) as [W L]. cbn in L. split; [|cbn; lia].
    clear -W Ht. remember (t :: v :: r) as p0. induction W as [|p1 q1 t1 v1 W IHW Hin]; subst.
    + apply wf_step; [constructor|exact Ht].
    + apply wf_step; [now apply IHW|exact Hin].
Qed.


(* walks, peeled from the front: q is reached from p by repeatedly appending a successor of the current end *)
Inductive reaches : path -> path -> Prop :=
| r_here p : reaches p p
| r_next v r t q : In t (succs v) -> reaches (t :: v :: r) q -> reaches (v :: r) q.

Lemma reaches_length p q : reaches p q -> length p <= length q.
Proof. induction 1; cbn in *; lia. Qed.

Theorem dfs_complete p q : reaches p q -> forall k, length q <= length p + k -> In q (dfs k p).
Proof.
  induction 1 as [p|v r t q Ht R IH]; intros k L.
  - destruct k; now left.
  - pose proof (reaches_length _ _ R) as L'. cbn [length] in *.
    destruct k as [|k]; [lia|]. cbn [dfs]. right. apply in_flat_map. exists (t :: v :: r). split.
    + cbn. apply in_map_iff. eauto.
    + apply IH. cbn [length]. lia.
Qed.

Theorem dfs_exact k p q : p <> [] -> (In q (dfs k p) <-> reaches p q /\ length q <= length p + k).
Proof.
  intros Hp. split.
  - revert p q Hp. induction k as [|k IH]; intros p q Hp H; cbn in H.
    + destruct H as [<-|[]]. split; [constructor|lia].
    + destruct H as [<-|H]; [split; [constructor|lia]|].
      apply in_flat_map in H as [p' [Hp' Hq]]. destruct p as [|v r]; [contradiction|]. cbn in Hp'.
      apply in_map_iff in Hp' as [t [<- Ht]].
      assert (Hne : t :: v :: r <> []) by discriminate.
      destruct (IH _ _ Hne Hq) as [W L]. cbn in L. split; [|cbn; lia].
      eapply r_next; eauto.
  - intros [R L]. now apply dfs_complete.
Qed.
End Walks.
Print Assumptions bfs_dfs.
Print Assumptions dfs_sound.
Print Assumptions dfs_exact.
