From Coq Require Import List Bool Lia.
Import ListNotations.

Section Tree.
Variable name : Type.
Variable name_eqb : name -> name -> bool.
Hypothesis name_eqb_refl : forall n, name_eqb n n = true.
Variable attrs : Type.
Variable text : Type.

(* an element as lxml presents it: tag, attributes, .text, children, .tail *)
Inductive xml := Elem (n : name) (a : attrs) (txt : text) (children : list xml) (tail : text).

(* token stream delivered by layers 1+2 *)
Inductive tok := TOpen (n : name) (a : attrs) (txt : text) | TClose (n : name) (tail : text).

Fixpoint toks (t : xml) : list tok :=
  match t with
  | Elem n a txt ch tl => TOpen n a txt :: flat_map toks ch ++ [TClose n tl]
  end.

(* stack builder: a frame is an element under construction, children in reverse *)
Definition frame := (name * attrs * text * list xml)%type.
Fixpoint build (ts : list tok) (stack : list frame) : option (xml * list tok) :=
  match ts with
  | [] => None
  | TOpen n a txt :: r => build r ((n, a, txt, []) :: stack)
  | TClose n tl :: r =>
      match stack with
      | [] => None
      | (n', a, txt, rch) :: st =>
          if name_eqb n n' then
            let e := Elem n' a txt (rev rch) tl in
            match st with
            | [] => Some (e, r)
            | (pn, pa, ptxt, prch) :: st' => build r ((pn, pa, ptxt, e :: prch) :: st')
            end
          else None
      end
  end.
Definition parse (ts : list tok) : option xml :=
  match build ts [] with Some (t, []) => Some t | _ => None end.

(* induction principle that reaches into the children lists *)
Fixpoint xml_ind' (P : xml -> Prop)
  (H : forall n a txt ch tl, Forall P ch -> P (Elem n a txt ch tl)) (t : xml) : P t :=
  match t with
  | Elem n a txt ch tl =>
      H n a txt ch tl ((fix go (l : list xml) : Forall P l :=
         match l with [] => Forall_nil P | x :: r => Forall_cons x (xml_ind' P H x) (go r) end) ch)
  end.

(* one finished subtree is appended to the children of the frame on top of a non-empty stack *)
Lemma build_subtree t : forall rest pn pa ptxt prch st,
  build (toks t ++ rest) ((pn, pa, ptxt, prch) :: st) = build rest ((pn, pa, ptxt, t :: prch) :: st).
Proof.
  induction t as [n a txt ch tl IH] using xml_ind'. intros rest pn pa ptxt prch st.
  cbn [toks app build].
  (* children, one after the other, accumulate on the new frame *)
  assert (Hch : forall acc, build ((flat_map toks ch ++ [TClose n tl]) ++ rest) ((n, a, txt, acc) :: (pn, pa, ptxt, prch) :: st)
                = build ([TClose n tl] ++ rest) ((n, a, txt, rev ch ++ acc) :: (pn, pa, ptxt, prch) :: st)).
  { induction IH as [|c ch' Hc _ IHch]; intros acc; [reflexivity|].
    cbn [flat_map]. rewrite <- !app_assoc. rewrite Hc. rewrite app_assoc. rewrite IHch.
    cbn [rev]. now rewrite <- app_assoc. }
  rewrite Hch. cbn [app build]. rewrite name_eqb_refl, app_nil_r, rev_involutive. reflexivity.
Qed.

Theorem parse_toks t : parse (toks t) = Some t.
Proof.
  destruct t as [n a txt ch tl]. unfold parse. cbn [toks build].
  assert (Hch : forall acc, build (flat_map toks ch ++ [TClose n tl]) [(n, a, txt, acc)]
                = build [TClose n tl] [(n, a, txt, rev ch ++ acc)]).
  { induction ch as [|c ch' IHch]; intros acc; [reflexivity|].
    cbn [flat_map]. rewrite <- app_assoc. rewrite build_subtree. rewrite IHch.
    cbn [rev]. now rewrite <- app_assoc. }
  rewrite Hch. cbn [build]. rewrite name_eqb_refl, app_nil_r, rev_involutive. reflexivity.
Qed.
End Tree.
Print Assumptions parse_toks.
