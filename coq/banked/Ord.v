From Coq Require Import Ascii List NArith Bool Lia.
Import ListNotations.

(* Python's str ordering = lexicographic by code point = lexicographic on UTF-8 bytes *)
Definition str := list ascii.
Fixpoint cmp (a b : str) : comparison :=
  match a, b with
  | [], [] => Eq
  | [], _ :: _ => Lt
  | _ :: _, [] => Gt
  | x :: a', y :: b' => match N.compare (N_of_ascii x) (N_of_ascii y) with Eq => cmp a' b' | c => c end
  end.
Lemma cmp_eq a : forall b, cmp a b = Eq <-> a = b.
Proof.
  induction a as [|x a IH]; intros [|y b]; cbn; try (split; congruence).
  destruct (N.compare_spec (N_of_ascii x) (N_of_ascii y)) as [E|L|L].
  - rewrite IH. assert (x = y) by (rewrite <- (ascii_N_embedding x), <- (ascii_N_embedding y); congruence).
    subst. split; congruence.
  - split; [discriminate|]. intros H; inversion H; subst. lia.
  - split; [discriminate|]. intros H; inversion H; subst. lia.
Qed.
Lemma cmp_antisym a : forall b, cmp b a = CompOpp (cmp a b).
Proof.
  induction a as [|x a IH]; intros [|y b]; cbn; try reflexivity.
  rewrite (N.compare_antisym (N_of_ascii x) (N_of_ascii y)).
  destruct (N.compare (N_of_ascii x) (N_of_ascii y)); cbn; auto.
Qed.
Lemma cmp_trans a : forall b c, cmp a b = Lt -> cmp b c = Lt -> cmp a c = Lt.
Proof.
  induction a as [|x a IH]; intros [|y b] [|z c]; cbn; try congruence.
  destruct (N.compare_spec (N_of_ascii x) (N_of_ascii y)) as [E|L|L]; try discriminate;
  destruct (N.compare_spec (N_of_ascii y) (N_of_ascii z)) as [E'|L'|L']; try discriminate; intros H1 H2.
  - rewrite E, E', N.compare_refl. eauto.
  - rewrite E. apply N.compare_lt_iff in L'. now rewrite L'.
  - rewrite <- E'. apply N.compare_lt_iff in L. now rewrite L.
  - assert (Hlt : (N_of_ascii x < N_of_ascii z)%N) by lia. apply N.compare_lt_iff in Hlt. now rewrite Hlt.
Qed.

(* ua_data_types.lt / le / gt / ge on two UA values, given only their class name and str(astuple(.)) *)
Record ua := { cls : str; key : str }.
Definition str_lt (a b : str) : bool := match cmp a b with Lt => true | _ => false end.
Definition str_le (a b : str) : bool := match cmp a b with Gt => false | _ => true end.
Definition py_lt (u v : ua) : bool := if list_eq_dec ascii_dec (cls u) (cls v) then str_lt (key u) (key v) else str_lt (cls u) (cls v).
Definition py_le (u v : ua) : bool := if list_eq_dec ascii_dec (cls u) (cls v) then str_le (key u) (key v) else str_le (cls u) (cls v).
Definition py_gt (u v : ua) : bool := py_lt v u.
Definition py_ge (u v : ua) : bool := py_le v u.
Definition equiv (u v : ua) : Prop := cls u = cls v /\ key u = key v.

Lemma str_lt_irrefl a : str_lt a a = false.
Proof. unfold str_lt. now rewrite (proj2 (cmp_eq a a) eq_refl). Qed.
Lemma str_tri a b : (str_lt a b = true /\ str_lt b a = false /\ a <> b) \/ (a = b /\ str_lt a b = false /\ str_lt b a = false)
                    \/ (str_lt b a = true /\ str_lt a b = false /\ a <> b).
Proof.
  unfold str_lt. rewrite (cmp_antisym a b). destruct (cmp a b) eqn:E; cbn.
  - right; left. apply cmp_eq in E. auto.
  - left. repeat split; auto. intros ->. rewrite (proj2 (cmp_eq b b) eq_refl) in E. discriminate.
  - right; right. repeat split; auto. intros ->. rewrite (proj2 (cmp_eq b b) eq_refl) in E. discriminate.
Qed.
Lemma str_lt_trans a b c : str_lt a b = true -> str_lt b c = true -> str_lt a c = true.
Proof.
  unfold str_lt. destruct (cmp a b) eqn:E1; try discriminate. destruct (cmp b c) eqn:E2; try discriminate.
  intros _ _. now rewrite (cmp_trans a b c E1 E2).
Qed.

(* C14: for any two values exactly one of u<v, v<u, equivalence *)
Theorem trichotomy u v :
  (py_lt u v = true /\ py_lt v u = false /\ ~ equiv u v) \/
  (equiv u v /\ py_lt u v = false /\ py_lt v u = false) \/
  (py_lt v u = true /\ py_lt u v = false /\ ~ equiv u v).
Proof.
  unfold py_lt, equiv.
  destruct (list_eq_dec ascii_dec (cls u) (cls v)) as [E|N]; destruct (list_eq_dec ascii_dec (cls v) (cls u)) as [E'|N']; try congruence.
  - destruct (str_tri (key u) (key v)) as [[A [B C]]|[[A [B C]]|[A [B C]]]]; [left|right;left|right;right]; repeat split; auto; tauto.
  - destruct (str_tri (cls u) (cls v)) as [[A [B C]]|[[A [B C]]|[A [B C]]]]; [left|contradiction|right;right]; repeat split; auto; tauto.
Qed.
Theorem lt_trans u v w : py_lt u v = true -> py_lt v w = true -> py_lt u w = true.
Proof.
  unfold py_lt. intros H1 H2.
  destruct (list_eq_dec ascii_dec (cls u) (cls v)) as [E1|N1].
  - destruct (list_eq_dec ascii_dec (cls v) (cls w)) as [E2|N2].
    + destruct (list_eq_dec ascii_dec (cls u) (cls w)) as [E3|N3]; [eapply str_lt_trans; eauto | congruence].
    + destruct (list_eq_dec ascii_dec (cls u) (cls w)) as [E3|N3]; [congruence | rewrite E1; exact H2].
  - destruct (list_eq_dec ascii_dec (cls v) (cls w)) as [E2|N2].
    + destruct (list_eq_dec ascii_dec (cls u) (cls w)) as [E3|N3]; [congruence | rewrite <- E2; exact H1].
    + destruct (list_eq_dec ascii_dec (cls u) (cls w)) as [E3|N3]; [|eapply str_lt_trans; eauto].
      exfalso. rewrite <- E3 in H2. pose proof (str_lt_trans _ _ _ H1 H2) as H. rewrite str_lt_irrefl in H. discriminate.
Qed.
Theorem le_is_not_gt u v : py_le u v = negb (py_lt v u).
Proof.
  unfold py_le, py_lt, str_le, str_lt.
  destruct (list_eq_dec ascii_dec (cls u) (cls v)) as [E|N]; destruct (list_eq_dec ascii_dec (cls v) (cls u)) as [E'|N']; try congruence.
  - rewrite (cmp_antisym (key u) (key v)). now destruct (cmp (key u) (key v)).
  - rewrite (cmp_antisym (cls u) (cls v)). now destruct (cmp (cls u) (cls v)).
Qed.
Print Assumptions trichotomy.
Print Assumptions lt_trans.
