From Coq Require Import List Arith Bool Lia Permutation.
Require Import Walks.
Import ListNotations.

Section Acyclic.
Variable node : Type.
Variable succs : node -> list node.
Variable V : list node.
Hypothesis closed_V : forall v t, In t (succs v) -> In t V.
(* acyclic: no walk visits a node twice *)
Hypothesis acyclic : forall s q, reaches node succs [s] q -> NoDup q.

Notation step := (step node succs).
Notation reaches := (reaches node succs).

Fixpoint frontier (k : nat) (F : list (path node)) : list (path node) :=
  match k with 0 => F | S k' => frontier k' (step F) end.

Lemma reaches_trans p q r : reaches p q -> reaches q r -> reaches p r.
Proof. induction 1 as [|v r0 t q0 Ht R IH]; intros H; [exact H|]. eapply r_next; eauto. Qed.

(* every row of the k-th frontier is a walk of exactly k edges from a start row *)
Lemma frontier_rows k : forall F q, In q (frontier k F) ->
  exists p, In p F /\ reaches p q /\ length q = length p + k.
Proof.
  induction k as [|k IH]; intros F q H; cbn in H.
  - exists q. split; [exact H|]. split; [constructor|lia].
  - destruct (IH _ _ H) as [p' [Hp' [R L]]]. unfold Walks.step in Hp'. apply in_flat_map in Hp' as [p [Hp He]].
    destruct p as [|v r]; [contradiction|]. cbn in He. apply in_map_iff in He as [t [<- Ht]].
    exists (v :: r). repeat split; auto.
    + eapply r_next; eauto.
    + cbn in *. lia.
Qed.

Lemma reaches_in_V s q : In s V -> reaches [s] q -> incl q V.
Proof.
  intros Hs R. remember [s] as p eqn:E.
  assert (Hp : incl p V) by (subst; intros x [<-|[]]; exact Hs). clear E Hs.
  induction R as [|v r t q Ht R IH]; [exact Hp|].
  apply IH. intros x [<-|Hx]; [eapply closed_V; eauto | now apply Hp].
Qed.

(* the loop "while the frontier is non-empty" stops within |V| rounds *)
Theorem frontier_dies starts k : incl starts V -> length V <= k ->
  frontier k (map (fun s => [s]) starts) = [].
Proof.
  intros Hs Hk. destruct (frontier k (map (fun s => [s]) starts)) as [|q rest] eqn:E; [reflexivity|exfalso].
  assert (Hq : In q (frontier k (map (fun s => [s]) starts))) by (rewrite E; now left).
  destruct (frontier_rows k _ _ Hq) as [p [Hp [R L]]].
  apply in_map_iff in Hp as [s [<- Hin]]. cbn in L.
  pose proof (acyclic s q R) as Hnd. pose proof (reaches_in_V s q (Hs s Hin) R) as Hincl.
  pose proof (NoDup_incl_length Hnd Hincl). lia.
Qed.
End Acyclic.
Print Assumptions frontier_dies.
