From Coq Require Import List Arith Bool Lia.
Require Import Conc.
Import ListNotations.

(* one parse call, run to completion or until an injected failure at the k-th operation.
   `cleanup` = the protocol removes its side file in a finally-block (the repaired code);
   the pinned code corresponds to cleanup = false.                                         *)
Fixpoint exec (fuel : nat) (k : nat) (cleanup : bool) (f : fs) (t : thread) : fs * thread :=
  match fuel with
  | O => (f, t)
  | S fuel' =>
      match at_ t with
      | Done _ => (f, t)
      | _ =>
          match k with
          | O => (* the operation about to run raises *)
                 ((if cleanup then upd f (side t) None else f),
                  {| side := side t; hdr := hdr t; at_ := Done FileNotFound |})
          | S k' => let '(f', t') := tstep f t in exec fuel' k' cleanup f' t'
          end
      end
  end.

Definition start (p h : nat) : thread := {| side := p; hdr := h; at_ := AtExists |}.

(* C19 (repaired protocol): whatever operation fails, no helper file remains *)
Lemma exec_clean fuel : forall k f t, inv1 f t ->
  (exists o, at_ (snd (exec fuel k true f t)) = Done o) ->
  fst (exec fuel k true f t) (side t) = None.
Proof.
  induction fuel as [|fuel IH]; intros k f t I [o Ho]; cbn [exec] in *.
  - cbn in *. unfold inv1 in I. rewrite Ho in I. now destruct I.
  - destruct (at_ t) eqn:E;
      try (destruct k as [|k];
           [cbn; apply upd_same
           | pose proof (tstep_inv f t I) as I'; pose proof (tstep_side f t) as [Hs _];
             destruct (tstep f t) as [f' t'] eqn:Et; cbn [fst snd] in *; rewrite <- Hs; apply IH; [exact I'|eauto]]).
    cbn in *. unfold inv1 in I. rewrite E in I. now destruct I.
Qed.

(* every fault position, every starting file system without a side file for this input; 6 steps always finish *)
Definition rank (p : pc) : nat :=
  match p with AtExists => 5 | AtCreate => 4 | AtWrite => 3 | AtRead => 2 | AtRemove _ => 1 | Done _ => 0 end.
Lemma tstep_rank f t : rank (at_ t) <> 0 -> rank (at_ (snd (tstep f t))) < rank (at_ t).
Proof. unfold tstep. destruct (at_ t); cbn; try lia; destruct (f (side t)); cbn; lia. Qed.
Lemma exec_finishes fuel : forall k c f t, rank (at_ t) <= fuel -> exists o, at_ (snd (exec fuel k c f t)) = Done o.
Proof.
  induction fuel as [|fuel IH]; intros k c f t Hr.
  - destruct (at_ t) eqn:E; cbn in Hr; try lia. cbn. eauto.
  - cbn [exec]. destruct (at_ t) eqn:E; try (cbn; rewrite E; eauto; fail);
    (destruct k as [|k]; [cbn; eauto|]);
    (assert (Hn : rank (at_ t) <> 0) by (rewrite E; cbn; lia);
     pose proof (tstep_rank f t Hn) as Hlt; destruct (tstep f t) as [f' t']; cbn [snd] in Hlt;
     apply IH; rewrite E in Hlt; cbn in Hlt; cbn in Hr; lia).
Qed.
Theorem fault_with_cleanup k f p h : f p = None -> fst (exec 6 k true f (start p h)) p = None.
Proof.
  intros Hp. apply (exec_clean 6 k f (start p h)); [exact Hp | apply exec_finishes; cbn; lia].
Qed.

(* pinned protocol: a failure after the side file was created leaves it behind *)
Theorem fault_without_cleanup_refuted :
  exists k, fst (exec 6 k false (fun _ => None) (start 0 7)) 0 <> None.
Proof. exists 2. vm_compute. discriminate. Qed.

(* ... and the next parse trusts it: it returns the stale header 7 although the input now has header 9 *)
Theorem stale_side_file_is_trusted :
  let f1 := fst (exec 6 3 false (fun _ => None) (start 0 7)) in
  at_ (snd (exec 6 6 false f1 (start 0 9))) = Done (Good 7).
Proof. vm_compute. reflexivity. Qed.
Print Assumptions fault_with_cleanup.
Print Assumptions stale_side_file_is_trusted.
