From Coq Require Import String Ascii List Bool Lia.
Import ListNotations.
Open Scope char_scope.

(* ---------- (from B.2) ---------- *)
Definition str := list ascii.
Definition lit (s : string) : str := list_ascii_of_string s.
Fixpoint has (c : ascii) (s : str) : bool := match s with [] => false | a :: r => Ascii.eqb a c || has c r end.
Lemma has_app c a b : has c (a ++ b) = has c a || has c b.
Proof. induction a as [|x a IH]; cbn; [reflexivity|]. now rewrite IH, orb_assoc. Qed.
Fixpoint split_once (c : ascii) (s : str) : option (str * str) :=
  match s with [] => None
  | a :: r => if Ascii.eqb a c then Some ([], r)
              else match split_once c r with Some (x, y) => Some (a :: x, y) | None => None end end.
Lemma split_once_app c a b : has c a = false -> split_once c (a ++ c :: b) = Some (a, b).
Proof. induction a as [|x a IH]; cbn; intros H; [now rewrite Ascii.eqb_refl|].
  apply orb_false_iff in H as [H1 H2]. now rewrite H1, (IH H2). Qed.
Lemma split_once_none c s : has c s = false -> split_once c s = None.
Proof. induction s as [|a r IH]; cbn; intros H; [reflexivity|]. apply orb_false_iff in H as [H1 H2]. now rewrite H1, (IH H2). Qed.
Fixpoint split_all (c : ascii) (s : str) : list str :=
  match s with [] => [[]]
  | a :: r => if Ascii.eqb a c then [] :: split_all c r
              else match split_all c r with x :: xs => (a :: x) :: xs | [] => [[a]] end end.
Lemma split_all_none c s : has c s = false -> split_all c s = [s].
Proof. induction s as [|a r IH]; cbn; intros H; [reflexivity|]. apply orb_false_iff in H as [H1 H2]. now rewrite H1, (IH H2). Qed.
Lemma split_all_app c a rest : has c a = false -> split_all c (a ++ c :: rest) = a :: split_all c rest.
Proof. induction a as [|x a IH]; cbn; intros H; [now rewrite Ascii.eqb_refl|].
  apply orb_false_iff in H as [H1 H2]. now rewrite H1, (IH H2). Qed.
Definition omap {A B} (f : A -> B) (o : option A) : option B := match o with Some a => Some (f a) | None => None end.
Definition obind {A B} (o : option A) (f : A -> option B) : option B := match o with Some a => f a | None => None end.

(* ---------- attribute-value escaping: saxutils.escape plus the quote ---------- *)
Definition esc_attr_char (c : ascii) : str :=
  if Ascii.eqb c "&" then lit "&amp;" else if Ascii.eqb c "<" then lit "&lt;"
  else if Ascii.eqb c ">" then lit "&gt;" else if Ascii.eqb c """" then lit "&quot;" else [c].
Definition escape_attr (s : str) : str := flat_map esc_attr_char s.
Fixpoint unescape (s : str) : option str :=
  match s with
  | [] => Some []
  | c :: r =>
      if Ascii.eqb c "&" then
        match r with
        | "a" :: "m" :: "p" :: ";" :: r' => omap (cons "&") (unescape r')
        | "l" :: "t" :: ";" :: r' => omap (cons "<") (unescape r')
        | "g" :: "t" :: ";" :: r' => omap (cons ">") (unescape r')
        | "q" :: "u" :: "o" :: "t" :: ";" :: r' => omap (cons """") (unescape r')
        | _ => None
        end
      else if Ascii.eqb c "<" then None else omap (cons c) (unescape r)
  end.
Theorem unescape_escape_attr s : unescape (escape_attr s) = Some s.
Proof.
  induction s as [|c s IH]; [reflexivity|].
  unfold escape_attr in *. cbn [flat_map]. unfold esc_attr_char at 1.
  destruct (Ascii.eqb c "&") eqn:Ea. { apply Ascii.eqb_eq in Ea; subst c. cbn. now rewrite IH. }
  destruct (Ascii.eqb c "<") eqn:El. { apply Ascii.eqb_eq in El; subst c. cbn. now rewrite IH. }
  destruct (Ascii.eqb c ">") eqn:Eg. { apply Ascii.eqb_eq in Eg; subst c. cbn. now rewrite IH. }
  destruct (Ascii.eqb c """") eqn:Eq. { apply Ascii.eqb_eq in Eq; subst c. cbn. now rewrite IH. }
  cbn [app unescape]. now rewrite Ea, El, IH.
Qed.
Lemma escape_attr_clean c s : (c = "<" \/ c = ">" \/ c = """") -> has c (escape_attr s) = false.
Proof.
  intros Hc. induction s as [|x s IH]; [reflexivity|].
  unfold escape_attr in *. cbn [flat_map]. rewrite has_app, IH, orb_false_r. unfold esc_attr_char.
  destruct (Ascii.eqb x "&") eqn:Ea; [destruct Hc as [Hc|[Hc|Hc]]; subst c; reflexivity|].
  destruct (Ascii.eqb x "<") eqn:El; [destruct Hc as [Hc|[Hc|Hc]]; subst c; reflexivity|].
  destruct (Ascii.eqb x ">") eqn:Eg; [destruct Hc as [Hc|[Hc|Hc]]; subst c; reflexivity|].
  destruct (Ascii.eqb x """") eqn:Eq; [destruct Hc as [Hc|[Hc|Hc]]; subst c; reflexivity|].
  cbn. destruct Hc as [Hc|[Hc|Hc]]; subst c; now rewrite ?El, ?Eg, ?Eq.
Qed.

(* ---------- tag bodies: name (SP key EQ QUOTE value QUOTE)* [SP] [/]  ---------- *)
Definition attr := (str * str)%type.
Definition key_ok (k : str) : bool :=
  negb (has " " k) && negb (has "=" k) && negb (has """" k) && negb (has "/" k) && match k with [] => false | _ => true end.
Definition spell_attr (a : attr) : str := " " :: fst a ++ "=" :: """" :: escape_attr (snd a) ++ [""""].
Definition spell_attrs (l : list attr) : str := flat_map spell_attr l.

Fixpoint lstrip (s : str) : str := match s with " " :: r => lstrip r | _ => s end.
Definition key_of (piece : str) : option str :=
  match split_once "=" (lstrip piece) with Some (k, []) => Some k | _ => None end.
(* pieces of the attribute region after splitting at every double quote:  [ sp k1 eq ; v1 ; sp k2 eq ; v2 ; tail ] *)
Fixpoint pair_up (pieces : list str) : option (list attr * str) :=
  match pieces with
  | [tail] => Some ([], tail)
  | k :: v :: r =>
      obind (key_of k) (fun k' => obind (unescape v) (fun v' =>
      omap (fun p => ((k', v') :: fst p, snd p)) (pair_up r)))
  | [] => None
  end.
Definition parse_attrs (s : str) : option (list attr * str) := pair_up (split_all """" s).

Lemma lstrip_key k : key_ok k = true -> lstrip (" " :: k) = k.
Proof.
  unfold key_ok. intros H. repeat (apply andb_true_iff in H as [H ?]). apply negb_true_iff in H.
  cbn [lstrip]. destruct k as [|c k]; [discriminate|]. cbn in H. apply orb_false_iff in H as [Hc _].
  destruct (Ascii.eqb_spec c " ") as [->|Hne]; [discriminate|].
  destruct c as [[] [] [] [] [] [] [] []]; try reflexivity. exfalso. now apply Hne.
Qed.
Lemma key_of_spelled k : key_ok k = true -> key_of (" " :: k ++ ["="]) = Some k.
Proof.
  intros H. unfold key_of. change (" " :: k ++ ["="]) with (" " :: (k ++ ["="])).
  assert (Hs : lstrip (" " :: (k ++ ["="])) = k ++ ["="]).
  { pose proof (lstrip_key k H) as L. cbn [lstrip] in *. destruct k as [|c k]; [discriminate|]. cbn [app].
    destruct c as [[] [] [] [] [] [] [] []]; try reflexivity. cbn in L.
    unfold key_ok in H. cbn in H. discriminate. }
  rewrite Hs. rewrite split_once_app; [reflexivity|].
  unfold key_ok in H. repeat (apply andb_true_iff in H as [H ?]). now apply negb_true_iff.
Qed.

Lemma key_no_quote k : key_ok k = true -> has """" (" " :: k ++ ["="]) = false.
Proof.
  unfold key_ok. intros H. repeat (apply andb_true_iff in H as [H ?]).
  cbn. rewrite has_app. cbn. rewrite orb_false_r. now apply negb_true_iff.
Qed.

Lemma spell_attr_shape k v rest :
  spell_attr (k, v) ++ rest = (" " :: k ++ ["="]) ++ """" :: (escape_attr v ++ """" :: rest).
Proof.
  unfold spell_attr. cbn [fst snd app]. f_equal. repeat rewrite <- app_assoc. cbn [app]. f_equal. f_equal. f_equal.
  now rewrite <- app_assoc.
Qed.

Theorem parse_attrs_spelled l tail :
  forallb (fun a => key_ok (fst a)) l = true -> has """" tail = false ->
  parse_attrs (spell_attrs l ++ tail) = Some (l, tail).
Proof.
  unfold parse_attrs, spell_attrs. intros Hk Ht. induction l as [|[k v] l IH].
  - cbn. now rewrite split_all_none.
  - cbn [forallb fst] in Hk. apply andb_true_iff in Hk as [Hk Hl].
    cbn [flat_map]. rewrite <- app_assoc, spell_attr_shape.
    rewrite split_all_app by now apply key_no_quote.
    rewrite split_all_app by (apply escape_attr_clean; auto).
    cbn [pair_up]. rewrite key_of_spelled by exact Hk. cbn [obind].
    rewrite unescape_escape_attr. cbn [obind]. rewrite (IH Hl). reflexivity.
Qed.
Print Assumptions parse_attrs_spelled.
