From Coq Require Import List Arith Bool Lia.
Import ListNotations.

(* ---------- abstract file system: only side files matter; inputs are never written ---------- *)
Inductive content := Partial | Full (header : nat).       (* header: what pre-processing extracts from the input *)
Definition fs := nat -> option content.                     (* side-file path -> content *)
Definition upd (f : fs) (p : nat) (c : option content) : fs := fun q => if Nat.eqb q p then c else f q.
Lemma upd_same f p c : upd f p c p = c. Proof. unfold upd. now rewrite Nat.eqb_refl. Qed.
Lemma upd_other f p c q : q <> p -> upd f p c q = f q.
Proof. unfold upd. intros H. apply Nat.eqb_neq in H. now rewrite H. Qed.

(* ---------- one parse call as a state machine over the intercepted operations ---------- *)
Inductive outcome := Good (header : nat) | Garbage | FileNotFound.
Inductive pc := AtExists | AtCreate | AtWrite | AtRead | AtRemove (got : content) | Done (o : outcome).
Record thread := { side : nat; hdr : nat; at_ : pc }.       (* hdr: header of this thread's input file *)

Definition tstep (f : fs) (t : thread) : fs * thread :=
  let set p := {| side := side t; hdr := hdr t; at_ := p |} in
  match at_ t with
  | AtExists => (f, set (match f (side t) with Some _ => AtRead | None => AtCreate end))   (* os.path.isfile *)
  | AtCreate => (upd f (side t) (Some Partial), set AtWrite)                                 (* open(..., "w") *)
  | AtWrite => (upd f (side t) (Some (Full (hdr t))), set AtRead)                            (* lines flushed at close *)
  | AtRead => match f (side t) with                                                          (* open(..., "r").readlines() *)
              | Some c => (f, set (AtRemove c)) | None => (f, set (Done FileNotFound)) end
  | AtRemove c => match f (side t) with                                                      (* os.remove *)
                  | Some _ => (upd f (side t) None, set (Done (match c with Full h => Good h | Partial => Garbage end)))
                  | None => (f, set (Done FileNotFound)) end
  | Done _ => (f, t)
  end.

(* ---------- any number of threads, any schedule ---------- *)
Definition pool := nat -> thread.
Definition pupd (ts : pool) (i : nat) (t : thread) : pool := fun j => if Nat.eqb j i then t else ts j.
Fixpoint run (sched : list nat) (f : fs) (ts : pool) : fs * pool :=
  match sched with
  | [] => (f, ts)
  | i :: r => let '(f', t') := tstep f (ts i) in run r f' (pupd ts i t')
  end.

(* what the file system must look like for thread t, given where t is *)
Definition inv1 (f : fs) (t : thread) : Prop :=
  match at_ t with
  | AtExists | AtCreate => f (side t) = None
  | AtWrite => f (side t) = Some Partial
  | AtRead => f (side t) = Some (Full (hdr t))
  | AtRemove c => c = Full (hdr t) /\ f (side t) = Some (Full (hdr t))
  | Done o => o = Good (hdr t) /\ f (side t) = None
  end.

Lemma tstep_side f t : side (snd (tstep f t)) = side t /\ hdr (snd (tstep f t)) = hdr t.
Proof. unfold tstep. destruct (at_ t); cbn; auto; destruct (f (side t)); cbn; auto. Qed.
Lemma tstep_frame f t q : q <> side t -> fst (tstep f t) q = f q.
Proof.
  intros H. unfold tstep. destruct (at_ t); cbn; auto; try (now apply upd_other);
  destruct (f (side t)); cbn; auto; now apply upd_other.
Qed.
Lemma tstep_inv f t : inv1 f t -> inv1 (fst (tstep f t)) (snd (tstep f t)).
Proof.
  unfold inv1, tstep. destruct (at_ t) eqn:E; cbn [fst snd at_ side hdr]; intros H.
  - rewrite H. cbn. reflexivity.
  - apply upd_same.
  - apply upd_same.
  - rewrite H. cbn. auto.
  - destruct H as [-> H]. rewrite H. cbn. split; [reflexivity|apply upd_same].
  - rewrite E. exact H.
Qed.

Section DistinctFiles.
Variable ts0 : pool.
Hypothesis distinct : forall i j, side (ts0 i) = side (ts0 j) -> i = j.

Definition Inv (f : fs) (ts : pool) : Prop :=
  (forall i, side (ts i) = side (ts0 i) /\ hdr (ts i) = hdr (ts0 i)) /\ (forall i, inv1 f (ts i)).

Lemma step_Inv f ts i : Inv f ts -> Inv (fst (tstep f (ts i))) (pupd ts i (snd (tstep f (ts i)))).
Proof.
  intros [Hs Hi]. split; intros j; unfold pupd; destruct (Nat.eqb_spec j i) as [->|Hne].
  - destruct (tstep_side f (ts i)) as [-> ->]. apply Hs.
  - apply Hs.
  - now apply tstep_inv.
  - assert (Hq : side (ts j) <> side (ts i)).
    { destruct (Hs i) as [-> _], (Hs j) as [-> _]. intros E. now apply distinct in E. }
    specialize (Hi j). unfold inv1 in *. destruct (at_ (ts j)); rewrite tstep_frame; auto.
Qed.

Lemma run_Inv sched : forall f ts, Inv f ts -> Inv (fst (run sched f ts)) (snd (run sched f ts)).
Proof.
  induction sched as [|i r IH]; intros f ts H; [exact H|].
  cbn [run]. pose proof (step_Inv f ts i H) as H'. destruct (tstep f (ts i)) as [f' t']. now apply IH.
Qed.

(* C20_distinct_files: under EVERY schedule, a parse that finishes returns its solo result, none fails *)
Theorem distinct_files_no_interference f0 sched i o :
  (forall j, at_ (ts0 j) = AtExists) -> (forall j, f0 (side (ts0 j)) = None) ->
  at_ (snd (run sched f0 ts0) i) = Done o -> o = Good (hdr (ts0 i)).
Proof.
  intros Hstart Hfs Hdone.
  assert (I0 : Inv f0 ts0).
  { split; [auto|]. intros j. unfold inv1. rewrite Hstart. apply Hfs. }
  destruct (run_Inv sched f0 ts0 I0) as [Hs Hi]. specialize (Hi i). unfold inv1 in Hi. rewrite Hdone in Hi.
  destruct Hi as [-> _]. now destruct (Hs i) as [_ ->].
Qed.
End DistinctFiles.

(* C20_same_file: refuted for the current protocol by a concrete 7-step schedule *)
Definition two_same : pool := fun _ => {| side := 0; hdr := 7; at_ := AtExists |}.
Theorem same_file_interference :
  exists sched i, at_ (snd (run sched (fun _ => None) two_same) i) = Done FileNotFound.
Proof. exists [0; 1; 0; 1; 0; 1; 0; 0; 1]%nat, 1%nat. vm_compute. reflexivity. Qed.
(* ... and a schedule in which a reader silently gets a truncated header *)
Theorem same_file_garbage :
  exists sched i, at_ (snd (run sched (fun _ => None) two_same) i) = Done Garbage.
Proof. exists [0; 0; 1; 1; 1]%nat, 1%nat. vm_compute. reflexivity. Qed.
Print Assumptions distinct_files_no_interference.
Print Assumptions same_file_interference.
