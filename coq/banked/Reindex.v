From Coq Require Import List Arith Lia Bool.
Import ListNotations.

Section Reindex.
Variable U : Type.
Variable eq_dec : forall a b : U, {a = b} + {a <> b}.

Fixpoint index_of (u : U) (l : list U) : nat :=
  match l with [] => 0 | x :: r => if eq_dec u x then 0 else S (index_of u r) end.
Lemma index_of_nth u l : In u l -> nth_error l (index_of u l) = Some u.
Proof.
  induction l as [|x r IH]; cbn; [contradiction|]. intros H.
  destruct (eq_dec u x) as [->|Hne]; [reflexivity|]. destruct H as [->|H]; [contradiction|]. now apply IH.
Qed.

(* UAGraph.write_nodeset: the written namespace moves to index 1, the others keep their relative order *)
Definition others (G : list U) (k : nat) : list U :=
  map snd (filter (fun p => negb (Nat.eqb (fst p) 0) && negb (Nat.eqb (fst p) k)) (combine (seq 0 (length G)) G)).
Definition new_list (G : list U) (k : nat) (u0 uk : U) : list U := u0 :: uk :: others G k.
Definition remap (G newl : list U) (i : nat) : option nat :=
  match nth_error G i with Some u => Some (index_of u newl) | None => None end.

Lemma in_combine_seq (G : list U) i u : nth_error G i = Some u -> In (i, u) (combine (seq 0 (length G)) G).
Proof.
  intros H. assert (Hi : i < length G) by (apply nth_error_Some; congruence).
  replace (i, u) with (nth i (combine (seq 0 (length G)) G) (0, u)).
  - apply nth_In. rewrite combine_length, seq_length. lia.
  - rewrite combine_nth by now rewrite seq_length. rewrite seq_nth by lia. f_equal.
    now apply nth_error_nth.
Qed.

Lemma new_list_complete G k u0 uk i u :
  nth_error G 0 = Some u0 -> nth_error G k = Some uk -> nth_error G i = Some u -> In u (new_list G k u0 uk).
Proof.
  intros H0 Hk Hi. unfold new_list. destruct (Nat.eq_dec i 0) as [->|Hn0]; [left; congruence|].
  destruct (Nat.eq_dec i k) as [->|Hnk]; [right; left; congruence|]. right; right.
  unfold others. apply in_map_iff. exists (i, u). split; [reflexivity|].
  apply filter_In. split; [now apply in_combine_seq|]. cbn.
  apply andb_true_iff. split; apply negb_true_iff, Nat.eqb_neq; assumption.
Qed.

(* (1) re-indexing for the written file does not change which URI an index denotes *)
Theorem remap_denotes G k u0 uk i u j :
  nth_error G 0 = Some u0 -> nth_error G k = Some uk -> nth_error G i = Some u ->
  remap G (new_list G k u0 uk) i = Some j -> nth_error (new_list G k u0 uk) j = Some u.
Proof.
  intros H0 Hk Hi. unfold remap. rewrite Hi. intros E. injection E as <-.
  apply (index_of_nth u (new_list G k u0 uk)). eapply new_list_complete; eauto.
Qed.

(* (2) dropping unused namespaces: inuse is the sorted list of indices kept; position in it is the new index *)
Fixpoint pos (x : nat) (l : list nat) : option nat :=
  match l with [] => None | y :: r => if Nat.eqb x y then Some 0 else option_map S (pos x r) end.
Definition shrink (newl : list U) (inuse : list nat) : list (option U) := map (nth_error newl) inuse.
Theorem shrink_denotes newl inuse x p :
  pos x inuse = Some p -> nth_error (shrink newl inuse) p = Some (nth_error newl x).
Proof.
  revert p; induction inuse as [|y r IH]; intros p; cbn; [discriminate|].
  destruct (Nat.eqb_spec x y) as [->|Hne]; [intros E; inversion E; reflexivity|].
  destruct (pos x r) as [q|] eqn:Eq; cbn; [|discriminate]. intros E; inversion E; subst. cbn. now apply IH.
Qed.
End Reindex.
Print Assumptions remap_denotes.
Print Assumptions shrink_denotes.
