From Coq Require Import String Ascii List Bool.
Import ListNotations.
Open Scope char_scope.

Definition str := list ascii.
Definition lit (s : string) : str := list_ascii_of_string s.

Fixpoint has (c : ascii) (s : str) : bool :=
  match s with [] => false | a :: r => Ascii.eqb a c || has c r end.
Lemma has_app c a b : has c (a ++ b) = has c a || has c b.
Proof. induction a as [|x a IH]; cbn; [reflexivity|]. now rewrite IH, orb_assoc. Qed.

Fixpoint split_once (c : ascii) (s : str) : option (str * str) :=
  match s with
  | [] => None
  | a :: r => if Ascii.eqb a c then Some ([], r)
              else match split_once c r with Some (x, y) => Some (a :: x, y) | None => None end
  end.
Lemma split_once_app c a b : has c a = false -> split_once c (a ++ c :: b) = Some (a, b).
Proof.
  induction a as [|x a IH]; cbn; intros H; [now rewrite Ascii.eqb_refl|].
  apply orb_false_iff in H as [H1 H2]. now rewrite H1, (IH H2).
Qed.

Fixpoint split_all (c : ascii) (s : str) : list str :=
  match s with
  | [] => [[]]
  | a :: r => if Ascii.eqb a c then [] :: split_all c r
              else match split_all c r with x :: xs => (a :: x) :: xs | [] => [[a]] end
  end.
Lemma split_all_none c s : has c s = false -> split_all c s = [s].
Proof.
  induction s as [|a r IH]; cbn; intros H; [reflexivity|].
  apply orb_false_iff in H as [H1 H2]. now rewrite H1, (IH H2).
Qed.
Lemma split_all_app c a rest : has c a = false -> split_all c (a ++ c :: rest) = a :: split_all c rest.
Proof.
  induction a as [|x a IH]; cbn; intros H; [now rewrite Ascii.eqb_refl|].
  apply orb_false_iff in H as [H1 H2]. now rewrite H1, (IH H2).
Qed.

(* ---- escape / unescape ---- *)
Definition esc_char (c : ascii) : str :=
  if Ascii.eqb c "&" then lit "&amp;" else if Ascii.eqb c "<" then lit "&lt;"
  else if Ascii.eqb c ">" then lit "&gt;" else [c].
Definition escape (s : str) : str := flat_map esc_char s.
Definition omap {A B} (f : A -> B) (o : option A) : option B := match o with Some a => Some (f a) | None => None end.
Fixpoint unescape (s : str) : option str :=
  match s with
  | [] => Some []
  | c :: r =>
      if Ascii.eqb c "&" then
        match r with
        | "a" :: "m" :: "p" :: ";" :: r' => omap (cons "&") (unescape r')
        | "l" :: "t" :: ";" :: r' => omap (cons "<") (unescape r')
        | "g" :: "t" :: ";" :: r' => omap (cons ">") (unescape r')
        | "q" :: "u" :: "o" :: "t" :: ";" :: r' => omap (cons """") (unescape r')
        | _ => None
        end
      else if Ascii.eqb c "<" then None else omap (cons c) (unescape r)
  end.
Theorem unescape_escape s : unescape (escape s) = Some s.
Proof.
  induction s as [|c s IH]; [reflexivity|].
  unfold escape in *. cbn [flat_map]. unfold esc_char at 1.
  destruct (Ascii.eqb c "&") eqn:Ea. { apply Ascii.eqb_eq in Ea; subst c. cbn. now rewrite IH. }
  destruct (Ascii.eqb c "<") eqn:El. { apply Ascii.eqb_eq in El; subst c. cbn. now rewrite IH. }
  destruct (Ascii.eqb c ">") eqn:Eg. { apply Ascii.eqb_eq in Eg; subst c. cbn. now rewrite IH. }
  cbn [app unescape]. now rewrite Ea, El, IH.
Qed.
Lemma escape_clean c s : (c = "<" \/ c = ">") -> has c (escape s) = false.
Proof.
  intros Hc. induction s as [|x s IH]; [reflexivity|].
  unfold escape in *. cbn [flat_map]. rewrite has_app, IH, orb_false_r. unfold esc_char.
  destruct (Ascii.eqb x "&") eqn:Ea; [destruct Hc; subst; reflexivity|].
  destruct (Ascii.eqb x "<") eqn:El; [destruct Hc; subst; reflexivity|].
  destruct (Ascii.eqb x ">") eqn:Eg; [destruct Hc; subst; reflexivity|].
  cbn. destruct Hc; subst; now rewrite ?El, ?Eg.
Qed.

(* ---- character stream of a document ---- *)
Definition item := (str * str)%type.   (* raw tag body between '<' and '>' ; unescaped text after it *)
Definition seg_of (it : item) : str := fst it ++ ">" :: escape (snd it).
Definition spell (lead : str) (items : list item) : str :=
  escape lead ++ flat_map (fun it => "<" :: seg_of it) items.

Fixpoint sequence {A} (l : list (option A)) : option (list A) :=
  match l with [] => Some [] | None :: _ => None
  | Some a :: r => match sequence r with Some r' => Some (a :: r') | None => None end end.
Definition lex_item (seg : str) : option item :=
  match split_once ">" seg with
  | Some (tag, txt) => omap (pair tag) (unescape txt)
  | None => None
  end.
Definition lex (s : str) : option (str * list item) :=
  match split_all "<" s with
  | [] => None
  | l :: segs => match unescape l, sequence (map lex_item segs) with
                 | Some l', Some its => Some (l', its) | _, _ => None end
  end.
Definition tag_ok (t : str) : bool := negb (has "<" t) && negb (has ">" t).

Lemma seg_no_lt it : tag_ok (fst it) = true -> has "<" (seg_of it) = false.
Proof.
  unfold tag_ok, seg_of. intros H. apply andb_true_iff in H as [H1 _]. apply negb_true_iff in H1.
  rewrite has_app, H1. cbn. apply escape_clean; auto.
Qed.

Lemma split_items items : forallb (fun it => tag_ok (fst it)) items = true ->
  forall pre, has "<" pre = false ->
  split_all "<" (pre ++ flat_map (fun it => "<" :: seg_of it) items) = pre :: map seg_of items.
Proof.
  induction items as [|it items IH]; intros Hok pre Hpre.
  - cbn. rewrite app_nil_r. now apply split_all_none.
  - cbn [forallb] in Hok. apply andb_true_iff in Hok as [Hit Hrest].
    cbn [flat_map map]. rewrite <- app_comm_cons.
    rewrite split_all_app by exact Hpre. f_equal.
    apply IH; [exact Hrest | now apply seg_no_lt].
Qed.

Lemma lex_item_seg it : tag_ok (fst it) = true -> lex_item (seg_of it) = Some it.
Proof.
  unfold tag_ok, lex_item, seg_of. intros H. apply andb_true_iff in H as [_ H2]. apply negb_true_iff in H2.
  rewrite split_once_app by exact H2. rewrite unescape_escape. now destruct it.
Qed.

Theorem lex_spell lead items : forallb (fun it => tag_ok (fst it)) items = true ->
  lex (spell lead items) = Some (lead, items).
Proof.
  intros Hok. unfold lex, spell.
  rewrite split_items by (auto; apply escape_clean; auto).
  rewrite unescape_escape.
  assert (Hs : sequence (map lex_item (map seg_of items)) = Some items).
  { clear lead. induction items as [|it items IH]; [reflexivity|].
    cbn [forallb] in Hok. apply andb_true_iff in Hok as [Hit Hrest].
    cbn [map sequence]. rewrite lex_item_seg by exact Hit. now rewrite (IH Hrest). }
  now rewrite Hs.
Qed.
Print Assumptions lex_spell.
