(* PyInt: str(int) and int(str) on byte strings. *)
From Coq Require Import String Ascii List Bool NArith ZArith Lia.
Require Import PyStr.
Import ListNotations.
Open Scope char_scope.

Definition digit_char (d : N) : ascii := ascii_of_N (48 + d).
Definition is_digit (c : ascii) : bool := let n := N_of_ascii c in (48 <=? n)%N && (n <=? 57)%N.
Definition digit_val (c : ascii) : N := (N_of_ascii c - 48)%N.
Fixpoint digits_rev (fuel : nat) (n : N) : list N :=
  match fuel with
  | O => []
  | S f => if (n <? 10)%N then [n] else (n mod 10)%N :: digits_rev f (n / 10)%N
  end.
Definition fuel_for (n : N) : nat := S (N.to_nat (N.log2 n)).
(* str(n) for a natural number *)
Definition dec (n : N) : str := map digit_char (rev (digits_rev (fuel_for n) n)).
Fixpoint parse_digits (s : str) (acc : N) : option N :=
  match s with
  | [] => Some acc
  | c :: r => if is_digit c then parse_digits r (10 * acc + digit_val c)%N else None
  end.
(* int(s) restricted to plain ASCII digit strings *)
Definition py_nat (s : str) : option N := match s with [] => None | _ => parse_digits s 0 end.

Fixpoint value_rev (ds : list N) : N := match ds with [] => 0%N | d :: r => (d + 10 * value_rev r)%N end.
Lemma value_digits_rev fuel : forall n, (n < 10 ^ N.of_nat fuel)%N -> value_rev (digits_rev fuel n) = n.
Proof.
  induction fuel as [|f IH]; intros n H; [cbn in *; lia|].
  cbn [digits_rev]. destruct (N.ltb_spec n 10) as [Hlt|Hge]; cbn [value_rev]; [lia|].
  rewrite IH; [pose proof (N.div_mod n 10); lia|].
  rewrite Nat2N.inj_succ, N.pow_succ_r' in H. apply N.div_lt_upper_bound; lia.
Qed.
Lemma digits_rev_lt10 fuel : forall n d, In d (digits_rev fuel n) -> (d < 10)%N.
Proof.
  induction fuel as [|f IH]; intros n d H; cbn in H; [contradiction|].
  destruct (N.ltb_spec n 10) as [Hlt|Hge]; cbn in H.
  - destruct H as [<-|[]]; exact Hlt.
  - destruct H as [<-|H]; [apply N.mod_lt; lia | eapply IH; eauto].
Qed.
Lemma digits_rev_nonempty fuel n : digits_rev (S fuel) n <> [].
Proof. cbn. destruct (n <? 10)%N; discriminate. Qed.
Lemma fuel_ok n : (n < 10 ^ N.of_nat (fuel_for n))%N.
Proof.
  unfold fuel_for. rewrite Nat2N.inj_succ, N2Nat.id. destruct n as [|p]; [cbn; lia|].
  apply N.lt_le_trans with (2 ^ N.succ (N.log2 (N.pos p)))%N; [apply N.log2_spec; lia | apply N.pow_le_mono_l; lia].
Qed.
Lemma digit_char_ok d : (d < 10)%N -> is_digit (digit_char d) = true /\ digit_val (digit_char d) = d.
Proof.
  intros H. unfold is_digit, digit_val, digit_char. rewrite N_ascii_embedding by lia.
  split; [apply andb_true_intro; split; apply N.leb_le; lia | lia].
Qed.
Lemma parse_digits_map ds : Forall (fun d => (d < 10)%N) ds -> forall acc,
  parse_digits (map digit_char ds) acc = Some (fold_left (fun a d => (10 * a + d)%N) ds acc).
Proof.
  induction 1 as [|d ds Hd _ IH]; intros acc; [reflexivity|].
  cbn [map parse_digits fold_left]. destruct (digit_char_ok d Hd) as [-> ->]. apply IH.
Qed.
Lemma fold_left_rev_value ds : fold_left (fun a d => (10 * a + d)%N) (rev ds) 0%N = value_rev ds.
Proof.
  induction ds as [|d r IH]; [reflexivity|].
  cbn [rev value_rev]. rewrite fold_left_app. cbn [fold_left]. rewrite IH. lia.
Qed.
Lemma dec_nonempty n : dec n <> [].
Proof.
  unfold dec, fuel_for. intros H. apply map_eq_nil in H. apply (f_equal (@rev N)) in H.
  rewrite rev_involutive in H. now apply digits_rev_nonempty in H.
Qed.
Theorem py_nat_dec n : py_nat (dec n) = Some n.
Proof.
  unfold py_nat. pose proof (dec_nonempty n) as Hne. destruct (dec n) eqn:E; [congruence|]. rewrite <- E.
  unfold dec. rewrite parse_digits_map.
  - now rewrite fold_left_rev_value, value_digits_rev by apply fuel_ok.
  - apply Forall_forall. intros d Hd. apply in_rev in Hd. eapply digits_rev_lt10; eauto.
Qed.
Lemma dec_digits_only n c : In c (dec n) -> is_digit c = true.
Proof.
  unfold dec. intros H. apply in_map_iff in H as [d [<- Hd]]. apply in_rev in Hd.
  apply digit_char_ok. eapply digits_rev_lt10; eauto.
Qed.
Lemma is_digit_not c x : is_digit c = true -> is_digit x = false -> Ascii.eqb c x = false.
Proof. intros H1 H2. destruct (Ascii.eqb_spec c x); [subst; congruence|reflexivity]. Qed.
Lemma dec_has n x : is_digit x = false -> has x (dec n) = false.
Proof.
  intros Hx. assert (H := dec_digits_only n). induction (dec n) as [|c r IH]; [reflexivity|].
  cbn. rewrite (is_digit_not c x); [|apply H; now left|exact Hx]. apply IH. intros c' Hc'. apply H. now right.
Qed.
Lemma dec_all_digits n : all_chars is_digit (dec n) = true.
Proof.
  assert (H := dec_digits_only n). induction (dec n) as [|c r IH]; [reflexivity|].
  cbn. rewrite (H c) by now left. apply IH. intros c' Hc'. apply H. now right.
Qed.

(* ---- str(z) for an integer, and int(s): optional blanks, optional sign, digits with single
        underscores between digits (PEP 515) ---- *)
Definition decZ (z : Z) : str :=
  match z with
  | Z0 => dec 0
  | Zpos p => dec (Npos p)
  | Zneg p => "-" :: dec (Npos p)
  end.
(* digits with single inner underscores; [prev_digit] says whether the previous char was a digit *)
Fixpoint parse_digits_us (s : str) (acc : N) (prev_digit : bool) : option N :=
  match s with
  | [] => if prev_digit then Some acc else None
  | c :: r =>
      if is_digit c then parse_digits_us r (10 * acc + digit_val c)%N true
      else if Ascii.eqb c "_" then (if prev_digit then parse_digits_us r acc false else None)
      else None
  end.
Definition py_int (s : str) : option Z :=
  match strip s with
  | [] => None
  | c :: r =>
      if Ascii.eqb c "-" then omap (fun n => Z.opp (Z.of_N n)) (parse_digits_us r 0 false)
      else if Ascii.eqb c "+" then omap Z.of_N (parse_digits_us r 0 false)
      else omap Z.of_N (parse_digits_us (c :: r) 0 false)
  end.

Lemma decZ_has z x : is_digit x = false -> x <> "-" -> has x (decZ z) = false.
Proof.
  intros Hx Hm. destruct z; cbn [decZ]; try now apply dec_has.
  cbn [has]. rewrite dec_has by exact Hx. destruct (Ascii.eqb_spec "-" x); [subst; contradiction|reflexivity].
Qed.
Lemma parse_digits_us_digits s : all_chars is_digit s = true -> forall acc b,
  s <> [] \/ b = true -> parse_digits_us s acc b = parse_digits s acc.
Proof.
  induction s as [|c r IH]; intros H acc b Hb.
  - destruct Hb as [Hb | ->]; [congruence|reflexivity].
  - cbn in H. apply andb_true_iff in H as [Hc Hr]. cbn. rewrite Hc. apply IH; auto.
Qed.
Lemma is_digit_not_space c : is_digit c = true -> is_space c = false.
Proof.
  unfold is_digit, is_space. intros H. apply andb_true_iff in H as [H1 H2].
  apply N.leb_le in H1. apply N.leb_le in H2.
  apply orb_false_iff; split; apply andb_false_iff.
  - right. apply N.leb_gt. lia.
  - right. apply N.leb_gt. lia.
Qed.
Lemma lstrip_nospace c r : is_space c = false -> lstrip (c :: r) = c :: r.
Proof. intros H. cbn. now rewrite H. Qed.
Lemma strip_digits s : all_chars is_digit s = true -> strip s = s.
Proof.
  intros H. unfold strip, rstrip.
  assert (L : forall t, all_chars is_digit t = true -> lstrip t = t).
  { intros [|c r] Ht; [reflexivity|]. cbn in Ht. apply andb_true_iff in Ht as [Hc _].
    apply lstrip_nospace. now apply is_digit_not_space. }
  rewrite (L s H). rewrite L; [apply rev_involutive|].
  clear L. induction s as [|c r IH]; [reflexivity|]. cbn in *. apply andb_true_iff in H as [Hc Hr].
  assert (A : forall a b, all_chars is_digit a = true -> all_chars is_digit b = true -> all_chars is_digit (a ++ b) = true).
  { induction a as [|x a IHa]; cbn; intros b Ha Hb; [exact Hb|]. apply andb_true_iff in Ha as [-> Ha]. cbn. now apply IHa. }
  apply A; [now apply IH|cbn; now rewrite Hc].
Qed.
Lemma strip_minus_digits s : all_chars is_digit s = true -> s <> [] -> strip ("-" :: s) = "-" :: s.
Proof.
  intros H Hne. unfold strip. rewrite lstrip_nospace by reflexivity. unfold rstrip.
  assert (R : lstrip (rev ("-" :: s)) = rev ("-" :: s)).
  { cbn [rev]. destruct (rev s) as [|c r] eqn:E.
    - apply (f_equal (@rev ascii)) in E. rewrite rev_involutive in E. cbn in E. congruence.
    - cbn [app]. apply lstrip_nospace. apply is_digit_not_space.
      assert (Hin : In c s) by (apply in_rev; rewrite E; now left).
      clear -H Hin. induction s as [|x s IH]; [contradiction|]. cbn in H. apply andb_true_iff in H as [Hx Hs].
      destruct Hin as [->|Hin]; auto. }
  rewrite R. apply rev_involutive.
Qed.

Theorem py_int_decZ z : py_int (decZ z) = Some z.
Proof.
  unfold py_int. destruct z as [|p|p]; cbn [decZ].
  - reflexivity.
  - rewrite strip_digits by apply dec_all_digits.
    pose proof (dec_nonempty (Npos p)) as Hne. pose proof (dec_all_digits (Npos p)) as Hd.
    pose proof (py_nat_dec (Npos p)) as Hp. unfold py_nat in Hp.
    destruct (dec (N.pos p)) as [|c r] eqn:E; [congruence|].
    assert (Hc : is_digit c = true) by (cbn in Hd; now apply andb_true_iff in Hd as [? _]).
    assert (Hm : Ascii.eqb c "-" = false) by (apply is_digit_not; [exact Hc|reflexivity]).
    assert (Hpl : Ascii.eqb c "+" = false) by (apply is_digit_not; [exact Hc|reflexivity]).
    rewrite Hm, Hpl.
    rewrite parse_digits_us_digits; [|exact Hd|left; discriminate]. now rewrite Hp.
  - rewrite strip_minus_digits; [|apply dec_all_digits|apply dec_nonempty].
    rewrite parse_digits_us_digits; [|apply dec_all_digits|left; apply dec_nonempty].
    pose proof (py_nat_dec (Npos p)) as Hp. unfold py_nat in Hp.
    pose proof (dec_nonempty (Npos p)) as Hne.
    destruct (dec (N.pos p)) eqn:E; [congruence|]. now rewrite Hp.
Qed.
