(* Proofs about the graph-level models (C11, C16, C17). *)
From Coq Require Import String Ascii List Bool Arith ZArith Lia.
Require Import PyStr PyInt Sexp Xml M_C09 M_C08 M_C12 T_C12 M_Graph.
Import ListNotations.
Open Scope char_scope.

(* ================= C11 ================= *)
Lemma filter_nil_iff {A} (f : A -> bool) l : filter f l = [] <-> forall x, In x l -> f x = false.
Proof.
  induction l as [|a l IH]; cbn; [tauto|]. destruct (f a) eqn:E.
  - split; [discriminate|]. intros H. specialize (H a (or_introl eq_refl)). congruence.
  - rewrite IH. split; [intros H x [<-|Hx]; auto | intros H x Hx; apply H; now right].
Qed.
(* construction succeeds exactly when source and target of every reference are defined nodes *)
Theorem closed_iff ids refs : check_closed ids refs = CClosed <-> forall r, In r refs -> In (r_src r) ids /\ In (r_trg r) ids.
Proof.
  unfold check_closed. destruct (filter (fun r => negb (memn (r_src r) ids)) refs) as [|a l] eqn:E1.
  - destruct (filter (fun r => negb (memn (r_trg r) ids)) refs) as [|b m] eqn:E2.
    + split; [intros _ r Hr|reflexivity]. rewrite filter_nil_iff in E1, E2. specialize (E1 r Hr). specialize (E2 r Hr).
      apply negb_false_iff in E1, E2. now rewrite !memn_In in *.
    + split; [discriminate|]. intros H. assert (Hb : In b (filter (fun r => negb (memn (r_trg r) ids)) refs)) by (rewrite E2; now left).
      apply filter_In in Hb as [Hb Hn]. destruct (H b Hb) as [_ Ht]. apply memn_In in Ht. rewrite Ht in Hn. discriminate.
  - split; [discriminate|]. intros H. assert (Ha : In a (filter (fun r => negb (memn (r_src r) ids)) refs)) by (rewrite E1; now left).
    apply filter_In in Ha as [Ha Hn]. destruct (H a Ha) as [Hs _]. apply memn_In in Hs. rewrite Hs in Hn. discriminate.
Qed.
(* otherwise the error lists every reference with a missing source; if there is none, every reference with a missing target *)
Theorem closed_message ids refs :
  (forall rows, check_closed ids refs = CMissingSources rows -> rows <> [] /\ forall r, In r rows <-> In r refs /\ ~ In (r_src r) ids) /\
  (forall rows, check_closed ids refs = CMissingTargets rows -> rows <> [] /\ (forall r, In r refs -> In (r_src r) ids) /\
                                                          forall r, In r rows <-> In r refs /\ ~ In (r_trg r) ids).
Proof.
  unfold check_closed. destruct (filter (fun r => negb (memn (r_src r) ids)) refs) as [|a l] eqn:E1.
  - destruct (filter (fun r => negb (memn (r_trg r) ids)) refs) as [|b m] eqn:E2; split; intros rows H; try discriminate.
    inversion H; subst; clear H. split; [discriminate|]. split.
    + intros r Hr. rewrite filter_nil_iff in E1. specialize (E1 r Hr). apply negb_false_iff in E1. now apply memn_In.
    + intros r. rewrite <- E2, filter_In, negb_true_iff. rewrite <- memn_In. destruct (memn (r_trg r) ids); split; intros [? ?]; split; auto; congruence.
  - split; intros rows H; [|discriminate]. inversion H; subst; clear H. split; [discriminate|]. intros r. rewrite <- E1, filter_In, negb_true_iff. rewrite <- memn_In.
    destruct (memn (r_src r) ids); split; intros [? ?]; split; auto; congruence.
Qed.
(* look-up by browse name (optionally restricted to a node class): the id of the unique match, ValueError otherwise *)
Definition matches (name : str) (cls : option str) (n : gnode) : Prop :=
  gn_bname n = name /\ match cls with Some c => gn_cls n = lit "UA" ++ c | None => True end.
Lemma matches_filter nodes name cls n :
  In n (filter (fun n => str_eqb (gn_bname n) name) (match cls with Some c => filter (fun n => str_eqb (gn_cls n) (lit "UA" ++ c)) nodes | None => nodes end))
  <-> In n nodes /\ matches name cls n.
Proof.
  unfold matches. rewrite filter_In. destruct cls as [c|].
  - rewrite filter_In, !str_eqb_eq. tauto.
  - rewrite str_eqb_eq. tauto.
Qed.
Theorem lookup_unique nodes name cls i : lookup_browsename nodes name cls = Ok i ->
  exists n, In n nodes /\ matches name cls n /\ gn_id n = i /\ forall m, In m nodes -> matches name cls m -> m = n.
Proof.
  unfold lookup_browsename. destruct name as [|c0 name0] eqn:En; [discriminate|]. rewrite <- En.
  destruct (filter _ _) as [|n [|n2 l]] eqn:Ef; try discriminate. intros H. inversion H; subst i. exists n.
  assert (Hn : In n [n]) by now left. rewrite <- Ef in Hn. apply matches_filter in Hn as [H1 H2]. split; [exact H1|]. split; [exact H2|]. split; [reflexivity|].
  intros m Hm Hmm. assert (Hin : In m [n]) by (rewrite <- Ef; apply matches_filter; auto). destruct Hin as [<-|[]]. reflexivity.
Qed.
Theorem lookup_error nodes name cls : (exists e, lookup_browsename nodes name cls = Err e) ->
  name = [] \/ (forall n, In n nodes -> ~ matches name cls n) \/ (exists a b l, filter (fun n => str_eqb (gn_bname n) name)
       (match cls with Some c => filter (fun n => str_eqb (gn_cls n) (lit "UA" ++ c)) nodes | None => nodes end) = a :: b :: l).
Proof.
  unfold lookup_browsename. destruct name as [|c0 name0] eqn:En; [auto|]. rewrite <- En. intros [e H]. right.
  destruct (filter _ _) as [|n [|n2 l]] eqn:Ef; try discriminate.
  - left. intros n Hn Hm. assert (In n []) as []. rewrite <- Ef. apply matches_filter. auto.
  - right. eauto.
Qed.
Theorem lookup_errors_are_valueerror nodes name cls e : lookup_browsename nodes name cls = Err e -> e = EValue.
Proof. unfold lookup_browsename. destruct name; [congruence|]. destruct (filter _ _) as [|n [|n2 l]]; congruence. Qed.

(* ================= C16 ================= *)
Definition written_rows (nodes : list gnode) : list gnode :=
  filter (fun n => str_eqb (gn_cls n) (lit "UAVariable") && match gn_value n with Some _ => true | None => false end) nodes.
(* nothing to validate: the write goes ahead *)
Theorem validate_nothing nodes dt c : written_rows nodes = [] -> validate_values nodes dt c = Ok [].
Proof. unfold written_rows, validate_values. intros ->. reflexivity. Qed.
(* a variable with a value but no DataType: ValidationError *)
Theorem validate_missing_datatype nodes dt : written_rows nodes <> [] ->
  (exists n, In n (written_rows nodes) /\ gn_datatype n = None) -> validate_values nodes dt true = Err EValidation.
Proof.
  unfold written_rows, validate_values. intros Hne [n [Hn Hd]]. destruct (filter _ nodes) as [|a l] eqn:E; [congruence|]. cbn [negb].
  assert (Hex : existsb (fun n => match gn_datatype n with None => true | Some _ => false end) (a :: l) = true).
  { apply existsb_exists. exists n. split; [exact Hn|now rewrite Hd]. }
  now rewrite Hex.
Qed.
(* the decision, when every written variable has a DataType *)
Definition row_info (dt : list (nat * str)) (n : gnode) : vinfo :=
  {| vi_display := gn_display n; vi_class := datatype_class (cls_string (match gn_value n with Some v => v | None => VNone end));
     vi_expected := expected_type dt (match gn_datatype n with Some d => d | None => 0 end) |}.
Definition vvalid (i : vinfo) : bool := str_eqb (vi_class i) (vi_expected i).
Definition vskip (i : vinfo) : bool := str_eqb (vi_class i) (lit "UAListOf") || negb (mem_str (vi_expected i) SIMPLE_NAMES).
Theorem validate_decision nodes dt : written_rows nodes <> [] ->
  (forall n, In n (written_rows nodes) -> gn_datatype n <> None) ->
  let info := map (row_info dt) (written_rows nodes) in
  let potential := filter (fun i => negb (vskip i)) info in
  validate_values nodes dt true =
    Ok (if forallb vvalid potential then []
        else if existsb (fun i => negb (str_eqb (vi_class i) (lit "UAEnumeration"))) potential then map vi_display (filter (fun i => negb (vvalid i)) info)
        else []).
Proof.
  unfold written_rows, validate_values. intros Hne Hd. destruct (filter _ nodes) as [|a l] eqn:E; [congruence|]. cbn [negb].
  assert (Hex : existsb (fun n => match gn_datatype n with None => true | Some _ => false end) (a :: l) = false).
  { destruct (existsb _ (a :: l)) eqn:X; [|reflexivity]. apply existsb_exists in X as [n [Hn Hx]]. specialize (Hd n Hn). destruct (gn_datatype n); congruence. }
  rewrite Hex. clear Hex. cbn zeta. fold (row_info dt).
  destruct (forallb _ _); [reflexivity|]. destruct (existsb _ _); reflexivity.
Qed.
(* list values and variables whose DataType is not a built-in name can never cause a rejection on their own *)
Theorem validate_never nodes dt : written_rows nodes <> [] -> (forall n, In n (written_rows nodes) -> gn_datatype n <> None) ->
  (forall n, In n (written_rows nodes) -> vskip (row_info dt n) = true) -> validate_values nodes dt true = Ok [].
Proof.
  intros Hne Hd Hs. rewrite (validate_decision nodes dt Hne Hd). cbn zeta.
  assert (Hp : filter (fun i => negb (vskip i)) (map (row_info dt) (written_rows nodes)) = []).
  { apply filter_nil_iff. intros i Hi. apply in_map_iff in Hi as [n [<- Hn]]. now rewrite (Hs n Hn). }
  now rewrite Hp.
Qed.
(* faithful to the code (known finding): once one variable offends, every row whose class differs from its DataType's
   DisplayName is named - here a list value that can never offend *)
Definition w_nodes : list gnode :=
  [ {| gn_id := 1; gn_cls := lit "UAVariable"; gn_bname := lit "A"; gn_display := lit "A"; gn_datatype := Some 12; gn_value := Some (VInt KInt32 (Some 1%Z)) |};
    {| gn_id := 2; gn_cls := lit "UAVariable"; gn_bname := lit "B"; gn_display := lit "B"; gn_datatype := Some 12; gn_value := Some (VList (lit "Int32") [VInt KInt32 (Some 1%Z)]) |} ].
Theorem message_over_inclusive_refuted : validate_values w_nodes [(12, lit "String")] true = Ok [lit "A"; lit "B"].
Proof. reflexivity. Qed.

(* ================= C17 ================= *)
Lemma rsequence_Forall2' {A B} (f : A -> res B) l : forall out, rsequence (map f l) = Ok out -> Forall2 (fun x y => f x = Ok y) l out.
Proof.
  induction l as [|x l IH]; intros out H; cbn in H.
  - inversion H. constructor.
  - destruct (f x) as [y|] eqn:E; [|discriminate]. cbn in H. destruct (rsequence (map f l)) as [ys|] eqn:E2; [|discriminate].
    cbn in H. inversion H; subst. constructor; [exact E | now apply IH].
Qed.
(* without an Enumeration node nothing changes *)
Theorem transform_no_enumeration nodes refs : existsb (fun n => str_eqb (gn_bname n) (lit "Enumeration")) nodes = false ->
  transform_enums nodes refs = Ok (map gn_value nodes).
Proof. unfold transform_enums. intros ->. reflexivity. Qed.
(* what the transformation does to one value: the same integer, the string defined for it, the enumeration's name *)
Theorem enum_value_exact z name d s : zassoc z d = Some s ->
  enum_of_value (VInt KInt32 (Some z)) (Some (name, d)) = Ok (VEnum (Some z) s name).
Proof. intros H. cbn. now rewrite H. Qed.
(* applying it again changes nothing *)
Theorem enum_value_idempotent v def w : enum_of_value v def = Ok w -> enum_of_value w def = Ok w.
Proof.
  unfold enum_of_value. intros H.
  assert (exists z, (match v with VInt KInt32 z => Ok z | VEnum z _ _ => Ok z | VList _ (VInt _ z :: _) => Ok z | VList _ (VEnum z _ _ :: _) => Ok z
                     | VList _ [] => Err EIndex | _ => Err EValue end) = Ok z) as [z Hz].
  { destruct (match v with VInt KInt32 z => Ok z | VEnum z _ _ => Ok z | VList _ (VInt _ z :: _) => Ok z | VList _ (VEnum z _ _ :: _) => Ok z
              | VList _ [] => Err EIndex | _ => Err EValue end) eqn:E; [eauto|discriminate]. }
  rewrite Hz in H. cbn [rbind] in H. destruct def as [[name d]|].
  - destruct z as [k|]; [|discriminate]. destruct (zassoc k d) eqn:Ek; [|discriminate]. inversion H; subst. cbn. now rewrite Ek.
  - inversion H; subst. reflexivity.
Qed.
(* every other value is left alone: the result has one entry per node, and entries of nodes that are not enum-typed
   variables are the old values *)
Definition enum_var (eid : nat) (refs : list ref) (n : gnode) : bool :=
  str_eqb (gn_cls n) (lit "UAVariable") && match gn_datatype n with Some d => memn d (map r_trg (filter (fun r => Nat.eqb (r_src r) eid) refs)) | None => false end.
Theorem transform_frame nodes refs vals eid : transform_enums nodes refs = Ok vals -> first_unique_dt (lit "Enumeration") nodes = Ok eid ->
  Forall2 (fun n v => enum_var eid refs n = false -> v = gn_value n) nodes vals.
Proof.
  unfold transform_enums. destruct (negb _).
  - intros H _. inversion H; subst. clear. induction nodes; cbn; constructor; auto.
  - intros H He. rewrite He in H. cbn [rbind] in H. fold (enum_var eid refs) in H.
    destruct (flat_map _ nodes) as [|u us].
    + inversion H; subst. clear. induction nodes; cbn; constructor; auto.
    + destruct (lookup_browsename nodes (lit "HasProperty") (Some (lit "ReferenceType"))) as [hp|]; [|discriminate]. cbn [rbind] in H.
      destruct (enum_definitions nodes refs hp (u :: us)) as [defs|]; [|discriminate]. cbn [rbind] in H.
      apply rsequence_Forall2' in H. clear -H. induction H as [|n v ns vs Hn _ IH]; constructor; [|exact IH].
      intros Hev. unfold enum_var in Hev. rewrite Hev in Hn. congruence.
Qed.
(* faithful to the code (known findings) *)
Theorem list_truncated_refuted : enum_of_value (VList (lit "Int32") [VInt KInt32 (Some 1%Z); VInt KInt32 (Some 2%Z)]) (Some (lit "E", [(1%Z, lit "On")]))
  = Ok (VEnum (Some 1%Z) (lit "On") (lit "E")).
Proof. reflexivity. Qed.
Theorem undefined_int_refuted : enum_of_value (VInt KInt32 (Some 7%Z)) (Some (lit "E", [(1%Z, lit "On")])) = Err EKey.
Proof. reflexivity. Qed.
Theorem no_definition_refuted : enum_of_value (VInt KInt32 (Some 7%Z)) None = Ok (VEnum (Some 7%Z) (lit "Unknown") (lit "Unknown")).
Proof. reflexivity. Qed.
