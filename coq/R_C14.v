From Coq Require Import String Ascii List Bool Arith.
Require Import PyStr PyInt Sexp Order M_C14.
Import ListNotations.
Definition d_gnode (x : sexp) : option gnode :=
  match x with
  | Lst [i; c; r] => obind (d_nat i) (fun i => obind (d_list d_cell c) (fun c => omap (fun r => {| g_id := i; g_cols := c; g_refcols := r |}) (d_list (d_opt d_nat) r)))
  | _ => None end.
Definition d_triple (x : sexp) : option (nat * nat * nat) :=
  match x with Lst [a; b; c] => obind (d_nat a) (fun a => obind (d_nat b) (fun b => omap (fun c => (a, b, c)) (d_nat c))) | _ => None end.
Definition e_rows (t : list row) : sexp := e_list (e_list e_cell) t.
Definition run_c14 (cmd : str) (args : list sexp) : option sexp :=
  if str_eqb cmd (lit "c14_cmp") then
    match args with
    | [u; v] => obind (d_ua u) (fun u => omap (fun v => Lst [e_bool (py_lt u v); e_bool (py_le u v); e_bool (py_gt u v); e_bool (py_ge u v)]) (d_ua v))
    | _ => None end
  else if str_eqb cmd (lit "c14_eq") then
    match args with
    | [u; v] => obind (d_uaval u) (fun u => omap (fun v => Lst [e_res e_bool (ua_eq u v); e_res e_bool (ua_eq v u)]) (d_uaval v))
    | _ => None end
  else if str_eqb cmd (lit "c14_nodes") then
    match args with
    | [lk; n] => obind (d_list (d_pair d_nat d_ua) lk) (fun lk => omap (fun n => e_rows (normalized_nodes lk n)) (d_list d_gnode n))
    | _ => None end
  else if str_eqb cmd (lit "c14_refs") then
    match args with
    | [lk; r] => obind (d_list (d_pair d_nat d_ua) lk) (fun lk => omap (fun r => e_rows (normalized_refs lk r)) (d_list d_triple r))
    | _ => None end
  else if str_eqb cmd (lit "c14_nodes_ns") then
    match args with
    | [lk; k; n] => obind (d_list (d_pair d_nat d_ua) lk) (fun lk => obind (d_nat k) (fun k => omap (fun n => e_rows (normalized_nodes_ns lk k n)) (d_list (d_pair d_gnode d_nat) n)))
    | _ => None end
  else if str_eqb cmd (lit "c14_refs_ns") then
    match args with
    | [lk; k; n; r] => obind (d_list (d_pair d_nat d_ua) lk) (fun lk => obind (d_nat k) (fun k => obind (d_list (d_pair d_gnode d_nat) n) (fun n =>
                         omap (fun r => e_rows (normalized_refs_ns lk k n r)) (d_list d_triple r))))
    | _ => None end
  else None.
