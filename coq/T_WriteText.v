(* C07 at text level: the text the writer produces (M_WriteText.doc_text, compared character for character with the implementation)
   is, for a clean document, the layout-aware spelling of an explicit element tree; hence it is well-formed and an XML reader
   gives back exactly that tree (XmlL.xparse_spell_l), whatever the display names, descriptions, identifiers and values contain. *)
From Coq Require Import String Ascii List Bool Arith NArith ZArith Lia.
Require Import PyStr PyInt Sexp Xml XmlL M_C09 T_C09 M_C08 M_C08d T_C08 T_C08s Ns Table M_Parse M_Write M_WriteText.
Import ListNotations.
Open Scope char_scope.

Lemma spell_nil_cons it its : spell [] (it :: its) = "<" :: fst it ++ ">" :: escape (snd it) ++ spell [] its.
Proof. unfold spell, seg_of. cbn [escape flat_map app]. now rewrite <- app_assoc. Qed.
Lemma spell_nil_app a b : spell [] (a ++ b) = spell [] a ++ spell [] b.
Proof. unfold spell. cbn [escape flat_map app]. now rewrite flat_map_app. Qed.
Lemma spell_nil_nil : spell [] [] = []. Proof. reflexivity. Qed.
Definition sp (t : ltree) : str := spell [] (items_l t).
Lemma spell_flat ch : spell [] (flat_map items_l ch) = flat_map (fun c => spell [] (items_l c)) ch.
Proof. induction ch as [|c ch IH]; [reflexivity|]. cbn [flat_map]. now rewrite spell_nil_app, IH. Qed.
Lemma spell_single it : spell [] [it] = "<" :: fst it ++ ">" :: escape (snd it).
Proof. rewrite spell_nil_cons, spell_nil_nil. now rewrite app_nil_r. Qed.
Lemma sp_open n a trail txt ch tl :
  sp (LElem n a trail false txt ch tl) = "<" :: n ++ spell_gattrs a ++ repeat " " trail ++ ">" :: escape txt ++ flat_map sp ch ++ "<" :: "/" :: n ++ ">" :: escape tl.
Proof.
  unfold sp at 1. cbn [items_l]. rewrite spell_nil_cons. cbn [fst snd]. rewrite spell_nil_app, spell_flat, spell_single. cbn [fst snd].
  fold sp. repeat (rewrite <- app_assoc; cbn [app]). reflexivity.
Qed.
Lemma sp_selfclose n a trail tl : sp (LElem n a trail true [] [] tl) = "<" :: n ++ spell_gattrs a ++ repeat " " trail ++ "/" :: ">" :: escape tl.
Proof. unfold sp. cbn [items_l]. rewrite spell_single. cbn [fst snd]. repeat (rewrite <- app_assoc; cbn [app]). reflexivity. Qed.
Lemma spell_ga pad k v : spell_gattr (ga pad k v) = repeat " " pad ++ " " :: k ++ "=" :: """" :: escape_attr v ++ [""""].
Proof. reflexivity. Qed.
Lemma esc_attr_noquote v : attr_esc_ok v = true -> escape_attr v = escape v.
Proof.
  unfold attr_esc_ok. intros H. apply negb_true_iff in H. induction v as [|c v IH]; [reflexivity|]. cbn [has] in H. apply orb_false_iff in H as [Hc Hv].
  unfold escape_attr, escape in *. cbn [flat_map]. rewrite (IH Hv). f_equal. unfold esc_attr_char, esc_char.
  destruct (Ascii.eqb c "&"); [reflexivity|]. destruct (Ascii.eqb c "<"); [reflexivity|]. destruct (Ascii.eqb c ">"); [reflexivity|].
  first [rewrite Hc | rewrite Ascii.eqb_sym, Hc]. reflexivity.
Qed.
Lemma esc_attr_raw v : attr_raw_ok v = true -> escape_attr v = v.
Proof. unfold attr_raw_ok. intros H. now apply str_eqb_eq in H. Qed.

(* a Reference element *)
Lemma ref_text_spelled r : ref_clean r = true -> ref_text r = sp (ref_ltree r).
Proof.
  unfold ref_clean, ref_text, ref_ltree. intros H. apply andb_true_iff in H as [Ht Hf]. rewrite sp_open. unfold spell_gattrs. cbn [flat_map repeat]. rewrite spell_ga.
  rewrite (esc_attr_noquote _ Ht). destruct (lookup_attr (lit "IsForward") (re_attrs r)) as [v|].
  - cbn [flat_map]. rewrite spell_ga, (esc_attr_raw _ Hf). unfold qt. cbn. repeat (rewrite <- app_assoc; cbn [app]). reflexivity.
  - unfold qt. cbn. repeat (rewrite <- app_assoc; cbn [app]). reflexivity.
Qed.

(* a value tree inside <Value>: the layout of the value encoders (one more blank after a ListOf name) *)
Lemma spell_gattrs_plain r : spell_gattrs (map (fun kv => {| ga_pad := 0; ga_kv := kv |}) r) = spell_attrs r.
Proof. induction r as [|kv r IH]; [reflexivity|]. unfold spell_gattrs, spell_attrs in *. cbn [map flat_map]. now rewrite IH. Qed.
Lemma sp_embed : forall t, sp (embed t) = spell_treeq noq t.
Proof.
  induction t as [n a txt ch tl IH] using (xml_ind' str (list attr) str).
  cbn [embed]. rewrite sp_open, spell_elem. f_equal. f_equal.
  assert (Ha : spell_gattrs (match a with [] => [] | kv :: r => {| ga_pad := if noq n then 1 else 0; ga_kv := kv |} :: map (fun kv => {| ga_pad := 0; ga_kv := kv |}) r end)
               ++ repeat " " (match a with [] => if noq n then 1 else 0 | _ => 0 end) = padq noq n ++ spell_attrs a).
  { unfold padq. destruct a as [|kv r].
    - cbn [spell_gattrs flat_map app spell_attrs]. destruct (noq n); reflexivity.
    - unfold spell_gattrs at 1. cbn [flat_map]. fold (spell_gattrs (map (fun kv => {| ga_pad := 0; ga_kv := kv |}) r)). rewrite spell_gattrs_plain.
      unfold spell_gattr. cbn [ga_pad ga_kv repeat]. rewrite app_nil_r. unfold spell_attrs. cbn [flat_map]. destruct (noq n); cbn [repeat app]; now rewrite <- ?app_assoc. }
  assert (F : flat_map sp (map embed ch) = flat_map (spell_treeq noq) ch).
  { induction IH as [|c ch' Hc _ IHch]; [reflexivity|]. cbn [map flat_map]. now rewrite Hc, IHch. }
  rewrite F, app_assoc, Ha, <- app_assoc. reflexivity.
Qed.

(* a node element *)
Lemma flat_map_filter {A B} (p : A -> bool) (f : A -> list B) l : flat_map (fun x => if p x then [] else f x) l = flat_map f (filter (fun x => negb (p x)) l).
Proof. induction l as [|x l IH]; [reflexivity|]. cbn [flat_map filter]. destruct (p x); cbn [negb flat_map app]; now rewrite IH. Qed.
Lemma blank_shift (l : list (str * str)) :
  " " :: flat_map (fun kv => fst kv ++ "=" :: qt (snd kv) ++ [" "]) l = flat_map (fun kv => " " :: fst kv ++ "=" :: qt (snd kv)) l ++ [" "].
Proof.
  induction l as [|kv l IH]; [reflexivity|]. cbn [flat_map]. repeat (rewrite <- app_assoc; cbn [app]). f_equal. f_equal. f_equal. f_equal. exact IH.
Qed.
Lemma spell_others l : forallb (fun kv => key_ok2 (fst kv) && attr_raw_ok (snd kv)) l = true ->
  spell_gattrs (map (fun kv => ga 0 (fst kv) (snd kv)) l) = flat_map (fun kv => " " :: fst kv ++ "=" :: qt (snd kv)) l.
Proof.
  induction l as [|kv l IH]; intros H; [reflexivity|]. cbn [forallb] in H. apply andb_true_iff in H as [Hk Hl]. apply andb_true_iff in Hk as [_ Hv].
  unfold spell_gattrs in *. cbn [map flat_map]. rewrite (IH Hl), spell_ga, (esc_attr_raw _ Hv). cbn [repeat app]. unfold qt. now rewrite <- !app_assoc.
Qed.
Lemma node_text_spelled e vt : node_clean e = true -> sp (node_ltree e vt) = node_text e (omap (spell_treeq noq) vt) ++ NL.
Proof.
  unfold node_clean. intros H. apply andb_true_iff in H as [H Hrefs]. apply andb_true_iff in H as [H Hoth]. apply andb_true_iff in H as [H Hsym].
  apply andb_true_iff in H as [H Hbn]. apply andb_true_iff in H as [_ Hnid].
  unfold node_ltree, node_text. rewrite sp_open.
  assert (Hr : flat_map sp (map ref_ltree (ne_refs e)) = flat_map ref_text (ne_refs e)).
  { clear -Hrefs. induction (ne_refs e) as [|r l IH]; [reflexivity|]. cbn [forallb] in Hrefs. apply andb_true_iff in Hrefs as [Hr Hl]. cbn [map flat_map]. now rewrite (ref_text_spelled r Hr), (IH Hl). }
  rewrite flat_map_filter. fold (other_attrs e).
  (* children *)
  assert (Hch : flat_map sp (LElem (lit "DisplayName") [] 0 false (match ne_display e with Some (Some d) => d | _ => [] end) [] []
         :: match ne_desc e with Some d => [LElem (lit "Description") [] 0 false (ostr d) [] []] | None => [] end
         ++ LElem (lit "References") [] 0 false [] (map ref_ltree (ne_refs e)) []
         :: match vt with Some t => [LElem (lit "Value") [] 0 false [] [embed t] []] | None => [] end)
       = lit "<DisplayName>" ++ escape (match ne_display e with Some (Some d) => d | _ => [] end) ++ lit "</DisplayName>"
         ++ (match ne_desc e with Some d => lit "<Description>" ++ escape (ostr d) ++ lit "</Description>" | None => [] end)
         ++ lit "<References>" ++ flat_map ref_text (ne_refs e) ++ lit "</References>"
         ++ (match omap (spell_treeq noq) vt with Some v => lit "<Value>" ++ v ++ lit "</Value>" | None => [] end)).
  { cbn [flat_map]. rewrite flat_map_app. cbn [flat_map]. rewrite !sp_open. rewrite Hr. cbn [spell_gattrs flat_map repeat app escape].
    destruct (ne_desc e) as [d|]; destruct vt as [t|]; cbn [flat_map omap]; rewrite ?sp_open; cbn [spell_gattrs flat_map repeat app escape]; rewrite ?sp_embed;
      repeat (rewrite <- app_assoc; cbn [app]); rewrite ?app_nil_r; reflexivity. }
  rewrite Hch. clear Hch Hr.
  (* attributes *)
  unfold spell_gattrs. cbn [flat_map]. rewrite flat_map_app. cbn [flat_map]. fold (spell_gattrs (map (fun kv => ga 0 (fst kv) (snd kv)) (other_attrs e))).
  rewrite (spell_others _ Hoth). rewrite !spell_ga. rewrite (esc_attr_noquote _ Hnid), (esc_attr_noquote _ Hbn).
  assert (BS : forall l rest, " " :: flat_map (fun kv : str * str => fst kv ++ "=" :: qt (snd kv) ++ [" "]) l ++ rest
                             = flat_map (fun kv : str * str => " " :: fst kv ++ "=" :: qt (snd kv)) l ++ " " :: rest).
  { intros l rest. rewrite app_comm_cons, blank_shift, <- app_assoc. reflexivity. }
  destruct (lookup_attr (lit "SymbolicName") (ne_attrs e)) as [s|].
  - cbn [flat_map]. rewrite spell_ga, (esc_attr_raw _ Hsym). cbn [repeat app].
    repeat (rewrite <- app_assoc; cbn [app]). rewrite BS. unfold qt. cbn [app]. repeat (rewrite <- app_assoc; cbn [app]). reflexivity.
  - cbn [repeat app]. repeat (rewrite <- app_assoc; cbn [app]). rewrite BS. unfold qt. cbn [app]. repeat (rewrite <- app_assoc; cbn [app]). reflexivity.
Qed.

(* the header: RequiredModel elements *)
Definition req_clean (a : list (str * str)) : bool :=
  attr_raw_ok (find_attr (lit "ModelUri") a) && attr_raw_ok (find_attr (lit "PublicationDate") a)
  && match lookup_attr (lit "Version") a with Some v => attr_raw_ok v | None => true end.
Definition req_core (a : list (str * str)) : str :=
  lit "<RequiredModel ModelUri=" ++ qt (find_attr (lit "ModelUri") a)
  ++ match lookup_attr (lit "Version") a with Some v => lit " Version=" ++ qt v | None => [] end
  ++ lit " PublicationDate=" ++ qt (find_attr (lit "PublicationDate") a) ++ lit " />".
Lemma required_one last a : req_clean a = true ->
  sp (required_ltree last a) = req_core a ++ (if last then LF :: lit "    " else LF :: lit "        ").
Proof.
  unfold req_clean, req_core, required_ltree. intros H. apply andb_true_iff in H as [H Hv]. apply andb_true_iff in H as [Hu Hp].
  rewrite sp_selfclose. unfold spell_gattrs. cbn [flat_map]. rewrite flat_map_app. cbn [flat_map]. rewrite !spell_ga, (esc_attr_raw _ Hu), (esc_attr_raw _ Hp).
  destruct (lookup_attr (lit "Version") a) as [v|].
  - cbn [flat_map]. rewrite spell_ga, (esc_attr_raw _ Hv). unfold qt. cbn [repeat app]. repeat (rewrite <- app_assoc; cbn [app]). destruct last; reflexivity.
  - unfold qt. cbn [flat_map repeat app]. repeat (rewrite <- app_assoc; cbn [app]). destruct last; reflexivity.
Qed.
Lemma required_spelled req : forallb req_clean req = true ->
  escape (match req with [] => [] | _ => LF :: lit "        " end) ++ flat_map sp (required_ltrees req) = required_text req.
Proof.
  intros H. unfold required_text. fold (req_core).
  assert (E : forall a, LF :: lit "        <RequiredModel ModelUri=" ++ qt (find_attr (lit "ModelUri") a)
                        ++ match lookup_attr (lit "Version") a with Some v => lit " Version=" ++ qt v | None => [] end
                        ++ lit " PublicationDate=" ++ qt (find_attr (lit "PublicationDate") a) ++ lit " />" = (LF :: lit "        ") ++ req_core a) by (intros a; reflexivity).
  rewrite (flat_map_ext _ _ E). clear E.
  destruct req as [|a req]; [reflexivity|]. change (escape (LF :: lit "        ")) with (LF :: lit "        ").
  revert a H. induction req as [|b req IH]; intros a H.
  - cbn [forallb] in H. apply andb_true_iff in H as [Ha _]. cbn [required_ltrees flat_map]. rewrite (required_one true a Ha). now rewrite !app_nil_r, <- app_assoc.
  - cbn [forallb] in H. apply andb_true_iff in H as [Ha Hr]. change (required_ltrees (a :: b :: req)) with (required_ltree false a :: required_ltrees (b :: req)).
    cbn [flat_map]. rewrite (required_one false a Ha). specialize (IH b Hr). cbn [flat_map] in IH.
    transitivity (((LF :: lit "        ") ++ req_core a) ++ ((LF :: lit "        ") ++ flat_map sp (required_ltrees (b :: req)))).
    { repeat (rewrite <- app_assoc; cbn [app]). reflexivity. }
    rewrite IH. repeat (rewrite <- app_assoc; cbn [app]). reflexivity.
Qed.

(* node list and URIs *)
Lemma nodes_spelled nodes : forall vts, forallb node_clean nodes = true ->
  flat_map sp (zip_ltrees nodes vts) = flat_map (fun x => x ++ NL) (zip_texts nodes (map (omap (spell_treeq noq)) vts)).
Proof.
  unfold zip_ltrees. induction nodes as [|e r IH]; intros vts H; [reflexivity|]. cbn [forallb] in H. apply andb_true_iff in H as [He Hr].
  cbn [zip_texts flat_map]. rewrite (node_text_spelled e (hd None vts) He). f_equal; [destruct vts; reflexivity|].
  rewrite (IH (tl vts) Hr). destruct vts; reflexivity.
Qed.
Lemma join_nl l : l <> [] -> join_with NL l ++ NL = flat_map (fun x => x ++ NL) l.
Proof.
  induction l as [|x r IH]; intros H; [congruence|]. destruct r as [|y r]; [cbn; now rewrite app_nil_r|].
  change (join_with NL (x :: y :: r)) with (x ++ NL ++ join_with NL (y :: r)).
  change (flat_map (fun x0 : list ascii => x0 ++ NL) (x :: y :: r)) with ((x ++ NL) ++ flat_map (fun x0 : list ascii => x0 ++ NL) (y :: r)).
  rewrite <- IH by discriminate. now rewrite <- !app_assoc.
Qed.
Lemma uris_spelled uris : forallb rawok uris = true ->
  flat_map sp (map (fun u => LElem (lit "Uri") [] 0 false u [] NL) uris) = flat_map (fun u => lit "<Uri>" ++ u ++ lit "</Uri>" ++ NL) uris.
Proof.
  induction uris as [|u r IH]; intros H; [reflexivity|]. cbn [forallb] in H. apply andb_true_iff in H as [Hu Hr]. cbn [map flat_map]. rewrite (IH Hr), sp_open.
  cbn [spell_gattrs flat_map repeat app]. rewrite (rawok_escape u Hu). f_equal. cbn. repeat (rewrite <- app_assoc; cbn [app]). reflexivity.
Qed.
Lemma zip_texts_nil nodes vals : zip_texts nodes vals = [] -> nodes = [].
Proof. destruct nodes; [reflexivity|discriminate]. Qed.

(* the whole document *)
Theorem doc_text_spelled lm d vts : doc_clean lm d = true ->
  doc_text lm d (map (omap (spell_treeq noq)) vts) = spell_l PROLOG (doc_ltree lm d vts).
Proof.
  unfold doc_clean, doc_text, doc_ltree, spell_l. cbv zeta.
  set (uris := match d_uris d with Some u => u | None => [] end).
  set (m := match d_models d with Some (m :: _) => m | _ => {| me_attrs := []; me_required := [] |} end).
  intros H. apply andb_true_iff in H as [H Hnodes]. apply andb_true_iff in H as [H Hreq]. apply andb_true_iff in H as [H Hv]. apply andb_true_iff in H as [H Hp].
  apply andb_true_iff in H as [H Hu]. apply andb_true_iff in H as [Hlm Huris].
  rewrite spell_nil_app. fold (sp (LElem (lit "UANodeSet") [ga 0 (lit "LastModified") lm; ga 1 (lit "xmlns:xsd") (lit "http://www.w3.org/2001/XMLSchema");
         ga 0 (lit "xmlns:xsi") (lit "http://www.w3.org/2001/XMLSchema-instance"); ga 0 (lit "xmlns") NODESET_NS] 0 false (match uris with [] => [LF; LF] | _ => NL end)
        (match uris with [] => [] | _ => [LElem (lit "NamespaceUris") [] 0 false NL (map (fun u => LElem (lit "Uri") [] 0 false u [] NL) uris) [LF; LF]] end
         ++ LElem (lit "Models") [] 0 false (LF :: lit "    ")
              [LElem (lit "Model") [ga 0 (lit "ModelUri") (find_attr (lit "ModelUri") (me_attrs m)); ga 0 (lit "PublicationDate") (find_attr (lit "PublicationDate") (me_attrs m));
                                    ga 0 (lit "Version") (find_attr (lit "Version") (me_attrs m))]
                     0 false (match me_required m with [] => [] | _ => LF :: lit "        " end) (required_ltrees (me_required m)) NL] NL
         :: LElem (lit "Aliases") [] 0 false [] [] (match d_nodes d with [] => [LF; LF] | _ => NL end)
         :: zip_ltrees (d_nodes d) vts) [])).
  rewrite sp_open. rewrite flat_map_app. cbn [flat_map]. rewrite !sp_open. cbn [flat_map]. rewrite !sp_open.
  rewrite (nodes_spelled (d_nodes d) vts Hnodes).
  assert (Hreq' : forallb req_clean (me_required m) = true).
  { clear -Hreq. induction (me_required m) as [|a r IH]; [reflexivity|]. cbn [forallb] in *. apply andb_true_iff in Hreq as [Ha Hr]. rewrite (IH Hr), andb_true_r.
    unfold req_clean. exact Ha. }
  rewrite (app_assoc (escape (match me_required m with [] => [] | _ => LF :: lit "        " end)) (flat_map sp (required_ltrees (me_required m)))).
  rewrite (required_spelled (me_required m) Hreq').
  unfold spell_gattrs. cbn [flat_map]. rewrite !spell_ga, (esc_attr_raw _ Hlm), (esc_attr_raw _ Hu), (esc_attr_raw _ Hp), (esc_attr_raw _ Hv).
  unfold header_text. fold uris. fold m.
  assert (Hnl : join_with NL (zip_texts (d_nodes d) (map (omap (spell_treeq noq)) vts)) ++ NL
                = escape (match d_nodes d with [] => [LF] | _ => [] end) ++ flat_map (fun x => x ++ NL) (zip_texts (d_nodes d) (map (omap (spell_treeq noq)) vts))).
  { destruct (d_nodes d) as [|e r]; [reflexivity|]. cbn [escape flat_map app]. apply join_nl. discriminate. }
  rewrite <- !app_assoc. rewrite (app_assoc (join_with NL _) NL), Hnl.
  destruct uris as [|u0 ur] eqn:Eu.
  - destruct (d_nodes d) as [|e0 er]; unfold qt, PROLOG, spell, NL; cbn; repeat (rewrite <- app_assoc; cbn [app]); reflexivity.
  - cbn [flat_map]. rewrite sp_open. rewrite (uris_spelled (u0 :: ur) Huris).
    destruct (d_nodes d) as [|e0 er]; unfold qt, PROLOG, spell, NL; cbn; repeat (rewrite <- app_assoc; cbn [app]); reflexivity.
Qed.

(* ---------- the layout tree is well named ---------- *)
Lemma embed_ok : forall t, tree_ok t = true -> ltree_ok (embed t) = true.
Proof.
  induction t as [n a txt ch tl IH] using (xml_ind' str (list attr) str). intros H. destruct (tree_ok_inv _ _ _ _ _ H) as [Hn [Ha Hc]].
  cbn [embed ltree_ok]. rewrite Hn. cbn [andb].
  assert (Hk : forallb (fun g : gattr => key_ok2 (fst (ga_kv g)))
                 (match a with [] => [] | kv :: r => {| ga_pad := if noq n then 1 else 0; ga_kv := kv |} :: map (fun kv => {| ga_pad := 0; ga_kv := kv |}) r end) = true).
  { destruct a as [|kv r]; [reflexivity|]. cbn [forallb] in *. apply andb_true_iff in Ha as [Hk Hr]. cbn [ga_kv]. rewrite Hk. cbn [andb].
    clear -Hr. induction r as [|x r IH]; [reflexivity|]. cbn [forallb map] in *. apply andb_true_iff in Hr as [Hx Hr]. cbn [ga_kv]. now rewrite Hx, IH. }
  rewrite Hk. cbn [andb]. clear Hk H Ha. induction IH as [|c ch' Hc1 _ IHch]; [reflexivity|]. inversion Hc; subst. cbn [map forallb]. rewrite (Hc1 ltac:(assumption)). now apply IHch.
Qed.
Lemma ref_ltree_ok r : ltree_ok (ref_ltree r) = true.
Proof. unfold ref_ltree. cbn [ltree_ok]. destruct (lookup_attr (lit "IsForward") (re_attrs r)); reflexivity. Qed.
Lemma node_ltree_ok e vt : node_clean e = true -> match vt with Some t => tree_ok t = true | None => True end -> ltree_ok (node_ltree e vt) = true.
Proof.
  unfold node_clean. intros H Hv. apply andb_true_iff in H as [H _]. apply andb_true_iff in H as [H Hoth]. apply andb_true_iff in H as [H _].
  apply andb_true_iff in H as [H _]. apply andb_true_iff in H as [Hn _].
  unfold node_ltree. cbn [ltree_ok]. rewrite Hn. cbn [andb].
  assert (Hk : forallb (fun g : gattr => key_ok2 (fst (ga_kv g))) (map (fun kv : str * str => ga 0 (fst kv) (snd kv)) (other_attrs e)) = true).
  { clear -Hoth. induction (other_attrs e) as [|kv l IH]; [reflexivity|]. cbn [forallb map] in *. apply andb_true_iff in Hoth as [Hk Hl]. apply andb_true_iff in Hk as [Hk _].
    cbn [ga ga_kv fst]. now rewrite Hk, IH. }
  assert (Hr : forallb ltree_ok (map ref_ltree (ne_refs e)) = true) by (induction (ne_refs e) as [|r l IH]; [reflexivity|]; cbn [map forallb]; now rewrite ref_ltree_ok, IH).
  destruct (lookup_attr (lit "SymbolicName") (ne_attrs e)); cbn [app forallb ga ga_kv fst]; rewrite Hk;
    destruct (ne_desc e); destruct vt as [t|]; cbn [app forallb ltree_ok andb]; rewrite ?Hr, ?(embed_ok t Hv); reflexivity.
Qed.
Lemma required_ltrees_ok req : forallb ltree_ok (required_ltrees req) = true.
Proof.
  induction req as [|a r IH]; [reflexivity|]. destruct r as [|b r].
  - cbn [required_ltrees forallb]. unfold required_ltree. cbn [ltree_ok]. destruct (lookup_attr (lit "Version") a); reflexivity.
  - change (required_ltrees (a :: b :: r)) with (required_ltree false a :: required_ltrees (b :: r)). cbn [forallb]. rewrite IH, andb_true_r.
    unfold required_ltree. cbn [ltree_ok]. destruct (lookup_attr (lit "Version") a); reflexivity.
Qed.
Definition vals_ok (vts : list (option xtree)) : bool := forallb (fun o => match o with Some t => tree_ok t | None => true end) vts.
Lemma zip_ltrees_ok nodes : forall vts, forallb node_clean nodes = true -> vals_ok vts = true -> forallb ltree_ok (zip_ltrees nodes vts) = true.
Proof.
  unfold zip_ltrees, vals_ok. induction nodes as [|e r IH]; intros vts H Hv; [reflexivity|]. cbn [forallb] in H. apply andb_true_iff in H as [He Hr].
  cbn [forallb]. apply andb_true_iff. split.
  - apply node_ltree_ok; [exact He|]. destruct vts as [|[t|] vr]; cbn [hd]; try exact I. cbn [forallb] in Hv. now apply andb_true_iff in Hv as [Hv _].
  - apply IH; [exact Hr|]. destruct vts as [|o vr]; [reflexivity|]. cbn [tl forallb] in *. now apply andb_true_iff in Hv as [_ Hv].
Qed.
Theorem doc_ltree_ok lm d vts : doc_clean lm d = true -> vals_ok vts = true -> ltree_ok (doc_ltree lm d vts) = true.
Proof.
  unfold doc_clean. cbv zeta. intros H Hv. apply andb_true_iff in H as [_ Hnodes].
  unfold doc_ltree. cbv zeta. cbn [ltree_ok]. change (name_ok (lit "UANodeSet")) with true. cbn [andb forallb ga ga_kv fst].
  change (key_ok2 (lit "LastModified")) with true. change (key_ok2 (lit "xmlns:xsd")) with true. change (key_ok2 (lit "xmlns:xsi")) with true. change (key_ok2 (lit "xmlns")) with true.
  cbn [andb]. rewrite forallb_app. apply andb_true_iff. split.
  - destruct (match d_uris d with Some u => u | None => [] end) as [|u0 ur]; [reflexivity|]. cbn [forallb ltree_ok andb]. rewrite andb_true_r.
    change (name_ok (lit "NamespaceUris")) with true. cbn [andb]. induction (u0 :: ur) as [|u l IH]; [reflexivity|]. cbn [map forallb ltree_ok]. now rewrite IH.
  - cbn [forallb ltree_ok]. rewrite (zip_ltrees_ok (d_nodes d) vts Hnodes Hv), (required_ltrees_ok _). reflexivity.
Qed.

(* ================= C07: the written text is well-formed and denotes exactly this tree ================= *)
Theorem written_text_wellformed lm d vts : doc_clean lm d = true -> vals_ok vts = true ->
  has CR (doc_text lm d (map (omap (spell_treeq noq)) vts)) = false ->
  xparse (doc_text lm d (map (omap (spell_treeq noq)) vts)) = Some (erase (doc_ltree lm d vts)).
Proof.
  intros Hc Hv Hcr. rewrite (doc_text_spelled lm d vts Hc) in *. apply xparse_spell_l; [reflexivity|now apply doc_ltree_ok|exact Hcr].
Qed.

(* ---------- the values: xml_encode's text is the spelling of the value's tree (C08_encode_is_spelling) ---------- *)
Lemma value_texts_rows p w : value_texts p w = map (fun x : wrow => if is_var_row x then omap (encode true) (nr_value (fst (fst x))) else None) (written_rows p w).
Proof. unfold value_texts, written_rows. destruct (str_index (wp_uri w) (p_namespaces p)); [|reflexivity]. destruct (use_refs p w _); reflexivity. Qed.
Lemma value_trees_texts p w vts : value_trees p w = Some vts -> value_texts p w = map (omap (spell_treeq noq)) vts /\ vals_ok vts = true.
Proof.
  rewrite value_texts_rows. unfold value_trees. revert vts. induction (written_rows p w) as [|x l IH]; intros vts H; cbn [omapM] in H.
  - injection H as <-. split; reflexivity.
  - destruct (value_tree_of x) as [o|] eqn:Ex; [|discriminate]. destruct (omapM value_tree_of l) as [os|] eqn:El; [|discriminate]. injection H as <-.
    destruct (IH os eq_refl) as [IH1 IH2]. cbn [map]. rewrite IH1. unfold vals_ok in *. cbn [forallb]. rewrite IH2.
    unfold value_tree_of in Ex. destruct (is_var_row x).
    + destruct (nr_value (fst (fst x))) as [v|]; [|injection Ex as <-; split; reflexivity].
      destruct (names_ok v) eqn:En; [|discriminate]. destruct (xt (xa true) v) as [t|] eqn:Et; [|discriminate]. injection Ex as <-.
      cbn [omap]. rewrite (enc_spell v true t Et). rewrite (xt_tree_ok v (xa true) t (xa_keys true) En Et). split; reflexivity.
    + injection Ex as <-. split; reflexivity.
Qed.
(* the text written for a namespace, when the graph's strings are clean, is a well-formed document whose tree is explicit *)
Theorem write_text_wellformed lm p w : text_clean lm p w = true ->
  exists d vts s, write_doc p w = Ok d /\ value_trees p w = Some vts /\ write_text lm p w = Ok s /\ xparse s = Some (erase (doc_ltree lm d vts)).
Proof.
  unfold text_clean, write_text. destruct (write_doc p w) as [d|]; [|discriminate]. destruct (value_trees p w) as [vts|] eqn:Ev; [|discriminate].
  intros H. apply andb_true_iff in H as [H Hx]. apply andb_true_iff in H as [Hc Hcr]. apply negb_true_iff in Hcr, Hx. destruct (value_trees_texts p w vts Ev) as [Ht Hok].
  exists d, vts, (doc_text lm d (value_texts p w)). split; [reflexivity|]. split; [reflexivity|]. cbn [rbind]. rewrite Hx. split; [reflexivity|].
  rewrite Ht in *. now apply written_text_wellformed.
Qed.
