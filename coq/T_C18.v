(* Proofs about model metadata and the namespace helpers (C18). *)
From Coq Require Import String Ascii List Bool Arith ZArith.
Require Import PyStr PyInt Sexp Xml M_C09 M_C08 Ns Table M_Parse T_Parse M_C18.
Import ListNotations.
Open Scope char_scope.

(* the models of a parse result are those the files declare, attribute for attribute, in file order *)
Lemma parse_file_models E ns d ns1 fo : parse_file E ns d = Ok (ns1, fo) ->
  fo_models fo = match d_models d with Some l => map model_of l | None => [] end.
Proof.
  unfold parse_file.
  destruct (match d_aliases d with Some l => preprocess_aliases l | None => Ok tt end); [|discriminate]. cbn [rbind].
  destruct (match d_uris d with Some u => ns_extend _ u | None => _ end) as [n1 m].
  destruct (match d_aliases d with Some l => build_aliases l (zmap_of m) | None => Ok [] end); [|discriminate]. cbn [rbind].
  destruct (d_nodes d); [discriminate|]. destruct (rsequence _); [|discriminate]. cbn [rbind]. intros H. inversion H; subst. reflexivity.
Qed.
Lemma parse_seq_models E : forall docs ns ns' fos, parse_seq E ns docs = Ok (ns', fos) ->
  flat_map fo_models fos = flat_map (fun d => match d_models d with Some l => map model_of l | None => [] end) docs.
Proof.
  induction docs as [|d r IH]; intros ns ns' fos H; cbn in H.
  - inversion H; subst. reflexivity.
  - destruct (parse_file E ns d) as [[ns1 fo]|] eqn:Ef; [|discriminate]. cbn in H.
    destruct (parse_seq E ns1 r) as [[ns2 fos2]|] eqn:Es; [|discriminate]. cbn in H. inversion H; subst.
    cbn [flat_map]. now rewrite (parse_file_models _ _ _ _ _ Ef), (IH _ _ _ Es).
Qed.
Theorem models_faithful E caller docs p : parse_files E caller docs = Ok p ->
  p_models p = flat_map (fun d => match d_models d with Some l => map model_of l | None => [] end)
                 (sort_docs (match caller with [] => docs | _ => filter (keep_file caller) docs end)).
Proof.
  unfold parse_files. destruct (match caller with [] => docs | _ => filter (keep_file caller) docs end) as [|d0 ds]; [discriminate|].
  destruct (parse_seq E caller _) as [[ns fos]|] eqn:Es; [|discriminate]. cbn [rbind]. intros H. inversion H; subst. cbn.
  eapply parse_seq_models; eauto.
Qed.
Theorem model_of_spec m : mo_uri (model_of m) = lookup_attr (lit "ModelUri") (me_attrs m) /\
  mo_version (model_of m) = lookup_attr (lit "Version") (me_attrs m) /\ mo_pubdate (model_of m) = lookup_attr (lit "PublicationDate") (me_attrs m) /\
  length (mo_required (model_of m)) = length (me_required m).
Proof. unfold model_of. cbn. repeat split. apply map_length. Qed.

(* the two helpers agree whenever the document has a NamespaceUris element (or is the base namespace) *)
Theorem helpers_agree d : d_uris d <> None -> xml_ns_data d = json_ns_data d.
Proof.
  intros H. unfold xml_ns_data, json_ns_data. destruct (ends_with NODESET2_NAME (d_name d)); [reflexivity|].
  destruct (obind (d_models d) first_model_uri); [|reflexivity]. destruct (d_uris d); [reflexivity|congruence].
Qed.
(* without a NamespaceUris element they differ for a non-base model: the XML helper answers, the JSON helper raises (known finding) *)
Definition doc_no_uris : doc :=
  {| d_name := lit "a.xml"; d_uris := None; d_models := Some [{| me_attrs := [(lit "ModelUri", lit "urn:x")]; me_required := [] |}];
     d_aliases := None; d_nodes := [] |}.
Theorem helpers_disagree_refuted : xml_ns_data doc_no_uris = Ok {| nd_name := Some (lit "urn:x"); nd_included := [UA_URI] |} /\ json_ns_data doc_no_uris = Err EValue.
Proof. split; reflexivity. Qed.
(* what the helpers report: the first model URI as the name; every other Uri, plus the OPC UA namespace, as dependencies *)
Lemma others_In name uris : forall init x, In x (others name uris init) <-> In x init \/ (In x uris /\ name <> Some x).
Proof.
  unfold others. induction uris as [|u r IH]; intros init x; cbn [fold_left].
  - cbn. tauto.
  - rewrite IH. destruct name as [n|].
    + destruct (str_eqb u n) eqn:E.
      * apply str_eqb_eq in E. subst. cbn. split; [intros [H|[H Hn]]; auto | intros [H|[[H|H] Hn]]; auto; subst; congruence].
      * apply str_eqb_neq in E. unfold add_set. destruct (mem_str u init) eqn:Em.
        -- unfold mem_str in Em. apply existsb_exists in Em as [y [Hy Hey]]. apply str_eqb_eq in Hey. subst y. cbn.
           split; [intros [H|[H Hn]]; auto | intros [H|[[H|H] Hn]]; auto; subst; auto].
        -- rewrite in_app_iff. cbn. split; [intros [[H|[H|[]]]|[H Hn]]; auto; subst; right; split; auto; congruence | intros [H|[[H|H] Hn]]; auto].
    + unfold add_set. destruct (mem_str u init) eqn:Em.
      * unfold mem_str in Em. apply existsb_exists in Em as [y [Hy Hey]]. apply str_eqb_eq in Hey. subst y. cbn.
        split; [intros [H|[H Hn]]; auto | intros [H|[[H|H] Hn]]; auto; subst; auto].
      * rewrite in_app_iff. cbn. split; [intros [[H|[H|[]]]|[H Hn]]; auto; subst; right; split; auto; discriminate | intros [H|[[H|H] Hn]]; auto].
Qed.
Theorem xml_ns_data_spec d nd u uri : ends_with NODESET2_NAME (d_name d) = false -> d_uris d = Some u ->
  obind (d_models d) first_model_uri = Some (Some uri) -> uri <> UA_URI -> xml_ns_data d = Ok nd ->
  nd_name nd = Some uri /\ forall x, In x (nd_included nd) <-> x = UA_URI \/ (In x u /\ x <> uri).
Proof.
  intros Hb Hu Hm Hne. unfold xml_ns_data. rewrite Hb, Hm, Hu. unfold data_for.
  destruct (str_eqb uri UA_URI) eqn:E; [apply str_eqb_eq in E; contradiction|]. cbn [nd_name nd_included].
  intros H. inversion H; subst; clear H. cbn. split; [reflexivity|]. intros x. rewrite others_In. cbn.
  split; [intros [[H|[]]|[H Hn]]; auto; right; split; auto; congruence | intros [H|[H Hn]]; auto; right; split; auto; congruence].
Qed.
(* the filter keeps exactly the files one of whose model URIs is in the list *)
Theorem filter_spec caller docs d : In d (filter_files caller docs) <->
  In d docs /\ exists n, In n caller /\ n <> [] /\ In n (file_namespaces d).
Proof.
  unfold filter_files, keep_file. rewrite filter_In, existsb_exists. split.
  - intros [H [n [Hn Hk]]]. split; [exact H|]. exists n. destruct n; [discriminate|]. repeat split; auto; [discriminate|].
    unfold mem_str in Hk. apply existsb_exists in Hk as [y [Hy He]]. apply str_eqb_eq in He. now subst.
  - intros [H [n [Hn [Hne Hf]]]]. split; [exact H|]. exists n. split; [exact Hn|]. destruct n; [congruence|].
    unfold mem_str. apply existsb_exists. exists (a :: n). split; [exact Hf|apply str_eqb_refl].
Qed.
Theorem file_namespaces_spec d x : ends_with NODESET2_NAME (d_name d) = false ->
  (In x (file_namespaces d) <-> exists l m, d_models d = Some l /\ In m l /\ lookup_attr (lit "ModelUri") (me_attrs m) = Some x /\ x <> []).
Proof.
  intros Hb. unfold file_namespaces. rewrite Hb. destruct (d_models d) as [l|]; [|split; [intros []|intros [l [m [H _]]]; discriminate]].
  rewrite in_flat_map. split.
  - intros [m [Hm Hx]]. destruct (lookup_attr (lit "ModelUri") (me_attrs m)) as [[|c u]|] eqn:E; try contradiction.
    destruct Hx as [<-|[]]. exists l, m. repeat split; auto. discriminate.
  - intros [l' [m [Hl [Hm [Hx Hne]]]]]. inversion Hl; subst l'. exists m. split; [exact Hm|]. rewrite Hx. destruct x; [congruence|now left].
Qed.
