(* Model of UAGraph.write_nodeset / nodeset_generator.create_nodeset2_file and everything below it, as the document
   (element structure) the written text denotes.  Definitions only. *)
From Coq Require Import String Ascii List Bool Arith NArith ZArith.
Require Import PyStr PyInt Sexp Xml M_C09 M_C08 Ns Table M_Parse.
Import ListNotations.
Open Scope char_scope.

Definition NODESET_NS : str := lit "http://opcfoundation.org/UA/2011/03/UANodeSet.xsd".
Record wparams := { wp_uri : str; wp_inc : bool; wp_pubdate : str; wp_now : str; wp_newver : option str; wp_fname : str }.

Fixpoint str_index (u : str) (l : list str) : option nat :=
  match l with [] => None | x :: r => if str_eqb x u then Some 0 else omap S (str_index u r) end.
Definition nid_eqb := nodeid_eqb.
Definition mem_nid (n : nodeid) (l : list nodeid) : bool := existsb (nid_eqb n) l.
Definition with_nid_ns (n : nodeid) (ns : Z) : nodeid := {| nid_ns := ns; nid_type := nid_type n; nid_value := nid_value n |}.

(* reference_type_by_browsename *)
Definition reftype_by_name (name : str) (nodes : list node_row) : res nodeid :=
  match filter (fun r => str_eqb (nr_bname r) name) (filter (fun r => str_eqb (nr_cls r) (lit "UAReferenceType")) nodes) with
  | [r] => Ok (nr_nodeid r) | _ => Err EValue end.

Definition node_attr (k : str) (r : node_row) : option aval :=
  (fix go (l : list (str * aval)) := match l with [] => None | (a, v) :: t => if str_eqb a k then Some v else go t end) (nr_attrs r).
Definition attr_targets (r : node_row) : list nodeid :=
  flat_map (fun k => match node_attr k r with Some (ANode n) => [n] | _ => [] end) (map lit ["DataType"; "ParentNodeId"; "MethodDeclarationId"]%string).
Definition WRITTEN_ATTRS : list str :=
  map lit ["DataType"; "ValueRank"; "AccessLevel"; "UserAccessLevel"; "IsAbstract"; "Symmetric"; "ParentNodeId"; "ArrayDimensions";
           "MinimumSamplingInterval"; "MethodDeclarationId"; "EventNotifier"; "Historizing"; "WriteMask"]%string.
Definition lower_ascii (c : ascii) : ascii := let n := N_of_ascii c in if ((65 <=? n) && (n <=? 90))%N then ascii_of_N (n + 32) else c.
Definition is_bool_attr (k : str) : bool := mem_str k (map lit ["IsAbstract"; "Symmetric"; "Historizing"]%string).

(* sorted, duplicate-free list of integers (namespaces_in_use after list(set(..)) and sort()) *)
Fixpoint zinsert (z : Z) (l : list Z) : list Z :=
  match l with [] => [z] | x :: r => if (z <? x)%Z then z :: l else if (z =? x)%Z then l else x :: zinsert z r end.
Definition zsort_dedup (l : list Z) : list Z := fold_right zinsert [] l.
Fixpoint zindex (z : Z) (l : list Z) : option nat := match l with [] => None | x :: r => if (x =? z)%Z then Some 0 else omap S (zindex z r) end.

(* remove_instance_level_outgoing_references: with the switch off, keep a reference iff its target is a node of the
   written namespace or its type is HasModellingRule / HasTypeDefinition *)
Definition use_refs (p : parsed) (w : wparams) (kz : Z) : res (list triple) :=
  if wp_inc w then Ok (p_refs p)
  else rbind (reftype_by_name (lit "HasModellingRule") (p_nodes p)) (fun hmr =>
       rbind (reftype_by_name (lit "HasTypeDefinition") (p_nodes p)) (fun htd =>
       let in_ns := map nr_nodeid (filter (fun r => Z.eqb (nid_ns (nr_nodeid r)) kz) (p_nodes p)) in
       Ok (filter (fun t => mem_nid (snd (fst t)) in_ns || nid_eqb (snd t) hmr || nid_eqb (snd t) htd) (p_refs p)))).
(* ---- the parts of write_nodeset / create_nodeset2_file, named so that theorems can speak about them ---- *)
(* the written namespace becomes index 1 *)
Definition w_newl (ns : list str) (k : nat) : list str :=
  nth 0 ns [] :: nth k ns [] :: map snd (filter (fun ix => negb (Nat.eqb (fst ix) 0) && negb (Nat.eqb (fst ix) k)) (combine (seq 0 (length ns)) ns)).
Definition w_remap (ns : list str) (k : nat) (i : Z) : Z :=
  match str_index (nth (Z.to_nat i) ns []) (w_newl ns k) with Some j => Z.of_nat j | None => i end.
Definition wrow := (node_row * nodeid * option Z)%type.          (* a node row, its re-indexed NodeId and browse-name namespace *)
Definition w_nodes1 (p : parsed) (k : nat) : list wrow :=
  map (fun r => (r, with_nid_ns (nr_nodeid r) (w_remap (p_namespaces p) k (nid_ns (nr_nodeid r))), omap (w_remap (p_namespaces p) k) (nr_bns r))) (p_nodes p).
Definition w_mine (p : parsed) (k : nat) : list wrow := filter (fun x => Z.eqb (nid_ns (snd (fst x))) 1) (w_nodes1 p k).
(* find_namespaces_in_use *)
Definition w_used (p : parsed) (k : nat) (refs : list triple) : list nodeid :=
  let mine := w_mine p k in
  let mine_ids := map (fun x => nr_nodeid (fst (fst x))) mine in
  mine_ids
  ++ flat_map (fun t => if mem_nid (fst (fst t)) mine_ids then [snd (fst t); snd t] else []) refs
  ++ flat_map (fun t => if mem_nid (snd (fst t)) mine_ids then [fst (fst t); snd t] else []) refs
  ++ flat_map (fun x => attr_targets (fst (fst x))) mine.
Definition w_in_use (p : parsed) (k : nat) (refs : list triple) : list Z :=
  zsort_dedup (map (fun x => nid_ns (snd (fst x))) (filter (fun x => mem_nid (nr_nodeid (fst (fst x))) (w_used p k refs)) (w_nodes1 p k))
               ++ flat_map (fun x => match snd x with Some b => [b] | None => [] end) (w_mine p k)).
Definition w_compact (in_use : list Z) (i : Z) : option Z := omap Z.of_nat (zindex i in_use).
(* the rows that become node elements: those whose compacted namespace index is 1 *)
Definition w_written (p : parsed) (k : nat) (in_use : list Z) : list wrow :=
  filter (fun x => match w_compact in_use (nid_ns (snd (fst x))) with Some c => Z.eqb c 1 | None => false end) (w_nodes1 p k).

(* lookup: original NodeId of a node in use -> its NodeId in the written document; text_of: its text ("nan" for an unknown id) *)
Definition w_lookup (p : parsed) (k : nat) (in_use : list Z) (n : nodeid) : option nodeid :=
  match find (fun x : wrow => nid_eqb (nr_nodeid (fst (fst x))) n) (w_nodes1 p k) with
  | Some x => omap (with_nid_ns n) (w_compact in_use (nid_ns (snd (fst x))))
  | None => None end.
Definition w_text_of (p : parsed) (k : nat) (in_use : list Z) (n : nodeid) : str :=
  match w_lookup p k in_use n with Some m => print_nodeid m | None => lit "nan" end.
(* generate_references_xml + the join in generate_nodes_xml: the Reference elements under the node `me` *)
Definition w_ref_elems (p : parsed) (k : nat) (in_use : list Z) (refs : list triple) (me : nodeid) : list ref_elem :=
  let text_of := w_text_of p k in_use in
  let written_ids := map (fun x : wrow => nr_nodeid (fst (fst x))) (w_written p k in_use) in
  flat_map (fun t : triple =>
    let '(s, tg, ty) := t in
    (* the join is on the NodeId texts of the written nodes *)
    if existsb (fun wid => str_eqb (text_of tg) (text_of wid)) written_ids then
      (if str_eqb (text_of tg) (text_of me) then [{| re_attrs := [(lit "ReferenceType", text_of ty); (lit "IsForward", lit "false")]; re_text := Some (text_of s) |}] else [])
    else if str_eqb (text_of s) (text_of me) then [{| re_attrs := [(lit "ReferenceType", text_of ty)]; re_text := Some (text_of tg) |}] else []) refs.

Definition w_node_elem (p : parsed) (k : nat) (in_use : list Z) (refs : list triple) (x : wrow) : node_elem :=
  let lookup := w_lookup p k in_use in
  let text_of := w_text_of p k in_use in
  let compact := w_compact in_use in
            let r := fst (fst x) in
            let me := nr_nodeid r in
            {| ne_cls := nr_cls r;
               ne_attrs := (lit "NodeId", text_of me)
                           :: match node_attr (lit "SymbolicName") r with Some (AStr s) => [(lit "SymbolicName", s)] | _ => [] end
                           ++ (lit "BrowseName", match obind (snd x) compact with Some b => decZ b | None => lit "<NA>" end ++ ":" :: nr_bname r)
                           :: flat_map (fun a =>
                                match (if str_eqb a (lit "IsAbstract") && negb (ends_with (lit "Type") (nr_cls r)) then None
                                       else if str_eqb a (lit "Symmetric") && negb (str_eqb (nr_cls r) (lit "UAReferenceType")) then None
                                       else node_attr a r) with
                                | None => []
                                | Some v =>
                                    let s := match v with
                                             | AStr s => if is_bool_attr a then map lower_ascii s else s
                                             | ABool true => lit "true" | ABool false => lit "false"
                                             | AInt z => decZ z
                                             | ANode n => match lookup n with Some m => print_nodeid m | None => [] end end in
                                    match s with [] => [] | _ => [(a, s)] end
                                end) WRITTEN_ATTRS;
               ne_display := Some (match nr_display r with [] => None | d => Some d end);
               ne_desc := Some (match nr_desc r with [] => None | d => Some d end);
               ne_refs := w_ref_elems p k in_use refs me;
               ne_value := if str_eqb (nr_cls r) (lit "UAVariable") || str_eqb (nr_cls r) (lit "UAVariableType")
                           then match nr_value r with Some v => omap (fun t => NElem NODESET_NS (lit "Value") [] None [t]) (vtree v) | None => None end
                           else None |}.

Definition write_doc (p : parsed) (w : wparams) : res doc :=
  match str_index (wp_uri w) (p_namespaces p) with
  | None => Err EValue
  | Some k =>
      let kz := Z.of_nat k in
      (* remove_instance_level_outgoing_references *)
      rbind (use_refs p w kz) (fun refs =>
      let newl := w_newl (p_namespaces p) k in
      let nodes1 := w_nodes1 p k in
      let mine := w_mine p k in
      let in_use := w_in_use p k refs in
      let newl2 := map (fun i => nth (Z.to_nat i) newl []) in_use in
      let compact := w_compact in_use in
      match newl2 with
      | _ :: u1 :: _ =>
          let lookup := w_lookup p k in_use in
          let text_of := w_text_of p k in_use in
          let written := w_written p k in_use in
          let node_elem_of := w_node_elem p k in_use refs in
          let model := find (fun m => match mo_uri m with Some u => str_eqb u u1 | None => false end) (p_models p) in
          let version := match wp_newver w with Some v => Some v | None => obind model mo_version end in
          let ostr_none (o : option str) : str := match o with Some s => s | None => lit "None" end in
          (* assert nodes["BrowseNameNamespace"].isna().sum() == 0 *)
          if existsb (fun x => match obind (snd x) compact with Some _ => false | None => true end) written then Err EOther else
          Ok {| d_name := wp_fname w;
                d_uris := Some (tl newl2);
                d_models := Some [{| me_attrs := [(lit "ModelUri", u1); (lit "PublicationDate", wp_pubdate w);
                                                  (lit "Version", match version with Some v => v | None => lit "1.0.0" end)];
                                     me_required := match model with
                                                    | Some m => map (fun rq => (lit "ModelUri", ostr_none (fst (fst rq)))
                                                                               :: match snd rq with Some v => [(lit "Version", v)] | None => [] end
                                                                               ++ [(lit "PublicationDate", match snd (fst rq) with Some d => d | None => wp_now w end)]) (mo_required m)
                                                    | None => [] end |}];
                d_aliases := Some [];
                d_nodes := map node_elem_of written |}
      | _ => Err EIndex
      end)
  end.

(* the regularity conditions of theorem C06_node_elements, as a decision procedure (evaluated by the runner on every generated case) *)
Fixpoint nodup_str (l : list str) : bool := match l with [] => true | x :: r => negb (existsb (str_eqb x) r) && nodup_str r end.
Definition regular_b (p : parsed) (k : nat) (refs : list triple) : bool :=
  nodup_str (p_namespaces p) && Nat.ltb 0 k && Nat.ltb k (length (p_namespaces p))
  && forallb (fun r => (0 <=? nid_ns (nr_nodeid r))%Z && (nid_ns (nr_nodeid r) <? Z.of_nat (length (p_namespaces p)))%Z
                       && match nr_bns r with Some b => (0 <=? b)%Z | None => true end) (p_nodes p)
  && existsb (Z.eqb 0) (w_in_use p k refs)
  && existsb (fun r => Z.eqb (nid_ns (nr_nodeid r)) (Z.of_nat k)) (p_nodes p).
Definition write_regular (p : parsed) (w : wparams) : bool :=
  match str_index (wp_uri w) (p_namespaces p) with
  | Some k => match use_refs p w (Z.of_nat k) with Ok refs => regular_b p k refs | Err _ => false end
  | None => false end.
