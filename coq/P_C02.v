(* C02 - the references table is exactly the declared relation, oriented forward *)
From Coq Require Import String Ascii List Bool Arith NArith ZArith.
Require Import PyStr PyInt Sexp Xml M_C09 M_C08 Ns Table M_Parse T_Parse.
Import ListNotations.
Open Scope char_scope.

(* a triple appears once, however often and in however many files it is declared *)
Theorem C02_no_duplicates : forall E caller docs p,
  parse_files E caller docs = Ok p -> NoDup (p_refs p).
Proof. exact C02_no_duplicates. Qed.

(* a Reference on node src with text trg is src->trg unless IsForward is exactly "false"; its type is resolved from alias or NodeId *)
Theorem C02_orientation : forall src nsmap amap r t,
  parse_ref src nsmap amap r = Ok t ->
  exists text tytext trg ty, re_text r = Some text /\ lookup_attr (lit "ReferenceType") (re_attrs r) = Some tytext /\
    parse_nodeid (rstrip text) nsmap amap = Ok trg /\ parse_nodeid tytext nsmap amap = Ok ty /\
    t = (if is_forward (re_attrs r) then (src, trg, ty) else (trg, src, ty)).
Proof. exact C02_orientation. Qed.

(* the triples of a file are exactly those its Reference elements declare (none lost, none invented), with no condition on the endpoints being defined anywhere *)
Theorem C02_file_exact : forall E ns d ns1 fo,
  parse_file E ns d = Ok (ns1, fo) ->
  let nsmap := zmap_of (snd (file_ns ns d)) in
  exists amap, (match d_aliases d with Some l => build_aliases l nsmap | None => Ok [] end) = Ok amap /\
  NoDup (fo_refs fo) /\
  forall t, In t (fo_refs fo) <->
    exists e r nid src, In e (d_nodes d) /\ In r (ne_refs e) /\ lookup_attr (lit "NodeId") (ne_attrs e) = Some nid /\
      parse_nodeid nid nsmap amap = Ok src /\ parse_ref src nsmap amap r = Ok t.
Proof. exact C02_file_exact. Qed.

(* over a file set: exactly the triples of the parsed files *)
Theorem C02_all_files : forall E caller docs p,
  parse_files E caller docs = Ok p ->
  exists ns fos, parse_seq E caller (sort_docs (match caller with [] => docs | _ => filter (keep_file caller) docs end)) = Ok (ns, fos) /\
  NoDup (p_refs p) /\ forall t, In t (p_refs p) <-> exists fo, In fo fos /\ In t (fo_refs fo).
Proof. exact C02_all_files. Qed.

Print Assumptions C02_no_duplicates.
Print Assumptions C02_orientation.
Print Assumptions C02_file_exact.
Print Assumptions C02_all_files.
