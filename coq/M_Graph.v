(* Graph-level models: UAGraph construction check and browse-name look-ups (C11), the write-time value validator
   (C16) and transform_ints_to_enums (C17).  Tables are lists of rows; ids are natural numbers.  Definitions only. *)
From Coq Require Import String Ascii List Bool Arith ZArith.
Require Import PyStr PyInt Sexp Xml M_C09 M_C08 M_C12.
Import ListNotations.
Open Scope char_scope.

Record gnode := { gn_id : nat; gn_cls : str; gn_bname : str; gn_display : str; gn_datatype : option nat; gn_value : option uav }.

(* ================= C11 ================= *)
Inductive closed_result := CClosed | CMissingSources (rows : list ref) | CMissingTargets (rows : list ref).
(* UAGraph.__validate_referenced_nodes_exists: sources first, then targets; the message lists the references whose
   missing endpoint is not a node, with their present endpoint *)
Definition check_closed (ids : list nat) (refs : list ref) : closed_result :=
  match filter (fun r => negb (memn (r_src r) ids)) refs with
  | (_ :: _) as rows => CMissingSources rows
  | [] => match filter (fun r => negb (memn (r_trg r) ids)) refs with
          | (_ :: _) as rows => CMissingTargets rows
          | [] => CClosed end
  end.
(* __ua_nodeclass_by_browsename *)
Definition lookup_browsename (nodes : list gnode) (name : str) (cls : option str) : res nat :=
  match name with
  | [] => Err EValue
  | _ =>
      let pool := match cls with Some c => filter (fun n => str_eqb (gn_cls n) (lit "UA" ++ c)) nodes | None => nodes end in
      match filter (fun n => str_eqb (gn_bname n) name) pool with
      | [n] => Ok (gn_id n)
      | _ => Err EValue
      end
  end.

(* ================= C16 ================= *)
Definition cls_string (v : uav) : str :=
  match v with
  | VBool _ => lit "UABoolean" | VInt k _ => lit "UA" ++ ikind_name k | VFloat true _ => lit "UADouble" | VFloat false _ => lit "UAFloat"
  | VString _ => lit "UAString" | VGuid _ => lit "UAGuid" | VDateTime _ => lit "UADateTime" | VByteString _ => lit "UAByteString"
  | VNodeId n => match split_once "(" (print_nodeid n) with Some (a, _) => a | None => print_nodeid n end
  | VLocText _ _ => lit "UALocalizedText" | VEUInfo _ _ _ _ _ _ => lit "UAEngineeringUnits" | VRange _ _ => lit "UAEURange"
  | VExtObj _ _ => lit "UAExtensionObject" | VXmlRaw _ | VXmlTree _ => lit "UAXMLElement" | VList _ _ => lit "UAListOf"
  | VEnum _ _ _ => lit "UAEnumeration" | VNone => lit "None" end.
(* constants.DATA_TYPES_MAPPING *)
Definition DT_MAPPING : list (str * str) :=
  map (fun p => (lit (fst p), lit (snd p)))
    [("UABoolean", "Boolean"); ("UASByte", "SByte"); ("UAByte", "Byte"); ("UAInt16", "Int16"); ("UAUInt16", "UInt16"); ("UAInt32", "Int32");
     ("UAUInt32", "UInt32"); ("UAInt64", "Int64"); ("UAUInt64", "UInt64"); ("UAFloat", "Float"); ("UADouble", "Double"); ("UAString", "String");
     ("UADateTime", "DateTime"); ("UAGuid", "Guid"); ("UAByteString", "ByteString"); ("UAXMLElement", "XmlElement"); ("UANodeId", "NodeId");
     ("UAExpandedNodeId", "ExpandedNodeId"); ("UAStatusCode", "StatusCode"); ("UAQualifiedName", "QualifiedName"); ("UALocalizedText", "LocalizedText");
     ("UAExtensionObject", "ExtensionObject"); ("UADataValue", "DataValue"); ("UAVariant", "Variant"); ("UADiagnosticInfo", "DiagnosticInfo")]%string.
Definition SIMPLE_NAMES : list str := map snd DT_MAPPING.
Definition datatype_class (c : str) : str := match assoc_str c DT_MAPPING with Some s => s | None => c end.
Fixpoint nat_lookup {A} (k : nat) (l : list (nat * A)) : option A :=
  match l with [] => None | (a, b) :: r => if Nat.eqb a k then Some b else nat_lookup k r end.
(* the DisplayName of the DataType node, or the id's decimal text when it is not a UADataType row *)
Definition expected_type (dtnames : list (nat * str)) (dt : nat) : str :=
  match nat_lookup dt dtnames with Some s => s | None => dec (N.of_nat dt) end.
Record vinfo := { vi_display : str; vi_class : str; vi_expected : str }.
Definition validate_values (nodes : list gnode) (dtnames : list (nat * str)) (has_dt_column : bool) : res (list str) :=
  (* Ok []: valid; Err EValidation: rejected; the second component of the decision, the names, is given by invalid_names *)
  let rows := filter (fun n => str_eqb (gn_cls n) (lit "UAVariable") && match gn_value n with Some _ => true | None => false end) nodes in
  match rows with
  | [] => Ok []
  | _ =>
      if negb has_dt_column then Err EKey            (* df["DataType"] when no node of the graph has the attribute *)
      else if existsb (fun n => match gn_datatype n with None => true | Some _ => false end) rows then Err EValidation
      else
        let info := map (fun n => {| vi_display := gn_display n;
                                     vi_class := datatype_class (cls_string (match gn_value n with Some v => v | None => VNone end));
                                     vi_expected := expected_type dtnames (match gn_datatype n with Some d => d | None => 0 end) |}) rows in
        let valid i := str_eqb (vi_class i) (vi_expected i) in
        let skip i := str_eqb (vi_class i) (lit "UAListOf") || negb (mem_str (vi_expected i) SIMPLE_NAMES) in
        let potential := filter (fun i => negb (skip i)) info in
        if forallb valid potential then Ok []
        else if existsb (fun i => negb (str_eqb (vi_class i) (lit "UAEnumeration"))) potential
             then Ok (map vi_display (filter (fun i => negb (valid i)) info))      (* rejected: these names are listed *)
             else Ok []
  end.
(* validate_values returns Ok [] when the write goes ahead, Ok (n :: _) when ValidationError names those rows,
   Err EValidation for the missing-DataType error *)

(* ================= C17 ================= *)
(* an enumeration definition: integer -> text *)
Definition enum_def := list (Z * str).
Fixpoint zassoc (k : Z) (l : enum_def) : option str := match l with [] => None | (a, b) :: r => if Z.eqb a k then Some b else zassoc k r end.
(* create_enum_dict_from_enum_tuples on the items of the property's list value *)
Definition contains_name (sub : str) (t : nxml) : bool := contains sub (nname t).
Definition enum_value_entry (t : nxml) : res (Z * str) :=
  (* root <EnumValueType>: first child whose name contains "Value" gives the integer, first child containing "DisplayName"
     then its first child containing "Text" gives the text *)
  if contains_name (lit "EnumValueType") t then
    match find (contains_name (lit "Value")) (nchildren t), find (contains_name (lit "DisplayName")) (nchildren t) with
    | Some v, Some dn =>
        match ntext v, find (contains_name (lit "Text")) (nchildren dn) with
        | Some vt, Some tx => match py_nat vt with Some z => Ok (Z.of_N z, ostr (ntext tx)) | None => Err EUnsupported end
        | _, _ => Err EOther
        end
    | _, _ => Err EIndex
    end
  else Err EIndex.
Fixpoint enum_dict_items (items : list uav) (index : Z) : res enum_def :=
  match items with
  | [] => Ok []
  | VLocText t _ :: r => rmap (fun d => d ++ [(index, ostr t)]) (enum_dict_items r (index + 1)%Z)
  | VExtObj _ (VXmlTree t) :: r => rbind (enum_value_entry t) (fun e => rmap (fun d => d ++ [e]) (enum_dict_items r (index + 1)%Z))
  | _ => Err EValue
  end.
(* later entries overwrite earlier ones for the same key: look-ups go through the reversed accumulation *)
Definition enum_dict (v : uav) : res enum_def :=
  match v with
  | VList _ items => rbind (enum_dict_items items 0%Z) (fun d => match d with [] => Err EValue | _ => Ok d end)
  | _ => Err EType
  end.
Definition first_unique_dt (name : str) (nodes : list gnode) : res nat := lookup_browsename nodes name (Some (lit "DataType")).
(* the definitions of the enumeration types in use: (type id, name, dict), one per HasProperty target that has a value *)
Definition enum_definitions (nodes : list gnode) (refs : list ref) (hasprop : nat) (used : list nat) : res (list (nat * str * enum_def)) :=
  rsequence (flat_map (fun t =>
    if memn (gn_id t) used then
      flat_map (fun r =>
        if Nat.eqb (r_src r) (gn_id t) && Nat.eqb (r_type r) hasprop then
          match find (fun n => Nat.eqb (gn_id n) (r_trg r)) nodes with
          | Some pn => match gn_value pn with Some v => [rmap (fun d => (gn_id t, gn_bname t, d)) (enum_dict v)] | None => [] end
          | None => [] end
        else []) refs
    else []) nodes).
Definition enum_of_value (v : uav) (def : option (str * enum_def)) : res uav :=
  let int_of := match v with
                | VInt KInt32 z => Ok z | VEnum z _ _ => Ok z
                | VList _ (VInt _ z :: _) => Ok z | VList _ (VEnum z _ _ :: _) => Ok z
                | VList _ [] => Err EIndex
                | _ => Err EValue end in
  rbind int_of (fun z =>
  match def with
  | None => Ok (VEnum z (lit "Unknown") (lit "Unknown"))
  | Some (name, d) => match z with
                      | Some k => match zassoc k d with Some s => Ok (VEnum z s name) | None => Err EKey end
                      | None => Err EKey end
  end).
Definition opt_list_nat (o : option nat) : list nat := match o with Some x => [x] | None => [] end.
(* transform_ints_to_enums: the new Value column (one entry per node, in order) *)
Definition transform_enums (nodes : list gnode) (refs : list ref) : res (list (option uav)) :=
  if negb (existsb (fun n => str_eqb (gn_bname n) (lit "Enumeration")) nodes) then Ok (map gn_value nodes)
  else
    rbind (first_unique_dt (lit "Enumeration") nodes) (fun eid =>
    let children := map r_trg (filter (fun r => Nat.eqb (r_src r) eid) refs) in
    let is_enum_var n := str_eqb (gn_cls n) (lit "UAVariable") && match gn_datatype n with Some d => memn d children | None => false end in
    let used := flat_map (fun n => if is_enum_var n then opt_list_nat (gn_datatype n) else []) nodes in
    match used with
    | [] => Ok (map gn_value nodes)
    | _ =>
        rbind (lookup_browsename nodes (lit "HasProperty") (Some (lit "ReferenceType"))) (fun hasprop =>
        rbind (enum_definitions nodes refs hasprop used) (fun defs =>
        rsequence (map (fun n =>
          if is_enum_var n then
            match gn_value n with
            | None => Ok None
            | Some v =>
                let d := match gn_datatype n with Some dt => find (fun x => Nat.eqb (fst (fst x)) dt) defs | None => None end in
                rmap Some (enum_of_value v (omap (fun x => (snd (fst x), snd x)) d))
            end
          else Ok (gn_value n)) nodes)))
    end).
