(* C05, the models: the Model element write_doc produces for namespace U, read by the parser, is U's model with its version and its required
   models (URI and version each); the publication dates are replaced by design (the caller's time stamp / now()). *)
From Coq Require Import String Ascii List Bool Arith NArith ZArith Lia.
Require Import PyStr PyInt Sexp Xml M_C09 M_C08 Ns Table M_Parse T_Parse M_C18 T_C18 M_Write T_C05r T_C05a.
Import ListNotations.

Definition ostr_none (o : option str) : str := match o with Some s => s | None => lit "None" end.
(* the graph's model of URI u, if it has one (the first, as the code's list comprehension picks it) *)
Definition model_of_uri (p : parsed) (u : str) : option model_out :=
  find (fun m => match mo_uri m with Some u' => str_eqb u' u | None => false end) (p_models p).
(* what the re-parsed document reports for it *)
Definition reparsed_model (p : parsed) (w : wparams) (u : str) : model_out :=
  let model := model_of_uri p u in
  {| mo_uri := Some u; mo_pubdate := Some (wp_pubdate w);
     mo_version := Some (match (match wp_newver w with Some v => Some v | None => obind model mo_version end) with Some v => v | None => lit "1.0.0" end);
     mo_required := match model with
                    | Some m => map (fun rq => (Some (ostr_none (fst (fst rq))), Some (match snd (fst rq) with Some d => d | None => wp_now w end), snd rq)) (mo_required m)
                    | None => [] end |}.

Lemma write_doc_models p w d k refs : str_index (wp_uri w) (p_namespaces p) = Some k -> use_refs p w (Z.of_nat k) = Ok refs -> write_doc p w = Ok d ->
  exists u1 rest me, d_uris d = Some (u1 :: rest) /\ d_models d = Some [me] /\ model_of me = reparsed_model p w u1.
Proof.
  intros Hk Hrefs Hw. unfold write_doc in Hw. rewrite Hk, Hrefs in Hw. cbn [rbind] in Hw.
  set (in_use := w_in_use p k refs) in *.
  set (newl2 := map (fun i : Z => nth (Z.to_nat i) (w_newl (p_namespaces p) k) []) in_use) in *.
  destruct newl2 as [|u0 [|u1 rest]] eqn:En; try discriminate.
  match type of Hw with (if ?c then _ else _) = _ => destruct c; [discriminate|] end.
  injection Hw as <-. cbn [d_uris d_models tl].
  eexists u1, rest, _. split; [reflexivity|]. split; [reflexivity|].
  unfold model_of, reparsed_model, model_of_uri. cbn [me_attrs me_required].
  f_equal.
  destruct (find _ (p_models p)) as [m|]; [|reflexivity].
  rewrite map_map. apply map_ext. intros [[ru rp] rv]. cbn [fst snd].
  destruct rv as [v|]; reflexivity.
Qed.

(* one written document, parsed in any context *)
Theorem models_roundtrip E ns p w d k refs ns1 fo : str_index (wp_uri w) (p_namespaces p) = Some k -> use_refs p w (Z.of_nat k) = Ok refs ->
  write_doc p w = Ok d -> parse_file E ns d = Ok (ns1, fo) ->
  exists u1 rest, d_uris d = Some (u1 :: rest) /\ fo_models fo = [reparsed_model p w u1].
Proof.
  intros Hk Hrefs Hw Hp. destruct (write_doc_models p w d k refs Hk Hrefs Hw) as [u1 [rest [me [Hu [Hm Hme]]]]].
  exists u1, rest. split; [exact Hu|]. rewrite (parse_file_models _ _ _ _ _ Hp), Hm. cbn [map]. now rewrite Hme.
Qed.

(* assembled: the written document among the documents of a parse *)
Theorem models_assembled E caller docs q : parse_files E caller docs = Ok q ->
  forall p w d k refs, In d (kept caller docs) -> str_index (wp_uri w) (p_namespaces p) = Some k -> use_refs p w (Z.of_nat k) = Ok refs ->
  write_doc p w = Ok d -> exists u1 rest, d_uris d = Some (u1 :: rest) /\ In (reparsed_model p w u1) (p_models q).
Proof.
  intros Hq p w d k refs Hin Hk Hrefs Hw.
  destruct (write_doc_models p w d k refs Hk Hrefs Hw) as [u1 [rest [me [Hu [Hm Hme]]]]].
  exists u1, rest. split; [exact Hu|].
  rewrite (models_faithful _ _ _ _ Hq). apply in_flat_map. exists d. split.
  - apply sort_docs_In. exact Hin.
  - rewrite Hm. cbn [map]. left. exact Hme.
Qed.

(* the fields the property names: version kept when the graph's model has one and no new version is asked for; required models keep URI and version *)
Theorem reparsed_model_version p w u m v : model_of_uri p u = Some m -> mo_version m = Some v -> wp_newver w = None ->
  mo_version (reparsed_model p w u) = Some v.
Proof. intros Hm Hv Hn. unfold reparsed_model. rewrite Hm, Hn. cbn [obind mo_version]. now rewrite Hv. Qed.
Theorem reparsed_model_newver p w u v : wp_newver w = Some v -> mo_version (reparsed_model p w u) = Some v.
Proof. intros Hn. unfold reparsed_model. now rewrite Hn. Qed.
Theorem reparsed_model_required p w u m : model_of_uri p u = Some m ->
  map (fun rq => (fst (fst rq), snd rq)) (mo_required (reparsed_model p w u)) = map (fun rq => (Some (ostr_none (fst (fst rq))), snd rq)) (mo_required m).
Proof. intros Hm. unfold reparsed_model. rewrite Hm. cbn [mo_required]. rewrite map_map. apply map_ext. intros [[ru rp] rv]. reflexivity. Qed.
(* the recorded finding 'model-version-defaulted', as a statement: a model without a Version comes back with "1.0.0" *)
Theorem reparsed_model_version_defaulted p w u m : model_of_uri p u = Some m -> mo_version m = None -> wp_newver w = None ->
  mo_version (reparsed_model p w u) = Some (lit "1.0.0").
Proof. intros Hm Hv Hn. unfold reparsed_model. rewrite Hm, Hn. cbn [obind]. now rewrite Hv. Qed.

(* ---- the statements are not vacuous: the example graph of T_C05r.v with a model for the written namespace that has a version and two required models
   (one without a version), and a second model without a version ---- *)
Definition ex_pm : parsed :=
  {| p_namespaces := p_namespaces ex_p; p_nodes := p_nodes ex_p; p_refs := p_refs ex_p;
     p_models := [ {| mo_uri := Some (lit "urn:b"); mo_pubdate := None; mo_version := None; mo_required := [] |};
                   {| mo_uri := Some (lit "urn:a"); mo_pubdate := Some (lit "2019-05-01T00:00:00Z"); mo_version := Some (lit "2.1");
                      mo_required := [(Some UA_URI, Some (lit "2019-01-01T00:00:00Z"), Some (lit "1.04")); (Some (lit "urn:b"), None, None)] |} ] |}.
Example models_roundtrip_example :
  rbind (write_doc ex_pm ex_w) (fun d => rmap (fun r => fo_models (snd r)) (parse_file [] [] d))
  = Ok [ {| mo_uri := Some (lit "urn:a"); mo_pubdate := Some (lit "2020-01-01T00:00:00Z"); mo_version := Some (lit "2.1");
            mo_required := [(Some UA_URI, Some (lit "2019-01-01T00:00:00Z"), Some (lit "1.04")); (Some (lit "urn:b"), Some (lit "2020-01-01T00:00:00Z"), None)] |} ]
  /\ reparsed_model ex_pm ex_w (lit "urn:a")
     = {| mo_uri := Some (lit "urn:a"); mo_pubdate := Some (lit "2020-01-01T00:00:00Z"); mo_version := Some (lit "2.1");
          mo_required := [(Some UA_URI, Some (lit "2019-01-01T00:00:00Z"), Some (lit "1.04")); (Some (lit "urn:b"), Some (lit "2020-01-01T00:00:00Z"), None)] |}
  /\ mo_version (reparsed_model ex_pm {| wp_uri := lit "urn:b"; wp_inc := true; wp_pubdate := lit "d"; wp_now := lit "n"; wp_newver := None; wp_fname := lit "b.xml" |} (lit "urn:b"))
     = Some (lit "1.0.0").
Proof. repeat split; vm_compute; reflexivity. Qed.
