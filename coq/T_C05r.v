(* C05 / C06, composed for the references: writing namespace U and parsing the written document yields exactly the graph's
   references with an endpoint in U (after the outgoing-reference switch), each endpoint and type denoting - through the parser's
   namespace table - the same (URI, identifier) as in the graph. *)
From Coq Require Import String Ascii List Bool Arith NArith ZArith Lia Sorted.
Require Import PyStr PyInt Sexp Xml M_C09 T_C09 M_C08 Ns Table M_Parse T_Parse M_Write T_Write T_Write2 T_C05.
Import ListNotations.
Open Scope char_scope.

(* ---- text that ends in no blank is not changed by rstrip ---- *)
Lemma lstrip_length s : length (lstrip s) <= length s.
Proof. induction s as [|c s IH]; [cbn; lia|]. cbn [lstrip]. destruct (is_space c); cbn [length]; lia. Qed.
Lemma lstrip_fix_app s c t : lstrip s = s -> is_space c = false -> lstrip (s ++ c :: t) = s ++ c :: t.
Proof.
  destruct s as [|x s]; intros Hs Hc; cbn [app lstrip]; [now rewrite Hc|].
  cbn [lstrip] in Hs. destruct (is_space x); [|reflexivity]. exfalso. pose proof (lstrip_length s) as L. rewrite Hs in L. cbn [length] in L. lia.
Qed.
Lemma rstrip_fix_app a c b : rstrip b = b -> is_space c = false -> rstrip (a ++ c :: b) = a ++ c :: b.
Proof.
  unfold rstrip. intros Hb Hc. assert (Hl : lstrip (rev b) = rev b) by (rewrite <- (rev_involutive (lstrip (rev b))), Hb; reflexivity).
  assert (E : rev (a ++ c :: b) = rev b ++ c :: rev a).
  { rewrite rev_app_distr. cbn [rev]. rewrite <- app_assoc. reflexivity. }
  rewrite E, (lstrip_fix_app _ c (rev a) Hl Hc), <- E. apply rev_involutive.
Qed.
Lemma rstrip_print m : rstrip (nid_value m) = nid_value m -> rstrip (print_nodeid m) = print_nodeid m.
Proof.
  intros H. unfold print_nodeid. destruct (nid_ns m =? 0)%Z.
  - apply (rstrip_fix_app [type_char (nid_type m)] "=" (nid_value m) H). reflexivity.
  - change (lit "ns=" ++ decZ (nid_ns m) ++ ";" :: type_char (nid_type m) :: "=" :: nid_value m)
      with (lit "ns=" ++ decZ (nid_ns m) ++ [";"; type_char (nid_type m)] ++ "=" :: nid_value m).
    rewrite !app_assoc. apply rstrip_fix_app; [exact H|reflexivity].
Qed.
Lemma zindex_In z l : In z l -> exists j, zindex z l = Some j.
Proof.
  induction l as [|x r IH]; intros H; [contradiction|]. cbn [zindex]. destruct (Z.eqb_spec x z); [eauto|].
  destruct H as [->|H]; [contradiction|]. destruct (IH H) as [j ->]. cbn. eauto.
Qed.
Lemma lookup_reftype a l : lookup_attr (lit "ReferenceType") ((lit "ReferenceType", a) :: l) = Some a. Proof. reflexivity. Qed.
Lemma is_forward_inv a : is_forward [(lit "ReferenceType", a); (lit "IsForward", lit "false")] = false. Proof. reflexivity. Qed.
Lemma is_forward_fwd a : is_forward [(lit "ReferenceType", a)] = true. Proof. reflexivity. Qed.

(* ---- the written document, taken apart ---- *)
Lemma write_doc_parts p w d k refs : str_index (wp_uri w) (p_namespaces p) = Some k -> use_refs p w (Z.of_nat k) = Ok refs -> write_doc p w = Ok d ->
  let in_use := w_in_use p k refs in
  let newl2 := map (fun i : Z => nth (Z.to_nat i) (w_newl (p_namespaces p) k) []) in_use in
  d_uris d = Some (tl newl2) /\ d_aliases d = Some [] /\ d_nodes d = map (w_node_elem p k in_use refs) (w_written p k in_use) /\ 2 <= length newl2.
Proof.
  intros Hk Hrefs Hw in_use newl2. unfold write_doc in Hw. rewrite Hk, Hrefs in Hw. cbn [rbind] in Hw. fold in_use in Hw. fold newl2 in Hw.
  destruct newl2 as [|u0 [|u1 rest]] eqn:En; try discriminate.
  match type of Hw with (if ?c then _ else _) = _ => destruct c; [discriminate|] end.
  injection Hw as <-. cbn [d_uris d_aliases d_nodes tl length]. repeat split; lia.
Qed.

Section RefsRoundtrip.
  Variables (E : ext) (ns : list str) (p : parsed) (w : wparams) (d : doc) (k : nat) (refs : list triple) (ns1 : list str) (fo : file_out).
  Hypothesis Hk : str_index (wp_uri w) (p_namespaces p) = Some k.
  Hypothesis Hrefs : use_refs p w (Z.of_nat k) = Ok refs.
  Hypothesis Hreg : regular p k refs.
  Hypothesis Hw : write_doc p w = Ok d.
  Hypothesis Hp : parse_file E ns d = Ok (ns1, fo).
  Hypothesis Hvalid : forall r, In r (p_nodes p) -> valid (nr_nodeid r) = true.
  Hypothesis Hclean : forall r, In r (p_nodes p) -> rstrip (nid_value (nr_nodeid r)) = nid_value (nr_nodeid r).
  Hypothesis Hzero : nth_error ns1 0 = Some (nth 0 (p_namespaces p) []).
  Let in_use := w_in_use p k refs.
  Let W := map (fun x : wrow => nr_nodeid (fst (fst x))) (w_written p k in_use).
  Let nsmap := zmap_of (snd (file_ns ns d)).
  Definition is_node (n : nodeid) : Prop := exists r, In r (p_nodes p) /\ nr_nodeid r = n.
  Definition touches (t : triple) : bool := mem_nid (snd (fst t)) W || mem_nid (fst (fst t)) W.
  Definition same_node (n n' : nodeid) : Prop :=
    nid_type n' = nid_type n /\ nid_value n' = nid_value n /\ (0 <= nid_ns n')%Z /\
    nth_error ns1 (Z.to_nat (nid_ns n')) = Some (nth (Z.to_nat (nid_ns n)) (p_namespaces p) []).

  Let Hc := let '(conj Hnd (conj Hkk (conj Hi (conj H0 Hne)))) := Hreg in
            compact_one in_use (zsort_sorted _) (in_use_nonneg p k refs Hi) H0 (in_use_has_one p k refs Hnd Hkk Hi Hne).
  Lemma mine_written : w_mine p k = w_written p k in_use.
  Proof.
    unfold w_mine, w_written. apply filter_ext. intros x. destruct (w_compact in_use (nid_ns (snd (fst x)))) as [c|] eqn:Ec.
    - destruct (Z.eqb_spec c 1) as [->|Hc1].
      + apply Hc in Ec. now rewrite Ec.
      + destruct (Z.eqb_spec (nid_ns (snd (fst x))) 1) as [E1|]; [|reflexivity]. apply Hc in E1. congruence.
    - destruct (Z.eqb_spec (nid_ns (snd (fst x))) 1) as [E1|]; [|reflexivity]. apply Hc in E1. congruence.
  Qed.
  Lemma touch_used s tg ty : In (s, tg, ty) refs -> touches (s, tg, ty) = true -> In s (w_used p k refs) /\ In tg (w_used p k refs) /\ In ty (w_used p k refs).
  Proof.
    intros Hin Ht. unfold touches in Ht. cbn [fst snd] in Ht. unfold w_used. rewrite mine_written. fold W.
    apply orb_true_iff in Ht as [Ht|Ht].
    - assert (X : In s (flat_map (fun t : triple => if mem_nid (snd (fst t)) W then [fst (fst t); snd t] else []) refs) /\
                  In ty (flat_map (fun t : triple => if mem_nid (snd (fst t)) W then [fst (fst t); snd t] else []) refs)).
      { split; apply in_flat_map; exists (s, tg, ty); (split; [exact Hin|]); cbn [fst snd]; rewrite Ht; cbn; tauto. }
      destruct X as [X1 X2]. repeat split.
      + apply in_or_app. right. apply in_or_app. right. apply in_or_app. now left.
      + apply in_or_app. left. now apply mem_nid_In.
      + apply in_or_app. right. apply in_or_app. right. apply in_or_app. now left.
    - assert (X : In tg (flat_map (fun t : triple => if mem_nid (fst (fst t)) W then [snd (fst t); snd t] else []) refs) /\
                  In ty (flat_map (fun t : triple => if mem_nid (fst (fst t)) W then [snd (fst t); snd t] else []) refs)).
      { split; apply in_flat_map; exists (s, tg, ty); (split; [exact Hin|]); cbn [fst snd]; rewrite Ht; cbn; tauto. }
      destruct X as [X1 X2]. repeat split.
      + apply in_or_app. left. now apply mem_nid_In.
      + apply in_or_app. right. apply in_or_app. now left.
      + apply in_or_app. right. apply in_or_app. now left.
  Qed.
  Lemma lookup_used n : is_node n -> In n (w_used p k refs) -> exists m, w_lookup p k in_use n = Some m.
  Proof.
    intros Hn Hu. unfold w_lookup. destruct (find_first_row p k n Hn) as [x [Hx Hxns]]. rewrite Hx.
    apply find_some in Hx as [Hxin Hxn]. apply nid_eqb_eq in Hxn.
    assert (Hin : In (nid_ns (snd (fst x))) in_use).
    { unfold in_use, w_in_use. apply zsort_In. apply in_or_app. left. apply in_map_iff. exists x. split; [reflexivity|].
      apply filter_In. split; [exact Hxin|]. apply mem_nid_In. now rewrite Hxn. }
    unfold w_compact. destruct (zindex_In _ _ Hin) as [j ->]. cbn [omap]. eauto.
  Qed.

  (* the NodeId text the writer prints for a node in use is read by the parser as the same (URI, identifier) *)
  Lemma zlookup_zero m : zlookup 0 (zmap_of m) = Some 0%Z. Proof. reflexivity. Qed.
  Lemma in_use_head : exists rest, in_use = 0%Z :: 1%Z :: rest.
  Proof.
    destruct Hreg as [Hnd [Hkk [Hi [H0 Hne]]]].
    destruct (sorted_head01 in_use (zsort_sorted _) (in_use_nonneg p k refs Hi) H0 (in_use_has_one p k refs Hnd Hkk Hi Hne)) as [r [Eu _]]. eauto.
  Qed.
  Lemma parse_written n m : is_node n -> w_lookup p k in_use n = Some m ->
    exists n', parse_nodeid (print_nodeid m) nsmap [] = Ok n' /\ rstrip (print_nodeid m) = print_nodeid m /\ same_node n n'.
  Proof.
    intros [r [Hr Hn]] Hl. subst n. destruct Hreg as [Hnd [Hkk [Hi [H0 Hne]]]].
    destruct (identifier_resolution p k refs r m Hi (proj2 Hkk) Hr Hl) as [Ht [Hv Huri]].
    assert (Hvm : valid m = true) by (unfold valid; rewrite Ht, Hv; exact (Hvalid r Hr)).
    assert (Hsm : rstrip (print_nodeid m) = print_nodeid m) by (apply rstrip_print; rewrite Hv; exact (Hclean r Hr)).
    destruct (write_doc_parts p w d k refs Hk Hrefs Hw) as [Hu [_ [_ Hlen]]]. fold in_use in Hu, Hlen, Huri.
    set (newl2 := map (fun i : Z => nth (Z.to_nat i) (w_newl (p_namespaces p) k) []) in_use) in *.
    (* the compacted index *)
    unfold w_lookup in Hl. destruct (find_first_row p k (nr_nodeid r) (ex_intro _ r (conj Hr eq_refl))) as [y [Hy Hyns]]. rewrite Hy, Hyns in Hl.
    unfold w_compact in Hl. destruct (zindex (w_remap (p_namespaces p) k (nid_ns (nr_nodeid r))) in_use) as [c|] eqn:Ec; [|discriminate].
    cbn [omap] in Hl. injection Hl as <-. cbn [with_nid_ns nid_ns nid_type nid_value] in *. rewrite Nat2Z.id in Huri.
    destruct (zindex_nth _ _ _ Ec) as [_ Hclt]. assert (Hclt2 : c < length newl2) by (unfold newl2; now rewrite map_length).
    pose proof (parse_file_ns E ns d ns1 fo Hp) as Ens1.
    destruct c as [|c'].
    - exists (with_ns (with_nid_ns (nr_nodeid r) (Z.of_nat 0)) 0). split; [|split; [exact Hsm|]].
      + apply roundtrip_map; [exact Hvm|discriminate|apply zlookup_zero].
      + unfold same_node. cbn [with_ns nid_ns nid_type nid_value with_nid_ns]. repeat split; try lia. change (Z.to_nat 0) with 0. rewrite Hzero. f_equal. rewrite <- Huri.
        destruct in_use_head as [rest Eu]. unfold newl2. rewrite Eu. reflexivity.
    - assert (Hnth : nth_error (tl newl2) c' = Some (nth (S c') newl2 [])).
      { destruct newl2 as [|u0 l2]; [cbn in Hclt2; lia|]. cbn [tl nth]. apply nth_error_nth'. cbn in Hclt2. lia. }
      destruct (C03_identifier_index ns d (tl newl2) c' _ [] Hu Hnth) as [j [Hz Hj]]. rewrite app_nil_r, <- Ens1 in Hj.
      exists (with_ns (with_nid_ns (nr_nodeid r) (Z.of_nat (S c'))) (Z.of_nat j)). split; [|split; [exact Hsm|]].
      + apply roundtrip_map; [exact Hvm|discriminate|exact Hz].
      + unfold same_node. cbn [with_ns nid_ns nid_type nid_value with_nid_ns]. repeat split; try lia. rewrite Nat2Z.id, Hj, Huri. reflexivity.
  Qed.

  (* a namespace index of the graph, as the writer prints it, is read by the parser as the index of the same URI *)
  Lemma index_resolution i c : (0 <= i < Z.of_nat (length (p_namespaces p)))%Z -> w_compact in_use (w_remap (p_namespaces p) k i) = Some c ->
    exists j, zlookup c nsmap = Some (Z.of_nat j) /\ nth_error ns1 j = Some (nth (Z.to_nat i) (p_namespaces p) []) /\ (0 <= c)%Z.
  Proof.
    intros Hi0 Hcmp. destruct Hreg as [Hnd [Hkk [Hi [H0 Hne]]]].
    destruct (write_doc_parts p w d k refs Hk Hrefs Hw) as [Hu [_ [_ Hlen]]]. fold in_use in Hu, Hlen.
    set (newl2 := map (fun i : Z => nth (Z.to_nat i) (w_newl (p_namespaces p) k) []) in_use) in *.
    assert (Huri : nth (Z.to_nat c) newl2 [] = nth (Z.to_nat i) (p_namespaces p) []).
    { unfold newl2. rewrite (compact_uri _ _ _ _ Hcmp). replace i with (Z.of_nat (Z.to_nat i)) at 1 by lia. apply remap_uri; lia. }
    unfold w_compact in Hcmp. destruct (zindex (w_remap (p_namespaces p) k i) in_use) as [c0|] eqn:Ec; [|discriminate].
    cbn [omap] in Hcmp. injection Hcmp as <-. rewrite Nat2Z.id in Huri.
    destruct (zindex_nth _ _ _ Ec) as [_ Hclt]. assert (Hclt2 : c0 < length newl2) by (unfold newl2; now rewrite map_length).
    pose proof (parse_file_ns E ns d ns1 fo Hp) as Ens1.
    destruct c0 as [|c'].
    - exists 0. split; [apply zlookup_zero|]. split; [|lia]. rewrite Hzero. f_equal. rewrite <- Huri.
      destruct in_use_head as [rest Eu]. unfold newl2. rewrite Eu. reflexivity.
    - assert (Hnth : nth_error (tl newl2) c' = Some (nth (S c') newl2 [])).
      { destruct newl2 as [|u0 l2]; [cbn in Hclt2; lia|]. cbn [tl nth]. apply nth_error_nth'. cbn in Hclt2. lia. }
      destruct (C03_identifier_index ns d (tl newl2) c' _ [] Hu Hnth) as [j [Hz Hj]]. rewrite app_nil_r, <- Ens1 in Hj.
      exists j. split; [exact Hz|]. split; [|lia]. rewrite Hj, Huri. reflexivity.
  Qed.
  Hypothesis Hclosed : forall t, In t refs -> touches t = true -> is_node (fst (fst t)) /\ is_node (snd (fst t)) /\ is_node (snd t).
  Lemma text_used n : is_node n -> In n (w_used p k refs) ->
    exists n', parse_nodeid (w_text_of p k in_use n) nsmap [] = Ok n' /\ parse_nodeid (rstrip (w_text_of p k in_use n)) nsmap [] = Ok n' /\ same_node n n'.
  Proof.
    intros Hn Hu. destruct (lookup_used n Hn Hu) as [m Hm]. destruct (parse_written n m Hn Hm) as [n' [P [R S]]].
    exists n'. unfold w_text_of. rewrite Hm, R. auto.
  Qed.
  Definition same_triple (t t' : triple) : Prop :=
    same_node (fst (fst t)) (fst (fst t')) /\ same_node (snd (fst t)) (snd (fst t')) /\ same_node (snd t) (snd t').
  Lemma W_used me : In me W -> In me (w_used p k refs).
  Proof. intros H. unfold w_used. rewrite mine_written. fold W. apply in_or_app. now left. Qed.
  Lemma W_node me : In me W -> is_node me.
  Proof. intros H. apply (W_char p k refs Hreg) in H as [r [Hr [Hn _]]]. exists r. auto. Qed.
  Lemma file_refs_char : forall t, In t (fo_refs fo) <->
    exists e r nid src, In e (d_nodes d) /\ In r (ne_refs e) /\ lookup_attr (lit "NodeId") (ne_attrs e) = Some nid /\
      parse_nodeid nid nsmap [] = Ok src /\ parse_ref src nsmap [] r = Ok t.
  Proof.
    destruct (C02_file_exact E ns d ns1 fo Hp) as [amap [Ha [_ Hc2]]]. fold nsmap in Ha, Hc2.
    destruct (write_doc_parts p w d k refs Hk Hrefs Hw) as [_ [Hal _]]. rewrite Hal in Ha. cbn [build_aliases] in Ha. injection Ha as <-. exact Hc2.
  Qed.
  Lemma node_elem_id x : lookup_attr (lit "NodeId") (ne_attrs (w_node_elem p k in_use refs x)) = Some (w_text_of p k in_use (nr_nodeid (fst (fst x)))).
  Proof. apply hd_lookup. reflexivity. Qed.

  (* soundness: every parsed triple is a reference of the graph with an endpoint in U, read back as the same (URI, identifier)s *)
  Theorem refs_roundtrip_sound t' : In t' (fo_refs fo) -> exists t, In t refs /\ touches t = true /\ same_triple t t'.
  Proof.
    intros Ht'. apply file_refs_char in Ht' as [e [r [nid [src [He [Hr [Hnid [Hsrc Hpr]]]]]]]].
    destruct (write_doc_parts p w d k refs Hk Hrefs Hw) as [_ [_ [Hnodes _]]]. fold in_use in Hnodes. rewrite Hnodes in He.
    apply in_map_iff in He as [x [<- Hx]]. rewrite node_elem_id in Hnid. injection Hnid as <-.
    set (me := nr_nodeid (fst (fst x))) in *.
    assert (Hme : In me W) by (unfold W; apply in_map_iff; exists x; split; [reflexivity|exact Hx]).
    destruct (text_used me (W_node me Hme) (W_used me Hme)) as [me' [Pme [_ Sme]]].
    assert (src = me') by congruence. subst src.
    change (In r (w_ref_elems p k (w_in_use p k refs) refs me)) in Hr. rewrite (ref_elems_exact p k refs Hreg me Hme) in Hr. fold in_use in Hr. fold W in Hr.
    apply in_flat_map in Hr as [[[s tg] ty] [Hin Hr]]. exists (s, tg, ty).
    destruct (mem_nid tg W) eqn:Etg.
    - destruct (nid_eqb tg me) eqn:Eq; [|contradiction]. apply nid_eqb_eq in Eq. subst tg. destruct Hr as [<-|[]].
      assert (Hto : touches (s, me, ty) = true) by (unfold touches; cbn [fst snd]; now rewrite Etg).
      destruct (touch_used s me ty Hin Hto) as [Us [_ Uty]]. destruct (Hclosed _ Hin Hto) as [Ns [_ Nty]]. cbn [fst snd] in Ns, Nty.
      destruct (text_used s Ns Us) as [s' [_ [Ps Ss]]]. destruct (text_used ty Nty Uty) as [ty' [Pty [_ Sty]]].
      unfold parse_ref, parse_id in Hpr. cbn [re_text re_attrs] in Hpr. rewrite Ps in Hpr. cbn [rbind] in Hpr. rewrite lookup_reftype, Pty in Hpr. cbn [rbind] in Hpr.
      rewrite is_forward_inv in Hpr. injection Hpr as <-. split; [exact Hin|]. split; [exact Hto|]. exact (conj Ss (conj Sme Sty)).
    - destruct (nid_eqb s me) eqn:Eq; [|contradiction]. apply nid_eqb_eq in Eq. subst s. destruct Hr as [<-|[]].
      assert (Hto : touches (me, tg, ty) = true) by (unfold touches; cbn [fst snd]; rewrite Etg; cbn [orb]; now apply mem_nid_In).
      destruct (touch_used me tg ty Hin Hto) as [_ [Utg Uty]]. destruct (Hclosed _ Hin Hto) as [_ [Ntg Nty]]. cbn [fst snd] in Ntg, Nty.
      destruct (text_used tg Ntg Utg) as [tg' [_ [Ptg Stg]]]. destruct (text_used ty Nty Uty) as [ty' [Pty [_ Sty]]].
      unfold parse_ref, parse_id in Hpr. cbn [re_text re_attrs] in Hpr. rewrite Ptg in Hpr. cbn [rbind] in Hpr. rewrite lookup_reftype, Pty in Hpr. cbn [rbind] in Hpr.
      rewrite is_forward_fwd in Hpr. injection Hpr as <-. split; [exact Hin|]. split; [exact Hto|]. exact (conj Sme (conj Stg Sty)).
  Qed.

  (* completeness: every reference of the graph with an endpoint in U comes back, as the same (URI, identifier)s *)
  Theorem refs_roundtrip_complete t : In t refs -> touches t = true -> exists t', In t' (fo_refs fo) /\ same_triple t t'.
  Proof.
    destruct t as [[s tg] ty]. intros Hin Hto.
    destruct (touch_used s tg ty Hin Hto) as [Us [Utg Uty]]. destruct (Hclosed _ Hin Hto) as [Ns [Ntg Nty]]. cbn [fst snd] in Ns, Ntg, Nty.
    destruct (text_used s Ns Us) as [s' [Ps1 [Ps Ss]]]. destruct (text_used tg Ntg Utg) as [tg' [Ptg1 [Ptg Stg]]]. destruct (text_used ty Nty Uty) as [ty' [Pty [_ Sty]]].
    exists (s', tg', ty'). split; [|exact (conj Ss (conj Stg Sty))].
    destruct (write_doc_parts p w d k refs Hk Hrefs Hw) as [_ [_ [Hnodes _]]]. fold in_use in Hnodes.
    apply file_refs_char.
    destruct (mem_nid tg W) eqn:Etg.
    - (* written under the target, as an inverse reference *)
      assert (Hme : In tg W) by (now apply mem_nid_In). pose proof Hme as Hx. unfold W in Hx. apply in_map_iff in Hx as [x [Hxn Hx]].
      exists (w_node_elem p k in_use refs x),
             {| re_attrs := [(lit "ReferenceType", w_text_of p k in_use ty); (lit "IsForward", lit "false")]; re_text := Some (w_text_of p k in_use s) |},
             (w_text_of p k in_use tg), tg'.
      split; [rewrite Hnodes; apply in_map; exact Hx|]. split; [|split; [rewrite node_elem_id, Hxn; reflexivity|split; [exact Ptg1|]]].
      + change (In {| re_attrs := [(lit "ReferenceType", w_text_of p k in_use ty); (lit "IsForward", lit "false")]; re_text := Some (w_text_of p k in_use s) |}
                   (w_ref_elems p k (w_in_use p k refs) refs (nr_nodeid (fst (fst x))))).
        rewrite Hxn, (ref_elems_exact p k refs Hreg tg Hme). fold in_use. fold W. apply in_flat_map. exists (s, tg, ty). split; [exact Hin|].
        rewrite Etg. assert (nid_eqb tg tg = true) as -> by (now apply nid_eqb_eq). now left.
      + unfold parse_ref, parse_id. cbn [re_text re_attrs]. rewrite Ps. cbn [rbind]. rewrite lookup_reftype, Pty. cbn [rbind]. rewrite is_forward_inv. reflexivity.
    - (* written under the source, as a forward reference *)
      unfold touches in Hto. cbn [fst snd] in Hto. rewrite Etg in Hto. cbn [orb] in Hto.
      assert (Hme : In s W) by (now apply mem_nid_In). pose proof Hme as Hx. unfold W in Hx. apply in_map_iff in Hx as [x [Hxn Hx]].
      exists (w_node_elem p k in_use refs x),
             {| re_attrs := [(lit "ReferenceType", w_text_of p k in_use ty)]; re_text := Some (w_text_of p k in_use tg) |},
             (w_text_of p k in_use s), s'.
      split; [rewrite Hnodes; apply in_map; exact Hx|]. split; [|split; [rewrite node_elem_id, Hxn; reflexivity|split; [exact Ps1|]]].
      + change (In {| re_attrs := [(lit "ReferenceType", w_text_of p k in_use ty)]; re_text := Some (w_text_of p k in_use tg) |}
                   (w_ref_elems p k (w_in_use p k refs) refs (nr_nodeid (fst (fst x))))).
        rewrite Hxn, (ref_elems_exact p k refs Hreg s Hme). fold in_use. fold W. apply in_flat_map. exists (s, tg, ty). split; [exact Hin|].
        rewrite Etg. assert (nid_eqb s s = true) as -> by (now apply nid_eqb_eq). now left.
      + unfold parse_ref, parse_id. cbn [re_text re_attrs]. rewrite Ptg. cbn [rbind]. rewrite lookup_reftype, Pty. cbn [rbind]. rewrite is_forward_fwd. reflexivity.
  Qed.
  (* with a duplicate-free parser table the correspondence is one to one: the (URI, identifier) reading of a NodeId determines it *)
  Lemma same_node_functional n a b : NoDup ns1 -> same_node n a -> same_node n b -> a = b.
  Proof.
    intros Hnd [Ta [Va [Na Ua]]] [Tb [Vb [Nb Ub]]]. destruct a as [an at_ av], b as [bn bt bv]. cbn [nid_ns nid_type nid_value] in *.
    assert (Z.to_nat an = Z.to_nat bn).
    { apply (proj1 (NoDup_nth_error ns1) Hnd); [apply nth_error_Some; congruence|congruence]. }
    f_equal; [lia|congruence|congruence].
  Qed.
End RefsRoundtrip.

(* ---- the hypotheses are met: a graph with three namespaces, the written one not at index 1 ---- *)
Definition ex_nid (z : Z) (t : idtype) (v : string) : nodeid := {| nid_ns := z; nid_type := t; nid_value := lit v |}.
Definition ex_row (cls : string) (n : nodeid) (name : string) : node_row :=
  {| nr_cls := lit cls; nr_nodeid := n; nr_bname := lit name; nr_bns := Some (nid_ns n); nr_display := lit name; nr_desc := [];
     nr_attrs := []; nr_value := None; nr_ns := nid_ns n |}.
Definition ex_p : parsed :=
  {| p_namespaces := [UA_URI; lit "urn:b"; lit "urn:a"];
     p_nodes := [ex_row "UAReferenceType" (ex_nid 0 Numeric "40") "HasTypeDefinition"; ex_row "UAReferenceType" (ex_nid 0 Numeric "47") "HasComponent";
                 ex_row "UAVariableType" (ex_nid 0 Numeric "63") "BaseDataVariableType"; ex_row "UAObject" (ex_nid 1 String_ "B") "B";
                 ex_row "UAVariable" (ex_nid 2 String_ "A;=x") "A"];
     p_refs := [(ex_nid 2 String_ "A;=x", ex_nid 0 Numeric "63", ex_nid 0 Numeric "40"); (ex_nid 1 String_ "B", ex_nid 2 String_ "A;=x", ex_nid 0 Numeric "47");
                (ex_nid 1 String_ "B", ex_nid 0 Numeric "63", ex_nid 0 Numeric "40")];
     p_models := [] |}.
Definition ex_w : wparams := {| wp_uri := lit "urn:a"; wp_inc := true; wp_pubdate := lit "2020-01-01T00:00:00Z"; wp_now := lit "2020-01-01T00:00:00Z"; wp_newver := None; wp_fname := lit "a.xml" |}.
Example refs_roundtrip_example :
  regular_b ex_p 2 (p_refs ex_p) = true /\
  rbind (write_doc ex_p ex_w) (fun d => rmap (fun r => (fst r, fo_refs (snd r))) (parse_file [] [] d))
  = Ok ([UA_URI; lit "urn:a"; lit "urn:b"],
        [(ex_nid 1 String_ "A;=x", ex_nid 0 Numeric "63", ex_nid 0 Numeric "40"); (ex_nid 2 String_ "B", ex_nid 1 String_ "A;=x", ex_nid 0 Numeric "47")]).
Proof. split; vm_compute; reflexivity. Qed.
