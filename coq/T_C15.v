(* Proofs about histories of read-only operations (C15). *)
From Coq Require Import String Ascii List Bool Arith NArith ZArith.
Require Import PyStr PyInt Sexp Xml M_C09 M_C08 Ns Table M_Parse M_Write M_C15.
Import ListNotations.
Open Scope char_scope.

(* every operation leaves the graph exactly as it was *)
Theorem frame s o : fst (step true s o) = s.
Proof. destruct o; reflexivity. Qed.
Theorem frame_history ops : forall s, fst (run_ops true s ops) = s.
Proof. induction ops as [|o r IH]; intros s; [reflexivity|]. cbn [run_ops fst]. rewrite frame. apply IH. Qed.
(* hence the i-th result of any history is what the same operation returns on the freshly built graph *)
Theorem history_independent ops : forall s, snd (run_ops true s ops) = map (fun o => snd (step true s o)) ops.
Proof.
  induction ops as [|o r IH]; intros s; [reflexivity|]. cbn [run_ops snd map]. f_equal. rewrite frame. apply IH.
Qed.
(* writing the same namespace twice gives the same document *)
Theorem write_twice s w : snd (run_ops true s [OWrite w; OWrite w]) = [snd (step true s (OWrite w)); snd (step true s (OWrite w))].
Proof. apply (history_independent [OWrite w; OWrite w]). Qed.

(* the code before the repairs: a version given for one write stays in the graph and changes the next plain write;
   writing without outgoing references re-types the ns column *)
Definition row0 : node_row :=
  {| nr_cls := lit "UAObject"; nr_nodeid := {| nid_ns := 1; nid_type := Numeric; nid_value := lit "1" |}; nr_bname := lit "A"; nr_bns := Some 0%Z;
     nr_display := lit "A"; nr_desc := []; nr_attrs := []; nr_value := None; nr_ns := 1%Z |}.
Definition g0 : gstate :=
  {| gs_tables := {| p_namespaces := [UA_URI; lit "urn:x"]; p_nodes := [row0]; p_refs := [];
                     p_models := [{| mo_uri := Some (lit "urn:x"); mo_pubdate := None; mo_version := Some (lit "1.0.0"); mo_required := [] |}] |};
     gs_ns_int8 := true |}.
Definition w_plain : wparams := {| wp_uri := lit "urn:x"; wp_inc := true; wp_pubdate := lit "d"; wp_now := lit "n"; wp_newver := None; wp_fname := lit "f" |}.
Definition w_newver : wparams := {| wp_uri := lit "urn:x"; wp_inc := true; wp_pubdate := lit "d"; wp_now := lit "n"; wp_newver := Some (lit "9.9"); wp_fname := lit "f" |}.
Theorem old_version_leaks_refuted :
  snd (step false (fst (step false g0 (OWrite w_newver))) (OWrite w_plain)) <> snd (step false g0 (OWrite w_plain)).
Proof. vm_compute. intros H. inversion H. Qed.
Theorem old_frame_refuted : exists o, fst (step false g0 o) <> g0.
Proof. exists (OWrite w_newver). vm_compute. intros H. inversion H. Qed.
(* non-vacuity: the plain write of g0 succeeds *)
Example nv_write_ok : exists d, snd (step true g0 (OWrite w_plain)) = OutDoc (Ok d).
Proof. vm_compute. eauto. Qed.
