(* PyStr: Python str operations over byte lists (the UTF-8 encoding of the str).
   No proofs about the code here, only the shared string library and its lemmas. *)
From Coq Require Import String Ascii List Bool NArith Lia.
Import ListNotations.
Open Scope char_scope.

Definition str := list ascii.
Definition lit (s : string) : str := list_ascii_of_string s.

Definition omap {A B} (f : A -> B) (o : option A) : option B :=
  match o with Some a => Some (f a) | None => None end.
Definition obind {A B} (o : option A) (f : A -> option B) : option B :=
  match o with Some a => f a | None => None end.
Fixpoint sequence {A} (l : list (option A)) : option (list A) :=
  match l with [] => Some [] | None :: _ => None
  | Some a :: r => match sequence r with Some r' => Some (a :: r') | None => None end end.

(* ---- equality ---- *)
Fixpoint str_eqb (a b : str) : bool :=
  match a, b with
  | [], [] => true
  | x :: a', y :: b' => Ascii.eqb x y && str_eqb a' b'
  | _, _ => false
  end.
Lemma str_eqb_eq a : forall b, str_eqb a b = true <-> a = b.
Proof.
  induction a as [|x a IH]; intros [|y b]; cbn; try (split; [discriminate|discriminate]); [tauto|].
  rewrite andb_true_iff, Ascii.eqb_eq, IH. split; [intros [-> ->]; reflexivity | intros H; inversion H; auto].
Qed.
Lemma str_eqb_refl a : str_eqb a a = true.
Proof. now apply str_eqb_eq. Qed.
Lemma str_eqb_neq a b : str_eqb a b = false <-> a <> b.
Proof. split; intros H.
  - intros E. apply str_eqb_eq in E. congruence.
  - destruct (str_eqb a b) eqn:E; [apply str_eqb_eq in E; contradiction|reflexivity]. Qed.
Definition str_eq_dec (a b : str) : {a = b} + {a <> b}.
Proof. decide equality. apply Ascii.ascii_dec. Defined.

(* ---- membership of a character: c in s ---- *)
Fixpoint has (c : ascii) (s : str) : bool :=
  match s with [] => false | a :: r => Ascii.eqb a c || has c r end.
Lemma has_app c a b : has c (a ++ b) = has c a || has c b.
Proof. induction a as [|x a IH]; cbn; [reflexivity|]. now rewrite IH, orb_assoc. Qed.

(* ---- s.split(c, maxsplit=1) when c occurs: (before, after) ---- *)
Fixpoint split_once (c : ascii) (s : str) : option (str * str) :=
  match s with
  | [] => None
  | a :: r => if Ascii.eqb a c then Some ([], r)
              else match split_once c r with Some (x, y) => Some (a :: x, y) | None => None end
  end.
Lemma split_once_app c a b : has c a = false -> split_once c (a ++ c :: b) = Some (a, b).
Proof.
  induction a as [|x a IH]; cbn; intros H; [now rewrite Ascii.eqb_refl|].
  apply orb_false_iff in H as [H1 H2]. now rewrite H1, (IH H2).
Qed.
Lemma split_once_none c s : has c s = false -> split_once c s = None.
Proof. induction s as [|a r IH]; cbn; intros H; [reflexivity|].
  apply orb_false_iff in H as [H1 H2]. now rewrite H1, (IH H2). Qed.
Lemma split_once_spec c s x y : split_once c s = Some (x, y) -> s = x ++ c :: y /\ has c x = false.
Proof.
  revert x y. induction s as [|a r IH]; cbn; intros x y H; [discriminate|].
  destruct (Ascii.eqb a c) eqn:E.
  - inversion H; subst. apply Ascii.eqb_eq in E. subst. now split.
  - destruct (split_once c r) as [[x' y']|] eqn:E2; [|discriminate]. inversion H; subst.
    destruct (IH _ _ eq_refl) as [-> Hh]. split; [reflexivity|]. cbn. now rewrite E, Hh.
Qed.

(* ---- s.split(c) ---- *)
Fixpoint split_all (c : ascii) (s : str) : list str :=
  match s with
  | [] => [[]]
  | a :: r => if Ascii.eqb a c then [] :: split_all c r
              else match split_all c r with x :: xs => (a :: x) :: xs | [] => [[a]] end
  end.
Lemma split_all_none c s : has c s = false -> split_all c s = [s].
Proof.
  induction s as [|a r IH]; cbn; intros H; [reflexivity|].
  apply orb_false_iff in H as [H1 H2]. now rewrite H1, (IH H2).
Qed.
Lemma split_all_app c a rest : has c a = false -> split_all c (a ++ c :: rest) = a :: split_all c rest.
Proof.
  induction a as [|x a IH]; cbn; intros H; [now rewrite Ascii.eqb_refl|].
  apply orb_false_iff in H as [H1 H2]. now rewrite H1, (IH H2).
Qed.

(* ---- prefixes and substrings ---- *)
Fixpoint starts_with (p s : str) : bool :=
  match p, s with
  | [], _ => true
  | a :: p', b :: s' => Ascii.eqb a b && starts_with p' s'
  | _ :: _, [] => false
  end.
Lemma starts_with_app p s : starts_with p (p ++ s) = true.
Proof. induction p as [|a p IH]; cbn; [reflexivity|]. now rewrite Ascii.eqb_refl. Qed.
(* sub in s *)
Fixpoint contains (sub s : str) : bool :=
  match s with
  | [] => starts_with sub []
  | _ :: r => starts_with sub s || contains sub r
  end.

(* ---- join ---- *)
Fixpoint join (sep : str) (l : list str) : str :=
  match l with [] => [] | [x] => x | x :: r => x ++ sep ++ join sep r end.

(* ---- whitespace (str.strip() with no argument, ASCII part: \t\n\v\f\r, FS GS RS US, space) ---- *)
Definition is_space (c : ascii) : bool :=
  let n := N_of_ascii c in ((9 <=? n) && (n <=? 13) || (28 <=? n) && (n <=? 32))%N.
Fixpoint lstrip (s : str) : str :=
  match s with c :: r => if is_space c then lstrip r else s | [] => [] end.
Definition rstrip (s : str) : str := rev (lstrip (rev s)).
Definition strip (s : str) : str := rstrip (lstrip s).

Fixpoint all_chars (p : ascii -> bool) (s : str) : bool :=
  match s with [] => true | c :: r => p c && all_chars p r end.

(* bytes given as numbers (used by generated case files) *)
Definition bytes (l : list N) : str := map ascii_of_N l.
