(* Model of opcua_tools.value_parser.cached_parse_nodeid / parse_nodeid and of
   UANodeId.__str__ / __post_init__ (ua_data_types.py).  Definitions only. *)
From Coq Require Import String Ascii List Bool NArith ZArith.
Require Import PyStr PyInt Sexp.
Import ListNotations.
Open Scope char_scope.

Inductive idtype := Numeric | String_ | Guid | Opaque.
Definition type_char (t : idtype) : ascii :=
  match t with Numeric => "i" | String_ => "s" | Guid => "g" | Opaque => "b" end.
(* NodeIdType(text): ValueError unless text is one of i s g b *)
Definition type_of_str (s : str) : option idtype :=
  match s with
  | [c] => if Ascii.eqb c "i" then Some Numeric else if Ascii.eqb c "s" then Some String_
           else if Ascii.eqb c "g" then Some Guid else if Ascii.eqb c "b" then Some Opaque else None
  | _ => None
  end.
Record nodeid := { nid_ns : Z; nid_type : idtype; nid_value : str }.

Definition idtype_eqb (a b : idtype) : bool :=
  match a, b with Numeric, Numeric | String_, String_ | Guid, Guid | Opaque, Opaque => true | _, _ => false end.
Definition nodeid_eqb (a b : nodeid) : bool :=
  Z.eqb (nid_ns a) (nid_ns b) && idtype_eqb (nid_type a) (nid_type b) && str_eqb (nid_value a) (nid_value b).

(* UANodeId.__str__ *)
Definition print_nodeid (n : nodeid) : str :=
  if (nid_ns n =? 0)%Z then type_char (nid_type n) :: "=" :: nid_value n
  else lit "ns=" ++ decZ (nid_ns n) ++ ";" :: type_char (nid_type n) :: "=" :: nid_value n.

(* UANodeId.__post_init__ for a str identifier: numeric identifiers must be ASCII digit strings
   (str.isdigit; the model knows ASCII digits only) without a leading zero *)
Definition valid_value (t : idtype) (v : str) : bool :=
  match t with
  | Numeric => match v with
               | [] => false
               | c :: r => all_chars is_digit v && negb (Ascii.eqb c "0" && match r with [] => false | _ => true end)
               end
  | _ => true
  end.
Definition valid (n : nodeid) : bool := valid_value (nid_type n) (nid_value n).

(* cached_parse_nodeid, parameterised by the test that selects the "ns=" branch *)
Definition parse_with (ns_branch : str -> bool) (s : str) : res (Z * idtype * str) :=
  if ns_branch s then
    match split_once ";" s with
    | Some (pre, rest) =>
        match split_once "=" pre with
        | Some (_, num) =>
            match py_int num with
            | Some ns =>
                match split_once "=" rest with
                | Some (t, v) => match type_of_str t with Some ty => Ok (ns, ty, v) | None => Err EValue end
                | None => Err EValue
                end
            | None => Err EValue
            end
        | None => Err EIndex
        end
    | None =>
        match split_once "=" s with
        | Some (_, num) => match py_int num with Some _ => Err EIndex | None => Err EValue end
        | None => Err EIndex
        end
    end
  else
    match split_once "=" s with
    | Some (t, v) => match type_of_str t with Some ty => Ok (0%Z, ty, v) | None => Err EValue end
    | None => Err EValue
    end.
(* the code as it is now:  nodeidstr.startswith("ns=")  *)
Definition cached_parse := parse_with (starts_with (lit "ns=")).
(* the code before the repair:  "ns" in nodeidstr  *)
Definition cached_parse_old := parse_with (contains (lit "ns")).

Fixpoint zlookup (k : Z) (m : list (Z * Z)) : option Z :=
  match m with [] => None | (a, b) :: r => if Z.eqb a k then Some b else zlookup k r end.
Fixpoint alookup (k : str) (m : list (str * nodeid)) : option nodeid :=
  match m with [] => None | (a, b) :: r => if str_eqb a k then Some b else alookup k r end.

(* parse_nodeid(nodeidstr, namespace_map, alias_map) *)
Definition parse_nodeid_gen (cp : str -> res (Z * idtype * str))
           (s : str) (nsmap : list (Z * Z)) (amap : list (str * nodeid)) : res nodeid :=
  match alookup s amap with
  | Some n => Ok n
  | None =>
      rbind (cp s) (fun '(ns, ty, v) =>
      rbind (match nsmap with [] => Ok ns | _ => of_option EKey (zlookup ns nsmap) end) (fun ns' =>
      if valid_value ty v then Ok {| nid_ns := ns'; nid_type := ty; nid_value := v |} else Err EType))
  end.
Definition parse_nodeid := parse_nodeid_gen cached_parse.
Definition parse_nodeid_old := parse_nodeid_gen cached_parse_old.

(* wire format *)
Definition e_idtype (t : idtype) : sexp := Atom [type_char t].
Definition e_nodeid (n : nodeid) : sexp := Lst [e_Z (nid_ns n); e_idtype (nid_type n); e_str (nid_value n)].
Definition d_idtype (x : sexp) : option idtype := obind (d_str x) type_of_str.
Definition d_nodeid (x : sexp) : option nodeid :=
  match x with
  | Lst [a; b; c] => obind (d_Z a) (fun ns => obind (d_idtype b) (fun t => omap (fun v => {| nid_ns := ns; nid_type := t; nid_value := v |}) (d_str c)))
  | _ => None end.
