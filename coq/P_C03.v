(* C03 - all identifiers are expressed in one global namespace table *)
From Coq Require Import String Ascii List Bool Arith NArith ZArith Permutation.
Require Import PyStr PyInt Sexp Xml M_C09 M_C08 Ns Table M_Parse T_Parse T_NsDict.
Import ListNotations.
Open Scope char_scope.

(* the caller's list is kept, in order, as a prefix *)
Theorem C03_caller_prefix : forall E caller docs p,
  parse_files E caller docs = Ok p -> exists s, p_namespaces p = caller ++ s.
Proof. exact C03_caller_prefix. Qed.

(* no URI is ever entered twice *)
Theorem C03_no_duplicates : forall E caller docs p,
  NoDup caller -> parse_files E caller docs = Ok p -> NoDup (p_namespaces p).
Proof. exact C03_no_duplicates. Qed.

(* without a caller list index 0 is the OPC UA namespace *)
Theorem C03_index_zero : forall E docs p,
  parse_files E [] docs = Ok p -> exists s, p_namespaces p = UA_URI :: s.
Proof. exact C03_index_zero. Qed.

(* with a caller list that starts with the OPC UA namespace, index 0 is the OPC UA namespace *)
Theorem C03_index_zero_caller : forall E caller0 docs p,
  parse_files E (UA_URI :: caller0) docs = Ok p -> exists s, p_namespaces p = UA_URI :: s.
Proof. exact C03_index_zero_caller. Qed.

(* an identifier written with local index k+1 in a file whose k-th URI is uri is mapped to the index of uri in the table, and later files never move it *)
Theorem C03_identifier_index : forall ns d u k uri later,
  d_uris d = Some u -> nth_error u k = Some uri ->
  exists j, zlookup (Z.of_nat (S k)) (zmap_of (snd (file_ns ns d))) = Some (Z.of_nat j) /\
            nth_error (fst (file_ns ns d) ++ later) j = Some uri.
Proof. exact C03_identifier_index. Qed.

(* the map only has entries for the local indices the file declares *)
Theorem C03_map_keys : forall ns d k j,
  In (k, j) (snd (file_ns ns d)) -> exists u, d_uris d = Some u /\ 0 < k <= length u.
Proof. exact file_ns_keys. Qed.

(* over a sequence of files the table only grows, stays duplicate free and contains the OPC UA namespace *)
Theorem C03_grows : forall E,
  forall docs ns ns' fos, parse_seq E ns docs = Ok (ns', fos) ->
  (exists s, ns' = ns ++ s) /\ (NoDup ns -> NoDup ns') /\ (docs <> [] -> In UA_URI ns') /\ length fos = length docs.
Proof. exact parse_seq_ns. Qed.

(* ---- the caller's table given as a dictionary index -> URI (UAGraph.from_path / from_file_list, through UAGraph._get_namespace_list) ---- *)

(* the list handed to the parser has one place per index up to the largest key *)
Theorem C03_dict_length : forall d, length (namespace_list_of_dict d) = S (dict_max d).
Proof. exact dict_list_length. Qed.

(* every entry stands at its own index, whatever the order of the entries *)
Theorem C03_dict_entry : forall d k u, NoDup (map fst d) -> In (k, u) d -> nth_error (namespace_list_of_dict d) k = Some u.
Proof. exact dict_list_entry. Qed.

(* an unassigned index below the largest key holds the place holder the code writes there ("None") *)
Theorem C03_dict_gap : forall d k, k <= dict_max d -> ~ In k (map fst d) -> nth_error (namespace_list_of_dict d) k = Some (lit "None").
Proof. exact dict_list_gap. Qed.

(* the list is a function of the table's CONTENT: the order in which its entries were inserted is irrelevant *)
Theorem C03_dict_insertion_order : forall d d', NoDup (map fst d) -> Permutation d d' ->
  namespace_list_of_dict d = namespace_list_of_dict d'.
Proof. exact dict_list_order_irrelevant. Qed.

(* composed with the parser: every entry of the caller's table keeps its index in the namespace list returned with the parse output *)
Theorem C03_dict_entries_kept : forall E d docs p k u, NoDup (map fst d) -> In (k, u) d ->
  parse_files E (namespace_list_of_dict d) docs = Ok p -> nth_error (p_namespaces p) k = Some u.
Proof. exact dict_entries_kept. Qed.

Print Assumptions C03_caller_prefix.
Print Assumptions C03_no_duplicates.
Print Assumptions C03_index_zero.
Print Assumptions C03_index_zero_caller.
Print Assumptions C03_identifier_index.
Print Assumptions C03_map_keys.
Print Assumptions C03_grows.
Print Assumptions C03_dict_length.
Print Assumptions C03_dict_entry.
Print Assumptions C03_dict_gap.
Print Assumptions C03_dict_insertion_order.
Print Assumptions C03_dict_entries_kept.
