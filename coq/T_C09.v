(* Proofs about the NodeId text model (C09). *)
From Coq Require Import String Ascii List Bool NArith ZArith Lia.
Require Import PyStr PyInt Sexp M_C09.
Import ListNotations.
Open Scope char_scope.

Lemma type_roundtrip t : type_of_str [type_char t] = Some t.
Proof. destruct t; reflexivity. Qed.
Lemma type_of_str_inv s t : type_of_str s = Some t -> s = [type_char t].
Proof.
  destruct s as [|c [|d r]]; cbn; try discriminate.
  destruct (Ascii.eqb_spec c "i"); [intros H; inversion H; subst; reflexivity|].
  destruct (Ascii.eqb_spec c "s"); [intros H; inversion H; subst; reflexivity|].
  destruct (Ascii.eqb_spec c "g"); [intros H; inversion H; subst; reflexivity|].
  destruct (Ascii.eqb_spec c "b"); [intros H; inversion H; subst; reflexivity|discriminate].
Qed.
Lemma nsbranch_short ty v : starts_with (lit "ns=") (type_char ty :: "=" :: v) = false.
Proof. destruct ty; reflexivity. Qed.

Lemma ns_prefix k r : starts_with (lit "ns=") (k ++ "=" :: r) = true -> has "=" k = false -> k = lit "ns".
Proof.
  change (lit "ns=") with ["n"; "s"; "="]. change (lit "ns") with ["n"; "s"].
  intros Hb Hk. destruct k as [|a [|b [|c k]]]; cbn [app starts_with has] in Hb, Hk.
  - apply andb_true_iff in Hb as [Hb _]. apply Ascii.eqb_eq in Hb. discriminate.
  - apply andb_true_iff in Hb as [_ Hb]. apply andb_true_iff in Hb as [Hb _]. apply Ascii.eqb_eq in Hb. discriminate.
  - apply andb_true_iff in Hb as [H1 Hb]. apply andb_true_iff in Hb as [H2 _].
    apply Ascii.eqb_eq in H1, H2. now subst.
  - apply andb_true_iff in Hb as [_ Hb]. apply andb_true_iff in Hb as [_ Hb]. apply andb_true_iff in Hb as [Hb _].
    apply Ascii.eqb_eq in Hb. subst c. rewrite Ascii.eqb_refl in Hk. cbn in Hk.
    rewrite !orb_true_r in Hk. discriminate.
Qed.

Definition with_ns (n : nodeid) (j : Z) : nodeid := {| nid_ns := j; nid_type := nid_type n; nid_value := nid_value n |}.

(* what cached_parse returns on printed text, for EVERY identifier string *)
Lemma cached_parse_print n : cached_parse (print_nodeid n) = Ok (nid_ns n, nid_type n, nid_value n).
Proof.
  destruct n as [ns ty v]. unfold cached_parse, parse_with, print_nodeid; cbn [nid_ns nid_type nid_value].
  destruct (Z.eqb_spec ns 0) as [->|Hns].
  - rewrite nsbranch_short. change (type_char ty :: "=" :: v) with ([type_char ty] ++ "=" :: v).
    rewrite split_once_app by (destruct ty; reflexivity). now rewrite type_roundtrip.
  - rewrite starts_with_app.
    replace (lit "ns=" ++ decZ ns ++ ";" :: type_char ty :: "=" :: v)
      with ((lit "ns=" ++ decZ ns) ++ ";" :: type_char ty :: "=" :: v) by now rewrite <- app_assoc.
    rewrite split_once_app.
    2:{ rewrite has_app. cbn. apply decZ_has; [reflexivity|discriminate]. }
    change (lit "ns=" ++ decZ ns) with (lit "ns" ++ "=" :: decZ ns).
    rewrite split_once_app by reflexivity. rewrite py_int_decZ.
    change (type_char ty :: "=" :: v) with ([type_char ty] ++ "=" :: v).
    rewrite split_once_app by (destruct ty; reflexivity). now rewrite type_roundtrip.
Qed.

Theorem roundtrip n : valid n = true -> parse_nodeid (print_nodeid n) [] [] = Ok n.
Proof.
  intros Hv. unfold parse_nodeid, parse_nodeid_gen. cbn [alookup]. rewrite cached_parse_print. cbn [rbind].
  unfold valid in Hv. rewrite Hv. now destruct n.
Qed.

Theorem roundtrip_map n m j : valid n = true -> m <> [] -> zlookup (nid_ns n) m = Some j ->
  parse_nodeid (print_nodeid n) m [] = Ok (with_ns n j).
Proof.
  intros Hv Hm Hj. unfold parse_nodeid, parse_nodeid_gen. cbn [alookup]. rewrite cached_parse_print. cbn [rbind].
  destruct m as [|p m]; [congruence|]. rewrite Hj. cbn [of_option rbind]. unfold valid in Hv. now rewrite Hv.
Qed.
Theorem map_missing n m : m <> [] -> zlookup (nid_ns n) m = None ->
  parse_nodeid (print_nodeid n) m [] = Err EKey.
Proof.
  intros Hm Hj. unfold parse_nodeid, parse_nodeid_gen. cbn [alookup]. rewrite cached_parse_print. cbn [rbind].
  destruct m as [|p m]; [congruence|]. now rewrite Hj.
Qed.

Theorem alias_hit s m amap n : alookup s amap = Some n -> parse_nodeid s m amap = Ok n.
Proof. intros H. unfold parse_nodeid, parse_nodeid_gen. now rewrite H. Qed.
Theorem alias_miss s m amap : alookup s amap = None -> parse_nodeid s m amap = parse_nodeid s m [].
Proof. intros H. unfold parse_nodeid, parse_nodeid_gen. now rewrite H. Qed.

(* never misread: accepted text has literally the grammar's form and denotes what it says *)
Theorem sound s n : parse_nodeid s [] [] = Ok n ->
  valid n = true /\
  ((nid_ns n = 0%Z /\ s = type_char (nid_type n) :: "=" :: nid_value n) \/
   (exists num, s = lit "ns=" ++ num ++ ";" :: type_char (nid_type n) :: "=" :: nid_value n
                /\ py_int num = Some (nid_ns n) /\ has ";" num = false)).
Proof.
  unfold parse_nodeid, parse_nodeid_gen, cached_parse, parse_with. cbn [alookup].
  destruct (starts_with (lit "ns=") s) eqn:Hb.
  - destruct (split_once ";" s) as [[pre rest]|] eqn:E1.
    2:{ destruct (split_once "=" s) as [[? num]|]; [destruct (py_int num)|]; discriminate. }
    destruct (split_once "=" pre) as [[k num]|] eqn:E2; [|discriminate].
    destruct (py_int num) as [ns|] eqn:E3; [|discriminate].
    destruct (split_once "=" rest) as [[t v]|] eqn:E4; [|discriminate].
    destruct (type_of_str t) as [ty|] eqn:E5; [|discriminate].
    cbn [rbind]. destruct (valid_value ty v) eqn:Hv; [|discriminate].
    intros H. inversion H; subst n; clear H. cbn [nid_ns nid_type nid_value valid]. split; [exact Hv|]. right.
    apply split_once_spec in E1 as [-> Hpre]. apply split_once_spec in E2 as [-> Hk].
    apply split_once_spec in E4 as [-> Ht]. apply type_of_str_inv in E5 as ->.
    (* the prefix k is "ns" because s starts with "ns=" and k has no "=" *)
    assert (k = lit "ns").
    { rewrite <- app_assoc in Hb. cbn [app] in Hb. eapply ns_prefix; eauto. }
    subst k. exists num. split; [|split; [exact E3|]].
    + rewrite <- app_assoc. reflexivity.
    + rewrite has_app in Hpre. apply orb_false_iff in Hpre as [_ Hpre]. cbn in Hpre. exact Hpre.
  - destruct (split_once "=" s) as [[t v]|] eqn:E1; [|discriminate].
    destruct (type_of_str t) as [ty|] eqn:E5; [|discriminate].
    cbn [rbind]. destruct (valid_value ty v) eqn:Hv; [|discriminate].
    intros H. inversion H; subst n; clear H. cbn [nid_ns nid_type nid_value valid]. split; [exact Hv|]. left.
    apply split_once_spec in E1 as [-> _]. apply type_of_str_inv in E5 as ->. split; reflexivity.
Qed.

(* text without '=' is always rejected *)
Theorem reject_no_eq s : has "=" s = false -> exists e, parse_nodeid s [] [] = Err e.
Proof.
  intros H. unfold parse_nodeid, parse_nodeid_gen, cached_parse, parse_with. cbn [alookup].
  assert (Hb : starts_with (lit "ns=") s = false).
  { destruct (starts_with (lit "ns=") s) eqn:Hb; [|reflexivity]. exfalso.
    change (lit "ns=") with ["n"; "s"; "="] in Hb.
    destruct s as [|a [|b [|c r]]]; cbn [starts_with has] in Hb, H; try discriminate.
    - apply andb_true_iff in Hb as [_ Hb]. discriminate.
    - apply andb_true_iff in Hb as [_ Hb]. apply andb_true_iff in Hb as [_ Hb]. discriminate.
    - apply andb_true_iff in Hb as [_ Hb]. apply andb_true_iff in Hb as [_ Hb]. apply andb_true_iff in Hb as [Hb _].
      apply Ascii.eqb_eq in Hb. subst c. rewrite Ascii.eqb_refl in H. rewrite !orb_true_r in H. discriminate. }
  rewrite Hb, (split_once_none _ _ H). now eexists.
Qed.

(* the test used before the repair ("ns" in text) broke both directions *)
Definition w_answer := {| nid_ns := 0; nid_type := String_; nid_value := lit "answer" |}.
Definition w_misread := {| nid_ns := 0; nid_type := String_; nid_value := lit "3;s=ns" |}.
Theorem old_roundtrip_refuted : exists n, valid n = true /\ parse_nodeid_old (print_nodeid n) [] [] <> Ok n.
Proof. exists w_answer. split; [reflexivity|]. vm_compute. discriminate. Qed.
Theorem old_sound_refuted : exists n m, valid n = true /\ parse_nodeid_old (print_nodeid n) [] [] = Ok m /\ m <> n.
Proof.
  exists w_misread, {| nid_ns := 3; nid_type := String_; nid_value := lit "ns" |}.
  split; [reflexivity|split; [vm_compute; reflexivity | discriminate]].
Qed.
(* non-vacuity: a hostile but valid identifier *)
Example nv_valid : valid {| nid_ns := 12; nid_type := String_; nid_value := lit "ns=3;s=a;b=c ns" |} = true.
Proof. reflexivity. Qed.
Example nv_roundtrip :
  parse_nodeid (print_nodeid {| nid_ns := 12; nid_type := String_; nid_value := lit "ns=3;s=a;b=c ns" |}) [] []
  = Ok {| nid_ns := 12; nid_type := String_; nid_value := lit "ns=3;s=a;b=c ns" |}.
Proof. vm_compute. reflexivity. Qed.
