(* C20 - concurrent parses do not interfere with each other. *)
From Coq Require Import String List Arith Bool.
Require Import PyStr Sexp M_C19 T_C19 T_C20.
Import ListNotations.

(* any number of calls on pairwise DIFFERENT files, under EVERY interleaving of their operations: a call that has
   finished returned the lone call's result, did not fail, and left no side file *)
Theorem C20_distinct_files : forall (ts0 : pool) (f0 : fs) (hdr : nat -> nat),
  (forall i j, path (ts0 i) = path (ts0 j) -> i = j) -> (forall i, at_ (ts0 i) = PExists) ->
  (forall i, sides f0 (path (ts0 i)) = None) -> (forall i, inputs f0 (path (ts0 i)) = Some (hdr i)) ->
  forall sched i r, at_ (snd (run_sched sched f0 ts0) i) = PDone r ->
  r = Good (hdr i) /\ sides (fst (run_sched sched f0 ts0)) (path (ts0 i)) = None.
Proof. exact distinct_files_no_interference. Qed.
Theorem C20_distinct_files_blocks : forall (ts0 : pool) (f0 : fs) (hdr : nat -> nat),
  (forall i j, path (ts0 i) = path (ts0 j) -> i = j) -> (forall i, at_ (ts0 i) = PExists) ->
  (forall i, sides f0 (path (ts0 i)) = None) -> (forall i, inputs f0 (path (ts0 i)) = Some (hdr i)) ->
  forall sched i r, at_ (snd (run_blocks sched f0 ts0) i) = PDone r ->
  r = Good (hdr i) /\ sides (fst (run_blocks sched f0 ts0)) (path (ts0 i)) = None.
Proof. exact distinct_files_no_interference_blocks. Qed.
Theorem C20_solo_result : forall (ts0 : pool) (f0 : fs) (hdr : nat -> nat),
  (forall i, sides f0 (path (ts0 i)) = None) -> (forall i, inputs f0 (path (ts0 i)) = Some (hdr i)) ->
  forall i, snd (parse_call None true f0 (path (ts0 i)) (nlines (ts0 i))) = Good (hdr i).
Proof. exact solo_result. Qed.
(* the shared NodeId cache never changes an answer *)
Theorem C20_cache_transparent : forall (K V : Type) (keq : K -> K -> bool), (forall a b, keq a b = true <-> a = b) ->
  forall (fn : K -> V) ks c, cache_ok K V keq fn c -> answers K V keq fn c ks = map fn ks.
Proof. exact cache_answers. Qed.
(* two calls on the SAME file interfere (known finding C20-same-file): one fails, or reads a partial side file *)
Theorem C20_same_file_failure_refuted : exists sched i, at_ (snd (run_sched sched fs0 two_same) i) = PDone Failed.
Proof. exact same_file_failure. Qed.
Theorem C20_same_file_garbage_refuted : exists sched i, at_ (snd (run_sched sched fs0 two_same) i) = PDone Garbage.
Proof. exact same_file_garbage. Qed.

Print Assumptions C20_distinct_files.
Print Assumptions C20_distinct_files_blocks.
Print Assumptions C20_solo_result.
Print Assumptions C20_cache_transparent.
Print Assumptions C20_same_file_failure_refuted.
Print Assumptions C20_same_file_garbage_refuted.
