From Coq Require Import List. Require Import M_Write.
Theorem placeholder_C07 : True. Proof. exact I. Qed.
Print Assumptions placeholder_C07.
