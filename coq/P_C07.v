(* C07 - written NodeSets are well-formed, schema-valid and self-contained.
   C07_partial: proved are (1) the markup theorem - the writer's spelling of ANY element tree with well-formed names parses
   back to that tree whatever characters its text and attribute values contain, when they go through escape / escape_attr;
   (2) the self-containedness of the header (first Uri = ModelUri = the namespace that was written).  That the generator's
   text IS such a spelling holds only where the code escapes: the positions where it does not (quotes in NodeId/BrowseName/
   SymbolicName, raw DataType/ParentNodeId/MethodDeclarationId, URIs) are recorded findings.  Schema validity is decided by
   the oracle (lxml.XMLSchema with the bundled UANodeSet.xsd on every written document), not by a theorem. *)
From Coq Require Import String Ascii List Bool Arith NArith ZArith.
Require Import PyStr PyInt Sexp Xml M_C09 M_C08 Ns Table M_Parse M_Write T_Write T_Write2.
Import ListNotations.
Open Scope char_scope.

Theorem C07_markup_never_broken : forall q t, tree_ok t = true -> has CR (spell_treeq q t) = false -> xparse (spell_treeq q t) = Some t.
Proof. exact xparse_spellq. Qed.
Theorem C07_text_escape : forall s, unescape (escape s) = Some s.
Proof. exact unescape_escape. Qed.
Theorem C07_attribute_escape : forall s, unescape (escape_attr s) = Some s.
Proof. exact unescape_escape_attr. Qed.
Theorem C07_escaped_text_has_no_markup : forall c s, (c = "<"%char \/ c = ">"%char) -> has c (escape s) = false.
Proof. exact escape_clean. Qed.
Theorem C07_self_contained_header : forall p w d, write_doc p w = Ok d ->
  exists u1 rest, d_uris d = Some (u1 :: rest) /\
  (exists attrs req, d_models d = Some [{| me_attrs := (lit "ModelUri", u1) :: attrs; me_required := req |}]) /\ d_aliases d = Some [].
Proof. exact write_doc_header. Qed.

(* under the regularity conditions the first Uri and the ModelUri are the namespace that was asked for *)
Theorem C07_names_written_namespace_first : forall p w d k refs,
  str_index (wp_uri w) (p_namespaces p) = Some k -> use_refs p w (Z.of_nat k) = Ok refs -> regular p k refs -> write_doc p w = Ok d ->
  exists rest attrs req, d_uris d = Some (wp_uri w :: rest) /\ d_models d = Some [{| me_attrs := (lit "ModelUri", wp_uri w) :: attrs; me_required := req |}].
Proof. exact T_Write2.C06_first_uri. Qed.

Print Assumptions C07_markup_never_broken.
Print Assumptions C07_text_escape.
Print Assumptions C07_attribute_escape.
Print Assumptions C07_escaped_text_has_no_markup.
Print Assumptions C07_self_contained_header.
Print Assumptions C07_names_written_namespace_first.
