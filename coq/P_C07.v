(* C07 - written NodeSets are well-formed, schema-valid and self-contained.
   C07_written_text_wellformed (text level): the text create_nodeset2_file writes - modelled character for character in
   M_WriteText.v (header, Models/RequiredModel, node elements with their irregular blanks, Reference elements, Value elements) and
   compared with the implementation's bytes on every generated case - is, whenever text_clean holds, the layout-aware spelling of
   an explicit element tree; therefore an XML reader accepts it and returns exactly that tree, WHATEVER the display names,
   descriptions, identifiers, reference targets and values contain (XmlL.xparse_spell_l: extra blanks, '/>' and the XML
   declaration included).  text_clean is a decision procedure; what it excludes are the positions where the code splices
   strings without (sufficient) escaping - the recorded findings quote-in-attribute, raw-nodeid-attribute, uri-unescaped - values
   outside the clean domain of C08, and carriage returns.
   C07_names_written_namespace_first: under the regularity conditions the first Uri and the ModelUri are the namespace asked for.
   C07_partial: schema validity is decided by the oracle (lxml.XMLSchema with the bundled UANodeSet.xsd on every written
   document), not by a theorem; the order of node elements and of Reference elements inside a node (pandas joins) is not modelled:
   texts are compared up to that order. *)
From Coq Require Import String Ascii List Bool Arith NArith ZArith.
Require Import PyStr PyInt Sexp Xml XmlL M_C09 M_C08 M_C08d Ns Table M_Parse M_Write M_WriteText T_Write T_Write2 T_WriteText.
Import ListNotations.
Open Scope char_scope.

Theorem C07_markup_never_broken : forall q t, tree_ok t = true -> has CR (spell_treeq q t) = false -> xparse (spell_treeq q t) = Some t.
Proof. exact xparse_spellq. Qed.
Theorem C07_text_escape : forall s, unescape (escape s) = Some s.
Proof. exact unescape_escape. Qed.
Theorem C07_attribute_escape : forall s, unescape (escape_attr s) = Some s.
Proof. exact unescape_escape_attr. Qed.
Theorem C07_escaped_text_has_no_markup : forall c s, (c = "<"%char \/ c = ">"%char) -> has c (escape s) = false.
Proof. exact escape_clean. Qed.
Theorem C07_self_contained_header : forall p w d, write_doc p w = Ok d ->
  exists u1 rest, d_uris d = Some (u1 :: rest) /\
  (exists attrs req, d_models d = Some [{| me_attrs := (lit "ModelUri", u1) :: attrs; me_required := req |}]) /\ d_aliases d = Some [].
Proof. exact write_doc_header. Qed.

(* under the regularity conditions the first Uri and the ModelUri are the namespace that was asked for *)
Theorem C07_names_written_namespace_first : forall p w d k refs,
  str_index (wp_uri w) (p_namespaces p) = Some k -> use_refs p w (Z.of_nat k) = Ok refs -> regular p k refs -> write_doc p w = Ok d ->
  exists rest attrs req, d_uris d = Some (wp_uri w :: rest) /\ d_models d = Some [{| me_attrs := (lit "ModelUri", wp_uri w) :: attrs; me_required := req |}].
Proof. exact T_Write2.C06_first_uri. Qed.

Theorem C07_written_text_wellformed : forall lm p w, text_clean lm p w = true ->
  exists d vts s, write_doc p w = Ok d /\ value_trees p w = Some vts /\ write_text lm p w = Ok s /\ xparse s = Some (erase (doc_ltree lm d vts)).
Proof. exact write_text_wellformed. Qed.
Theorem C07_text_is_spelling : forall lm d vts, doc_clean lm d = true ->
  doc_text lm d (map (omap (spell_treeq noq)) vts) = spell_l PROLOG (doc_ltree lm d vts).
Proof. exact doc_text_spelled. Qed.
Theorem C07_layout_reader : forall pro t, prolog_ok pro = true -> ltree_ok t = true -> has CR (spell_l pro t) = false -> xparse (spell_l pro t) = Some (erase t).
Proof. exact xparse_spell_l. Qed.

Print Assumptions C07_markup_never_broken.
Print Assumptions C07_text_escape.
Print Assumptions C07_attribute_escape.
Print Assumptions C07_escaped_text_has_no_markup.
Print Assumptions C07_self_contained_header.
Print Assumptions C07_names_written_namespace_first.
Print Assumptions C07_written_text_wellformed.
Print Assumptions C07_text_is_spelling.
Print Assumptions C07_layout_reader.
