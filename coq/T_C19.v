(* Proofs about the side-file protocol under failures (C19). *)
From Coq Require Import String List Arith Bool Lia PeanoNat.
Require Import PyStr Sexp M_C19.
Import ListNotations.

Lemma upd_same {A} (f : nat -> option A) p c : upd f p c p = c.
Proof. unfold upd. now rewrite Nat.eqb_refl. Qed.
Lemma upd_other {A} (f : nat -> option A) p c q : q <> p -> upd f p c q = f q.
Proof. unfold upd. intros H. apply Nat.eqb_neq in H. now rewrite H. Qed.

(* ---- frame: no operation writes an input file or another path's side file ---- *)
Lemma tstep_meta f t : path (snd (tstep f t)) = path t /\ nlines (snd (tstep f t)) = nlines t.
Proof.
  unfold tstep. destruct (at_ t); cbn; auto;
  repeat match goal with |- context [match ?x with _ => _ end] => destruct x; cbn; auto end.
Qed.
Lemma tstep_inputs f t : inputs (fst (tstep f t)) = inputs f.
Proof.
  unfold tstep. destruct (at_ t); cbn; auto;
  repeat match goal with |- context [match ?x with _ => _ end] => destruct x; cbn; auto end.
Qed.
Lemma tstep_frame f t q : q <> path t -> sides (fst (tstep f t)) q = sides f q.
Proof.
  intros H. unfold tstep. destruct (at_ t); cbn; auto;
  repeat match goal with |- context [match ?x with _ => _ end] => destruct x; cbn; auto end;
  now apply upd_other.
Qed.
Lemma fault_meta c t : path (fault c t) = path t /\ nlines (fault c t) = nlines t.
Proof. unfold fault. destruct (in_try (at_ t) && c); auto. Qed.

Lemma exec_frame fuel : forall k c f t,
  inputs (fst (exec fuel k c f t)) = inputs f /\
  (forall q, q <> path t -> sides (fst (exec fuel k c f t)) q = sides f q) /\
  path (snd (exec fuel k c f t)) = path t.
Proof.
  induction fuel as [|fuel IH]; intros k c f t; [cbn; auto|].
  cbn [exec]. destruct (is_done (at_ t)); [cbn; auto|].
  assert (Step : forall k',
            inputs (fst (exec fuel k' c (fst (tstep f t)) (snd (tstep f t)))) = inputs f /\
            (forall q, q <> path t -> sides (fst (exec fuel k' c (fst (tstep f t)) (snd (tstep f t)))) q = sides f q) /\
            path (snd (exec fuel k' c (fst (tstep f t)) (snd (tstep f t)))) = path t).
  { intros k'. pose proof (tstep_inputs f t) as Hi. pose proof (tstep_frame f t) as Hf. pose proof (tstep_meta f t) as [Hp _].
    destruct (IH k' c (fst (tstep f t)) (snd (tstep f t))) as [A [B C]].
    split; [congruence|split; [|congruence]]. intros q Hq. rewrite B by congruence. now apply Hf. }
  destruct (is_fin (at_ t)); [apply Step|]. destruct k as [[|j]|]; try apply Step.
  destruct (IH None c f (fault c t)) as [A [B C]]. destruct (fault_meta c t) as [Hp _].
  split; [exact A|split; [|congruence]]. intros q Hq. apply B. congruence.
Qed.

(* ---- termination: every operation moves the call forward ---- *)
Definition rank (n : nat) (p : pc) : nat :=
  match p with
  | PExists => 2 * n + 14 | PIter => 2 * n + 13 | PIsfile => 2 * n + 12 | PXmlParse => 2 * n + 11 | POpenW => 2 * n + 10
  | PWrite i => (n - i) + n + 9 | POpenR => n + 8 | PReadlines _ => n + 7 | PLoads i _ => (n - i) + 6
  | PFinIsfile _ => 5 | PFinRemove _ => 4 | PBody _ => 3 | PDone _ => 0
  end.
Lemma tstep_rank f t : is_done (at_ t) = false -> rank (nlines t) (at_ (snd (tstep f t))) < rank (nlines t) (at_ t).
Proof.
  unfold tstep. destruct (at_ t) eqn:E; cbn [is_done]; try discriminate; intros _; cbn [snd goto at_ rank];
  try (repeat match goal with |- context [match ?x with _ => _ end] => destruct x; cbn [snd goto at_ rank] end; lia).
  - destruct (Nat.ltb_spec i (nlines t)); cbn [snd goto at_ rank]; lia.
  - destruct (Nat.ltb_spec i (nlines t)); cbn [snd goto at_ rank]; lia.
Qed.
Lemma fault_rank c t : is_done (at_ t) = false -> is_fin (at_ t) = false ->
  rank (nlines t) (at_ (fault c t)) < rank (nlines t) (at_ t).
Proof.
  unfold fault. destruct (at_ t); cbn; try discriminate; intros _ _; destruct c; cbn; lia.
Qed.
Lemma exec_finishes fuel : forall k c f t, rank (nlines t) (at_ t) < fuel -> is_done (at_ (snd (exec fuel k c f t))) = true.
Proof.
  induction fuel as [|fuel IH]; intros k c f t Hr; [lia|].
  cbn [exec]. destruct (is_done (at_ t)) eqn:Ed; [exact Ed|].
  assert (Step : forall k', is_done (at_ (snd (exec fuel k' c (fst (tstep f t)) (snd (tstep f t))))) = true).
  { intros k'. pose proof (tstep_rank f t Ed) as Hlt. pose proof (tstep_meta f t) as [_ Hn].
    apply IH. rewrite Hn. lia. }
  destruct (is_fin (at_ t)) eqn:Ef; [apply Step|]. destruct k as [[|j]|]; try apply Step.
  apply IH. pose proof (fault_rank c t Ed Ef). destruct (fault_meta c t) as [_ ->]. lia.
Qed.

(* ---- the weak invariant: before the try block and after the finally block there is no side file ---- *)
Definition W (f : fs) (t : thread) : Prop :=
  match at_ t with PExists | PIter | PBody _ | PDone _ => sides f (path t) = None | _ => True end.
Lemma tstep_W f t : W f t -> W (fst (tstep f t)) (snd (tstep f t)).
Proof.
  unfold W, tstep. destruct (at_ t) eqn:E; intros H.
  - destruct (inputs f (path t)); cbn; exact H.
  - cbn. exact I.
  - destruct (sides f (path t)); cbn; exact I.
  - destruct (inputs f (path t)); cbn; exact I.
  - cbn. exact I.
  - destruct (i <? nlines t); cbn; exact I.
  - destruct (sides f (path t)); cbn; exact I.
  - cbn. exact I.
  - destruct (i <? nlines t); cbn; exact I.
  - destruct (sides f (path t)) eqn:Es; cbn; [exact I | exact Es].
  - destruct (sides f (path t)) eqn:Es; cbn; [apply upd_same | exact Es].
  - cbn. exact H.
  - cbn. rewrite E. exact H.
Qed.
Lemma fault_W f t : is_fin (at_ t) = false -> W f t -> W f (fault true t).
Proof.
  unfold W, fault. destruct (at_ t); cbn; auto; discriminate.
Qed.
Lemma exec_W fuel : forall k f t, W f t -> W (fst (exec fuel k true f t)) (snd (exec fuel k true f t)).
Proof.
  induction fuel as [|fuel IH]; intros k f t H; [exact H|].
  cbn [exec]. destruct (is_done (at_ t)); [exact H|].
  assert (Step : forall k', W (fst (exec fuel k' true (fst (tstep f t)) (snd (tstep f t)))) (snd (exec fuel k' true (fst (tstep f t)) (snd (tstep f t))))).
  { intros k'. apply IH. now apply tstep_W. }
  destruct (is_fin (at_ t)) eqn:Ef; [apply Step|]. destruct k as [[|j]|]; try apply Step.
  apply IH. now apply fault_W.
Qed.

(* C19, first half: whatever operation fails (or none), when the call has returned or raised, the inputs are
   untouched, no other path was touched and no helper file remains *)
Theorem all_fault_points f p n k : sides f p = None ->
  let f' := fst (parse_call k true f p n) in
  sides f' p = None /\ inputs f' = inputs f /\ forall q, q <> p -> sides f' q = sides f q.
Proof.
  intros Hs. unfold parse_call. cbn [fst].
  pose proof (exec_W (fuel_for n) k f (start p n) Hs) as HW.
  pose proof (exec_finishes (fuel_for n) k true f (start p n) ltac:(unfold fuel_for; cbn; lia)) as Hd.
  destruct (exec_frame (fuel_for n) k true f (start p n)) as [Hi [Hf Hp]].
  destruct (exec (fuel_for n) k true f (start p n)) as [f' t']. cbn [fst snd] in *.
  split; [|split; [exact Hi|exact Hf]].
  unfold W in HW. destruct (at_ t'); try discriminate. now rewrite Hp in HW.
Qed.

(* ---- the strong invariant of a failure-free call on its own side path ---- *)
Definition inv1 (h : nat) (f : fs) (t : thread) : Prop :=
  let s := sides f (path t) in
  match at_ t with
  | PExists | PIter | PIsfile | PXmlParse => s = None
  | POpenW => s = None /\ held t = h
  | PWrite i => s = Some (SPartial i h) /\ held t = h
  | POpenR => s = Some (SFull h)
  | PReadlines c | PLoads _ c => c = SFull h /\ s = Some (SFull h)
  | PFinIsfile r | PFinRemove r => r = Good h /\ s = Some (SFull h)
  | PBody r | PDone r => r = Good h /\ s = None
  end.
Lemma tstep_inv1 h f t : inputs f (path t) = Some h -> inv1 h f t -> inv1 h (fst (tstep f t)) (snd (tstep f t)).
Proof.
  unfold inv1, tstep. intros Hin. destruct (at_ t) eqn:E; cbn zeta; intros H.
  - rewrite Hin. cbn. exact H.
  - cbn. exact H.
  - rewrite H. cbn. exact H.
  - rewrite Hin. cbn. auto.
  - destruct H as [H1 H2]. cbn. rewrite upd_same, H2. auto.
  - destruct H as [H1 H2]. rewrite H1. destruct (i <? nlines t); cbn; rewrite upd_same, H2; auto.
  - rewrite H. cbn. auto.
  - cbn. exact H.
  - destruct H as [H1 H2]. subst c. destruct (i <? nlines t); cbn; auto.
  - destruct H as [H1 H2]. subst r. rewrite H2. cbn. auto.
  - destruct H as [H1 H2]. subst r. rewrite H2. cbn. rewrite upd_same. auto.
  - cbn. exact H.
  - cbn. rewrite E. exact H.
Qed.
Lemma exec_inv1 fuel h : forall f t, inputs f (path t) = Some h -> inv1 h f t ->
  inv1 h (fst (exec fuel None true f t)) (snd (exec fuel None true f t)).
Proof.
  induction fuel as [|fuel IH]; intros f t Hin H; [exact H|].
  cbn [exec]. destruct (is_done (at_ t)); [exact H|].
  assert (Step : inv1 h (fst (exec fuel None true (fst (tstep f t)) (snd (tstep f t)))) (snd (exec fuel None true (fst (tstep f t)) (snd (tstep f t))))).
  { pose proof (tstep_inputs f t) as Hi. pose proof (tstep_meta f t) as [Hp _].
    apply IH; [now rewrite Hi, Hp | now apply tstep_inv1]. }
  destruct (is_fin (at_ t)); exact Step.
Qed.
(* a failure-free call on a clean directory returns what the file's CURRENT content says *)
Theorem clean_call_reads_current f p n h : sides f p = None -> inputs f p = Some h ->
  snd (parse_call None true f p n) = Good h.
Proof.
  intros Hs Hin. unfold parse_call.
  pose proof (exec_inv1 (fuel_for n) h f (start p n) Hin Hs) as HI.
  pose proof (exec_finishes (fuel_for n) None true f (start p n) ltac:(unfold fuel_for; cbn; lia)) as Hd.
  destruct (exec (fuel_for n) None true f (start p n)) as [f' t']. cbn [fst snd] in *.
  unfold inv1 in HI. destruct (at_ t'); try discriminate. now destruct HI.
Qed.

(* C19, second half: fail -> edit -> parse again reflects the edited file *)
Theorem no_stale_after_failure f p n k h2 : sides f p = None ->
  let f1 := fst (parse_call k true f p n) in
  snd (parse_call None true (set_input f1 p (Some h2)) p n) = Good h2.
Proof.
  intros Hs. pose proof (all_fault_points f p n k Hs) as H. cbn zeta in *.
  destruct H as [H1 _]. apply clean_call_reads_current; [exact H1|]. cbn. apply upd_same.
Qed.

(* the code before the repair (no finally): a failure after the side file was created leaves it behind,
   and the next parse returns the stale header although the input now has another one *)
Definition fs0 : fs := {| inputs := fun q => if Nat.eqb q 0 then Some 7 else None; sides := fun _ => None |}.
Theorem old_leaves_side_file : exists k, sides (fst (parse_call (Some k) false fs0 0 2)) 0 <> None.
Proof. exists 6. vm_compute. discriminate. Qed.
Theorem old_stale_side_file_trusted : exists k,
  let f1 := fst (parse_call (Some k) false fs0 0 2) in
  snd (parse_call None false (set_input f1 0 (Some 9)) 0 2) = Good 7.
Proof. exists 9. vm_compute. reflexivity. Qed.
(* still true of the current code: a side file that exists before the call (planted, or left by a killed process)
   is trusted instead of the input (known finding C19-preexisting-side-file) *)
Theorem planted_side_file_trusted :
  snd (parse_call None true (set_side fs0 0 (Some (SFull 5))) 0 2) = Good 5.
Proof. vm_compute. reflexivity. Qed.
(* non-vacuity: a fault in the middle of writing really happens after the side file was created *)
Example nv_fault_after_create :
  sides (fst (exec 7 None true fs0 (start 0 2))) 0 = Some (SPartial 2 7) /\
  sides (fst (parse_call (Some 6) true fs0 0 2)) 0 = None /\ snd (parse_call (Some 6) true fs0 0 2) = Failed.
Proof. vm_compute. auto. Qed.
