From Coq Require Import String Ascii List Bool Arith ZArith.
Require Import PyStr PyInt Sexp Xml M_C09 M_C08 R_C08 Ns Table M_Parse M_ParseText R_Parse M_Write M_WriteText.
Import ListNotations.
Definition d_aval (x : sexp) : option aval :=
  match x with
  | Lst [Atom t; v] =>
      if str_eqb t (lit "s") then omap AStr (d_str v) else if str_eqb t (lit "b") then omap ABool (d_bool v)
      else if str_eqb t (lit "i") then omap AInt (d_Z v) else if str_eqb t (lit "n") then omap ANode (d_nodeid v) else None
  | _ => None end.
Definition d_node_row (x : sexp) : option node_row :=
  match x with
  | Lst [c; n; b; bn; di; de; a; v; ns] =>
      obind (d_str c) (fun c => obind (d_nodeid n) (fun n => obind (d_str b) (fun b => obind (d_opt d_Z bn) (fun bn => obind (d_str di) (fun di =>
      obind (d_str de) (fun de => obind (d_list (d_pair d_str d_aval) a) (fun a => obind (d_opt d_uav v) (fun v => omap (fun ns =>
      {| nr_cls := c; nr_nodeid := n; nr_bname := b; nr_bns := bn; nr_display := di; nr_desc := de; nr_attrs := a; nr_value := v; nr_ns := ns |}) (d_Z ns)))))))))
  | _ => None end.
Definition d_triple_nid (x : sexp) : option triple :=
  match x with Lst [a; b; c] => obind (d_nodeid a) (fun a => obind (d_nodeid b) (fun b => omap (fun c => (a, b, c)) (d_nodeid c))) | _ => None end.
Definition d_model_out (x : sexp) : option model_out :=
  match x with
  | Lst [u; p; v; r] =>
      obind (d_ostr u) (fun u => obind (d_ostr p) (fun p => obind (d_ostr v) (fun v => omap (fun r => {| mo_uri := u; mo_pubdate := p; mo_version := v; mo_required := r |})
      (d_list (fun y => match y with Lst [a; b; c] => obind (d_ostr a) (fun a => obind (d_ostr b) (fun b => omap (fun c => (a, b, c)) (d_ostr c))) | _ => None end) r))))
  | _ => None end.
Definition d_parsed (x : sexp) : option parsed :=
  match x with
  | Lst (ns :: n :: r :: m :: _) =>
      obind (d_list d_str ns) (fun ns => obind (d_list d_node_row n) (fun n => obind (d_list d_triple_nid r) (fun r =>
      omap (fun m => {| p_namespaces := ns; p_nodes := n; p_refs := r; p_models := m |}) (d_list d_model_out m))))
  | _ => None end.
Definition e_attrs (a : list (str * str)) : sexp := e_list (e_pair e_str e_str) a.
Definition e_node_elem (e : node_elem) : sexp :=
  Lst [e_str (ne_cls e); e_attrs (ne_attrs e); e_opt e_ostr (ne_display e); e_opt e_ostr (ne_desc e);
       e_list (fun r => Lst [e_attrs (re_attrs r); e_ostr (re_text r)]) (ne_refs e); e_opt e_nxml (ne_value e)].
Definition e_doc (d : doc) : sexp :=
  Lst [e_str (d_name d); e_opt (e_list e_str) (d_uris d);
       e_opt (e_list (fun m => Lst [e_attrs (me_attrs m); e_list e_attrs (me_required m)])) (d_models d);
       e_opt (e_list (e_pair e_str e_ostr)) (d_aliases d); e_list e_node_elem (d_nodes d)].
Definition d_wparams (x : sexp) : option wparams :=
  match x with
  | Lst [u; i; p; n; v; f] =>
      obind (d_str u) (fun u => obind (d_bool i) (fun i => obind (d_str p) (fun p => obind (d_str n) (fun n => obind (d_ostr v) (fun v =>
      omap (fun f => {| wp_uri := u; wp_inc := i; wp_pubdate := p; wp_now := n; wp_newver := v; wp_fname := f |}) (d_str f))))))
  | _ => None end.
Definition run_write (cmd : str) (args : list sexp) : option sexp :=
  if str_eqb cmd (lit "c05_roundtrip") then
    match args with
    | [e; lm; nw; p; b; tg] =>
        obind (d_ext e) (fun e => obind (d_str lm) (fun lm => obind (d_str nw) (fun nw => obind (d_parsed p) (fun p =>
        obind (d_list (d_pair d_str d_str) b) (fun b => omap (fun tg => e_res e_parsed (model_roundtrip e lm nw p b tg)) (d_list (d_pair d_str d_str) tg))))))
    | _ => None end
  else if str_eqb cmd (lit "text_clean") then
    match args with [p; w] => obind (d_parsed p) (fun p => omap (fun w => e_bool (text_clean (wp_pubdate w) p w)) (d_wparams w)) | _ => None end
  else if str_eqb cmd (lit "write_text") then
    match args with [p; w] => obind (d_parsed p) (fun p => omap (fun w => e_res e_str (write_text (wp_pubdate w) p w)) (d_wparams w)) | _ => None end
  else if str_eqb cmd (lit "write_regular") then
    match args with [p; w] => obind (d_parsed p) (fun p => omap (fun w => e_bool (write_regular p w)) (d_wparams w)) | _ => None end
  else if str_eqb cmd (lit "write_doc") then
    match args with [p; w] => obind (d_parsed p) (fun p => omap (fun w => e_res e_doc (write_doc p w)) (d_wparams w)) | _ => None end
  else None.
