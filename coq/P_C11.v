(* C11 - a UAGraph is closed under its references and look-ups are unambiguous *)
From Coq Require Import String Ascii List Bool Arith ZArith.
Require Import PyStr PyInt Sexp Xml M_C09 M_C08 M_C12 T_C12 M_Graph T_Graph.
Import ListNotations.
Open Scope char_scope.

(* construction passes the reference check exactly when the source and the target of every reference are defined nodes *)
Theorem C11_closed_iff : forall ids refs,
  check_closed ids refs = CClosed <-> forall r, In r refs -> In (r_src r) ids /\ In (r_trg r) ids.
Proof. exact closed_iff. Qed.

(* otherwise the error lists every reference with a missing source or, if there is none, every reference with a missing target *)
Theorem C11_message : forall ids refs,
  (forall rows, check_closed ids refs = CMissingSources rows -> rows <> [] /\ forall r, In r rows <-> In r refs /\ ~ In (r_src r) ids) /\
  (forall rows, check_closed ids refs = CMissingTargets rows -> rows <> [] /\ (forall r, In r refs -> In (r_src r) ids) /\
                                                          forall r, In r rows <-> In r refs /\ ~ In (r_trg r) ids).
Proof. exact closed_message. Qed.

(* a successful look-up returns the id of the one node with that browse name (and class); no other node matches *)
Theorem C11_lookup : forall nodes name cls i,
  lookup_browsename nodes name cls = Ok i ->
  exists n, In n nodes /\ matches name cls n /\ gn_id n = i /\ forall m, In m nodes -> matches name cls m -> m = n.
Proof. exact lookup_unique. Qed.

(* a failing look-up means: empty name, no match, or more than one match *)
Theorem C11_lookup_error : forall nodes name cls,
  (exists e, lookup_browsename nodes name cls = Err e) ->
  name = [] \/ (forall n, In n nodes -> ~ matches name cls n) \/ (exists a b l, filter (fun n => str_eqb (gn_bname n) name)
       (match cls with Some c => filter (fun n => str_eqb (gn_cls n) (lit "UA" ++ c)) nodes | None => nodes end) = a :: b :: l).
Proof. exact lookup_error. Qed.

(* and the failure is a ValueError *)
Theorem C11_lookup_valueerror : forall nodes name cls e,
  lookup_browsename nodes name cls = Err e -> e = EValue.
Proof. exact lookup_errors_are_valueerror. Qed.

Print Assumptions C11_closed_iff.
Print Assumptions C11_message.
Print Assumptions C11_lookup.
Print Assumptions C11_lookup_error.
Print Assumptions C11_lookup_valueerror.
