(* Reading a NodeSet2 document: from the element tree an XML reader returns (Xml.xparse + resolve, the view lxml presents) to the
   document record the parser model M_Parse works on.  With it the parser model consumes the same BYTES as the implementation
   (parse_text_files).  Definitions only. *)
From Coq Require Import String Ascii List Bool Arith NArith ZArith.
Require Import PyStr PyInt Sexp Xml M_C09 M_C08 Ns Table M_Parse.
Import ListNotations.
Open Scope char_scope.

Definition NODESET_NS_ : str := lit "http://opcfoundation.org/UA/2011/03/UANodeSet.xsd".
Definition NODE_CLASSES : list str :=
  map lit ["UAObject"; "UAVariable"; "UAMethod"; "UAView"; "UAObjectType"; "UAVariableType"; "UADataType"; "UAReferenceType"]%string.
Definition is_ua (name : str) (t : nxml) : bool := str_eqb (nns t) NODESET_NS_ && str_eqb (nname t) name.
Definition kids (name : str) (t : nxml) : list nxml := filter (is_ua name) (nchildren t).
Definition first_kid (name : str) (t : nxml) : option nxml := nfind NODESET_NS_ name (nchildren t).
Definition ref_of (r : nxml) : ref_elem := {| re_attrs := nattrs r; re_text := ntext r |}.
Definition node_of (t : nxml) : node_elem :=
  {| ne_cls := nname t;
     ne_attrs := nattrs t;
     ne_display := omap ntext (first_kid (lit "DisplayName") t);
     ne_desc := omap ntext (first_kid (lit "Description") t);
     ne_refs := flat_map (fun rs => map ref_of (kids (lit "Reference") rs)) (kids (lit "References") t);
     ne_value := first_kid (lit "Value") t |}.
Definition model_of (m : nxml) : model_elem := {| me_attrs := nattrs m; me_required := map nattrs (kids (lit "RequiredModel") m) |}.
(* an Alias element without the Alias attribute makes the library raise KeyError: outside this reader *)
Definition alias_of (a : nxml) : option (str * option str) := omap (fun k => (k, ntext a)) (lookup_attr (lit "Alias") (nattrs a)).
Definition doc_of_nxml (fname : str) (root : nxml) : res doc :=
  if negb (is_ua (lit "UANodeSet") root) then Err EUnsupported else
  match (match first_kid (lit "Aliases") root with
         | Some al => omap Some (sequence (map alias_of (kids (lit "Alias") al)))
         | None => Some None end) with
  | None => Err EUnsupported
  | Some aliases =>
      Ok {| d_name := fname;
            d_uris := omap (fun u => map (fun x => ostr (ntext x)) (kids (lit "Uri") u)) (first_kid (lit "NamespaceUris") root);
            d_models := omap (fun ms => map model_of (kids (lit "Model") ms)) (first_kid (lit "Models") root);
            d_aliases := aliases;
            d_nodes := map node_of (filter (fun t => str_eqb (nns t) NODESET_NS_ && mem_str (nname t) NODE_CLASSES) (nchildren root)) |}
  end.
Definition read_doc (fname text : str) : res doc :=
  match xparse text with
  | None => Err EXml
  | Some t => doc_of_nxml fname (resolve [] [] t)
  end.
Fixpoint read_docs (files : list (str * str)) : res (list doc) :=
  match files with
  | [] => Ok []
  | (n, t) :: r => rbind (read_doc n t) (fun d => rbind (read_docs r) (fun ds => Ok (d :: ds)))
  end.
(* the parser model on file bytes *)
Definition parse_text_files (E : ext) (caller : list str) (files : list (str * str)) : res parsed :=
  rbind (read_docs files) (fun ds => parse_files E caller ds).
