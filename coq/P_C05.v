(* C05 - parse -> write_nodeset -> parse reproduces the graph.
   Full statement: for g = parse_files [] docs in the domain,  parse_files [] (base :: map (write_doc g) (non-base URIs))
   equals g at URI level (namespaces, node rows on the listed columns, reference triples, models).
   C05_roundtrip_partial: that single equality of graphs is NOT stated.  Proved, each for all inputs, are the statements it
   consists of: per written namespace and assembled over the parse of a whole document set - the reference triples with an endpoint
   in U (sound and complete, read at (URI, identifier) level), the node rows of U column by column (identity, browse name, texts,
   value, every attribute column), and U's model with its version and required models (the publication dates are replaced by
   design; a model without Version comes back as "1.0.0": the recorded finding, proved present); plus the ingredients (identifier
   text, index translation, reference merging, value round trips, header shape, reader of the written text).  Not covered by a
   theorem: the base file's own content (it is not written at all, so it is parsed as before) and the equality of the namespace
   URI SETS.  The composition on concrete graphs is decided by the correspondence runs and the round trip through the public API. *)
From Coq Require Import String Ascii List Bool Arith NArith ZArith.
Require Import PyStr PyInt Sexp Xml M_C09 T_C09 M_C08 M_C08d T_C08 Ns Table M_Parse T_Parse M_Write T_Write XmlL M_ParseText M_WriteText T_WriteText T_ReadWritten T_Write2 T_C05 T_C05r T_ParseAttrs T_C05n T_C05a T_C05m.
Import ListNotations.
Open Scope char_scope.

Theorem C05_identifier_text : forall n, valid n = true -> parse_nodeid (print_nodeid n) [] [] = Ok n.
Proof. exact roundtrip. Qed.
Theorem C05_index_translation : forall ns d u k uri later, d_uris d = Some u -> nth_error u k = Some uri ->
  exists j, zlookup (Z.of_nat (S k)) (zmap_of (snd (file_ns ns d))) = Some (Z.of_nat j) /\ nth_error (fst (file_ns ns d) ++ later) j = Some uri.
Proof. exact C03_identifier_index. Qed.
Theorem C05_shared_references_merge : forall E caller docs p, parse_files E caller docs = Ok p -> NoDup (p_refs p).
Proof. exact C02_no_duplicates. Qed.
Theorem C05_string_values : forall E b s, has CR s = false ->
  decode_text E (negb b) (encode b (VString (Some s))) = Ok (VString (canon_text (Some s))).
Proof. exact roundtrip_string. Qed.
Theorem C05_integer_values : forall E b k z, (ikind_unsigned k = true -> (0 <= z)%Z) ->
  decode_text E (negb b) (encode b (VInt k (Some z))) = Ok (VInt k (Some z)).
Proof. exact roundtrip_int. Qed.
Theorem C05_written_header : forall p w d, write_doc p w = Ok d ->
  exists u1 rest, d_uris d = Some (u1 :: rest) /\
  (exists attrs req, d_models d = Some [{| me_attrs := (lit "ModelUri", u1) :: attrs; me_required := req |}]) /\ d_aliases d = Some [].
Proof. exact write_doc_header. Qed.

(* what an XML reader followed by the parser's document reader obtains from the written TEXT is exactly the document write_doc describes
   (an empty NamespaceUris block is simply absent): the theorems about write_doc are theorems about what any reader sees *)
Theorem C05_read_written : forall lm p w fname d, classes_ok p = true -> text_clean lm p w = true -> write_doc p w = Ok d ->
  exists s, write_text lm p w = Ok s /\
            read_doc fname s = Ok {| d_name := fname; d_uris := match d_uris d with Some ((_ :: _) as u) => Some u | _ => None end;
                                     d_models := d_models d; d_aliases := d_aliases d; d_nodes := d_nodes d |}.
Proof. exact read_written. Qed.

(* the composition, for the identity of nodes: write namespace U, parse the written document in ANY parsing context - the rows are
   exactly U's nodes, once each, in table order, with their class and their NodeId re-indexed to U's position in the parser's list *)
Theorem C05_nodeids_roundtrip : forall E ns p w d k refs ns1 fo,
  str_index (wp_uri w) (p_namespaces p) = Some k -> use_refs p w (Z.of_nat k) = Ok refs -> regular p k refs ->
  (forall r, In r (p_nodes p) -> valid (nr_nodeid r) = true) ->
  write_doc p w = Ok d -> parse_file E ns d = Ok (ns1, fo) ->
  exists j, nth_error ns1 j = Some (wp_uri w) /\
    map (fun r => (nr_cls r, nr_nodeid r)) (fo_nodes fo)
    = map (fun r => (nr_cls r, with_ns (nr_nodeid r) (Z.of_nat j))) (filter (fun r => Z.eqb (nid_ns (nr_nodeid r)) (Z.of_nat k)) (p_nodes p)).
Proof. exact nodeids_roundtrip. Qed.

(* the references, writer composed with parser: the document written for U, parsed in any context whose table starts with the same
   namespace 0, yields exactly the graph's references with an endpoint in U (after the outgoing-reference switch) - none invented
   (sound), none lost (complete) - every source, target and type read back as the same identifier under the same namespace URI.
   Hypotheses: the regularity conditions, well-formed identifiers that do not end in a blank (the parser right-strips reference
   targets), and a graph closed under the references that touch U (what UAGraph's constructor checks, C11). *)
Theorem C05_references_roundtrip_sound : forall E ns p w d k refs ns1 fo,
  str_index (wp_uri w) (p_namespaces p) = Some k -> use_refs p w (Z.of_nat k) = Ok refs -> regular p k refs ->
  write_doc p w = Ok d -> parse_file E ns d = Ok (ns1, fo) ->
  (forall r, In r (p_nodes p) -> valid (nr_nodeid r) = true) ->
  (forall r, In r (p_nodes p) -> rstrip (nid_value (nr_nodeid r)) = nid_value (nr_nodeid r)) ->
  nth_error ns1 0 = Some (nth 0 (p_namespaces p) []) ->
  (forall t, In t refs -> touches p k refs t = true -> is_node p (fst (fst t)) /\ is_node p (snd (fst t)) /\ is_node p (snd t)) ->
  forall t', In t' (fo_refs fo) -> exists t, In t refs /\ touches p k refs t = true /\ same_triple p ns1 t t'.
Proof. exact refs_roundtrip_sound. Qed.
Theorem C05_references_roundtrip_complete : forall E ns p w d k refs ns1 fo,
  str_index (wp_uri w) (p_namespaces p) = Some k -> use_refs p w (Z.of_nat k) = Ok refs -> regular p k refs ->
  write_doc p w = Ok d -> parse_file E ns d = Ok (ns1, fo) ->
  (forall r, In r (p_nodes p) -> valid (nr_nodeid r) = true) ->
  (forall r, In r (p_nodes p) -> rstrip (nid_value (nr_nodeid r)) = nid_value (nr_nodeid r)) ->
  nth_error ns1 0 = Some (nth 0 (p_namespaces p) []) ->
  (forall t, In t refs -> touches p k refs t = true -> is_node p (fst (fst t)) /\ is_node p (snd (fst t)) /\ is_node p (snd t)) ->
  forall t, In t refs -> touches p k refs t = true -> exists t', In t' (fo_refs fo) /\ same_triple p ns1 t t'.
Proof. exact refs_roundtrip_complete. Qed.
(* with a duplicate-free parser table (C03_no_duplicates) the (URI, identifier) reading determines the NodeId: the correspondence is one to one *)
Theorem C05_same_node_functional : forall p ns1 n a b, NoDup ns1 -> same_node p ns1 n a -> same_node p ns1 n b -> a = b.
Proof. exact same_node_functional. Qed.

(* ---- the node rows, writer composed with parser (T_C05n.v) ----
   The written rows are U's rows of the graph (C06_written_rows_exact); the parser makes one row of each written element, in order
   (C05_rows_paired); and column by column that row is the graph's row: class and (URI, identifier) (C05_row_identity), browse name and the URI
   of its namespace (C05_row_browsename: names without a second colon - the recorded finding of C01), DisplayName / Description as the reader
   strips them (C05_row_texts), the typed value for variables and variable types inside the clean domain of C08 (C05_row_value, C05_row_no_value),
   node references in DataType / ParentNodeId / MethodDeclarationId (C05_row_node_reference), the integer columns inside their range
   (C05_row_int_attr), the two flag columns on the classes that carry them (C05_row_flag_attr), the text columns (C05_row_text_attr), SymbolicName,
   and absent columns stay absent (C05_row_attr_absent). *)
Theorem C05_rows_paired : forall E ns p w d k refs ns1 fo,
  str_index (wp_uri w) (p_namespaces p) = Some k -> use_refs p w (Z.of_nat k) = Ok refs -> write_doc p w = Ok d -> parse_file E ns d = Ok (ns1, fo) ->
  Forall2 (parsed_row_of E ns p d k refs) (w_written p k (w_in_use p k refs)) (fo_nodes fo).
Proof. exact rows_match. Qed.
Theorem C05_row_identity : forall E ns p w d k refs ns1 fo,
  str_index (wp_uri w) (p_namespaces p) = Some k -> use_refs p w (Z.of_nat k) = Ok refs -> regular p k refs ->
  write_doc p w = Ok d -> parse_file E ns d = Ok (ns1, fo) ->
  (forall r, In r (p_nodes p) -> valid (nr_nodeid r) = true) ->
  (forall r, In r (p_nodes p) -> rstrip (nid_value (nr_nodeid r)) = nid_value (nr_nodeid r)) ->
  nth_error ns1 0 = Some (nth 0 (p_namespaces p) []) ->
  forall x r', In x (w_written p k (w_in_use p k refs)) -> parsed_row_of E ns p d k refs x r' ->
  nr_cls r' = nr_cls (fst (fst x)) /\ same_node p ns1 (nr_nodeid (fst (fst x))) (nr_nodeid r').
Proof.
  intros E ns p w d k refs ns1 fo Hk Hrefs Hreg Hw Hp Hv Hc Hz x r' Hx [Hrm Ham]. split.
  - exact (row_class E ns p d k refs x r' Hrm).
  - exact (row_nodeid E ns p w d k refs ns1 fo Hk Hrefs Hreg Hw Hp Hv Hc Hz x r' Hx Hrm).
Qed.
Theorem C05_row_browsename : forall E ns p w d k refs ns1 fo,
  str_index (wp_uri w) (p_namespaces p) = Some k -> use_refs p w (Z.of_nat k) = Ok refs -> regular p k refs ->
  write_doc p w = Ok d -> parse_file E ns d = Ok (ns1, fo) ->
  nth_error ns1 0 = Some (nth 0 (p_namespaces p) []) ->
  forall x r', In x (w_written p k (w_in_use p k refs)) -> parsed_row_of E ns p d k refs x r' ->
  (forall b, nr_bns (fst (fst x)) = Some b -> (b < Z.of_nat (length (p_namespaces p)))%Z) -> has ":" (nr_bname (fst (fst x))) = false ->
  nr_bname r' = nr_bname (fst (fst x)) /\
  exists i j, nr_bns (fst (fst x)) = Some i /\ nr_bns r' = Some (Z.of_nat j) /\ nth_error ns1 j = Some (nth (Z.to_nat i) (p_namespaces p) []).
Proof. intros E ns p w d k refs ns1 fo Hk Hrefs Hreg Hw Hp Hz x r' Hx [Hrm Ham]. exact (row_browsename E ns p w d k refs ns1 fo Hk Hrefs Hreg Hw Hp Hz x r' Hx Hrm Ham). Qed.
Theorem C05_row_texts : forall E ns p d k refs x r', parsed_row_of E ns p d k refs x r' ->
  nr_display r' = rstrip (nr_display (fst (fst x))) /\ nr_desc r' = rstrip (nr_desc (fst (fst x))).
Proof. intros E ns p d k refs x r' [Hrm _]. exact (row_display E ns p d k refs x r' Hrm). Qed.
Theorem C05_row_value : forall E ns p d k refs x r', parsed_row_of E ns p d k refs x r' -> forall v t,
  is_var_cls (nr_cls (fst (fst x))) = true -> nr_value (fst (fst x)) = Some v -> vtree v = Some t -> dom08 E v = true -> nr_value r' = Some (canon v).
Proof. intros E ns p d k refs x r' [Hrm _]. exact (row_value_some E ns p d k refs x r' Hrm). Qed.
Theorem C05_row_no_value : forall E ns p d k refs x r', parsed_row_of E ns p d k refs x r' ->
  nr_value (fst (fst x)) = None \/ is_var_cls (nr_cls (fst (fst x))) = false -> nr_value r' = None.
Proof. intros E ns p d k refs x r' [Hrm _]. exact (row_value_none E ns p d k refs x r' Hrm). Qed.
Theorem C05_row_node_reference : forall E ns p w d k refs ns1 fo,
  str_index (wp_uri w) (p_namespaces p) = Some k -> use_refs p w (Z.of_nat k) = Ok refs -> regular p k refs ->
  write_doc p w = Ok d -> parse_file E ns d = Ok (ns1, fo) ->
  (forall r, In r (p_nodes p) -> valid (nr_nodeid r) = true) ->
  (forall r, In r (p_nodes p) -> rstrip (nid_value (nr_nodeid r)) = nid_value (nr_nodeid r)) ->
  nth_error ns1 0 = Some (nth 0 (p_namespaces p) []) ->
  forall x r', In x (w_written p k (w_in_use p k refs)) -> parsed_row_of E ns p d k refs x r' ->
  forall a n, mem_str a NODE_REF_ATTRS = true -> node_attr a (fst (fst x)) = Some (ANode n) -> is_node p n ->
  exists n', node_attr a r' = Some (ANode n') /\ same_node p ns1 n n'.
Proof. intros E ns p w d k refs ns1 fo Hk Hrefs Hreg Hw Hp Hv Hc Hz x r' Hx [Hrm Ham]. exact (row_node_reference E ns p w d k refs ns1 fo Hk Hrefs Hreg Hw Hp Hv Hc Hz x r' Hx Ham). Qed.
Theorem C05_row_int_attr : forall E ns p d k refs x r', parsed_row_of E ns p d k refs x r' -> forall a z f,
  In a WRITTEN_ATTRS -> node_attr a (fst (fst x)) = Some (AInt z) -> int_attr_cast a = Some f -> f z = z -> node_attr a r' = Some (AInt z).
Proof. intros E ns p d k refs x r' [_ Ham]. exact (row_int_attr ns p d k refs x r' Ham). Qed.
Theorem C05_row_flag_attr : forall E ns p d k refs x r', parsed_row_of E ns p d k refs x r' -> forall a b,
  str_eqb a (lit "IsAbstract") || str_eqb a (lit "Symmetric") = true -> oth_val x a = Some (ABool b) -> node_attr a r' = Some (ABool b).
Proof. intros E ns p d k refs x r' [_ Ham]. exact (row_bool_attr ns p d k refs x r' Ham). Qed.
Theorem C05_row_text_attr : forall E ns p d k refs x r', parsed_row_of E ns p d k refs x r' -> forall a s,
  In a WRITTEN_ATTRS -> mem_str a NODE_REF_ATTRS = false -> int_attr_cast a = None -> str_eqb a (lit "IsAbstract") || str_eqb a (lit "Symmetric") = false ->
  node_attr a (fst (fst x)) = Some (AStr s) -> s <> [] -> (is_bool_attr a = true -> map lower_ascii s = s) -> node_attr a r' = Some (AStr s).
Proof. intros E ns p d k refs x r' [_ Ham]. exact (row_text_attr ns p d k refs x r' Ham). Qed.
Theorem C05_row_attr_absent : forall E ns p d k refs x r', parsed_row_of E ns p d k refs x r' -> forall a,
  In a WRITTEN_ATTRS -> node_attr a (fst (fst x)) = None ->
  node_attr a r' = if mem_str a BOOL_COLS && mem_str a (flat_map (fun e => map fst (ne_attrs e)) (d_nodes d)) then Some (ABool false) else None.
Proof. intros E ns p d k refs x r' [_ Ham]. exact (row_attr_absent ns p d k refs x r' Ham). Qed.
Theorem C05_row_symbolic_name : forall E ns p d k refs x r', parsed_row_of E ns p d k refs x r' -> forall s,
  node_attr (lit "SymbolicName") (fst (fst x)) = Some (AStr s) -> node_attr (lit "SymbolicName") r' = Some (AStr s).
Proof. intros E ns p d k refs x r' [_ Ham]. exact (row_symbolic_name ns p d k refs x r' Ham). Qed.

(* ---- assembled over a whole parse (T_C05a.v): a set of documents that contains the document written for U is parsed by parse_files; every
   graph reference with an endpoint in U is in the parsed reference table and every node of U has its row in the parsed node table, all
   identifiers read in the FINAL namespace table (later files never move an index); conversely every parsed triple comes from one of the kept
   documents, and when that is a written one it is a graph reference with an endpoint in its namespace ---- *)
Theorem C05_assembled_references : forall E caller docs q, parse_files E caller docs = Ok q ->
  forall p w d k refs, In d (kept caller docs) -> str_index (wp_uri w) (p_namespaces p) = Some k -> use_refs p w (Z.of_nat k) = Ok refs -> regular p k refs ->
  write_doc p w = Ok d -> (forall r, In r (p_nodes p) -> valid (nr_nodeid r) = true) ->
  (forall r, In r (p_nodes p) -> rstrip (nid_value (nr_nodeid r)) = nid_value (nr_nodeid r)) ->
  nth_error (p_namespaces q) 0 = Some (nth 0 (p_namespaces p) []) ->
  (forall t, In t refs -> touches p k refs t = true -> is_node p (fst (fst t)) /\ is_node p (snd (fst t)) /\ is_node p (snd t)) ->
  forall t, In t refs -> touches p k refs t = true -> exists t', In t' (p_refs q) /\ same_triple p (p_namespaces q) t t'.
Proof. exact refs_assembled_complete. Qed.
Theorem C05_assembled_rows : forall E caller docs q, parse_files E caller docs = Ok q ->
  forall p w d k refs, In d (kept caller docs) -> str_index (wp_uri w) (p_namespaces p) = Some k -> use_refs p w (Z.of_nat k) = Ok refs -> regular p k refs ->
  write_doc p w = Ok d -> (forall r, In r (p_nodes p) -> valid (nr_nodeid r) = true) ->
  (forall r, In r (p_nodes p) -> rstrip (nid_value (nr_nodeid r)) = nid_value (nr_nodeid r)) ->
  nth_error (p_namespaces q) 0 = Some (nth 0 (p_namespaces p) []) ->
  forall x, In x (w_written p k (w_in_use p k refs)) ->
  exists nsb r', In r' (p_nodes q) /\ parsed_row_of E nsb p d k refs x r' /\ nr_cls r' = nr_cls (fst (fst x)) /\
                 same_node p (p_namespaces q) (nr_nodeid (fst (fst x))) (nr_nodeid r').
Proof. exact rows_assembled. Qed.
Theorem C05_assembled_sound : forall E caller docs q, parse_files E caller docs = Ok q -> forall t', In t' (p_refs q) ->
  exists d nsb nsa fo s, In d (kept caller docs) /\ parse_file E nsb d = Ok (nsa, fo) /\ In t' (fo_refs fo) /\ p_namespaces q = nsa ++ s /\
  forall p w k refs, str_index (wp_uri w) (p_namespaces p) = Some k -> use_refs p w (Z.of_nat k) = Ok refs -> regular p k refs -> write_doc p w = Ok d ->
    (forall r, In r (p_nodes p) -> valid (nr_nodeid r) = true) ->
    (forall r, In r (p_nodes p) -> rstrip (nid_value (nr_nodeid r)) = nid_value (nr_nodeid r)) ->
    nth_error (p_namespaces q) 0 = Some (nth 0 (p_namespaces p) []) ->
    (forall t, In t refs -> touches p k refs t = true -> is_node p (fst (fst t)) /\ is_node p (snd (fst t)) /\ is_node p (snd t)) ->
    exists t, In t refs /\ touches p k refs t = true /\ same_triple p (p_namespaces q) t t'.
Proof. exact refs_assembled_sound. Qed.

(* ---- the models (T_C05m.v): the document written for U, parsed in any context, reports exactly one model: U's, with the version of the graph's
   model (or the new version asked for, or "1.0.0" when the graph's model has none - the recorded finding), the caller's publication date, and
   the required models with their URIs and versions; and that model is among the models of any parse that contains the written document ---- *)
Theorem C05_models_roundtrip : forall E ns p w d k refs ns1 fo, str_index (wp_uri w) (p_namespaces p) = Some k -> use_refs p w (Z.of_nat k) = Ok refs ->
  write_doc p w = Ok d -> parse_file E ns d = Ok (ns1, fo) ->
  exists u1 rest, d_uris d = Some (u1 :: rest) /\ fo_models fo = [reparsed_model p w u1].
Proof. exact models_roundtrip. Qed.
Theorem C05_models_assembled : forall E caller docs q, parse_files E caller docs = Ok q ->
  forall p w d k refs, In d (kept caller docs) -> str_index (wp_uri w) (p_namespaces p) = Some k -> use_refs p w (Z.of_nat k) = Ok refs ->
  write_doc p w = Ok d -> exists u1 rest, d_uris d = Some (u1 :: rest) /\ In (reparsed_model p w u1) (p_models q).
Proof. exact models_assembled. Qed.
Theorem C05_model_version_kept : forall p w u m v, model_of_uri p u = Some m -> mo_version m = Some v -> wp_newver w = None ->
  mo_version (reparsed_model p w u) = Some v.
Proof. exact reparsed_model_version. Qed.
Theorem C05_model_new_version : forall p w u v, wp_newver w = Some v -> mo_version (reparsed_model p w u) = Some v.
Proof. exact reparsed_model_newver. Qed.
Theorem C05_model_required_kept : forall p w u m, model_of_uri p u = Some m ->
  map (fun rq => (fst (fst rq), snd rq)) (mo_required (reparsed_model p w u)) = map (fun rq => (Some (ostr_none (fst (fst rq))), snd rq)) (mo_required m).
Proof. exact reparsed_model_required. Qed.
(* the recorded finding 'model-version-defaulted' is a theorem about the model of the code: the full statement fails for a model without Version *)
Theorem C05_model_version_defaulted_refuted : forall p w u m, model_of_uri p u = Some m -> mo_version m = None -> wp_newver w = None ->
  mo_version (reparsed_model p w u) = Some (lit "1.0.0").
Proof. exact reparsed_model_version_defaulted. Qed.

Print Assumptions C05_identifier_text.
Print Assumptions C05_index_translation.
Print Assumptions C05_shared_references_merge.
Print Assumptions C05_string_values.
Print Assumptions C05_integer_values.
Print Assumptions C05_written_header.
Print Assumptions C05_read_written.
Print Assumptions C05_nodeids_roundtrip.
Print Assumptions C05_references_roundtrip_sound.
Print Assumptions C05_references_roundtrip_complete.
Print Assumptions C05_same_node_functional.
Print Assumptions C05_rows_paired.
Print Assumptions C05_row_identity.
Print Assumptions C05_row_browsename.
Print Assumptions C05_row_texts.
Print Assumptions C05_row_value.
Print Assumptions C05_row_no_value.
Print Assumptions C05_row_node_reference.
Print Assumptions C05_row_int_attr.
Print Assumptions C05_row_flag_attr.
Print Assumptions C05_row_text_attr.
Print Assumptions C05_row_attr_absent.
Print Assumptions C05_row_symbolic_name.
Print Assumptions C05_assembled_references.
Print Assumptions C05_assembled_rows.
Print Assumptions C05_assembled_sound.
Print Assumptions C05_models_roundtrip.
Print Assumptions C05_models_assembled.
Print Assumptions C05_model_version_kept.
Print Assumptions C05_model_new_version.
Print Assumptions C05_model_required_kept.
Print Assumptions C05_model_version_defaulted_refuted.
