(* C05 - parse -> write_nodeset -> parse reproduces the graph.
   Full statement: for g = parse_files [] docs in the domain,  parse_files [] (base :: map (write_doc g) (non-base URIs))
   equals g at URI level (namespaces, node rows on the listed columns, reference triples, models).
   C05_roundtrip_partial: the composition theorem is NOT proved.  Proved are its ingredients, each for all inputs:
   identifier text round trip (C09), index translation through a document's own namespace table (C03), merging of
   references declared in several written documents (C02), value round trips (C08, per type), and the shape of the
   written header.  The composition is decided by the correspondence runs of the parser and writer models and by the
   literal round trip through the public API (oracle) on every generated graph. *)
From Coq Require Import String Ascii List Bool Arith NArith ZArith.
Require Import PyStr PyInt Sexp Xml M_C09 T_C09 M_C08 M_C08d T_C08 Ns Table M_Parse T_Parse M_Write T_Write XmlL M_ParseText M_WriteText T_WriteText T_ReadWritten T_Write2 T_C05 T_C05r.
Import ListNotations.
Open Scope char_scope.

Theorem C05_identifier_text : forall n, valid n = true -> parse_nodeid (print_nodeid n) [] [] = Ok n.
Proof. exact roundtrip. Qed.
Theorem C05_index_translation : forall ns d u k uri later, d_uris d = Some u -> nth_error u k = Some uri ->
  exists j, zlookup (Z.of_nat (S k)) (zmap_of (snd (file_ns ns d))) = Some (Z.of_nat j) /\ nth_error (fst (file_ns ns d) ++ later) j = Some uri.
Proof. exact C03_identifier_index. Qed.
Theorem C05_shared_references_merge : forall E caller docs p, parse_files E caller docs = Ok p -> NoDup (p_refs p).
Proof. exact C02_no_duplicates. Qed.
Theorem C05_string_values : forall E b s, has CR s = false ->
  decode_text E (negb b) (encode b (VString (Some s))) = Ok (VString (canon_text (Some s))).
Proof. exact roundtrip_string. Qed.
Theorem C05_integer_values : forall E b k z, (ikind_unsigned k = true -> (0 <= z)%Z) ->
  decode_text E (negb b) (encode b (VInt k (Some z))) = Ok (VInt k (Some z)).
Proof. exact roundtrip_int. Qed.
Theorem C05_written_header : forall p w d, write_doc p w = Ok d ->
  exists u1 rest, d_uris d = Some (u1 :: rest) /\
  (exists attrs req, d_models d = Some [{| me_attrs := (lit "ModelUri", u1) :: attrs; me_required := req |}]) /\ d_aliases d = Some [].
Proof. exact write_doc_header. Qed.

(* what an XML reader followed by the parser's document reader obtains from the written TEXT is exactly the document write_doc describes
   (an empty NamespaceUris block is simply absent): the theorems about write_doc are theorems about what any reader sees *)
Theorem C05_read_written : forall lm p w fname d, classes_ok p = true -> text_clean lm p w = true -> write_doc p w = Ok d ->
  exists s, write_text lm p w = Ok s /\
            read_doc fname s = Ok {| d_name := fname; d_uris := match d_uris d with Some ((_ :: _) as u) => Some u | _ => None end;
                                     d_models := d_models d; d_aliases := d_aliases d; d_nodes := d_nodes d |}.
Proof. exact read_written. Qed.

(* the composition, for the identity of nodes: write namespace U, parse the written document in ANY parsing context - the rows are
   exactly U's nodes, once each, in table order, with their class and their NodeId re-indexed to U's position in the parser's list *)
Theorem C05_nodeids_roundtrip : forall E ns p w d k refs ns1 fo,
  str_index (wp_uri w) (p_namespaces p) = Some k -> use_refs p w (Z.of_nat k) = Ok refs -> regular p k refs ->
  (forall r, In r (p_nodes p) -> valid (nr_nodeid r) = true) ->
  write_doc p w = Ok d -> parse_file E ns d = Ok (ns1, fo) ->
  exists j, nth_error ns1 j = Some (wp_uri w) /\
    map (fun r => (nr_cls r, nr_nodeid r)) (fo_nodes fo)
    = map (fun r => (nr_cls r, with_ns (nr_nodeid r) (Z.of_nat j))) (filter (fun r => Z.eqb (nid_ns (nr_nodeid r)) (Z.of_nat k)) (p_nodes p)).
Proof. exact nodeids_roundtrip. Qed.

(* the references, writer composed with parser: the document written for U, parsed in any context whose table starts with the same
   namespace 0, yields exactly the graph's references with an endpoint in U (after the outgoing-reference switch) - none invented
   (sound), none lost (complete) - every source, target and type read back as the same identifier under the same namespace URI.
   Hypotheses: the regularity conditions, well-formed identifiers that do not end in a blank (the parser right-strips reference
   targets), and a graph closed under the references that touch U (what UAGraph's constructor checks, C11). *)
Theorem C05_references_roundtrip_sound : forall E ns p w d k refs ns1 fo,
  str_index (wp_uri w) (p_namespaces p) = Some k -> use_refs p w (Z.of_nat k) = Ok refs -> regular p k refs ->
  write_doc p w = Ok d -> parse_file E ns d = Ok (ns1, fo) ->
  (forall r, In r (p_nodes p) -> valid (nr_nodeid r) = true) ->
  (forall r, In r (p_nodes p) -> rstrip (nid_value (nr_nodeid r)) = nid_value (nr_nodeid r)) ->
  nth_error ns1 0 = Some (nth 0 (p_namespaces p) []) ->
  (forall t, In t refs -> touches p k refs t = true -> is_node p (fst (fst t)) /\ is_node p (snd (fst t)) /\ is_node p (snd t)) ->
  forall t', In t' (fo_refs fo) -> exists t, In t refs /\ touches p k refs t = true /\ same_triple p ns1 t t'.
Proof. exact refs_roundtrip_sound. Qed.
Theorem C05_references_roundtrip_complete : forall E ns p w d k refs ns1 fo,
  str_index (wp_uri w) (p_namespaces p) = Some k -> use_refs p w (Z.of_nat k) = Ok refs -> regular p k refs ->
  write_doc p w = Ok d -> parse_file E ns d = Ok (ns1, fo) ->
  (forall r, In r (p_nodes p) -> valid (nr_nodeid r) = true) ->
  (forall r, In r (p_nodes p) -> rstrip (nid_value (nr_nodeid r)) = nid_value (nr_nodeid r)) ->
  nth_error ns1 0 = Some (nth 0 (p_namespaces p) []) ->
  (forall t, In t refs -> touches p k refs t = true -> is_node p (fst (fst t)) /\ is_node p (snd (fst t)) /\ is_node p (snd t)) ->
  forall t, In t refs -> touches p k refs t = true -> exists t', In t' (fo_refs fo) /\ same_triple p ns1 t t'.
Proof. exact refs_roundtrip_complete. Qed.
(* with a duplicate-free parser table (C03_no_duplicates) the (URI, identifier) reading determines the NodeId: the correspondence is one to one *)
Theorem C05_same_node_functional : forall p ns1 n a b, NoDup ns1 -> same_node p ns1 n a -> same_node p ns1 n b -> a = b.
Proof. exact same_node_functional. Qed.

Print Assumptions C05_identifier_text.
Print Assumptions C05_index_translation.
Print Assumptions C05_shared_references_merge.
Print Assumptions C05_string_values.
Print Assumptions C05_integer_values.
Print Assumptions C05_written_header.
Print Assumptions C05_read_written.
Print Assumptions C05_nodeids_roundtrip.
Print Assumptions C05_references_roundtrip_sound.
Print Assumptions C05_references_roundtrip_complete.
Print Assumptions C05_same_node_functional.
