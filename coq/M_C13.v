(* Model of navigation.find_relatives and UAGraph.create_node_paths_by_reference_types.
   Rows are walks stored last-node-first; a start row is [s].  Definitions only. *)
From Coq Require Import String List Arith Bool PeanoNat.
Require Import PyStr Sexp M_C12.
Import ListNotations.

Definition path := list nat.
(* the inner join of the frontier with the edge table: one row per (parallel) edge leaving the row's last node;
   desc = true follows Src -> Trg (descendants), false follows Trg -> Src (ancestors) *)
Definition succs (E : rel) (desc : bool) (v : nat) : list nat :=
  if desc then map snd (filter (fun e => fst e =? v) E) else map fst (filter (fun e => snd e =? v) E).
Definition extend (E : rel) (desc : bool) (p : path) : list path :=
  match p with [] => [] | v :: _ => map (fun t => t :: p) (succs E desc v) end.
Definition step (E : rel) (desc : bool) (F : list path) : list path := flat_map (extend E desc) F.
(* the while loop cut after k joins; every frontier is appended to the result *)
Fixpoint bfs (E : rel) (desc : bool) (k : nat) (F : list path) : list path :=
  F ++ match k with 0 => [] | S k' => bfs E desc k' (step E desc F) end.
Fixpoint frontier (E : rel) (desc : bool) (k : nat) (F : list path) : list path :=
  match k with 0 => F | S k' => frontier E desc k' (step E desc F) end.
Definition start_rows (starts : list nat) : list path := map (fun s => [s]) starts.
(* all node ids that can occur in a row *)
Definition universe (E : rel) (starts : list nat) : list nat := nodup Nat.eq_dec (starts ++ map fst E ++ map snd E).

(* find_relatives(nodes, key, edges, relative_type, cutoff, keep_paths): with a cut-off the loop runs at most
   cutoff rounds; without one it runs until the frontier is empty, which never happens on a cycle (modelled as an
   error after |universe| rounds - on an acyclic edge set the frontier is provably empty by then) *)
Definition find_relatives (E : rel) (desc : bool) (cutoff : option nat) (starts : list nat) : res (list path) :=
  match cutoff with
  | Some k => Ok (bfs E desc k (start_rows starts))
  | None =>
      let n := length (universe E starts) in
      match frontier E desc n (start_rows starts) with
      | [] => Ok (bfs E desc n (start_rows starts))
      | _ => Err EOther
      end
  end.
(* the columns of a result row: key of the start node, len_path, end, and (keep_paths) the node sequence *)
Definition row_start (p : path) : nat := last p 0.
Definition row_len (p : path) : nat := length p - 1.
Definition row_end (p : path) : nat := hd 0 p.
Definition row_seq (p : path) : list nat := rev p.

(* ---- create_node_paths_by_reference_types ---- *)
Fixpoint name_of (names : list (nat * str)) (v : nat) : str :=
  match names with [] => [] | (k, s) :: r => if k =? v then s else name_of r v end.
(* melt + join + sort by (start, end, position) + groupby (start, end) + "/".join *)
Fixpoint insert_by_pos (x : nat * nat) (l : list (nat * nat)) : list (nat * nat) :=
  match l with [] => [x] | y :: r => if fst x <? fst y then x :: l else y :: insert_by_pos x r end.
Definition sort_by_pos (l : list (nat * nat)) : list (nat * nat) := fold_right insert_by_pos [] l.
(* (position, node) for the path columns 1.. of a row *)
Fixpoint enumerate_from (i : nat) (l : list nat) : list (nat * nat) :=
  match l with [] => [] | x :: r => (i, x) :: enumerate_from (S i) r end.
Definition melt (p : path) : list (nat * nat) := enumerate_from 1 (tl (row_seq p)).
Definition group_cells (rows : list path) (e : nat) : list (nat * nat) :=
  sort_by_pos (flat_map melt (filter (fun p => row_end p =? e) rows)).
Definition slash : str := lit "/"%string.
Definition node_paths (names : list (nat * str)) (E : rel) (root : nat) : res (list (nat * str)) :=
  rbind (find_relatives E true None [root]) (fun rows =>
  let below := filter (fun p => 0 <? row_len p) rows in
  let ends := nodup Nat.eq_dec (map row_end below) in
  Ok (map (fun e => (e, name_of names root ++ slash ++ join slash (map (fun c => name_of names (snd c)) (group_cells below e)))) ends
      ++ [(root, name_of names root ++ slash)])).

(* wire format *)
Definition e_path_row (keep : bool) (p : path) : sexp :=
  Lst [e_nat (row_start p); e_nat (row_len p); e_nat (row_end p); if keep then e_list e_nat (row_seq p) else Lst []].
