From Coq Require Import String Ascii List Bool Arith ZArith.
Require Import PyStr PyInt Sexp Xml M_C09 M_C08 R_C08 Ns Table M_Parse R_Parse M_C18.
Import ListNotations.
Definition run_c18 (cmd : str) (args : list sexp) : option sexp :=
  if str_eqb cmd (lit "c18_helpers") then
    match args with [d] => omap (fun d => Lst [e_res e_ns_data (xml_ns_data d); e_res e_ns_data (json_ns_data d); e_list e_str (file_namespaces d)]) (d_doc d) | _ => None end
  else if str_eqb cmd (lit "c18_filter") then
    match args with [c; ds] => obind (d_list d_str c) (fun c => omap (fun ds => e_list (fun d => e_str (d_name d)) (filter_files c ds)) (d_list d_doc ds)) | _ => None end
  else None.
