(* C05 / C06, composed for the node rows: writing namespace U and parsing the written document gives, for every node of U, a row with the
   same class, the same (URI, identifier), the same browse name under the same namespace URI, display name and description (right-stripped),
   the same typed value (canon), and the same attribute columns.  Each column has its own lemma with the condition it needs. *)
From Coq Require Import String Ascii List Bool Arith NArith ZArith Lia Sorted.
Require Import PyStr PyInt Sexp Xml XmlL M_C09 T_C09 M_C08 M_C08d T_C08 T_C08s Ns Table M_Parse T_Parse M_Write T_Write T_Write2 M_ParseText M_WriteText T_WriteText T_ReadWritten T_C05 T_C05r T_ParseAttrs.
Import ListNotations.
Open Scope char_scope.

Lemma Forall2_map_l {A B C} (f : A -> B) (R : B -> C -> Prop) l l' : Forall2 R (map f l) l' -> Forall2 (fun a c => R (f a) c) l l'.
Proof. revert l'. induction l as [|a l IH]; intros l' H; inversion H; subst; constructor; auto. Qed.
(* the browse-name assertion of the writer: every written row has a browse-name namespace that is in use *)
Lemma write_doc_bns p w d k refs : str_index (wp_uri w) (p_namespaces p) = Some k -> use_refs p w (Z.of_nat k) = Ok refs -> write_doc p w = Ok d ->
  forall x, In x (w_written p k (w_in_use p k refs)) -> exists b, obind (snd x) (w_compact (w_in_use p k refs)) = Some b.
Proof.
  intros Hk Hrefs Hw x Hx. unfold write_doc in Hw. rewrite Hk, Hrefs in Hw. cbn [rbind] in Hw.
  destruct (map (fun i : Z => nth (Z.to_nat i) (w_newl (p_namespaces p) k) []) (w_in_use p k refs)) as [|u0 [|u1 rest]]; try discriminate.
  match type of Hw with (if ?c then _ else _) = _ => assert (Ec : c = false) by (destruct c; [discriminate|reflexivity]) end.
  destruct (obind (snd x) (w_compact (w_in_use p k refs))) as [b|] eqn:Eb; [eauto|]. exfalso.
  apply not_true_iff_false in Ec. apply Ec. apply existsb_exists. exists x. split; [exact Hx|]. now rewrite Eb.
Qed.
(* look-ups in a list built by flat_map over distinct keys, each contributing nothing or one pair under its own key *)
Lemma lookup_flat_map (f : str -> list (str * str)) : (forall b, f b = [] \/ exists s, f b = [(b, s)]) ->
  forall l a, NoDup l -> In a l -> lookup_attr a (flat_map f l) = match f a with (_, s) :: _ => Some s | [] => None end.
Proof.
  intros Hf. induction l as [|b l IH]; intros a Hnd Ha; [contradiction|]. inversion Hnd as [|? ? Hb Hnd']; subst. cbn [flat_map].
  assert (Hskip : forall c, ~ In c l -> lookup_attr c (flat_map f l) = None).
  { intros c Hc. apply lookup_none_keys. intros kv Hkv. apply in_flat_map in Hkv as [b' [Hb' Hkv]]. destruct (Hf b') as [E|[s E]]; rewrite E in Hkv; [contradiction|].
    destruct Hkv as [<-|[]]. cbn [fst]. apply str_eqb_neq. intros ->. contradiction. }
  destruct Ha as [->|Ha].
  - destruct (Hf a) as [E|[s E]]; rewrite E; cbn [app lookup_attr]; [now apply Hskip|]. now rewrite str_eqb_refl.
  - assert (Hne : b <> a) by (intros ->; contradiction).
    destruct (Hf b) as [E|[s E]]; rewrite E; cbn [app lookup_attr]; [now apply IH|]. apply str_eqb_neq in Hne. rewrite Hne. now apply IH.
Qed.
Lemma written_attrs_nodup : NoDup WRITTEN_ATTRS.
Proof. apply nodup_str_sound. vm_compute. reflexivity. Qed.

Section NodeRows.
  Variables (E : ext) (ns : list str) (p : parsed) (w : wparams) (d : doc) (k : nat) (refs : list triple) (ns1 : list str) (fo : file_out).
  Hypothesis Hk : str_index (wp_uri w) (p_namespaces p) = Some k.
  Hypothesis Hrefs : use_refs p w (Z.of_nat k) = Ok refs.
  Hypothesis Hreg : regular p k refs.
  Hypothesis Hw : write_doc p w = Ok d.
  Hypothesis Hp : parse_file E ns d = Ok (ns1, fo).
  Hypothesis Hvalid : forall r, In r (p_nodes p) -> valid (nr_nodeid r) = true.
  Hypothesis Hclean : forall r, In r (p_nodes p) -> rstrip (nid_value (nr_nodeid r)) = nid_value (nr_nodeid r).
  Hypothesis Hzero : nth_error ns1 0 = Some (nth 0 (p_namespaces p) []).
  Let in_use := w_in_use p k refs.
  Let nsmap := zmap_of (snd (file_ns ns d)).
  Let cols := flat_map (fun e => map fst (ne_attrs e)) (d_nodes d).
  Let elem := w_node_elem p k in_use refs.

  (* one parsed row per written row, in order, each matching its element *)
  Lemma rows_match : Forall2 (fun x r' => row_matches E nsmap [] (elem x) r' /\ attrs_match nsmap [] cols (elem x) r') (w_written p k in_use) (fo_nodes fo).
  Proof.
    destruct (file_attribute_columns E ns d ns1 fo Hp) as [amap [Ha HF]].
    destruct (write_doc_parts p w d k refs Hk Hrefs Hw) as [_ [Hal [Hnodes _]]]. rewrite Hal in Ha. cbn [build_aliases] in Ha. injection Ha as <-.
    fold nsmap cols in HF. rewrite Hnodes in HF. apply Forall2_map_l in HF. exact HF.
  Qed.

  Variables (x : wrow) (r' : node_row).
  Hypothesis Hx : In x (w_written p k in_use).
  Hypothesis Hrm : row_matches E nsmap [] (elem x) r'.
  Hypothesis Ham : attrs_match nsmap [] cols (elem x) r'.
  Let r := fst (fst x).
  Let me := nr_nodeid r.
  Let W := map (fun x : wrow => nr_nodeid (fst (fst x))) (w_written p k in_use).
  Lemma me_W : In me W. Proof. unfold W. apply in_map_iff. exists x. split; [reflexivity|exact Hx]. Qed.
  Lemma r_node : In r (p_nodes p).
  Proof. unfold w_written in Hx. apply filter_In in Hx as [Hxin _]. unfold w_nodes1 in Hxin. apply in_map_iff in Hxin as [r0 [<- Hr0]]. exact Hr0. Qed.
  Lemma x_shape : x = (r, with_nid_ns (nr_nodeid r) (w_remap (p_namespaces p) k (nid_ns (nr_nodeid r))), omap (w_remap (p_namespaces p) k) (nr_bns r)).
  Proof. unfold w_written in Hx. apply filter_In in Hx as [Hxin _]. unfold w_nodes1 in Hxin. apply in_map_iff in Hxin as [r0 [<- Hr0]]. reflexivity. Qed.

  (* ---- class ---- *)
  Theorem row_class : nr_cls r' = nr_cls r.
  Proof. destruct Hrm as [Hc _]. exact Hc. Qed.
  (* ---- NodeId: the same identifier under the same namespace URI ---- *)
  Theorem row_nodeid : same_node p ns1 (nr_nodeid r) (nr_nodeid r').
  Proof.
    destruct Hrm as [_ [[nid [Hl Hpn]] _]]. unfold elem, in_use in Hl. rewrite node_elem_id in Hl. injection Hl as <-. fold r me in Hpn.
    destruct (text_used E ns p w d k refs ns1 fo Hk Hrefs Hreg Hw Hp Hvalid Hclean Hzero me (W_node p k refs Hreg me me_W) (W_used p k refs Hreg me me_W)) as [n' [P [_ S]]].
    unfold nsmap in Hpn. rewrite P in Hpn. injection Hpn as <-. exact S.
  Qed.
  (* ---- DisplayName, Description: as written, right-stripped by the reader ---- *)
  Theorem row_display : nr_display r' = rstrip (nr_display r) /\ nr_desc r' = rstrip (nr_desc r).
  Proof.
    destruct Hrm as [_ [_ [_ [Hd [He _]]]]]. split.
    - rewrite Hd. unfold elem, w_node_elem. cbn [ne_display]. fold r. destruct (nr_display r); reflexivity.
    - rewrite He. unfold elem, w_node_elem. cbn [ne_desc]. fold r. destruct (nr_desc r); reflexivity.
  Qed.
  (* ---- Value ---- *)
  Definition is_var_cls (c : str) : bool := str_eqb c (lit "UAVariable") || str_eqb c (lit "UAVariableType").
  Theorem row_value_some v t : is_var_cls (nr_cls r) = true -> nr_value r = Some v -> vtree v = Some t -> dom08 E v = true -> nr_value r' = Some (canon v).
  Proof.
    intros Hc Hv Ht Hd. destruct Hrm as [_ [_ [_ [_ [_ [Hval _]]]]]]. unfold elem, w_node_elem in Hval. cbn [ne_value] in Hval. fold r in Hval.
    unfold is_var_cls in Hc. rewrite Hc, Hv, Ht in Hval. cbn [omap dec_value_elem nchildren] in Hval. rewrite (decode_vtree E v t Hd Ht) in Hval. cbn [rmap] in Hval. congruence.
  Qed.
  Theorem row_value_none : nr_value r = None \/ is_var_cls (nr_cls r) = false -> nr_value r' = None.
  Proof.
    intros H. destruct Hrm as [_ [_ [_ [_ [_ [Hval _]]]]]]. unfold elem, w_node_elem in Hval. cbn [ne_value] in Hval. fold r in Hval.
    fold (is_var_cls (nr_cls r)) in Hval. destruct H as [H|H]; rewrite H in Hval; [destruct (is_var_cls (nr_cls r))|]; cbn in Hval; congruence.
  Qed.

  (* ---- BrowseName ---- *)
  Hypothesis Hbns : forall b, nr_bns r = Some b -> (b < Z.of_nat (length (p_namespaces p)))%Z.
  Lemma e_browsename : exists b, obind (snd x) (w_compact in_use) = Some b /\ lookup_attr (lit "BrowseName") (ne_attrs (elem x)) = Some (decZ b ++ ":" :: nr_bname r).
  Proof.
    destruct (write_doc_bns p w d k refs Hk Hrefs Hw x Hx) as [b Hb]. fold in_use in Hb. exists b. split; [exact Hb|].
    unfold elem. rewrite (e_attrs p k in_use refs x). fold r. rewrite Hb. cbn [lookup_attr]. change (str_eqb (lit "NodeId") (lit "BrowseName")) with false. cbv iota.
    destruct (node_attr (lit "SymbolicName") r) as [[s| | |]|]; cbn [app lookup_attr]; try change (str_eqb (lit "SymbolicName") (lit "BrowseName")) with false; cbv iota;
      now rewrite str_eqb_refl.
  Qed.
  Theorem row_browsename : has ":" (nr_bname r) = false ->
    nr_bname r' = nr_bname r /\
    exists i j, nr_bns r = Some i /\ nr_bns r' = Some (Z.of_nat j) /\ nth_error ns1 j = Some (nth (Z.to_nat i) (p_namespaces p) []).
  Proof.
    intros Hcolon. destruct Hrm as [_ [_ [[bn [Hl Hsp]] _]]]. destruct e_browsename as [b [Hb Hbn]]. rewrite Hbn in Hl. injection Hl as <-.
    assert (Hdig : has ":" (decZ b) = false) by (apply decZ_has; [reflexivity|discriminate]).
    unfold split_browsename in Hsp. rewrite has_app in Hsp. cbn [has] in Hsp. change (Ascii.eqb ":" ":") with true in Hsp. rewrite orb_true_r in Hsp.
    rewrite (split_all_app ":" (decZ b) (nr_bname r) Hdig), (split_all_none ":" (nr_bname r) Hcolon), py_int_decZ in Hsp. injection Hsp as Hn Hz.
    split; [now symmetry|].
    rewrite x_shape in Hb. cbn [snd] in Hb. destruct (nr_bns r) as [i|] eqn:Ei; [|discriminate]. cbn [omap obind] in Hb.
    destruct Hreg as [_ [_ [Hi _]]]. destruct (Hi r r_node) as [_ Hnn].
    destruct (index_resolution E ns p w d k refs ns1 fo Hk Hrefs Hreg Hw Hp Hzero i b) as [j [Hzl [Hj _]]]; [split; [now apply Hnn|now apply Hbns]|exact Hb|].
    exists i, j. split; [reflexivity|]. split; [|exact Hj]. rewrite <- Hz. exact Hzl.
  Qed.

  (* ---- the attribute columns ---- *)
  Definition oth_val (a : str) : option aval :=
    if str_eqb a (lit "IsAbstract") && negb (ends_with (lit "Type") (nr_cls r)) then None
    else if str_eqb a (lit "Symmetric") && negb (str_eqb (nr_cls r) (lit "UAReferenceType")) then None
    else node_attr a r.
  Definition val_text (a : str) (v : aval) : str :=
    match v with
    | AStr s => if is_bool_attr a then map lower_ascii s else s
    | ABool true => lit "true" | ABool false => lit "false"
    | AInt z => decZ z
    | ANode n => match w_lookup p k in_use n with Some m => print_nodeid m | None => [] end
    end.
  Lemma written_lookup a : In a WRITTEN_ATTRS ->
    lookup_attr a (ne_attrs (elem x)) = match oth_val a with Some v => match val_text a v with [] => None | s => Some s end | None => None end.
  Proof.
    intros Ha. destruct (written_key_facts a Ha) as [Hsp _]. unfold is_special_attr in Hsp.
    apply orb_false_iff in Hsp as [Hsp H3]. apply orb_false_iff in Hsp as [H1 H2]. rewrite str_eqb_sym in H1, H2, H3.
    unfold elem. rewrite (e_attrs p k in_use refs x). fold r. cbn [lookup_attr]. rewrite H1.
    assert (L : forall rest, lookup_attr a (match node_attr (lit "SymbolicName") r with Some (AStr s) => [(lit "SymbolicName", s)] | _ => [] end ++ rest) = lookup_attr a rest).
    { intros rest. destruct (node_attr (lit "SymbolicName") r) as [[s| | |]|]; cbn [app lookup_attr]; rewrite ?H2; reflexivity. }
    rewrite L. cbn [lookup_attr]. rewrite H3.
    change (OTH p k in_use x) with (flat_map (fun a0 => match oth_val a0 with None => [] | Some v => match val_text a0 v with [] => [] | _ :: _ => [(a0, val_text a0 v)] end end) WRITTEN_ATTRS).
    rewrite (lookup_flat_map _ ) with (a := a); [|intros b; destruct (oth_val b) as [v|]; [destruct (val_text b v) eqn:Ev; [now left|right; eauto]|now left]|exact written_attrs_nodup|exact Ha].
    destruct (oth_val a) as [v|]; [|reflexivity]. destruct (val_text a v); reflexivity.
  Qed.

  Lemma written_not_own a : In a WRITTEN_ATTRS -> own_column a = false.
  Proof. intros Ha. destruct (written_key_facts a Ha) as [Hsp _]. unfold is_special_attr in Hsp. apply orb_false_iff in Hsp as [Hsp H3]. apply orb_false_iff in Hsp as [H1 _]. unfold own_column. now rewrite H1, H3. Qed.
  (* a column the graph row has, whose text is not empty, comes back typed by cast_attr of that text *)
  Lemma attr_back a v : In a WRITTEN_ATTRS -> oth_val a = Some v -> val_text a v <> [] ->
    exists y, cast_attr a (val_text a v) nsmap [] = Ok y /\ node_attr a r' = Some y.
  Proof.
    intros Ha Hv Hne. pose proof (Ham a) as H. rewrite (written_lookup a Ha), Hv in H.
    destruct (val_text a v) as [|c t] eqn:Et; [congruence|]. rewrite (written_not_own a Ha) in H. exact H.
  Qed.
  Lemma attr_absent a : In a WRITTEN_ATTRS -> oth_val a = None \/ (exists v, oth_val a = Some v /\ val_text a v = []) ->
    node_attr a r' = if mem_str a BOOL_COLS && mem_str a cols then Some (ABool false) else None.
  Proof.
    intros Ha Hv. pose proof (Ham a) as H. rewrite (written_lookup a Ha) in H. destruct Hv as [Hv|[v [Hv Ht]]]; rewrite Hv in H; [exact H|]. rewrite Ht in H. exact H.
  Qed.
  Lemma oth_val_plain a : str_eqb a (lit "IsAbstract") || str_eqb a (lit "Symmetric") = false -> oth_val a = node_attr a r.
  Proof. intros H. apply orb_false_iff in H as [H1 H2]. unfold oth_val. now rewrite H1, H2. Qed.

  (* DataType, ParentNodeId, MethodDeclarationId: the same node, through the parser's table *)
  Theorem row_node_reference a n : mem_str a NODE_REF_ATTRS = true -> node_attr a r = Some (ANode n) -> is_node p n ->
    exists n', node_attr a r' = Some (ANode n') /\ same_node p ns1 n n'.
  Proof.
    intros Ha Hn Hnode.
    assert (Hin : In a WRITTEN_ATTRS /\ str_eqb a (lit "IsAbstract") || str_eqb a (lit "Symmetric") = false).
    { unfold NODE_REF_ATTRS in Ha. cbn [map mem_str existsb] in Ha. rewrite orb_false_r in Ha.
      apply orb_true_iff in Ha as [Ha|Ha]; [|apply orb_true_iff in Ha as [Ha|Ha]]; apply str_eqb_eq in Ha; subst a; (split; [unfold WRITTEN_ATTRS; cbn [map In]; tauto|reflexivity]). }
    destruct Hin as [Hw_ Hpl].
    assert (Hu : In n (w_used p k refs)).
    { unfold w_used. rewrite (mine_written p k refs Hreg). fold in_use. apply in_or_app. right. apply in_or_app. right. apply in_or_app. right.
      apply in_flat_map. exists x. split; [exact Hx|]. fold r. unfold attr_targets. apply in_flat_map. exists a. split.
      - unfold NODE_REF_ATTRS in Ha. cbn [map mem_str existsb] in Ha. rewrite orb_false_r in Ha. cbn [map In].
        apply orb_true_iff in Ha as [Ha|Ha]; [|apply orb_true_iff in Ha as [Ha|Ha]]; apply str_eqb_eq in Ha; subst a; tauto.
      - rewrite Hn. now left. }
    destruct (lookup_used p k refs n Hnode Hu) as [m Hm]. fold in_use in Hm.
    destruct (parse_written E ns p w d k refs ns1 fo Hk Hrefs Hreg Hw Hp Hvalid Hclean Hzero n m Hnode Hm) as [n' [P [_ S]]]. fold nsmap in P.
    destruct (attr_back a (ANode n) Hw_) as [y [Hc Hy]].
    - now rewrite (oth_val_plain a Hpl).
    - cbn [val_text]. rewrite Hm. apply print_nodeid_nonempty.
    - cbn [val_text] in Hc. rewrite Hm in Hc. rewrite (cast_ref a _ nsmap [] Ha) in Hc. unfold parse_id in Hc. rewrite P in Hc. injection Hc as <-. eauto.
  Qed.
  (* the integer columns: the number itself when it lies in the column's range *)
  Theorem row_int_attr a z f : In a WRITTEN_ATTRS -> node_attr a r = Some (AInt z) -> int_attr_cast a = Some f -> f z = z -> node_attr a r' = Some (AInt z).
  Proof.
    intros Ha Hn Hf Hz.
    assert (Hpl : str_eqb a (lit "IsAbstract") || str_eqb a (lit "Symmetric") = false /\ mem_str a NODE_REF_ATTRS = false).
    { unfold int_attr_cast in Hf. repeat match type of Hf with (if str_eqb a ?s then _ else _) = _ => destruct (str_eqb a s) eqn:?E end; try discriminate;
        match goal with E0 : str_eqb a _ = true |- _ => apply str_eqb_eq in E0; subst a; split; reflexivity end. }
    destruct Hpl as [Hpl Hnr].
    destruct (attr_back a (AInt z) Ha) as [y [Hc Hy]]; [now rewrite (oth_val_plain a Hpl)|cbn [val_text]; apply decZ_nonempty|].
    cbn [val_text] in Hc. unfold cast_attr in Hc. rewrite Hnr, Hf, py_int_decZ, Hz in Hc. injection Hc as <-. exact Hy.
  Qed.
  (* IsAbstract / Symmetric on the classes that carry them *)
  Theorem row_bool_attr a b : str_eqb a (lit "IsAbstract") || str_eqb a (lit "Symmetric") = true -> oth_val a = Some (ABool b) -> node_attr a r' = Some (ABool b).
  Proof.
    intros Ha Hv.
    assert (Hin : In a WRITTEN_ATTRS) by (apply orb_true_iff in Ha as [H|H]; apply str_eqb_eq in H; subst a; unfold WRITTEN_ATTRS; cbn [map In]; tauto).
    destruct (attr_back a (ABool b) Hin Hv) as [y [Hc Hy]]; [destruct b; discriminate|].
    rewrite (cast_attr_bool a _ nsmap [] Ha) in Hc. injection Hc as <-. rewrite Hy. destruct b; reflexivity.
  Qed.
  (* the text columns *)
  Theorem row_text_attr a s : In a WRITTEN_ATTRS -> mem_str a NODE_REF_ATTRS = false -> int_attr_cast a = None -> str_eqb a (lit "IsAbstract") || str_eqb a (lit "Symmetric") = false ->
    node_attr a r = Some (AStr s) -> s <> [] -> (is_bool_attr a = true -> map lower_ascii s = s) -> node_attr a r' = Some (AStr s).
  Proof.
    intros Ha Hnr Hni Hpl Hn Hne Hlow.
    assert (Ht : val_text a (AStr s) = s) by (cbn [val_text]; destruct (is_bool_attr a); [now apply Hlow|reflexivity]).
    destruct (attr_back a (AStr s) Ha) as [y [Hc Hy]]; [now rewrite (oth_val_plain a Hpl)|now rewrite Ht|].
    rewrite Ht, (cast_attr_text a s nsmap [] Hnr Hni Hpl) in Hc. injection Hc as <-. exact Hy.
  Qed.
  (* a column the graph row does not have stays missing (false for the two flag columns when the written file has that column) *)
  Theorem row_attr_absent a : In a WRITTEN_ATTRS -> node_attr a r = None ->
    node_attr a r' = if mem_str a BOOL_COLS && mem_str a cols then Some (ABool false) else None.
  Proof.
    intros Ha Hn. apply attr_absent; [exact Ha|]. left. unfold oth_val. rewrite Hn. destruct (_ && _); [reflexivity|]. destruct (_ && _); reflexivity.
  Qed.
  (* SymbolicName *)
  Theorem row_symbolic_name s : node_attr (lit "SymbolicName") r = Some (AStr s) -> node_attr (lit "SymbolicName") r' = Some (AStr s).
  Proof.
    intros Hn. pose proof (Ham (lit "SymbolicName")) as H. unfold elem in H. rewrite (e_attrs p k in_use refs x) in H. fold r in H. rewrite Hn in H.
    cbn [lookup_attr app] in H. change (str_eqb (lit "NodeId") (lit "SymbolicName")) with false in H. cbv iota in H. rewrite str_eqb_refl in H.
    change (own_column (lit "SymbolicName")) with false in H. cbv iota in H. destruct H as [y [Hc Hy]].
    rewrite (cast_attr_text (lit "SymbolicName") s nsmap [] eq_refl eq_refl eq_refl) in Hc. injection Hc as <-. exact Hy.
  Qed.
End NodeRows.

(* r' is the row the parser makes of the element the writer makes of x *)
Definition parsed_row_of (E : ext) (ns : list str) (p : parsed) (d : doc) (k : nat) (refs : list triple) (x : wrow) (r' : node_row) : Prop :=
  row_matches E (zmap_of (snd (file_ns ns d))) [] (w_node_elem p k (w_in_use p k refs) refs x) r' /\
  attrs_match (zmap_of (snd (file_ns ns d))) [] (flat_map (fun e => map fst (ne_attrs e)) (d_nodes d)) (w_node_elem p k (w_in_use p k refs) refs x) r'.
Example rows_roundtrip_example :
  rbind (write_doc ex_p ex_w) (fun d => rmap (fun r => map (fun r => (nr_cls r, nr_nodeid r, nr_bname r, nr_bns r, nr_display r, nr_value r)) (fo_nodes (snd r))) (parse_file [] [] d))
  = Ok [(lit "UAVariable", ex_nid 1 String_ "A;=x", lit "A", Some 1%Z, lit "A", None)].
Proof. vm_compute. reflexivity. Qed.
