(* The TEXT written by create_nodeset2_file (create_header_xml, generate_nodes_xml, generate_references_xml, create_required_models),
   character for character, as a function of the document model write_doc produces and of the encoded value texts.
   doc_ltree is the same document as a layout tree (XmlL.v).  Definitions only. *)
From Coq Require Import String Ascii List Bool Arith NArith ZArith.
Require Import PyStr PyInt Sexp Xml XmlL M_C09 M_C08 M_C08d Ns Table M_Parse M_Write.
Import ListNotations.
Open Scope char_scope.

Definition qt (s : str) : str := """" :: s ++ [""""].
Definition NL : str := [LF].
Definition find_attr (k : str) (l : list (str * str)) : str := match lookup_attr k l with Some v => v | None => [] end.
Fixpoint join_with (sep : str) (l : list str) : str := match l with [] => [] | [x] => x | x :: r => x ++ sep ++ join_with sep r end.

(* create_required_models *)
Definition required_text (req : list (list (str * str))) : str :=
  flat_map (fun a => LF :: lit "        <RequiredModel ModelUri=" ++ qt (find_attr (lit "ModelUri") a)
                      ++ match lookup_attr (lit "Version") a with Some v => lit " Version=" ++ qt v | None => [] end
                      ++ lit " PublicationDate=" ++ qt (find_attr (lit "PublicationDate") a) ++ lit " />") req
  ++ match req with [] => [] | _ => LF :: lit "    " end.
(* create_header_xml *)
Definition header_text (lm : str) (uris : list str) (m : model_elem) : str :=
  lit "<?xml version=""1.0"" encoding=""utf-8""?>" ++ NL ++
  lit "<UANodeSet LastModified=" ++ qt lm ++ lit "  xmlns:xsd=""http://www.w3.org/2001/XMLSchema"" xmlns:xsi=""http://www.w3.org/2001/XMLSchema-instance"" xmlns=""http://opcfoundation.org/UA/2011/03/UANodeSet.xsd"">" ++ NL ++
  (match uris with [] => [] | _ => lit "<NamespaceUris>" ++ NL ++ flat_map (fun u => lit "<Uri>" ++ u ++ lit "</Uri>" ++ NL) uris ++ lit "</NamespaceUris>" ++ NL end) ++ NL ++
  lit "<Models>" ++ NL ++
  lit "    <Model ModelUri=" ++ qt (find_attr (lit "ModelUri") (me_attrs m)) ++ lit " PublicationDate=" ++ qt (find_attr (lit "PublicationDate") (me_attrs m))
    ++ lit " Version=" ++ qt (find_attr (lit "Version") (me_attrs m)) ++ [">"] ++ required_text (me_required m) ++ lit "</Model>" ++ NL ++
  lit "</Models>" ++ NL ++ lit "<Aliases></Aliases>" ++ NL.
(* generate_references_xml *)
Definition ref_text (r : ref_elem) : str :=
  lit "<Reference ReferenceType=" ++ qt (escape (find_attr (lit "ReferenceType") (re_attrs r)))
  ++ (match lookup_attr (lit "IsForward") (re_attrs r) with Some v => lit "  IsForward=" ++ qt v | None => [] end)
  ++ [">"] ++ escape (ostr (re_text r)) ++ lit "</Reference>".
(* generate_nodes_xml: one node element; valtext = xml_encode(include_xmlns=True) of its value *)
Definition is_special_attr (k : str) : bool := str_eqb k (lit "NodeId") || str_eqb k (lit "SymbolicName") || str_eqb k (lit "BrowseName").
Definition node_text (e : node_elem) (valtext : option str) : str :=
  "<" :: ne_cls e ++ lit " NodeId=" ++ qt (escape (find_attr (lit "NodeId") (ne_attrs e)))
  ++ (match lookup_attr (lit "SymbolicName") (ne_attrs e) with Some s => lit " SymbolicName=" ++ qt s ++ [" "] | None => [] end)
  ++ lit " BrowseName=" ++ qt (escape (find_attr (lit "BrowseName") (ne_attrs e))) ++ [" "]
  ++ flat_map (fun kv => if is_special_attr (fst kv) then [] else fst kv ++ "=" :: qt (snd kv) ++ [" "]) (ne_attrs e)
  ++ [">"]
  ++ lit "<DisplayName>" ++ escape (match ne_display e with Some (Some d) => d | _ => [] end) ++ lit "</DisplayName>"
  ++ (match ne_desc e with Some d => lit "<Description>" ++ escape (ostr d) ++ lit "</Description>" | None => [] end)
  ++ lit "<References>" ++ flat_map ref_text (ne_refs e) ++ lit "</References>"
  ++ (match valtext with Some v => lit "<Value>" ++ v ++ lit "</Value>" | None => [] end)
  ++ "<" :: "/" :: ne_cls e ++ [">"].
Fixpoint zip_texts (nodes : list node_elem) (vals : list (option str)) : list str :=
  match nodes with [] => [] | e :: r => node_text e (hd None vals) :: zip_texts r (tl vals) end.
Definition doc_text (lm : str) (d : doc) (vals : list (option str)) : str :=
  header_text lm (match d_uris d with Some u => u | None => [] end)
              (match d_models d with Some (m :: _) => m | _ => {| me_attrs := []; me_required := [] |} end)
  ++ join_with NL (zip_texts (d_nodes d) vals) ++ NL ++ lit "</UANodeSet>".

(* the encoded value of every written row (encode_values: variables and variable types with a value) *)
Definition value_texts (p : parsed) (w : wparams) : list (option str) :=
  match str_index (wp_uri w) (p_namespaces p) with
  | Some k => match use_refs p w (Z.of_nat k) with
              | Ok refs => map (fun x : wrow => let r := fst (fst x) in
                                  if str_eqb (nr_cls r) (lit "UAVariable") || str_eqb (nr_cls r) (lit "UAVariableType")
                                  then omap (encode true) (nr_value r) else None) (w_written p k (w_in_use p k refs))
              | Err _ => [] end
  | None => [] end.
(* a raw XML element held by a value is serialised by lxml, which the model does not spell: such documents are outside the text model *)
Fixpoint has_xmltree (v : uav) {struct v} : bool :=
  match v with VXmlTree _ => true | VExtObj _ b => has_xmltree b | VList _ items => existsb has_xmltree items | _ => false end.
Definition write_text (lm : str) (p : parsed) (w : wparams) : res str :=
  rbind (write_doc p w) (fun d =>
    if existsb (fun r => match nr_value r with Some v => has_xmltree v | None => false end) (p_nodes p) then Err EUnsupported
    else Ok (doc_text lm d (value_texts p w))).

(* ---------- the same document as a layout tree ---------- *)
Definition ga (pad : nat) (k v : str) : gattr := {| ga_pad := pad; ga_kv := (k, v) |}.
(* an xtree as the value encoders spell it (one more blank after a ListOf name) *)
Fixpoint embed (t : xtree) : ltree :=
  match t with
  | Elem _ _ _ n a txt ch tl =>
      let q := noq n in
      LElem n (match a with [] => [] | kv :: r => {| ga_pad := if q then 1 else 0; ga_kv := kv |} :: map (fun kv => {| ga_pad := 0; ga_kv := kv |}) r end)
            (match a with [] => if q then 1 else 0 | _ => 0 end) false txt (map embed ch) tl
  end.
Definition ref_ltree (r : ref_elem) : ltree :=
  LElem (lit "Reference")
        (ga 0 (lit "ReferenceType") (find_attr (lit "ReferenceType") (re_attrs r))
         :: match lookup_attr (lit "IsForward") (re_attrs r) with Some v => [ga 1 (lit "IsForward") v] | None => [] end)
        0 false (ostr (re_text r)) [] [].
Definition other_attrs (e : node_elem) : list (str * str) := filter (fun kv => negb (is_special_attr (fst kv))) (ne_attrs e).
Definition node_ltree (e : node_elem) (val : option xtree) : ltree :=
  let sym := lookup_attr (lit "SymbolicName") (ne_attrs e) in
  LElem (ne_cls e)
        (ga 0 (lit "NodeId") (find_attr (lit "NodeId") (ne_attrs e))
         :: match sym with Some s => [ga 0 (lit "SymbolicName") s] | None => [] end
         ++ ga (match sym with Some _ => 1 | None => 0 end) (lit "BrowseName") (find_attr (lit "BrowseName") (ne_attrs e))
         :: map (fun kv => ga 0 (fst kv) (snd kv)) (other_attrs e))
        1 false []
        (LElem (lit "DisplayName") [] 0 false (match ne_display e with Some (Some d) => d | _ => [] end) [] []
         :: match ne_desc e with Some d => [LElem (lit "Description") [] 0 false (ostr d) [] []] | None => [] end
         ++ LElem (lit "References") [] 0 false [] (map ref_ltree (ne_refs e)) []
         :: match val with Some t => [LElem (lit "Value") [] 0 false [] [embed t] []] | None => [] end)
        NL.
Definition required_ltree (last : bool) (a : list (str * str)) : ltree :=
  LElem (lit "RequiredModel")
        (ga 0 (lit "ModelUri") (find_attr (lit "ModelUri") a)
         :: match lookup_attr (lit "Version") a with Some v => [ga 0 (lit "Version") v] | None => [] end
         ++ [ga 0 (lit "PublicationDate") (find_attr (lit "PublicationDate") a)])
        1 true [] [] (if last then LF :: lit "    " else LF :: lit "        ").
Fixpoint required_ltrees (req : list (list (str * str))) : list ltree :=
  match req with [] => [] | [a] => [required_ltree true a] | a :: r => required_ltree false a :: required_ltrees r end.
Definition PROLOG : list item := [(lit "?xml version=""1.0"" encoding=""utf-8""?", NL)].
Definition zip_ltrees (nodes : list node_elem) (vals : list (option xtree)) : list ltree :=
  (fix go (l : list node_elem) (v : list (option xtree)) := match l with [] => [] | e :: r => node_ltree e (hd None v) :: go r (tl v) end) nodes vals.
Definition doc_ltree (lm : str) (d : doc) (vals : list (option xtree)) : ltree :=
  let uris := match d_uris d with Some u => u | None => [] end in
  let m := match d_models d with Some (m :: _) => m | _ => {| me_attrs := []; me_required := [] |} end in
  LElem (lit "UANodeSet")
        [ga 0 (lit "LastModified") lm; ga 1 (lit "xmlns:xsd") (lit "http://www.w3.org/2001/XMLSchema");
         ga 0 (lit "xmlns:xsi") (lit "http://www.w3.org/2001/XMLSchema-instance"); ga 0 (lit "xmlns") NODESET_NS]
        0 false (match uris with [] => [LF; LF] | _ => NL end)
        (match uris with [] => [] | _ => [LElem (lit "NamespaceUris") [] 0 false NL (map (fun u => LElem (lit "Uri") [] 0 false u [] NL) uris) [LF; LF]] end
         ++ LElem (lit "Models") [] 0 false (LF :: lit "    ")
              [LElem (lit "Model") [ga 0 (lit "ModelUri") (find_attr (lit "ModelUri") (me_attrs m)); ga 0 (lit "PublicationDate") (find_attr (lit "PublicationDate") (me_attrs m));
                                    ga 0 (lit "Version") (find_attr (lit "Version") (me_attrs m))]
                     0 false (match me_required m with [] => [] | _ => LF :: lit "        " end) (required_ltrees (me_required m)) NL] NL
         :: LElem (lit "Aliases") [] 0 false [] [] (match d_nodes d with [] => [LF; LF] | _ => NL end)
         :: zip_ltrees (d_nodes d) vals)
        [].
(* what must hold of the strings the code splices in without escaping for the text to be this tree's spelling *)
Definition attr_raw_ok (v : str) : bool := str_eqb (escape_attr v) v.
Definition attr_esc_ok (v : str) : bool := negb (has """" v).
Definition ref_clean (r : ref_elem) : bool :=
  attr_esc_ok (find_attr (lit "ReferenceType") (re_attrs r)) && match lookup_attr (lit "IsForward") (re_attrs r) with Some v => attr_raw_ok v | None => true end.
Definition node_clean (e : node_elem) : bool :=
  name_ok (ne_cls e) && attr_esc_ok (find_attr (lit "NodeId") (ne_attrs e)) && attr_esc_ok (find_attr (lit "BrowseName") (ne_attrs e))
  && match lookup_attr (lit "SymbolicName") (ne_attrs e) with Some s => attr_raw_ok s | None => true end
  && forallb (fun kv => key_ok2 (fst kv) && attr_raw_ok (snd kv)) (other_attrs e) && forallb ref_clean (ne_refs e).
Definition doc_clean (lm : str) (d : doc) : bool :=
  let uris := match d_uris d with Some u => u | None => [] end in
  let m := match d_models d with Some (m :: _) => m | _ => {| me_attrs := []; me_required := [] |} end in
  attr_raw_ok lm && forallb rawok uris
  && attr_raw_ok (find_attr (lit "ModelUri") (me_attrs m)) && attr_raw_ok (find_attr (lit "PublicationDate") (me_attrs m)) && attr_raw_ok (find_attr (lit "Version") (me_attrs m))
  && forallb (fun a => attr_raw_ok (find_attr (lit "ModelUri") a) && attr_raw_ok (find_attr (lit "PublicationDate") a)
                       && match lookup_attr (lit "Version") a with Some v => attr_raw_ok v | None => true end) (me_required m)
  && forallb node_clean (d_nodes d).

(* the element trees of the written values (None: some value is outside the clean domain of C08) *)
Definition written_rows (p : parsed) (w : wparams) : list wrow :=
  match str_index (wp_uri w) (p_namespaces p) with
  | Some k => match use_refs p w (Z.of_nat k) with Ok refs => w_written p k (w_in_use p k refs) | Err _ => [] end
  | None => [] end.
Definition is_var_row (x : wrow) : bool := let r := fst (fst x) in str_eqb (nr_cls r) (lit "UAVariable") || str_eqb (nr_cls r) (lit "UAVariableType").
Definition value_tree_of (x : wrow) : option (option xtree) :=
  if is_var_row x then match nr_value (fst (fst x)) with
                       | Some v => if names_ok v then omap Some (xt (xa true) v) else None
                       | None => Some None end
  else Some None.
Definition value_trees (p : parsed) (w : wparams) : option (list (option xtree)) := omapM value_tree_of (written_rows p w).
(* the decision procedure for the domain of theorem C07_written_text_wellformed *)
Definition text_clean (lm : str) (p : parsed) (w : wparams) : bool :=
  match write_doc p w, value_trees p w with
  | Ok d, Some vts => doc_clean lm d && negb (has CR (doc_text lm d (value_texts p w)))
                      && negb (existsb (fun r => match nr_value r with Some v => has_xmltree v | None => false end) (p_nodes p))
  | _, _ => false end.

(* ---------- the round trip of C05, executed in the model: write every requested namespace as text, then let the parser model read
   those texts (and the untouched base document) with its own XML reader ---------- *)
Require Import M_ParseText.
Fixpoint write_all (lm now : str) (p : parsed) (targets : list (str * str)) : res (list (str * str)) :=
  match targets with
  | [] => Ok []
  | (uri, fname) :: r =>
      rbind (write_text lm p {| wp_uri := uri; wp_inc := true; wp_pubdate := lm; wp_now := now; wp_newver := None; wp_fname := fname |}) (fun s =>
      rbind (write_all lm now p r) (fun rest => Ok ((fname, s) :: rest)))
  end.
Definition model_roundtrip (E : ext) (lm now : str) (p : parsed) (base : list (str * str)) (targets : list (str * str)) : res parsed :=
  rbind (write_all lm now p targets) (fun files => parse_text_files E [] (base ++ files)).
