(* Order: comparison functions with three laws (Eq is equality, antisymmetry, transitivity of Lt), closed under
   lists (lexicographic), pairs and option (None last); insertion sort is canonical for such an order. *)
From Coq Require Import List Permutation Sorted Bool Ascii NArith Lia.
Import ListNotations.

Record cmp_laws {A} (c : A -> A -> comparison) : Prop := {
  cl_eq : forall a b, c a b = Eq <-> a = b;
  cl_anti : forall a b, c b a = CompOpp (c a b);
  cl_trans : forall a b d, c a b = Lt -> c b d = Lt -> c a d = Lt
}.
Lemma cl_refl {A} (c : A -> A -> comparison) (L : cmp_laws c) a : c a a = Eq.
Proof. now apply (cl_eq c L). Qed.

Section Lex.
Variable A : Type.
Variable ec : A -> A -> comparison.
Hypothesis EL : cmp_laws ec.
Fixpoint lcmp (a b : list A) : comparison :=
  match a, b with
  | [], [] => Eq
  | [], _ :: _ => Lt
  | _ :: _, [] => Gt
  | x :: a', y :: b' => match ec x y with Eq => lcmp a' b' | c => c end
  end.
Lemma lcmp_laws : cmp_laws lcmp.
Proof.
  split.
  - induction a as [|x a IH]; intros [|y b]; cbn; try (split; congruence).
    destruct (ec x y) eqn:E.
    + apply (cl_eq ec EL) in E. subst. rewrite IH. split; congruence.
    + split; [discriminate|]. intros H; inversion H; subst. rewrite (cl_refl ec EL) in E. discriminate.
    + split; [discriminate|]. intros H; inversion H; subst. rewrite (cl_refl ec EL) in E. discriminate.
  - induction a as [|x a IH]; intros [|y b]; cbn; try reflexivity.
    rewrite (cl_anti ec EL x y). destruct (ec x y); cbn; auto.
  - induction a as [|x a IH]; intros [|y b] [|z d]; cbn; try congruence.
    destruct (ec x y) eqn:E1; try discriminate; destruct (ec y z) eqn:E2; try discriminate; intros H1 H2.
    + apply (cl_eq ec EL) in E1, E2. subst. rewrite (cl_refl ec EL). eauto.
    + apply (cl_eq ec EL) in E1. subst. now rewrite E2.
    + apply (cl_eq ec EL) in E2. subst. now rewrite E1.
    + now rewrite (cl_trans ec EL _ _ _ E1 E2).
Qed.
Definition ocmp (a b : option A) : comparison :=
  match a, b with
  | Some x, Some y => ec x y | Some _, None => Lt | None, Some _ => Gt | None, None => Eq end.
Lemma ocmp_laws : cmp_laws ocmp.
Proof.
  split.
  - intros [x|] [y|]; cbn; try (split; congruence). rewrite (cl_eq ec EL). split; congruence.
  - intros [x|] [y|]; cbn; try reflexivity. apply (cl_anti ec EL).
  - intros [x|] [y|] [z|]; cbn; try congruence. apply (cl_trans ec EL).
Qed.
End Lex.

Section Pair.
Variables A B : Type.
Variable ca : A -> A -> comparison.
Variable cb : B -> B -> comparison.
Hypothesis LA : cmp_laws ca.
Hypothesis LB : cmp_laws cb.
Definition pcmp (p q : A * B) : comparison := match ca (fst p) (fst q) with Eq => cb (snd p) (snd q) | c => c end.
Lemma pcmp_laws : cmp_laws pcmp.
Proof.
  split.
  - intros [a b] [a' b']; unfold pcmp; cbn. destruct (ca a a') eqn:E.
    + apply (cl_eq ca LA) in E. subst. rewrite (cl_eq cb LB). split; congruence.
    + split; [discriminate|]. intros H; inversion H; subst. rewrite (cl_refl ca LA) in E. discriminate.
    + split; [discriminate|]. intros H; inversion H; subst. rewrite (cl_refl ca LA) in E. discriminate.
  - intros [a b] [a' b']; unfold pcmp; cbn. rewrite (cl_anti ca LA a a'). destruct (ca a a'); cbn; auto. apply (cl_anti cb LB).
  - intros [a b] [a' b'] [a'' b'']; unfold pcmp; cbn.
    destruct (ca a a') eqn:E1; try discriminate; destruct (ca a' a'') eqn:E2; try discriminate; intros H1 H2.
    + apply (cl_eq ca LA) in E1, E2. subst. rewrite (cl_refl ca LA). eapply (cl_trans cb LB); eauto.
    + apply (cl_eq ca LA) in E1. subst. now rewrite E2.
    + apply (cl_eq ca LA) in E2. subst. now rewrite E1.
    + now rewrite (cl_trans ca LA _ _ _ E1 E2).
Qed.
End Pair.

(* characters are ordered by code point (= byte order of UTF-8 = Python's str order) *)
Definition ccmp (x y : ascii) : comparison := N.compare (N_of_ascii x) (N_of_ascii y).
Lemma ccmp_laws : cmp_laws ccmp.
Proof.
  unfold ccmp. split.
  - intros x y. rewrite N.compare_eq_iff. split; [|congruence].
    intros H. rewrite <- (ascii_N_embedding x), <- (ascii_N_embedding y). congruence.
  - intros x y. apply N.compare_antisym.
  - intros x y z. rewrite !N.compare_lt_iff. lia.
Qed.

(* ---- from a lawful comparison: <, <= and their laws ---- *)
Section Derived.
Variable A : Type.
Variable c : A -> A -> comparison.
Hypothesis L : cmp_laws c.
Definition ltb (a b : A) : bool := match c a b with Lt => true | _ => false end.
Definition leb (a b : A) : bool := match c a b with Gt => false | _ => true end.
Lemma leb_total a b : leb a b = true \/ leb b a = true.
Proof. unfold leb. rewrite (cl_anti c L a b). destruct (c a b); cbn; auto. Qed.
Lemma c_gt_lt a b : c a b = Gt <-> c b a = Lt.
Proof. rewrite (cl_anti c L a b). destruct (c a b); cbn; split; congruence. Qed.
Lemma leb_trans a b d : leb a b = true -> leb b d = true -> leb a d = true.
Proof.
  unfold leb. destruct (c a b) eqn:E1; try discriminate; destruct (c b d) eqn:E2; try discriminate; intros _ _.
  - apply (cl_eq c L) in E1, E2. subst. now rewrite (cl_refl c L).
  - apply (cl_eq c L) in E1. subst. now rewrite E2.
  - apply (cl_eq c L) in E2. subst. now rewrite E1.
  - now rewrite (cl_trans c L _ _ _ E1 E2).
Qed.
Lemma leb_antisym a b : leb a b = true -> leb b a = true -> a = b.
Proof.
  unfold leb. rewrite (cl_anti c L a b). destruct (c a b) eqn:E; cbn; try discriminate; intros _ _.
  now apply (cl_eq c L).
Qed.
Lemma ltb_trans a b d : ltb a b = true -> ltb b d = true -> ltb a d = true.
Proof.
  unfold ltb. destruct (c a b) eqn:E1; try discriminate; destruct (c b d) eqn:E2; try discriminate; intros _ _.
  now rewrite (cl_trans c L _ _ _ E1 E2).
Qed.
Lemma leb_not_gt a b : leb a b = negb (ltb b a).
Proof. unfold leb, ltb. rewrite (cl_anti c L a b). now destruct (c a b). Qed.
(* exactly one of a<b, a=b, b<a *)
Lemma trichotomy a b :
  (ltb a b = true /\ ltb b a = false /\ a <> b) \/ (a = b /\ ltb a b = false /\ ltb b a = false) \/
  (ltb b a = true /\ ltb a b = false /\ a <> b).
Proof.
  unfold ltb. rewrite (cl_anti c L a b). destruct (c a b) eqn:E; cbn.
  - right; left. apply (cl_eq c L) in E. auto.
  - left. repeat split; auto. intros ->. rewrite (cl_refl c L) in E. discriminate.
  - right; right. repeat split; auto. intros ->. rewrite (cl_refl c L) in E. discriminate.
Qed.

(* insertion sort by leb is canonical: it depends only on the multiset of rows *)
Fixpoint insert (x : A) (l : list A) : list A :=
  match l with [] => [x] | y :: r => if leb x y then x :: l else y :: insert x r end.
Fixpoint isort (l : list A) : list A := match l with [] => [] | x :: r => insert x (isort r) end.
Definition le (x y : A) : Prop := leb x y = true.
Lemma insert_perm x l : Permutation (x :: l) (insert x l).
Proof.
  induction l as [|y r IH]; cbn; [reflexivity|].
  destruct (leb x y); [reflexivity|]. rewrite perm_swap. now constructor.
Qed.
Lemma isort_perm l : Permutation l (isort l).
Proof. induction l as [|x r IH]; cbn; [constructor|]. rewrite <- insert_perm. now constructor. Qed.
Lemma insert_sorted x l : StronglySorted le l -> StronglySorted le (insert x l).
Proof.
  induction 1 as [|y r Hs IH Hall]; cbn; [repeat constructor|].
  destruct (leb x y) eqn:E.
  - constructor; [now constructor|]. constructor; [exact E|].
    eapply Forall_impl; [|exact Hall]. intros z Hz. eapply leb_trans; eauto.
  - constructor; [exact IH|].
    assert (Hyx : le y x) by (destruct (leb_total x y); [congruence|assumption]).
    eapply Permutation_Forall; [apply insert_perm|]. now constructor.
Qed.
Lemma isort_sorted l : StronglySorted le (isort l).
Proof. induction l as [|x r IH]; cbn; [constructor|now apply insert_sorted]. Qed.
Lemma sorted_perm_eq l : forall l', StronglySorted le l -> StronglySorted le l' -> Permutation l l' -> l = l'.
Proof.
  induction l as [|x r IH]; intros l' Hs Hs' Hp.
  - apply Permutation_nil in Hp. now subst.
  - destruct l' as [|x' r']; [apply Permutation_sym, Permutation_nil in Hp; discriminate|].
    inversion Hs as [|? ? Hsr Hall]; subst. inversion Hs' as [|? ? Hsr' Hall']; subst.
    assert (x = x').
    { assert (Hin : In x (x' :: r')) by (eapply Permutation_in; [exact Hp|now left]).
      assert (Hin' : In x' (x :: r)) by (eapply Permutation_in; [apply Permutation_sym; exact Hp|now left]).
      destruct Hin as [->|Hin]; [reflexivity|]. destruct Hin' as [->|Hin']; [reflexivity|].
      rewrite Forall_forall in Hall, Hall'. apply leb_antisym; [now apply Hall | now apply Hall']. }
    subst x'. f_equal. apply IH; auto. now apply Permutation_cons_inv in Hp.
Qed.
Theorem sort_canonical l l' : Permutation l l' -> isort l = isort l'.
Proof.
  intros Hp. apply sorted_perm_eq; try apply isort_sorted.
  rewrite <- (isort_perm l), <- (isort_perm l'). exact Hp.
Qed.
End Derived.
