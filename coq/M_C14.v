(* Model of the comparison operators of UA values (ua_data_types.lt/le/gt/ge), of dataclass __eq__/__hash__ on
   frozen UA values, and of UAGraph.get_normalized_nodes_df / get_normalized_references_df.  Definitions only. *)
From Coq Require Import String Ascii List Bool Arith NArith.
Require Import PyStr Sexp Order.
Import ListNotations.

(* a UA value as the comparison operators see it: its class name and str(astuple(value)) *)
Record ua := { cls : str; key : str }.
Definition scmp : str -> str -> comparison := lcmp ascii ccmp.
Definition ua_cmp (u v : ua) : comparison := pcmp str str scmp scmp (cls u, key u) (cls v, key v).
(* lt / le / gt / ge *)
Definition py_lt (u v : ua) : bool := ltb ua ua_cmp u v.
Definition py_le (u v : ua) : bool := leb ua ua_cmp u v.
Definition py_gt (u v : ua) : bool := py_lt v u.
Definition py_ge (u v : ua) : bool := py_le v u.
(* the `u2 is None` arm *)
Definition py_lt_none (u : ua) (v : option ua) : bool := match v with None => true | Some v => py_lt u v end.
Definition py_le_none (u : ua) (v : option ua) : bool := match v with None => true | Some v => py_le u v end.

(* ---- dataclass __eq__ / __hash__ ----
   the fields of a value, flattened in comparison order: pd.NA, a NaN float object (identified by the object),
   an ordinary value (identified by type and repr), and the end marker of a nested tuple / nested value *)
(* AVal: a scalar (number, str, bytes, bool, datetime), for which `pd.NA == x` is pd.NA; AObj: any other object
   (tuple marker, nested value marker, Enum member, None), for which `pd.NA == x` is False *)
Inductive atom := ANA | ANaN (obj : nat) | AVal (repr : str) | AObj (repr : str) | AEnd.
Record uaval := { v_cls : str; v_fields : list atom }.
(* a is b or a == b, with `bool(pd.NA)` raising TypeError *)
Definition atom_eq (a b : atom) : res bool :=
  match a, b with
  | ANA, ANA => Ok true
  | ANaN i, ANaN j => Ok (Nat.eqb i j)
  | AVal x, AVal y => Ok (str_eqb x y)
  | AObj x, AObj y => Ok (str_eqb x y)
  | AObj _, _ | _, AObj _ => Ok false
  | AEnd, AEnd => Ok true
  | AEnd, _ | _, AEnd => Ok false
  | ANA, _ | _, ANA => Err EType
  | _, _ => Ok false
  end.
(* tuple comparison: first differing position decides; lengths are compared after the common prefix *)
Fixpoint fields_eq (a b : list atom) : res bool :=
  match a, b with
  | [], [] => Ok true
  | x :: a', y :: b' => match atom_eq x y with Ok true => fields_eq a' b' | r => r end
  | _, _ => Ok false
  end.
Definition ua_eq (u v : uaval) : res bool :=
  if str_eqb (v_cls u) (v_cls v) then fields_eq (v_fields u) (v_fields v) else Ok false.
(* hash(tuple of fields): any function of the atoms; the class is not part of a dataclass hash *)
Definition atom_hash (a : atom) : atom := a.
Definition ua_hash (u : uaval) : list atom := map atom_hash (v_fields u).

(* ---- normalised tables ---- *)
Definition cell := option ua.                     (* None = missing (pd.NA / None / NaN), sorted last *)
Definition cell_cmp : cell -> cell -> comparison := ocmp ua ua_cmp.
Definition row := list cell.
Definition row_cmp : row -> row -> comparison := lcmp cell cell_cmp.
Definition sort_rows (t : list row) : list row := isort row row_cmp t.

Record gnode := { g_id : nat; g_cols : list cell; g_refcols : list (option nat) }.
Fixpoint lookup (lk : list (nat * ua)) (i : nat) : cell :=
  match lk with [] => None | (k, v) :: r => if Nat.eqb k i then Some v else lookup r i end.
(* denormalize_nodes_nodeids + drop(columns=["id"]) *)
Definition denorm_node (lk : list (nat * ua)) (n : gnode) : row :=
  g_cols n ++ map (fun o => match o with Some i => lookup lk i | None => None end) (g_refcols n).
Definition denorm_ref (lk : list (nat * ua)) (r : nat * nat * nat) : row :=
  let '(s, t, ty) := r in [lookup lk s; lookup lk t; lookup lk ty].
Definition normalized_nodes (lk : list (nat * ua)) (nodes : list gnode) : list row := sort_rows (map (denorm_node lk) nodes).
Definition normalized_refs (lk : list (nat * ua)) (refs : list (nat * nat * nat)) : list row := sort_rows (map (denorm_ref lk) refs).
(* per namespace (namespace_uri given): the node rows whose ns is k; the references with the source or the target among the ids of those rows
   (__get_references_df joins the ids of the namespace's nodes on Src and on Trg).  The lookup table is that of ALL nodes in both cases. *)
Definition idmem (x : nat) (l : list nat) : bool := existsb (Nat.eqb x) l.
Definition nodes_of_ns (k : nat) (nodes : list (gnode * nat)) : list gnode := map fst (filter (fun p => Nat.eqb (snd p) k) nodes).
Definition normalized_nodes_ns (lk : list (nat * ua)) (k : nat) (nodes : list (gnode * nat)) : list row := normalized_nodes lk (nodes_of_ns k nodes).
Definition refs_of_ns (k : nat) (nodes : list (gnode * nat)) (refs : list (nat * nat * nat)) : list (nat * nat * nat) :=
  let ids := map g_id (nodes_of_ns k nodes) in
  filter (fun r => idmem (fst (fst r)) ids || idmem (snd (fst r)) ids) refs.
Definition normalized_refs_ns (lk : list (nat * ua)) (k : nat) (nodes : list (gnode * nat)) (refs : list (nat * nat * nat)) : list row :=
  normalized_refs lk (refs_of_ns k nodes refs).
(* renumbering the internal ids *)
Definition rename_node (f : nat -> nat) (n : gnode) : gnode :=
  {| g_id := f (g_id n); g_cols := g_cols n; g_refcols := map (fun o => match o with Some i => Some (f i) | None => None end) (g_refcols n) |}.
Definition rename_ref (f : nat -> nat) (r : nat * nat * nat) : nat * nat * nat := let '(s, t, ty) := r in (f s, f t, f ty).

(* wire format *)
Definition d_ua (x : sexp) : option ua := omap (fun p => {| cls := fst p; key := snd p |}) (d_pair d_str d_str x).
Definition e_ua (u : ua) : sexp := Lst [e_str (cls u); e_str (key u)].
Definition d_cell : sexp -> option cell := d_opt d_ua.
Definition e_cell : cell -> sexp := e_opt e_ua.
Definition d_atom (x : sexp) : option atom :=
  match x with
  | Lst [Atom t] => if str_eqb t (lit "na") then Some ANA else if str_eqb t (lit "end") then Some AEnd else None
  | Lst [Atom t; a] => if str_eqb t (lit "nan") then omap ANaN (d_nat a) else if str_eqb t (lit "val") then omap AVal (d_str a)
                      else if str_eqb t (lit "obj") then omap AObj (d_str a) else None
  | _ => None end.
Definition d_uaval (x : sexp) : option uaval := omap (fun p => {| v_cls := fst p; v_fields := snd p |}) (d_pair d_str (d_list d_atom) x).
