(* C06, placement of node elements: under the regularity conditions (which are exactly the negations of the recorded findings
   'empty-namespace' and 'namespace-without-base-use'), the rows that become node elements of the written document are exactly the
   graph's nodes whose NodeId lies in the requested namespace, in table order. *)
From Coq Require Import String Ascii List Bool Arith NArith ZArith Lia Sorted.
Require Import PyStr PyInt Sexp Xml M_C09 T_C09 M_C08 Ns Table M_Parse M_Write T_Write.
Import ListNotations.
Open Scope char_scope.

(* ---------- zsort_dedup: a strictly increasing list with the same elements ---------- *)
Lemma zinsert_In z l x : In x (zinsert z l) <-> x = z \/ In x l.
Proof.
  induction l as [|y r IH]; cbn [zinsert]; [cbn; intuition|].
  destruct (Z.ltb_spec z y); [cbn; intuition|]. destruct (Z.eqb_spec z y); [subst; cbn; intuition|]. cbn [In]. rewrite IH. intuition.
Qed.
Lemma zinsert_sorted z l : StronglySorted Z.lt l -> StronglySorted Z.lt (zinsert z l).
Proof.
  induction l as [|y r IH]; intros Hs; cbn [zinsert]; [repeat constructor|].
  inversion Hs as [|? ? Hr Hall]; subst.
  destruct (Z.ltb_spec z y) as [Hlt|Hge].
  - constructor; [exact Hs|]. constructor; [exact Hlt|]. rewrite Forall_forall in *. intros x Hx. specialize (Hall x Hx). lia.
  - destruct (Z.eqb_spec z y); [exact Hs|]. constructor; [now apply IH|].
    rewrite Forall_forall in *. intros x Hx. apply zinsert_In in Hx as [->|Hx]; [lia|now apply Hall].
Qed.
Lemma zsort_In l x : In x (zsort_dedup l) <-> In x l.
Proof. unfold zsort_dedup. induction l as [|y r IH]; cbn [fold_right]; [reflexivity|]. rewrite zinsert_In, IH. cbn. intuition. Qed.
Lemma zsort_sorted l : StronglySorted Z.lt (zsort_dedup l).
Proof. unfold zsort_dedup. induction l as [|y r IH]; cbn [fold_right]; [constructor|now apply zinsert_sorted]. Qed.

(* a strictly increasing list of non-negative integers that contains 0 and 1 starts 0, 1 and everything after is larger *)
Lemma sorted_head01 l : StronglySorted Z.lt l -> (forall x, In x l -> (0 <= x)%Z) -> In 0%Z l -> In 1%Z l ->
  exists r, l = 0%Z :: 1%Z :: r /\ forall x, In x r -> (1 < x)%Z.
Proof.
  intros Hs Hnn H0 H1. destruct l as [|a l]; [contradiction|]. inversion Hs as [|? ? Hs1 Ha]; subst. rewrite Forall_forall in Ha.
  assert (a = 0%Z) as ->.
  { destruct H0 as [->|H0]; [reflexivity|]. specialize (Ha 0%Z H0). specialize (Hnn a (or_introl eq_refl)). lia. }
  destruct H1 as [H1|H1]; [discriminate|]. destruct l as [|b l]; [contradiction|]. inversion Hs1 as [|? ? Hs2 Hb]; subst. rewrite Forall_forall in Hb.
  assert (b = 1%Z) as ->.
  { destruct H1 as [->|H1]; [reflexivity|]. specialize (Hb 1%Z H1). specialize (Ha b (or_introl eq_refl)). lia. }
  exists l. split; [reflexivity|]. intros x Hx. now apply Hb.
Qed.
Lemma zindex_notin z l : ~ In z l -> zindex z l = None.
Proof. induction l as [|x r IH]; intros H; [reflexivity|]. cbn [zindex]. destruct (Z.eqb_spec x z); [subst; exfalso; apply H; now left|]. rewrite IH; [reflexivity|]. intros Hr. apply H. now right. Qed.
Lemma compact_one l : StronglySorted Z.lt l -> (forall x, In x l -> (0 <= x)%Z) -> In 0%Z l -> In 1%Z l ->
  forall i, w_compact l i = Some 1%Z <-> i = 1%Z.
Proof.
  intros Hs Hnn H0 H1 i. destruct (sorted_head01 l Hs Hnn H0 H1) as [r [-> Hr]]. unfold w_compact. cbn [zindex].
  destruct (Z.eqb_spec 0 i) as [<-|N0]; [cbn; split; [discriminate|discriminate]|].
  destruct (Z.eqb_spec 1 i) as [<-|N1]; [cbn; split; reflexivity|].
  split; [|intros ->; congruence]. destruct (zindex i r) as [j|]; cbn; [|discriminate]. intros H. injection H as H. lia.
Qed.

(* ---------- the re-indexing that makes the written namespace index 1 ---------- *)
Lemma str_index_In u l : In u l -> exists j, str_index u l = Some j.
Proof.
  induction l as [|x r IH]; intros H; [contradiction|]. cbn [str_index]. destruct (str_eqb x u) eqn:E; [eauto|].
  destruct H as [->|H]; [rewrite str_eqb_refl in E; discriminate|]. destruct (IH H) as [j Hj]. rewrite Hj. cbn [omap]. eauto.
Qed.
Lemma combine_seq_In (ns : list str) : forall start j, j < length ns -> In (start + j, nth j ns []) (combine (seq start (length ns)) ns).
Proof.
  induction ns as [|x r IH]; intros start j Hj; [cbn in Hj; lia|]. cbn [length seq combine].
  destruct j as [|j]; [left; f_equal; lia|]. right. replace (start + S j) with (S start + j) by lia. apply IH. cbn in Hj. lia.
Qed.
Lemma remap_one ns k j : NoDup ns -> 0 < k < length ns -> j < length ns -> (w_remap ns k (Z.of_nat j) = 1%Z <-> j = k).
Proof.
  intros Hnd Hk Hj. unfold w_remap. rewrite Nat2Z.id. unfold w_newl. cbn [str_index].
  pose proof (proj1 (NoDup_nth ns []) Hnd) as Hinj.
  destruct (str_eqb (nth 0 ns []) (nth j ns [])) eqn:E0.
  - apply str_eqb_eq in E0. apply Hinj in E0; [|lia|lia]. subst j. split; [discriminate|lia].
  - destruct (str_eqb (nth k ns []) (nth j ns [])) eqn:Ek.
    + apply str_eqb_eq in Ek. apply Hinj in Ek; [|lia|lia]. subst j. split; reflexivity.
    + assert (Hne : j <> k) by (intros ->; rewrite str_eqb_refl in Ek; discriminate).
      assert (Hn0 : j <> 0) by (intros ->; rewrite str_eqb_refl in E0; discriminate).
      assert (Hin : In (nth j ns []) (map snd (filter (fun ix => negb (Nat.eqb (fst ix) 0) && negb (Nat.eqb (fst ix) k)) (combine (seq 0 (length ns)) ns)))).
      { apply in_map_iff. exists (j, nth j ns []). split; [reflexivity|]. apply filter_In. split; [apply (combine_seq_In ns 0 j Hj)|].
        cbn [fst]. destruct (Nat.eqb_spec j 0); [contradiction|]. destruct (Nat.eqb_spec j k); [contradiction|]. reflexivity. }
      destruct (str_index_In _ _ Hin) as [i Hi]. rewrite Hi. cbn [omap]. split; [lia|intros ->; contradiction].
Qed.
Lemma remap_nonneg ns k i : (0 <= i)%Z -> (0 <= w_remap ns k i)%Z.
Proof. intros H. unfold w_remap. destruct (str_index _ _); lia. Qed.

(* ---------- which rows become node elements ---------- *)
Definition indices_ok (p : parsed) : Prop :=
  forall r, In r (p_nodes p) -> (0 <= nid_ns (nr_nodeid r) < Z.of_nat (length (p_namespaces p)))%Z /\ (forall b, nr_bns r = Some b -> (0 <= b)%Z).
Definition regular (p : parsed) (k : nat) (refs : list triple) : Prop :=
  NoDup (p_namespaces p) /\ 0 < k < length (p_namespaces p) /\ indices_ok p /\
  In 0%Z (w_in_use p k refs) /\                                        (* not the finding 'namespace-without-base-use' *)
  (exists r, In r (p_nodes p) /\ nid_ns (nr_nodeid r) = Z.of_nat k).   (* not the finding 'empty-namespace' *)
Lemma map_filter_map {A B} (g : A -> B) (f : B -> bool) (h : B -> A) l : (forall a, h (g a) = a) ->
  map h (filter f (map g l)) = filter (fun a => f (g a)) l.
Proof. intros Hh. induction l as [|a l IH]; [reflexivity|]. cbn [map filter]. destruct (f (g a)); cbn [map]; now rewrite ?Hh, IH. Qed.
Lemma node_ns_nat p r : indices_ok p -> In r (p_nodes p) -> exists j, j < length (p_namespaces p) /\ nid_ns (nr_nodeid r) = Z.of_nat j.
Proof. intros Hi Hr. destruct (Hi r Hr) as [[H0 H1] _]. exists (Z.to_nat (nid_ns (nr_nodeid r))). split; lia. Qed.
Lemma in_use_nonneg p k refs : indices_ok p -> forall x, In x (w_in_use p k refs) -> (0 <= x)%Z.
Proof.
  intros Hi x Hx. unfold w_in_use in Hx. apply (proj1 (zsort_In _ _)) in Hx. apply in_app_or in Hx as [Hx|Hx].
  - apply in_map_iff in Hx as [y [<- Hy]]. apply filter_In in Hy as [Hy _]. unfold w_nodes1 in Hy. apply in_map_iff in Hy as [r [<- Hr]].
    cbn [fst snd with_nid_ns nid_ns]. apply remap_nonneg. destruct (Hi r Hr) as [[H0 _] _]. exact H0.
  - apply in_flat_map in Hx as [y [Hy Hxy]]. unfold w_mine in Hy. apply filter_In in Hy as [Hy _]. unfold w_nodes1 in Hy. apply in_map_iff in Hy as [r [<- Hr]].
    cbn [snd] in Hxy. destruct (nr_bns r) as [b|] eqn:Eb; cbn [omap] in Hxy; [|contradiction]. destruct Hxy as [<-|[]].
    apply remap_nonneg. destruct (Hi r Hr) as [_ Hb]. now apply Hb.
Qed.
Lemma in_use_has_one p k refs : NoDup (p_namespaces p) -> 0 < k < length (p_namespaces p) -> indices_ok p ->
  (exists r, In r (p_nodes p) /\ nid_ns (nr_nodeid r) = Z.of_nat k) -> In 1%Z (w_in_use p k refs).
Proof.
  intros Hnd Hk Hi [r [Hr Hns]]. unfold w_in_use. apply zsort_In. apply in_or_app. left.
  set (x := (r, with_nid_ns (nr_nodeid r) (w_remap (p_namespaces p) k (nid_ns (nr_nodeid r))), omap (w_remap (p_namespaces p) k) (nr_bns r))).
  assert (Hx1 : nid_ns (snd (fst x)) = 1%Z) by (subst x; cbn [fst snd with_nid_ns nid_ns]; rewrite Hns; apply remap_one; [exact Hnd|exact Hk|lia|reflexivity]).
  assert (Hxin : In x (w_nodes1 p k)) by (unfold w_nodes1; apply in_map_iff; exists r; split; [reflexivity|exact Hr]).
  apply in_map_iff. exists x. split; [exact Hx1|]. apply filter_In. split; [exact Hxin|].
  apply mem_nid_In. unfold w_used. apply in_or_app. left. apply in_map_iff. exists x. split; [reflexivity|].
  unfold w_mine. apply filter_In. split; [exact Hxin|]. rewrite Hx1. reflexivity.
Qed.
(* the node elements of the written document are exactly the graph's nodes of the requested namespace, in table order *)
Theorem written_rows_exact p k refs : regular p k refs ->
  map (fun x : wrow => fst (fst x)) (w_written p k (w_in_use p k refs)) = filter (fun r => Z.eqb (nid_ns (nr_nodeid r)) (Z.of_nat k)) (p_nodes p).
Proof.
  intros [Hnd [Hk [Hi [H0 Hne]]]].
  pose proof (compact_one (w_in_use p k refs) (zsort_sorted _) (in_use_nonneg p k refs Hi) H0 (in_use_has_one p k refs Hnd Hk Hi Hne)) as Hc.
  unfold w_written, w_nodes1. rewrite map_filter_map by reflexivity. apply filter_ext_in. intros r Hr. cbn [fst snd with_nid_ns nid_ns].
  destruct (node_ns_nat p r Hi Hr) as [j [Hj Ej]]. rewrite Ej.
  destruct (w_compact (w_in_use p k refs) (w_remap (p_namespaces p) k (Z.of_nat j))) as [c|] eqn:Ec.
  - destruct (Z.eqb_spec c 1) as [->|Hc1].
    + apply Hc in Ec. apply remap_one in Ec; [|exact Hnd|exact Hk|exact Hj]. subst j. now rewrite Z.eqb_refl.
    + destruct (Z.eqb_spec (Z.of_nat j) (Z.of_nat k)) as [E|]; [|reflexivity]. apply Nat2Z.inj in E. subst j.
      assert (E1 : w_remap (p_namespaces p) k (Z.of_nat k) = 1%Z) by (apply remap_one; [exact Hnd|exact Hk|lia|reflexivity]).
      rewrite E1 in Ec. assert (Ec' : w_compact (w_in_use p k refs) 1 = Some 1%Z) by (now apply Hc). congruence.
  - destruct (Z.eqb_spec (Z.of_nat j) (Z.of_nat k)) as [E|]; [|reflexivity]. apply Nat2Z.inj in E. subst j.
    assert (E1 : w_remap (p_namespaces p) k (Z.of_nat k) = 1%Z) by (apply remap_one; [exact Hnd|exact Hk|lia|reflexivity]).
    rewrite E1 in Ec. assert (Ec' : w_compact (w_in_use p k refs) 1 = Some 1%Z) by (now apply Hc). congruence.
Qed.

(* ---------- the node elements of the written document ---------- *)
Lemma find_first_row p k n : (exists r, In r (p_nodes p) /\ nr_nodeid r = n) ->
  exists x, find (fun x : wrow => nid_eqb (nr_nodeid (fst (fst x))) n) (w_nodes1 p k) = Some x /\
            nid_ns (snd (fst x)) = w_remap (p_namespaces p) k (nid_ns n).
Proof.
  intros [r [Hr Hn]]. unfold w_nodes1. induction (p_nodes p) as [|a l IH]; [contradiction|]. cbn [map find fst snd].
  destruct (nid_eqb (nr_nodeid a) n) eqn:E.
  - apply nid_eqb_eq in E. eexists. split; [reflexivity|]. cbn [fst snd with_nid_ns nid_ns]. now rewrite E.
  - destruct Hr as [->|Hr]; [rewrite Hn in E; assert (nid_eqb n n = true) by (now apply nid_eqb_eq); congruence|]. now apply IH.
Qed.
Theorem C06_node_elements p w d k refs :
  str_index (wp_uri w) (p_namespaces p) = Some k -> use_refs p w (Z.of_nat k) = Ok refs -> regular p k refs -> write_doc p w = Ok d ->
  map (fun e => (ne_cls e, hd_error (ne_attrs e))) (d_nodes d)
  = map (fun r => (nr_cls r, Some (lit "NodeId", print_nodeid (with_nid_ns (nr_nodeid r) 1))))
        (filter (fun r => Z.eqb (nid_ns (nr_nodeid r)) (Z.of_nat k)) (p_nodes p)).
Proof.
  intros Hk Hrefs Hreg Hw. rewrite <- (written_rows_exact p k refs Hreg). rewrite map_map.
  unfold write_doc in Hw. rewrite Hk, Hrefs in Hw. cbn [rbind] in Hw.
  destruct (map (fun i : Z => nth (Z.to_nat i) (w_newl (p_namespaces p) k) []) (w_in_use p k refs)) as [|u0 [|u1 rest]] eqn:En; try discriminate.
  match type of Hw with (if ?c then _ else _) = _ => destruct c; [discriminate|] end.
  injection Hw as <-. cbn [d_nodes]. rewrite map_map. apply map_ext_in. intros x Hx. unfold w_node_elem. cbn [ne_cls ne_attrs hd_error]. f_equal. f_equal. f_equal.
  destruct Hreg as [Hnd [Hkk [Hi [H0 Hne]]]].
  pose proof (compact_one (w_in_use p k refs) (zsort_sorted _) (in_use_nonneg p k refs Hi) H0 (in_use_has_one p k refs Hnd Hkk Hi Hne)) as Hc.
  unfold w_written in Hx. apply filter_In in Hx as [Hxin Hx1].
  assert (Hrow : exists r, In r (p_nodes p) /\ nr_nodeid r = nr_nodeid (fst (fst x))).
  { unfold w_nodes1 in Hxin. apply in_map_iff in Hxin as [r [<- Hr]]. exists r. split; [exact Hr|reflexivity]. }
  assert (Hns : nid_ns (snd (fst x)) = w_remap (p_namespaces p) k (nid_ns (nr_nodeid (fst (fst x))))).
  { unfold w_nodes1 in Hxin. apply in_map_iff in Hxin as [r [<- Hr]]. reflexivity. }
  unfold w_text_of, w_lookup. destruct (find_first_row p k _ Hrow) as [y [Hy Hyns]]. rewrite Hy. rewrite Hyns, <- Hns.
  destruct (w_compact (w_in_use p k refs) (nid_ns (snd (fst x)))) as [c|]; [|discriminate]. apply Z.eqb_eq in Hx1. subst c. reflexivity.
Qed.
Lemma str_index_nth u l : forall k, str_index u l = Some k -> nth k l [] = u /\ k < length l.
Proof.
  induction l as [|x r IH]; intros k H; [discriminate|]. cbn [str_index] in H. destruct (str_eqb x u) eqn:E.
  - injection H as <-. apply str_eqb_eq in E. cbn. split; [exact E|lia].
  - destruct (str_index u r) as [j|]; [|discriminate]. injection H as <-. destruct (IH j eq_refl) as [A B]. cbn. split; [exact A|lia].
Qed.
(* the document names the written namespace first and carries a Model element of that URI *)
Theorem C06_first_uri p w d k refs :
  str_index (wp_uri w) (p_namespaces p) = Some k -> use_refs p w (Z.of_nat k) = Ok refs -> regular p k refs -> write_doc p w = Ok d ->
  exists rest attrs req, d_uris d = Some (wp_uri w :: rest) /\ d_models d = Some [{| me_attrs := (lit "ModelUri", wp_uri w) :: attrs; me_required := req |}].
Proof.
  intros Hk Hrefs Hreg Hw. destruct Hreg as [Hnd [Hkk [Hi [H0 Hne]]]].
  destruct (sorted_head01 (w_in_use p k refs) (zsort_sorted _) (in_use_nonneg p k refs Hi) H0 (in_use_has_one p k refs Hnd Hkk Hi Hne)) as [r [Eu _]].
  unfold write_doc in Hw. rewrite Hk, Hrefs in Hw. cbn [rbind] in Hw. rewrite Eu in Hw. cbn [map] in Hw.
  change (nth (Z.to_nat 1) (w_newl (p_namespaces p) k) []) with (nth k (p_namespaces p) []) in Hw.
  destruct (str_index_nth _ _ _ Hk) as [Hu _]. rewrite Hu in Hw.
  match type of Hw with (if ?c then _ else _) = _ => destruct c; [discriminate|] end.
  injection Hw as <-. cbn [d_uris d_models tl]. eauto.
Qed.

(* the decision procedure for the regularity conditions is sound *)
Lemma nodup_str_sound l : nodup_str l = true -> NoDup l.
Proof.
  induction l as [|x r IH]; intros H; [constructor|]. cbn [nodup_str] in H. apply andb_true_iff in H as [Hx Hr]. constructor; [|now apply IH].
  intros Hin. apply negb_true_iff in Hx. assert (existsb (str_eqb x) r = true); [|congruence]. apply existsb_exists. exists x. split; [exact Hin|apply str_eqb_refl].
Qed.
Theorem regular_b_sound p k refs : regular_b p k refs = true -> regular p k refs.
Proof.
  unfold regular_b. intros H.
  apply andb_true_iff in H as [H Hex]. apply andb_true_iff in H as [H H0]. apply andb_true_iff in H as [H Hall].
  apply andb_true_iff in H as [H Hk2]. apply andb_true_iff in H as [Hnd Hk1].
  split; [now apply nodup_str_sound|]. split; [split; [now apply Nat.ltb_lt|now apply Nat.ltb_lt]|]. split; [|split].
  - intros r Hr. rewrite forallb_forall in Hall. specialize (Hall r Hr). apply andb_true_iff in Hall as [Hall Hb]. apply andb_true_iff in Hall as [Ha Hc].
    apply Z.leb_le in Ha. apply Z.ltb_lt in Hc. split; [lia|]. intros b Eb. rewrite Eb in Hb. now apply Z.leb_le in Hb.
  - apply existsb_exists in H0 as [x [Hx E]]. apply Z.eqb_eq in E. now subst x.
  - apply existsb_exists in Hex as [r [Hr E]]. apply Z.eqb_eq in E. eauto.
Qed.

(* ================= placement of the Reference elements ================= *)
Lemma print_nodeid_inj a b : print_nodeid a = print_nodeid b -> a = b.
Proof.
  intros H. pose proof (T_C09.cached_parse_print a) as Pa. pose proof (T_C09.cached_parse_print b) as Pb. rewrite H in Pa. rewrite Pa in Pb.
  injection Pb as E1 E2 E3. destruct a, b; cbn in *; congruence.
Qed.
Lemma print_not_nan n : print_nodeid n <> lit "nan".
Proof. unfold print_nodeid. destruct (nid_ns n =? 0)%Z; [destruct (nid_type n); discriminate|discriminate]. Qed.
Section Placement.
  Variables (p : parsed) (k : nat) (refs : list triple).
  Hypothesis Hreg : regular p k refs.
  Let in_use := w_in_use p k refs.
  Let W := map (fun x : wrow => nr_nodeid (fst (fst x))) (w_written p k in_use).
  Lemma W_char n : In n W <-> (exists r, In r (p_nodes p) /\ nr_nodeid r = n /\ nid_ns n = Z.of_nat k).
  Proof.
    unfold W, in_use. rewrite <- (map_map (fun x : wrow => fst (fst x)) nr_nodeid), (written_rows_exact p k refs Hreg). rewrite in_map_iff. split.
    - intros [r [<- Hr]]. apply filter_In in Hr as [Hr He]. apply Z.eqb_eq in He. eauto.
    - intros [r [Hr [<- He]]]. exists r. split; [reflexivity|]. apply filter_In. split; [exact Hr|now apply Z.eqb_eq].
  Qed.
  Lemma lookup_written wid : In wid W -> w_lookup p k in_use wid = Some (with_nid_ns wid 1).
  Proof.
    intros Hw. apply W_char in Hw as [r [Hr [Hn Hk]]]. destruct Hreg as [Hnd [Hkk [Hi [H0 Hne]]]].
    pose proof (compact_one in_use (zsort_sorted _) (in_use_nonneg p k refs Hi) H0 (in_use_has_one p k refs Hnd Hkk Hi Hne)) as Hc.
    unfold w_lookup. destruct (find_first_row p k wid (ex_intro _ r (conj Hr Hn))) as [y [Hy Hyns]]. rewrite Hy, Hyns, Hk.
    assert (E1 : w_remap (p_namespaces p) k (Z.of_nat k) = 1%Z) by (apply remap_one; [exact Hnd|exact Hkk|lia|reflexivity]).
    rewrite E1. assert (Ec : w_compact in_use 1 = Some 1%Z) by (now apply Hc). now rewrite Ec.
  Qed.
  (* the text of a NodeId equals the text of a written node's NodeId exactly when it IS that NodeId *)
  Lemma text_eq_written n wid : In wid W -> str_eqb (w_text_of p k in_use n) (w_text_of p k in_use wid) = nid_eqb n wid.
  Proof.
    intros Hw. pose proof (lookup_written wid Hw) as Lw. unfold w_text_of. rewrite Lw.
    destruct (nid_eqb n wid) eqn:En.
    - apply nid_eqb_eq in En. subst n. rewrite Lw. apply str_eqb_refl.
    - destruct (w_lookup p k in_use n) as [m|] eqn:Ln.
      + destruct (str_eqb (print_nodeid m) (print_nodeid (with_nid_ns wid 1))) eqn:Es; [|reflexivity]. exfalso.
        apply str_eqb_eq in Es. apply print_nodeid_inj in Es. subst m.
        unfold w_lookup in Ln. destruct (find (fun x : wrow => nid_eqb (nr_nodeid (fst (fst x))) n) (w_nodes1 p k)) as [x|] eqn:Ef; [|discriminate].
        destruct (w_compact in_use (nid_ns (snd (fst x)))) as [c|] eqn:Ec; [|discriminate]. injection Ln as Ec1 Et Ev. subst c.
        apply find_some in Ef as [Hx Hxn]. apply nid_eqb_eq in Hxn.
        destruct Hreg as [Hnd [Hkk [Hi [H0 Hne]]]].
        pose proof (compact_one in_use (zsort_sorted _) (in_use_nonneg p k refs Hi) H0 (in_use_has_one p k refs Hnd Hkk Hi Hne)) as Hc.
        apply Hc in Ec. unfold w_nodes1 in Hx. apply in_map_iff in Hx as [r [<- Hr]]. cbn [fst snd with_nid_ns nid_ns] in *.
        destruct (node_ns_nat p r Hi Hr) as [j [Hj Ej]]. rewrite Ej in Ec. apply remap_one in Ec; [|exact Hnd|exact Hkk|exact Hj]. subst j.
        apply W_char in Hw as [rw [_ [_ Hkw]]].
        assert (E : n = wid).
        { rewrite Hxn in Ej. destruct n as [nn nt nv], wid as [wn wt wv]. cbn [nid_ns nid_type nid_value] in *. congruence. }
        subst n. assert (nid_eqb wid wid = true) by (now apply nid_eqb_eq). congruence.
      + destruct (str_eqb (lit "nan") (print_nodeid (with_nid_ns wid 1))) eqn:Es; [|reflexivity]. apply str_eqb_eq in Es. symmetry in Es. now apply print_not_nan in Es.
  Qed.
  Lemma exists_written n : existsb (fun wid => str_eqb (w_text_of p k in_use n) (w_text_of p k in_use wid)) W = mem_nid n W.
  Proof.
    unfold mem_nid. assert (G : forall l, (forall x, In x l -> In x W) -> existsb (fun wid => str_eqb (w_text_of p k in_use n) (w_text_of p k in_use wid)) l = existsb (nid_eqb n) l).
    { induction l as [|x l IH]; intros Hl; [reflexivity|]. cbn [existsb]. rewrite text_eq_written by (apply Hl; now left). rewrite IH; [reflexivity|]. intros y Hy. apply Hl. now right. }
    apply G. auto.
  Qed.
  (* C06: under a written node `me`, exactly the references whose target is `me` (as inverse references) and the references whose
     source is `me` and whose target is not a written node (as forward references) *)
  Theorem ref_elems_exact me : In me W ->
    w_ref_elems p k in_use refs me =
    flat_map (fun t : triple => let '(s, tg, ty) := t in
      if mem_nid tg W then (if nid_eqb tg me then [{| re_attrs := [(lit "ReferenceType", w_text_of p k in_use ty); (lit "IsForward", lit "false")]; re_text := Some (w_text_of p k in_use s) |}] else [])
      else if nid_eqb s me then [{| re_attrs := [(lit "ReferenceType", w_text_of p k in_use ty)]; re_text := Some (w_text_of p k in_use tg) |}] else []) refs.
  Proof.
    intros Hme. unfold w_ref_elems. fold W. apply flat_map_ext. intros [[s tg] ty]. rewrite exists_written, !(text_eq_written _ me Hme). reflexivity.
  Qed.
End Placement.

(* every reference with an endpoint in U is written exactly once, no other reference is written *)
Definition lsum (l : list nat) : nat := fold_right Nat.add 0 l.
Lemma length_flat_map {A B} (f : A -> list B) l : length (flat_map f l) = lsum (map (fun x => length (f x)) l).
Proof. induction l as [|x l IH]; [reflexivity|]. cbn [flat_map map lsum fold_right]. now rewrite app_length, IH. Qed.
Lemma lsum_zero {B} (l : list B) : lsum (map (fun _ => 0) l) = 0.
Proof. induction l as [|b l IH]; [reflexivity|]. cbn [map lsum fold_right]. exact IH. Qed.
Lemma lsum_add {B} (f h : B -> nat) l : lsum (map (fun b => f b + h b) l) = lsum (map f l) + lsum (map h l).
Proof. induction l as [|b l IH]; [reflexivity|]. cbn [map lsum fold_right] in *. unfold lsum in IH. rewrite IH. lia. Qed.
Lemma lsum_swap {A B} (g : A -> B -> nat) la lb : lsum (map (fun a => lsum (map (g a) lb)) la) = lsum (map (fun b => lsum (map (fun a => g a b) la)) lb).
Proof.
  induction la as [|a la IH].
  - cbn [map]. symmetry. apply lsum_zero.
  - cbn [map]. change (lsum (lsum (map (g a) lb) :: map (fun a0 => lsum (map (g a0) lb)) la)) with (lsum (map (g a) lb) + lsum (map (fun a0 => lsum (map (g a0) lb)) la)).
    rewrite IH, <- lsum_add. reflexivity.
Qed.
Lemma count_eq_nodup n l : NoDup l -> lsum (map (fun m => if nid_eqb n m then 1 else 0) l) = if mem_nid n l then 1 else 0.
Proof.
  intros Hnd. induction Hnd as [|x l Hx _ IH]; [reflexivity|]. cbn [map lsum fold_right]. fold (lsum (map (fun m : nodeid => if nid_eqb n m then 1 else 0) l)). rewrite IH.
  unfold mem_nid. cbn [existsb]. destruct (nid_eqb n x) eqn:E; [|reflexivity]. apply nid_eqb_eq in E. subst x.
  destruct (existsb (nid_eqb n) l) eqn:Ex; [|reflexivity]. exfalso. apply Hx. apply existsb_exists in Ex as [y [Hy Ey]]. apply nid_eqb_eq in Ey. now subst.
Qed.
Lemma lsum_indicator {A} (q : A -> bool) l : lsum (map (fun t => if q t then 1 else 0) l) = length (filter q l).
Proof. induction l as [|t l IH]; [reflexivity|]. cbn [map filter]. change (lsum ((if q t then 1 else 0) :: map (fun t0 => if q t0 then 1 else 0) l)) with ((if q t then 1 else 0) + lsum (map (fun t0 => if q t0 then 1 else 0) l)). rewrite IH. destruct (q t); reflexivity. Qed.
Lemma flat_map_ext_in' {A B} (f g : A -> list B) l : (forall a, In a l -> f a = g a) -> flat_map f l = flat_map g l.
Proof. induction l as [|x l IH]; intros H; [reflexivity|]. cbn [flat_map]. rewrite (H x (or_introl eq_refl)), IH; [reflexivity|]. intros a Ha. apply H. now right. Qed.
Theorem refs_written_once p k refs : regular p k refs ->
  let in_use := w_in_use p k refs in
  let W := map (fun x : wrow => nr_nodeid (fst (fst x))) (w_written p k in_use) in
  NoDup W ->
  length (flat_map (w_ref_elems p k in_use refs) W) = length (filter (fun t : triple => mem_nid (snd (fst t)) W || mem_nid (fst (fst t)) W) refs).
Proof.
  intros Hreg in_use W Hnd.
  assert (E : flat_map (w_ref_elems p k in_use refs) W = flat_map (fun me =>
    flat_map (fun t : triple => let '(s, tg, ty) := t in
      if mem_nid tg W then (if nid_eqb tg me then [{| re_attrs := [(lit "ReferenceType", w_text_of p k in_use ty); (lit "IsForward", lit "false")]; re_text := Some (w_text_of p k in_use s) |}] else [])
      else if nid_eqb s me then [{| re_attrs := [(lit "ReferenceType", w_text_of p k in_use ty)]; re_text := Some (w_text_of p k in_use tg) |}] else []) refs) W).
  { apply flat_map_ext_in'. intros me Hme. now apply (ref_elems_exact p k refs Hreg me). }
  rewrite E. clear E. rewrite length_flat_map.
  set (g := fun (me : nodeid) (t : triple) => let '(s, tg, ty) := t in if mem_nid tg W then (if nid_eqb tg me then 1 else 0) else if nid_eqb s me then 1 else 0).
  assert (E1 : forall me, length (flat_map (fun t : triple => let '(s, tg, ty) := t in
      if mem_nid tg W then (if nid_eqb tg me then [{| re_attrs := [(lit "ReferenceType", w_text_of p k in_use ty); (lit "IsForward", lit "false")]; re_text := Some (w_text_of p k in_use s) |}] else [])
      else if nid_eqb s me then [{| re_attrs := [(lit "ReferenceType", w_text_of p k in_use ty)]; re_text := Some (w_text_of p k in_use tg) |}] else []) refs) = lsum (map (g me) refs)).
  { intros me. rewrite length_flat_map. f_equal. apply map_ext. intros [[s tg] ty]. unfold g. destruct (mem_nid tg W); [destruct (nid_eqb tg me)|destruct (nid_eqb s me)]; reflexivity. }
  rewrite (map_ext _ _ E1). rewrite lsum_swap.
  assert (E2 : forall t : triple, lsum (map (fun me => g me t) W) = if mem_nid (snd (fst t)) W || mem_nid (fst (fst t)) W then 1 else 0).
  { intros [[s tg] ty]. unfold g. cbn [fst snd]. destruct (mem_nid tg W) eqn:Et.
    - rewrite (count_eq_nodup tg W Hnd), Et. reflexivity.
    - rewrite (count_eq_nodup s W Hnd). reflexivity. }
  rewrite (map_ext _ _ E2). apply lsum_indicator.
Qed.

(* ================= every identifier resolves, through the document's own namespace table, to the URI it has in the graph ================= *)
Lemma zindex_nth z l : forall j, zindex z l = Some j -> nth j l 0%Z = z /\ j < length l.
Proof.
  induction l as [|x r IH]; intros j H; [discriminate|]. cbn [zindex] in H. destruct (Z.eqb_spec x z) as [->|Hne].
  - injection H as <-. cbn. split; [reflexivity|lia].
  - destruct (zindex z r) as [i|]; [|discriminate]. injection H as <-. destruct (IH i eq_refl) as [A B]. cbn. split; [exact A|lia].
Qed.
Lemma newl_contains ns k j : k < length ns -> j < length ns -> In (nth j ns []) (w_newl ns k).
Proof.
  intros Hk Hj. unfold w_newl. destruct (Nat.eq_dec j 0) as [->|N0]; [now left|]. destruct (Nat.eq_dec j k) as [->|Nk]; [right; now left|]. right. right.
  apply in_map_iff. exists (j, nth j ns []). split; [reflexivity|]. apply filter_In. split; [apply (combine_seq_In ns 0 j Hj)|].
  cbn [fst]. destruct (Nat.eqb_spec j 0); [contradiction|]. destruct (Nat.eqb_spec j k); [contradiction|]. reflexivity.
Qed.
Lemma remap_uri ns k j : k < length ns -> j < length ns ->
  nth (Z.to_nat (w_remap ns k (Z.of_nat j))) (w_newl ns k) [] = nth j ns [].
Proof.
  intros Hk Hj. unfold w_remap. rewrite Nat2Z.id. destruct (str_index_In _ _ (newl_contains ns k j Hk Hj)) as [i Hi].
  match goal with |- context [match ?s with Some _ => _ | None => _ end] => destruct s as [i'|] eqn:E' end.
  - rewrite Nat2Z.id. now destruct (str_index_nth _ _ _ E') as [A _].
  - exfalso. assert (X : @None nat = Some i) by (rewrite <- E'; exact Hi). discriminate.
Qed.
Lemma compact_uri (newl : list str) in_use i c : w_compact in_use i = Some c ->
  nth (Z.to_nat c) (map (fun i0 : Z => nth (Z.to_nat i0) newl []) in_use) [] = nth (Z.to_nat i) newl [].
Proof.
  unfold w_compact. destruct (zindex i in_use) as [j|] eqn:E; [|discriminate]. cbn [omap]. intros H. injection H as <-. rewrite Nat2Z.id.
  destruct (zindex_nth _ _ _ E) as [A B].
  etransitivity; [apply (nth_indep _ _ ((fun i0 : Z => nth (Z.to_nat i0) newl []) 0%Z)); rewrite map_length; exact B|].
  etransitivity; [apply (map_nth (fun i0 : Z => nth (Z.to_nat i0) newl []) in_use 0%Z j)|]. cbv beta. now rewrite A.
Qed.
(* the NodeId text written for a node of the graph: same identifier type and value, and a namespace index that names - in the table
   [namespace 0 :: the document's NamespaceUris] - the very URI the node's namespace index names in the graph's table *)
Theorem identifier_resolution p k refs r m : indices_ok p -> k < length (p_namespaces p) -> In r (p_nodes p) ->
  w_lookup p k (w_in_use p k refs) (nr_nodeid r) = Some m ->
  nid_type m = nid_type (nr_nodeid r) /\ nid_value m = nid_value (nr_nodeid r) /\
  nth (Z.to_nat (nid_ns m)) (map (fun i : Z => nth (Z.to_nat i) (w_newl (p_namespaces p) k) []) (w_in_use p k refs)) []
  = nth (Z.to_nat (nid_ns (nr_nodeid r))) (p_namespaces p) [].
Proof.
  intros Hi Hk Hr Hl. unfold w_lookup in Hl.
  destruct (find_first_row p k (nr_nodeid r) (ex_intro _ r (conj Hr eq_refl))) as [y [Hy Hyns]]. rewrite Hy, Hyns in Hl.
  destruct (w_compact (w_in_use p k refs) (w_remap (p_namespaces p) k (nid_ns (nr_nodeid r)))) as [c|] eqn:Ec; [|discriminate]. injection Hl as <-.
  cbn [with_nid_ns nid_type nid_value nid_ns]. split; [reflexivity|]. split; [reflexivity|].
  rewrite (compact_uri _ _ _ _ Ec). destruct (node_ns_nat p r Hi Hr) as [j [Hj Ej]]. rewrite Ej, Nat2Z.id. now apply remap_uri.
Qed.
