(* C06, placement of node elements: under the regularity conditions (which are exactly the negations of the recorded findings
   'empty-namespace' and 'namespace-without-base-use'), the rows that become node elements of the written document are exactly the
   graph's nodes whose NodeId lies in the requested namespace, in table order. *)
From Coq Require Import String Ascii List Bool Arith NArith ZArith Lia Sorted.
Require Import PyStr PyInt Sexp Xml M_C09 M_C08 Ns Table M_Parse M_Write T_Write.
Import ListNotations.
Open Scope char_scope.

(* ---------- zsort_dedup: a strictly increasing list with the same elements ---------- *)
Lemma zinsert_In z l x : In x (zinsert z l) <-> x = z \/ In x l.
Proof.
  induction l as [|y r IH]; cbn [zinsert]; [cbn; intuition|].
  destruct (Z.ltb_spec z y); [cbn; intuition|]. destruct (Z.eqb_spec z y); [subst; cbn; intuition|]. cbn [In]. rewrite IH. intuition.
Qed.
Lemma zinsert_sorted z l : StronglySorted Z.lt l -> StronglySorted Z.lt (zinsert z l).
Proof.
  induction l as [|y r IH]; intros Hs; cbn [zinsert]; [repeat constructor|].
  inversion Hs as [|? ? Hr Hall]; subst.
  destruct (Z.ltb_spec z y) as [Hlt|Hge].
  - constructor; [exact Hs|]. constructor; [exact Hlt|]. rewrite Forall_forall in *. intros x Hx. specialize (Hall x Hx). lia.
  - destruct (Z.eqb_spec z y); [exact Hs|]. constructor; [now apply IH|].
    rewrite Forall_forall in *. intros x Hx. apply zinsert_In in Hx as [->|Hx]; [lia|now apply Hall].
Qed.
Lemma zsort_In l x : In x (zsort_dedup l) <-> In x l.
Proof. unfold zsort_dedup. induction l as [|y r IH]; cbn [fold_right]; [reflexivity|]. rewrite zinsert_In, IH. cbn. intuition. Qed.
Lemma zsort_sorted l : StronglySorted Z.lt (zsort_dedup l).
Proof. unfold zsort_dedup. induction l as [|y r IH]; cbn [fold_right]; [constructor|now apply zinsert_sorted]. Qed.

(* a strictly increasing list of non-negative integers that contains 0 and 1 starts 0, 1 and everything after is larger *)
Lemma sorted_head01 l : StronglySorted Z.lt l -> (forall x, In x l -> (0 <= x)%Z) -> In 0%Z l -> In 1%Z l ->
  exists r, l = 0%Z :: 1%Z :: r /\ forall x, In x r -> (1 < x)%Z.
Proof.
  intros Hs Hnn H0 H1. destruct l as [|a l]; [contradiction|]. inversion Hs as [|? ? Hs1 Ha]; subst. rewrite Forall_forall in Ha.
  assert (a = 0%Z) as ->.
  { destruct H0 as [->|H0]; [reflexivity|]. specialize (Ha 0%Z H0). specialize (Hnn a (or_introl eq_refl)). lia. }
  destruct H1 as [H1|H1]; [discriminate|]. destruct l as [|b l]; [contradiction|]. inversion Hs1 as [|? ? Hs2 Hb]; subst. rewrite Forall_forall in Hb.
  assert (b = 1%Z) as ->.
  { destruct H1 as [->|H1]; [reflexivity|]. specialize (Hb 1%Z H1). specialize (Ha b (or_introl eq_refl)). lia. }
  exists l. split; [reflexivity|]. intros x Hx. now apply Hb.
Qed.
Lemma zindex_notin z l : ~ In z l -> zindex z l = None.
Proof. induction l as [|x r IH]; intros H; [reflexivity|]. cbn [zindex]. destruct (Z.eqb_spec x z); [subst; exfalso; apply H; now left|]. rewrite IH; [reflexivity|]. intros Hr. apply H. now right. Qed.
Lemma compact_one l : StronglySorted Z.lt l -> (forall x, In x l -> (0 <= x)%Z) -> In 0%Z l -> In 1%Z l ->
  forall i, w_compact l i = Some 1%Z <-> i = 1%Z.
Proof.
  intros Hs Hnn H0 H1 i. destruct (sorted_head01 l Hs Hnn H0 H1) as [r [-> Hr]]. unfold w_compact. cbn [zindex].
  destruct (Z.eqb_spec 0 i) as [<-|N0]; [cbn; split; [discriminate|discriminate]|].
  destruct (Z.eqb_spec 1 i) as [<-|N1]; [cbn; split; reflexivity|].
  split; [|intros ->; congruence]. destruct (zindex i r) as [j|]; cbn; [|discriminate]. intros H. injection H as H. lia.
Qed.

(* ---------- the re-indexing that makes the written namespace index 1 ---------- *)
Lemma str_index_In u l : In u l -> exists j, str_index u l = Some j.
Proof.
  induction l as [|x r IH]; intros H; [contradiction|]. cbn [str_index]. destruct (str_eqb x u) eqn:E; [eauto|].
  destruct H as [->|H]; [rewrite str_eqb_refl in E; discriminate|]. destruct (IH H) as [j Hj]. rewrite Hj. cbn [omap]. eauto.
Qed.
Lemma combine_seq_In (ns : list str) : forall start j, j < length ns -> In (start + j, nth j ns []) (combine (seq start (length ns)) ns).
Proof.
  induction ns as [|x r IH]; intros start j Hj; [cbn in Hj; lia|]. cbn [length seq combine].
  destruct j as [|j]; [left; f_equal; lia|]. right. replace (start + S j) with (S start + j) by lia. apply IH. cbn in Hj. lia.
Qed.
Lemma remap_one ns k j : NoDup ns -> 0 < k < length ns -> j < length ns -> (w_remap ns k (Z.of_nat j) = 1%Z <-> j = k).
Proof.
  intros Hnd Hk Hj. unfold w_remap. rewrite Nat2Z.id. unfold w_newl. cbn [str_index].
  pose proof (proj1 (NoDup_nth ns []) Hnd) as Hinj.
  destruct (str_eqb (nth 0 ns []) (nth j ns [])) eqn:E0.
  - apply str_eqb_eq in E0. apply Hinj in E0; [|lia|lia]. subst j. split; [discriminate|lia].
  - destruct (str_eqb (nth k ns []) (nth j ns [])) eqn:Ek.
    + apply str_eqb_eq in Ek. apply Hinj in Ek; [|lia|lia]. subst j. split; reflexivity.
    + assert (Hne : j <> k) by (intros ->; rewrite str_eqb_refl in Ek; discriminate).
      assert (Hn0 : j <> 0) by (intros ->; rewrite str_eqb_refl in E0; discriminate).
      assert (Hin : In (nth j ns []) (map snd (filter (fun ix => negb (Nat.eqb (fst ix) 0) && negb (Nat.eqb (fst ix) k)) (combine (seq 0 (length ns)) ns)))).
      { apply in_map_iff. exists (j, nth j ns []). split; [reflexivity|]. apply filter_In. split; [apply (combine_seq_In ns 0 j Hj)|].
        cbn [fst]. destruct (Nat.eqb_spec j 0); [contradiction|]. destruct (Nat.eqb_spec j k); [contradiction|]. reflexivity. }
      destruct (str_index_In _ _ Hin) as [i Hi]. rewrite Hi. cbn [omap]. split; [lia|intros ->; contradiction].
Qed.
Lemma remap_nonneg ns k i : (0 <= i)%Z -> (0 <= w_remap ns k i)%Z.
Proof. intros H. unfold w_remap. destruct (str_index _ _); lia. Qed.

(* ---------- which rows become node elements ---------- *)
Definition indices_ok (p : parsed) : Prop :=
  forall r, In r (p_nodes p) -> (0 <= nid_ns (nr_nodeid r) < Z.of_nat (length (p_namespaces p)))%Z /\ (forall b, nr_bns r = Some b -> (0 <= b)%Z).
Definition regular (p : parsed) (k : nat) (refs : list triple) : Prop :=
  NoDup (p_namespaces p) /\ 0 < k < length (p_namespaces p) /\ indices_ok p /\
  In 0%Z (w_in_use p k refs) /\                                        (* not the finding 'namespace-without-base-use' *)
  (exists r, In r (p_nodes p) /\ nid_ns (nr_nodeid r) = Z.of_nat k).   (* not the finding 'empty-namespace' *)
Lemma map_filter_map {A B} (g : A -> B) (f : B -> bool) (h : B -> A) l : (forall a, h (g a) = a) ->
  map h (filter f (map g l)) = filter (fun a => f (g a)) l.
Proof. intros Hh. induction l as [|a l IH]; [reflexivity|]. cbn [map filter]. destruct (f (g a)); cbn [map]; now rewrite ?Hh, IH. Qed.
Lemma node_ns_nat p r : indices_ok p -> In r (p_nodes p) -> exists j, j < length (p_namespaces p) /\ nid_ns (nr_nodeid r) = Z.of_nat j.
Proof. intros Hi Hr. destruct (Hi r Hr) as [[H0 H1] _]. exists (Z.to_nat (nid_ns (nr_nodeid r))). split; lia. Qed.
Lemma in_use_nonneg p k refs : indices_ok p -> forall x, In x (w_in_use p k refs) -> (0 <= x)%Z.
Proof.
  intros Hi x Hx. unfold w_in_use in Hx. apply (proj1 (zsort_In _ _)) in Hx. apply in_app_or in Hx as [Hx|Hx].
  - apply in_map_iff in Hx as [y [<- Hy]]. apply filter_In in Hy as [Hy _]. unfold w_nodes1 in Hy. apply in_map_iff in Hy as [r [<- Hr]].
    cbn [fst snd with_nid_ns nid_ns]. apply remap_nonneg. destruct (Hi r Hr) as [[H0 _] _]. exact H0.
  - apply in_flat_map in Hx as [y [Hy Hxy]]. unfold w_mine in Hy. apply filter_In in Hy as [Hy _]. unfold w_nodes1 in Hy. apply in_map_iff in Hy as [r [<- Hr]].
    cbn [snd] in Hxy. destruct (nr_bns r) as [b|] eqn:Eb; cbn [omap] in Hxy; [|contradiction]. destruct Hxy as [<-|[]].
    apply remap_nonneg. destruct (Hi r Hr) as [_ Hb]. now apply Hb.
Qed.
Lemma in_use_has_one p k refs : NoDup (p_namespaces p) -> 0 < k < length (p_namespaces p) -> indices_ok p ->
  (exists r, In r (p_nodes p) /\ nid_ns (nr_nodeid r) = Z.of_nat k) -> In 1%Z (w_in_use p k refs).
Proof.
  intros Hnd Hk Hi [r [Hr Hns]]. unfold w_in_use. apply zsort_In. apply in_or_app. left.
  set (x := (r, with_nid_ns (nr_nodeid r) (w_remap (p_namespaces p) k (nid_ns (nr_nodeid r))), omap (w_remap (p_namespaces p) k) (nr_bns r))).
  assert (Hx1 : nid_ns (snd (fst x)) = 1%Z) by (subst x; cbn [fst snd with_nid_ns nid_ns]; rewrite Hns; apply remap_one; [exact Hnd|exact Hk|lia|reflexivity]).
  assert (Hxin : In x (w_nodes1 p k)) by (unfold w_nodes1; apply in_map_iff; exists r; split; [reflexivity|exact Hr]).
  apply in_map_iff. exists x. split; [exact Hx1|]. apply filter_In. split; [exact Hxin|].
  apply mem_nid_In. unfold w_used. apply in_or_app. left. apply in_map_iff. exists x. split; [reflexivity|].
  unfold w_mine. apply filter_In. split; [exact Hxin|]. rewrite Hx1. reflexivity.
Qed.
(* the node elements of the written document are exactly the graph's nodes of the requested namespace, in table order *)
Theorem written_rows_exact p k refs : regular p k refs ->
  map (fun x : wrow => fst (fst x)) (w_written p k (w_in_use p k refs)) = filter (fun r => Z.eqb (nid_ns (nr_nodeid r)) (Z.of_nat k)) (p_nodes p).
Proof.
  intros [Hnd [Hk [Hi [H0 Hne]]]].
  pose proof (compact_one (w_in_use p k refs) (zsort_sorted _) (in_use_nonneg p k refs Hi) H0 (in_use_has_one p k refs Hnd Hk Hi Hne)) as Hc.
  unfold w_written, w_nodes1. rewrite map_filter_map by reflexivity. apply filter_ext_in. intros r Hr. cbn [fst snd with_nid_ns nid_ns].
  destruct (node_ns_nat p r Hi Hr) as [j [Hj Ej]]. rewrite Ej.
  destruct (w_compact (w_in_use p k refs) (w_remap (p_namespaces p) k (Z.of_nat j))) as [c|] eqn:Ec.
  - destruct (Z.eqb_spec c 1) as [->|Hc1].
    + apply Hc in Ec. apply remap_one in Ec; [|exact Hnd|exact Hk|exact Hj]. subst j. now rewrite Z.eqb_refl.
    + destruct (Z.eqb_spec (Z.of_nat j) (Z.of_nat k)) as [E|]; [|reflexivity]. apply Nat2Z.inj in E. subst j.
      assert (E1 : w_remap (p_namespaces p) k (Z.of_nat k) = 1%Z) by (apply remap_one; [exact Hnd|exact Hk|lia|reflexivity]).
      rewrite E1 in Ec. assert (Ec' : w_compact (w_in_use p k refs) 1 = Some 1%Z) by (now apply Hc). congruence.
  - destruct (Z.eqb_spec (Z.of_nat j) (Z.of_nat k)) as [E|]; [|reflexivity]. apply Nat2Z.inj in E. subst j.
    assert (E1 : w_remap (p_namespaces p) k (Z.of_nat k) = 1%Z) by (apply remap_one; [exact Hnd|exact Hk|lia|reflexivity]).
    rewrite E1 in Ec. assert (Ec' : w_compact (w_in_use p k refs) 1 = Some 1%Z) by (now apply Hc). congruence.
Qed.

(* ---------- the node elements of the written document ---------- *)
Lemma find_first_row p k n : (exists r, In r (p_nodes p) /\ nr_nodeid r = n) ->
  exists x, find (fun x : node_row * nodeid * option Z => nid_eqb (nr_nodeid (fst (fst x))) n) (w_nodes1 p k) = Some x /\
            nid_ns (snd (fst x)) = w_remap (p_namespaces p) k (nid_ns n).
Proof.
  intros [r [Hr Hn]]. unfold w_nodes1. induction (p_nodes p) as [|a l IH]; [contradiction|]. cbn [map find fst snd].
  destruct (nid_eqb (nr_nodeid a) n) eqn:E.
  - apply nid_eqb_eq in E. eexists. split; [reflexivity|]. cbn [fst snd with_nid_ns nid_ns]. now rewrite E.
  - destruct Hr as [->|Hr]; [rewrite Hn in E; assert (nid_eqb n n = true) by (now apply nid_eqb_eq); congruence|]. now apply IH.
Qed.
Theorem C06_node_elements p w d k refs :
  str_index (wp_uri w) (p_namespaces p) = Some k -> use_refs p w (Z.of_nat k) = Ok refs -> regular p k refs -> write_doc p w = Ok d ->
  map (fun e => (ne_cls e, hd_error (ne_attrs e))) (d_nodes d)
  = map (fun r => (nr_cls r, Some (lit "NodeId", print_nodeid (with_nid_ns (nr_nodeid r) 1))))
        (filter (fun r => Z.eqb (nid_ns (nr_nodeid r)) (Z.of_nat k)) (p_nodes p)).
Proof.
  intros Hk Hrefs Hreg Hw. rewrite <- (written_rows_exact p k refs Hreg). rewrite map_map.
  unfold write_doc in Hw. rewrite Hk, Hrefs in Hw. cbn [rbind] in Hw.
  destruct (map (fun i : Z => nth (Z.to_nat i) (w_newl (p_namespaces p) k) []) (w_in_use p k refs)) as [|u0 [|u1 rest]] eqn:En; try discriminate.
  match type of Hw with (if ?c then _ else _) = _ => destruct c; [discriminate|] end.
  injection Hw as <-. cbn [d_nodes]. rewrite map_map. apply map_ext_in. intros x Hx. cbn [ne_cls ne_attrs hd_error]. f_equal. f_equal. f_equal.
  destruct Hreg as [Hnd [Hkk [Hi [H0 Hne]]]].
  pose proof (compact_one (w_in_use p k refs) (zsort_sorted _) (in_use_nonneg p k refs Hi) H0 (in_use_has_one p k refs Hnd Hkk Hi Hne)) as Hc.
  unfold w_written in Hx. apply filter_In in Hx as [Hxin Hx1].
  assert (Hrow : exists r, In r (p_nodes p) /\ nr_nodeid r = nr_nodeid (fst (fst x))).
  { unfold w_nodes1 in Hxin. apply in_map_iff in Hxin as [r [<- Hr]]. exists r. split; [exact Hr|reflexivity]. }
  assert (Hns : nid_ns (snd (fst x)) = w_remap (p_namespaces p) k (nid_ns (nr_nodeid (fst (fst x))))).
  { unfold w_nodes1 in Hxin. apply in_map_iff in Hxin as [r [<- Hr]]. reflexivity. }
  destruct (find_first_row p k _ Hrow) as [y [Hy Hyns]]. rewrite Hy. rewrite Hyns, <- Hns.
  destruct (w_compact (w_in_use p k refs) (nid_ns (snd (fst x)))) as [c|]; [|discriminate]. apply Z.eqb_eq in Hx1. subst c. reflexivity.
Qed.
Lemma str_index_nth u l : forall k, str_index u l = Some k -> nth k l [] = u /\ k < length l.
Proof.
  induction l as [|x r IH]; intros k H; [discriminate|]. cbn [str_index] in H. destruct (str_eqb x u) eqn:E.
  - injection H as <-. apply str_eqb_eq in E. cbn. split; [exact E|lia].
  - destruct (str_index u r) as [j|]; [|discriminate]. injection H as <-. destruct (IH j eq_refl) as [A B]. cbn. split; [exact A|lia].
Qed.
(* the document names the written namespace first and carries a Model element of that URI *)
Theorem C06_first_uri p w d k refs :
  str_index (wp_uri w) (p_namespaces p) = Some k -> use_refs p w (Z.of_nat k) = Ok refs -> regular p k refs -> write_doc p w = Ok d ->
  exists rest attrs req, d_uris d = Some (wp_uri w :: rest) /\ d_models d = Some [{| me_attrs := (lit "ModelUri", wp_uri w) :: attrs; me_required := req |}].
Proof.
  intros Hk Hrefs Hreg Hw. destruct Hreg as [Hnd [Hkk [Hi [H0 Hne]]]].
  destruct (sorted_head01 (w_in_use p k refs) (zsort_sorted _) (in_use_nonneg p k refs Hi) H0 (in_use_has_one p k refs Hnd Hkk Hi Hne)) as [r [Eu _]].
  unfold write_doc in Hw. rewrite Hk, Hrefs in Hw. cbn [rbind] in Hw. rewrite Eu in Hw. cbn [map] in Hw.
  change (nth (Z.to_nat 1) (w_newl (p_namespaces p) k) []) with (nth k (p_namespaces p) []) in Hw.
  destruct (str_index_nth _ _ _ Hk) as [Hu _]. rewrite Hu in Hw.
  match type of Hw with (if ?c then _ else _) = _ => destruct c; [discriminate|] end.
  injection Hw as <-. cbn [d_uris d_models tl]. eauto.
Qed.

(* the decision procedure for the regularity conditions is sound *)
Lemma nodup_str_sound l : nodup_str l = true -> NoDup l.
Proof.
  induction l as [|x r IH]; intros H; [constructor|]. cbn [nodup_str] in H. apply andb_true_iff in H as [Hx Hr]. constructor; [|now apply IH].
  intros Hin. apply negb_true_iff in Hx. assert (existsb (str_eqb x) r = true); [|congruence]. apply existsb_exists. exists x. split; [exact Hin|apply str_eqb_refl].
Qed.
Theorem regular_b_sound p k refs : regular_b p k refs = true -> regular p k refs.
Proof.
  unfold regular_b. intros H.
  apply andb_true_iff in H as [H Hex]. apply andb_true_iff in H as [H H0]. apply andb_true_iff in H as [H Hall].
  apply andb_true_iff in H as [H Hk2]. apply andb_true_iff in H as [Hnd Hk1].
  split; [now apply nodup_str_sound|]. split; [split; [now apply Nat.ltb_lt|now apply Nat.ltb_lt]|]. split; [|split].
  - intros r Hr. rewrite forallb_forall in Hall. specialize (Hall r Hr). apply andb_true_iff in Hall as [Hall Hb]. apply andb_true_iff in Hall as [Ha Hc].
    apply Z.leb_le in Ha. apply Z.ltb_lt in Hc. split; [lia|]. intros b Eb. rewrite Eb in Hb. now apply Z.leb_le in Hb.
  - apply existsb_exists in H0 as [x [Hx E]]. apply Z.eqb_eq in E. now subst x.
  - apply existsb_exists in Hex as [r [Hr E]]. apply Z.eqb_eq in E. eauto.
Qed.
