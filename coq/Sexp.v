(* Sexp: the wire format between the harness and the model runner. *)
From Coq Require Import String Ascii List Bool NArith ZArith.
Require Import PyStr PyInt.
Import ListNotations.
Open Scope char_scope.

Inductive sexp := Atom (s : str) | Lst (l : list sexp).

(* results of modelled calls: a value or a Python exception class *)
Inductive err := EValue | EKey | EType | EIndex | ENotFound | EValidation | EXml | EOther | EUnsupported.
Inductive res (A : Type) := Ok (a : A) | Err (e : err).
Arguments Ok {A}. Arguments Err {A}.
Definition rbind {A B} (r : res A) (f : A -> res B) : res B := match r with Ok a => f a | Err e => Err e end.
Definition rmap {A B} (f : A -> B) (r : res A) : res B := match r with Ok a => Ok (f a) | Err e => Err e end.
Fixpoint rsequence {A} (l : list (res A)) : res (list A) :=
  match l with [] => Ok [] | x :: r => rbind x (fun a => rmap (cons a) (rsequence r)) end.
Definition of_option {A} (e : err) (o : option A) : res A := match o with Some a => Ok a | None => Err e end.

(* encoders *)
Definition e_str (s : str) : sexp := Atom s.
Definition e_sym (s : string) : sexp := Atom (lit s).
Definition e_N (n : N) : sexp := Atom (dec n).
Definition e_nat (n : nat) : sexp := Atom (dec (N.of_nat n)).
Definition e_Z (z : Z) : sexp := Atom (decZ z).
Definition e_bool (b : bool) : sexp := e_sym (if b then "true" else "false").
Definition e_list {A} (f : A -> sexp) (l : list A) : sexp := Lst (map f l).
Definition e_opt {A} (f : A -> sexp) (o : option A) : sexp := match o with Some a => Lst [f a] | None => Lst [] end.
Definition e_pair {A B} (f : A -> sexp) (g : B -> sexp) (p : A * B) : sexp := Lst [f (fst p); g (snd p)].
Definition e_err (e : err) : sexp :=
  Lst [e_sym "err"; e_sym match e with EValue => "ValueError" | EKey => "KeyError" | EType => "TypeError"
       | EIndex => "IndexError" | ENotFound => "FileNotFoundError" | EValidation => "ValidationError"
       | EXml => "XMLSyntaxError" | EOther => "Other" | EUnsupported => "Unsupported" end].
Definition e_res {A} (f : A -> sexp) (r : res A) : sexp :=
  match r with Ok a => Lst [e_sym "ok"; f a] | Err e => e_err e end.

(* decoders *)
Definition d_str (x : sexp) : option str := match x with Atom s => Some s | _ => None end.
Definition d_N (x : sexp) : option N := match x with Atom s => py_nat s | _ => None end.
Definition d_nat (x : sexp) : option nat := omap N.to_nat (d_N x).
Definition d_Z (x : sexp) : option Z :=
  match x with
  | Atom ("-" :: r) => omap (fun n => Z.opp (Z.of_N n)) (py_nat r)
  | Atom s => omap Z.of_N (py_nat s)
  | _ => None end.
Definition d_bool (x : sexp) : option bool :=
  match x with Atom s => if str_eqb s (lit "true") then Some true else if str_eqb s (lit "false") then Some false else None
  | _ => None end.
Definition d_list {A} (f : sexp -> option A) (x : sexp) : option (list A) :=
  match x with Lst l => sequence (map f l) | _ => None end.
Definition d_opt {A} (f : sexp -> option A) (x : sexp) : option (option A) :=
  match x with Lst [] => Some None | Lst [a] => omap Some (f a) | _ => None end.
Definition d_pair {A B} (f : sexp -> option A) (g : sexp -> option B) (x : sexp) : option (A * B) :=
  match x with Lst [a; b] => obind (f a) (fun a' => omap (pair a') (g b)) | _ => None end.

Definition bad_request : sexp := Lst [e_sym "bad-request"].
