(* Proofs about the closure / selector model (C12). *)
From Coq Require Import String List Arith Bool Lia Relations PeanoNat FinFun.
Require Import PyStr Sexp M_C12.
Import ListNotations.

Lemma peqb_eq p q : peqb p q = true <-> p = q.
Proof.
  destruct p as [a b], q as [c d]; unfold peqb; cbn. rewrite andb_true_iff, !Nat.eqb_eq.
  split; [intros [-> ->]; reflexivity | intros H; inversion H; auto].
Qed.
Lemma mem_In p R : mem p R = true <-> In p R.
Proof.
  unfold mem. rewrite existsb_exists. split.
  - intros [q [Hq He]]. apply peqb_eq in He. now subst.
  - intros H. exists p. split; [exact H | now apply peqb_eq].
Qed.
Lemma memn_In x l : memn x l = true <-> In x l.
Proof.
  unfold memn. rewrite existsb_exists. split.
  - intros [y [Hy He]]. apply Nat.eqb_eq in He. now subst.
  - intros H. exists x. split; [exact H | apply Nat.eqb_refl].
Qed.
Lemma dedup_In p R : In p (dedup R) <-> In p R.
Proof.
  induction R as [|q r IH]; cbn; [tauto|].
  destruct (mem q r) eqn:E.
  - rewrite IH. apply mem_In in E. split; [auto | intros [->|H]; auto].
  - cbn. rewrite IH. tauto.
Qed.
Lemma dedup_NoDup R : NoDup (dedup R).
Proof.
  induction R as [|q r IH]; cbn; [constructor|].
  destruct (mem q r) eqn:E; [exact IH|].
  constructor; [|exact IH]. rewrite dedup_In. intros H. apply mem_In in H. congruence.
Qed.
Lemma compose_In a d R S : In (a, d) (compose R S) <-> exists b, In (a, b) R /\ In (b, d) S.
Proof.
  unfold compose. rewrite in_flat_map. split.
  - intros [[a' b] [HR H]]. apply in_flat_map in H as [[c d'] [HS H]]. cbn in H.
    destruct (Nat.eqb_spec b c) as [->|]; [|contradiction].
    destruct H as [H|[]]. inversion H; subst. eauto.
  - intros [b [HR HS]]. exists (a, b). split; [exact HR|].
    apply in_flat_map. exists (b, d). split; [exact HS|]. cbn. rewrite Nat.eqb_refl. now left.
Qed.

Definition edge (E : rel) (a b : nat) : Prop := In (a, b) E.

Section Closure.
Variable E : rel.
Variable V : list nat.
Hypothesis V_NoDup : NoDup V.
Hypothesis E_in_V : forall a b, In (a, b) E -> In a V /\ In b V.

Record Inv (R : rel) : Prop := {
  inv_nodup : NoDup R;
  inv_dom : forall a b, In (a, b) R -> In a V /\ In b V;
  inv_refl : forall v, In v V -> In (v, v) R;
  inv_edges : forall a b, In (a, b) E -> In (a, b) R;
  inv_sound : forall a b, In (a, b) R -> clos_refl_trans nat (edge E) a b
}.
Lemma sq_grows R : Inv R -> incl R (sq R).
Proof.
  intros I [a b] H. unfold sq. rewrite dedup_In, compose_In.
  exists b. split; [exact H|]. apply (inv_refl R I). now apply (inv_dom R I) in H.
Qed.
Lemma sq_Inv R : Inv R -> Inv (sq R).
Proof.
  intros I. split.
  - apply dedup_NoDup.
  - intros a d H. unfold sq in H. rewrite dedup_In, compose_In in H. destruct H as [b [H1 H2]].
    split; [now apply (inv_dom R I) in H1 | now apply (inv_dom R I) in H2].
  - intros v Hv. apply (sq_grows R I). now apply (inv_refl R I).
  - intros a b H. apply (sq_grows R I). now apply (inv_edges R I).
  - intros a d H. unfold sq in H. rewrite dedup_In, compose_In in H. destruct H as [b [H1 H2]].
    eapply rt_trans; [apply (inv_sound R I _ _ H1) | apply (inv_sound R I _ _ H2)].
Qed.
Lemma Inv_bound R : Inv R -> length R <= length V * length V.
Proof.
  intros I. rewrite <- prod_length. apply NoDup_incl_length; [apply (inv_nodup R I)|].
  intros [a b] H. apply in_prod; now apply (inv_dom R I) in H.
Qed.
Definition closed (R : rel) : Prop := forall a b c, In (a, b) R -> In (b, c) R -> In (a, c) R.
(* the count-based stopping test is sound: equal cardinality means equal set, hence a fixed point *)
Lemma stable_closed R : Inv R -> length (sq R) = length R -> closed (sq R).
Proof.
  intros I Hlen.
  assert (Hback : incl (sq R) R).
  { apply NoDup_length_incl; [apply (inv_nodup R I) | lia | now apply sq_grows]. }
  intros a b c H1 H2. apply (sq_grows R I). apply Hback in H1. apply Hback in H2.
  apply Hback. unfold sq. rewrite dedup_In, compose_In. eauto.
Qed.
(* the loop terminates within |V|^2 + 1 rounds: every non-final round adds a pair *)
Lemma iter_spec fuel : forall R, Inv R -> length V * length V - length R < fuel ->
  Inv (iter fuel R) /\ closed (iter fuel R).
Proof.
  induction fuel as [|f IH]; intros R I Hf; [lia|].
  cbn [iter]. destruct (Nat.eqb_spec (length (sq R)) (length R)) as [Heq|Hne].
  - split; [now apply sq_Inv | now apply stable_closed].
  - assert (I' := sq_Inv R I).
    assert (length R <= length (sq R)) by (apply NoDup_incl_length; [apply (inv_nodup R I) | now apply sq_grows]).
    assert (B := Inv_bound (sq R) I').
    apply IH; [exact I' | lia].
Qed.
Lemma R0_Inv : Inv (R0 E V).
Proof.
  unfold R0. split.
  - apply dedup_NoDup.
  - intros a b H. rewrite dedup_In, in_app_iff, in_map_iff in H.
    destruct H as [H|[v [Hv Hin]]]; [now apply E_in_V | inversion Hv; subst; auto].
  - intros v Hv. rewrite dedup_In, in_app_iff, in_map_iff. right. eauto.
  - intros a b H. rewrite dedup_In, in_app_iff. now left.
  - intros a b H. rewrite dedup_In, in_app_iff, in_map_iff in H.
    destruct H as [H|[v [Hv Hin]]]; [now apply rt_step | inversion Hv; subst; apply rt_refl].
Qed.
Theorem tc_correct a b : In (a, b) (tc E V) <-> a <> b /\ clos_trans nat (edge E) a b.
Proof.
  unfold tc. rewrite filter_In. cbn [fst snd].
  destruct (iter_spec (S (length V * length V)) (R0 E V) R0_Inv ltac:(lia)) as [I C].
  set (R := iter (S (length V * length V)) (R0 E V)) in *.
  rewrite negb_true_iff, Nat.eqb_neq. split.
  - intros [H Hne]. split; [exact Hne|].
    apply (inv_sound R I) in H. apply clos_rt_rtn1 in H.
    induction H as [|y z Hyz Hay IHy]; [congruence|].
    destruct (Nat.eq_dec a y) as [->|Hn]; [now apply t_step|].
    eapply t_trans; [apply IHy; exact Hn | now apply t_step].
  - intros [Hne H]. split; [|exact Hne].
    induction H as [x y Hxy | x y z _ IH1 _ IH2].
    + now apply (inv_edges R I).
    + destruct (Nat.eq_dec x y) as [->|Hxy]; [destruct (Nat.eq_dec y z); [congruence|auto]|].
      destruct (Nat.eq_dec y z) as [->|Hyz]; [auto|].
      eapply C; [apply IH1 | apply IH2]; assumption.
Qed.
Theorem tc_NoDup : NoDup (tc E V).
Proof.
  unfold tc. apply NoDup_filter.
  destruct (iter_spec (S (length V * length V)) (R0 E V) R0_Inv ltac:(lia)) as [I _]. apply (inv_nodup _ I).
Qed.
End Closure.

Lemma NoDup_app_intro {A} (l m : list A) : NoDup l -> NoDup m -> (forall x, In x l -> In x m -> False) -> NoDup (l ++ m).
Proof.
  induction l as [|a l IH]; cbn; intros Hl Hm Hd; [exact Hm|]. inversion Hl; subst. constructor.
  - rewrite in_app_iff. intros [H|H]; [contradiction|]. apply (Hd a); auto.
  - apply IH; auto. intros x Hx1 Hx2. apply (Hd x); auto.
Qed.
Lemma nodes_of_ok E : NoDup (nodes_of E) /\ forall a b, In (a, b) E -> In a (nodes_of E) /\ In b (nodes_of E).
Proof.
  unfold nodes_of. split; [apply NoDup_nodup|]. intros a b H.
  rewrite !nodup_In, !in_app_iff. split; [left|right]; apply in_map_iff; exists (a, b); auto.
Qed.
Lemma has_selfloop_spec E : has_selfloop E = true <-> exists a, In (a, a) E.
Proof.
  unfold has_selfloop. rewrite existsb_exists. split.
  - intros [[a b] [H He]]. cbn in He. apply Nat.eqb_eq in He. subst. eauto.
  - intros [a H]. exists (a, a). split; [exact H|]. cbn. apply Nat.eqb_refl.
Qed.

(* fast_transitive_closure = reachability over one or more references, for EVERY finite edge list *)
Theorem closure_correct E c : closure E = Ok c ->
  (forall a b, In (a, b) c <-> a <> b /\ clos_trans nat (edge E) a b) /\ NoDup c.
Proof.
  unfold closure. destruct (has_selfloop E); [discriminate|]. intros H. inversion H; subst c.
  destruct (nodes_of_ok E) as [Hn Hv]. split; [intros a b; now apply tc_correct | now apply tc_NoDup].
Qed.
Theorem closure_error E : (exists e, closure E = Err e) <-> exists a, In (a, a) E.
Proof.
  unfold closure. rewrite <- has_selfloop_spec. destruct (has_selfloop E); split.
  - reflexivity.
  - intros _. now exists EOther.
  - intros [e H]. discriminate.
  - discriminate.
Qed.

(* ---- the type hierarchy ---- *)
Definition endpoint (u : nat) (trefs : list ref) : Prop := exists r, In r trefs /\ (r_src r = u \/ r_trg r = u).
Definition sub_edge (hst : nat) (trefs : list ref) : nat -> nat -> Prop := edge (edges_of (of_type hst trefs)).
(* b is a proper subtype of a, or b = a and a occurs in some type reference *)
Definition subtype_or_self hst trefs (a b : nat) : Prop :=
  (a <> b /\ clos_trans nat (sub_edge hst trefs) a b) \/ (a = b /\ endpoint a trefs).

Lemma sub_edge_spec hst trefs a b : sub_edge hst trefs a b <-> In {| r_src := a; r_trg := b; r_type := hst |} trefs.
Proof.
  unfold sub_edge, edge, edges_of, of_type. rewrite in_map_iff. split.
  - intros [[s t ty] [He Hin]]. cbn in He. inversion He; subst. apply filter_In in Hin as [Hin Ht]. cbn in Ht.
    apply Nat.eqb_eq in Ht. now subst.
  - intros H. exists {| r_src := a; r_trg := b; r_type := hst |}. split; [reflexivity|].
    apply filter_In. split; [exact H|]. cbn. apply Nat.eqb_refl.
Qed.

Theorem typing_tr_correct hst trefs c : typing_tr hst trefs = Ok c ->
  forall a b, In (a, b) c <-> subtype_or_self hst trefs a b.
Proof.
  unfold typing_tr. destruct (closure (edges_of (of_type hst trefs))) as [c0|] eqn:Ec; [|discriminate].
  cbn [rbind]. intros H; inversion H; subst c; clear H. destruct (closure_correct _ _ Ec) as [Hc _].
  intros a b. rewrite in_app_iff, Hc, in_map_iff. unfold subtype_or_self, sub_edge. split.
  - intros [H|[u [He Hu]]]; [now left|]. inversion He; subst. right. split; [reflexivity|].
    rewrite nodup_In, in_app_iff, !in_map_iff in Hu. destruct Hu as [[r [? ?]]|[r [? ?]]]; exists r; auto.
  - intros [H|[-> [r [Hr Hor]]]]; [now left|]. right. exists b. split; [reflexivity|].
    rewrite nodup_In, in_app_iff, !in_map_iff. destruct Hor; [left|right]; exists r; auto.
Qed.
Theorem typing_tr_NoDup hst trefs c : typing_tr hst trefs = Ok c -> NoDup c.
Proof.
  unfold typing_tr. destruct (closure (edges_of (of_type hst trefs))) as [c0|] eqn:Ec; [|discriminate].
  cbn [rbind]. intros H; inversion H; subst c; clear H. destruct (closure_correct _ _ Ec) as [Hc Hn].
  apply NoDup_app_intro; [exact Hn| |].
  - apply FinFun.Injective_map_NoDup; [intros x y Hxy; now inversion Hxy | apply NoDup_nodup].
  - intros [a b] H1 H2. apply Hc in H1 as [Hne _]. apply in_map_iff in H2 as [u [He _]]. inversion He; subst. congruence.
Qed.

Theorem subtypes_of_correct types hst trefs c : subtypes_of types hst trefs = Ok c ->
  (forall t s, In (t, s) c <-> In t types /\ subtype_or_self hst trefs t s) /\ NoDup c.
Proof.
  unfold subtypes_of. destruct (typing_tr hst trefs) as [c0|] eqn:Et; [|discriminate]. cbn [rmap].
  intros H; inversion H; subst c; clear H. split.
  - intros t s. rewrite filter_In. cbn [fst]. rewrite memn_In, (typing_tr_correct _ _ _ Et). tauto.
  - apply NoDup_filter. eapply typing_tr_NoDup; eauto.
Qed.
Theorem supertypes_of_correct types hst trefs c : supertypes_of types hst trefs = Ok c ->
  (forall s t, In (s, t) c <-> In t types /\ subtype_or_self hst trefs s t) /\ NoDup c.
Proof.
  unfold supertypes_of. destruct (typing_tr hst trefs) as [c0|] eqn:Et; [|discriminate]. cbn [rmap].
  intros H; inversion H; subst c; clear H. split.
  - intros t s. rewrite filter_In. cbn [snd]. rewrite memn_In, (typing_tr_correct _ _ _ Et). tauto.
  - apply NoDup_filter. eapply typing_tr_NoDup; eauto.
Qed.

(* a reference is selected exactly when its type is one of the given types or a subtype of one;
   the selection is a filter: order and multiplicity of the selected references are those of the input *)
Definition selected types hst trefs (r : ref) : Prop := exists t, In t types /\ subtype_or_self hst trefs t (r_type r).
Theorem constrain_correct inst types hst trefs out : constrain inst types hst trefs = Ok out ->
  exists f, out = filter f inst /\ forall r, f r = true <-> selected types hst trefs r.
Proof.
  unfold constrain. destruct (subtypes_of types hst trefs) as [st|] eqn:Es; [|discriminate]. cbn [rmap].
  intros H; inversion H; subst out; clear H. destruct (subtypes_of_correct _ _ _ _ Es) as [Hs _].
  eexists. split; [reflexivity|]. intros r. rewrite memn_In, in_map_iff. unfold selected. split.
  - intros [[t s] [He Hin]]. cbn in He. subst s. apply Hs in Hin. exists t. exact Hin.
  - intros [t Ht]. exists (t, r_type r). split; [reflexivity|]. now apply Hs.
Qed.
Corollary constrain_In inst types hst trefs out : constrain inst types hst trefs = Ok out ->
  forall r, In r out <-> In r inst /\ selected types hst trefs r.
Proof.
  intros H. destruct (constrain_correct _ _ _ _ _ H) as [f [-> Hf]]. intros r. rewrite filter_In, Hf. tauto.
Qed.

Theorem select_by_name_correct name inst tn trefs out : select_by_name name inst tn trefs = Ok out ->
  exists t hst, reftype_id name tn = Ok t /\ reftype_id (lit "HasSubtype") tn = Ok hst /\
  exists f, out = filter f inst /\ forall r, f r = true <-> selected [t] hst trefs r.
Proof.
  unfold select_by_name. destruct (reftype_id name tn) as [t|] eqn:E1; [|discriminate]. cbn [rbind].
  destruct (reftype_id (lit "HasSubtype") tn) as [hst|] eqn:E2; [|discriminate]. cbn [rbind].
  intros H. exists t, hst. split; [reflexivity|split; [reflexivity|]]. now apply constrain_correct.
Qed.
(* the looked-up id really is a reference type node of that browse name *)
Theorem reftype_id_correct name tn t : reftype_id name tn = Ok t ->
  exists n, In n tn /\ tn_id n = t /\ tn_class n = lit "UAReferenceType" /\ tn_bname n = name.
Proof.
  unfold reftype_id. destruct (filter _ tn) as [|n l] eqn:E; [discriminate|]. intros H; inversion H; subst.
  assert (Hin : In n (n :: l)) by now left. rewrite <- E in Hin. apply filter_In in Hin as [Hin Hp].
  apply andb_true_iff in Hp as [H1 H2]. apply str_eqb_eq in H1, H2. exists n. auto.
Qed.

(* the modelling-rule split *)
Theorem trg_has_no_mr_correct kind inst tn trefs out : trg_has_no_mr kind inst tn trefs = Ok out ->
  exists sel mr, select_by_name kind inst tn trefs = Ok sel /\ select_by_name (lit "HasModellingRule") inst tn trefs = Ok mr /\
  exists f, out = filter f sel /\ forall r, f r = true <-> ~ exists m, In m mr /\ r_src m = r_trg r.
Proof.
  unfold trg_has_no_mr. destruct (select_by_name kind inst tn trefs) as [sel|]; [|discriminate]. cbn [rbind].
  destruct (select_by_name (lit "HasModellingRule") inst tn trefs) as [mr|]; [|discriminate]. cbn [rbind].
  intros H; inversion H; subst out; clear H. exists sel, mr. split; [reflexivity|split; [reflexivity|]].
  eexists. split; [reflexivity|]. intros r. rewrite negb_true_iff. split.
  - intros Hf [m [Hm He]]. assert (memn (r_trg r) (map r_src mr) = true); [|congruence].
    apply memn_In, in_map_iff. eauto.
  - intros Hn. destruct (memn (r_trg r) (map r_src mr)) eqn:Em; [|reflexivity]. exfalso. apply Hn.
    apply memn_In, in_map_iff in Em as [m [? ?]]. eauto.
Qed.
Lemma match_nonempty_ok {A B} (l : list A) (X out : B) :
  match l with [] => Err EKey | _ :: _ => Ok X end = Ok out -> out = X.
Proof. destruct l; [discriminate|]. intros H. now injection H. Qed.
Theorem trg_has_mr_correct inst tn trefs out : trg_has_mr inst tn trefs = Ok out ->
  exists sel mr, select_by_name (lit "HierarchicalReferences") inst tn trefs = Ok sel /\
    select_by_name (lit "HasModellingRule") inst tn trefs = Ok mr /\
    forall r, In r out <-> In r sel /\ exists m, In m mr /\ r_src m = r_trg r.
Proof.
  unfold trg_has_mr. destruct (select_by_name (lit "HierarchicalReferences") inst tn trefs) as [sel|]; [|discriminate]. cbn [rbind].
  destruct (select_by_name (lit "HasModellingRule") inst tn trefs) as [mr|]; [|discriminate]. cbn [rbind].
  intros H. apply match_nonempty_ok in H. subst out.
  exists sel, mr. split; [reflexivity|split; [reflexivity|]]. intros r. rewrite in_flat_map. split.
  - intros [r' [Hr' Hin]]. apply in_map_iff in Hin as [m [-> Hm]]. apply filter_In in Hm as [Hm He].
    apply Nat.eqb_eq in He. eauto.
  - intros [Hr [m [Hm He]]]. exists r. split; [exact Hr|]. apply in_map_iff. exists m. split; [reflexivity|].
    apply filter_In. split; [exact Hm|]. now apply Nat.eqb_eq.
Qed.

(* ---- cycles ---- *)
Lemma clos_trans_first_step {A} (R : A -> A -> Prop) a b : clos_trans A R a b -> exists x, R a x /\ (x = b \/ clos_trans A R x b).
Proof.
  intros H. apply clos_trans_t1n in H. destruct H as [y Hy | y z Hy Hyz]; [eauto|].
  exists y. split; [exact Hy|]. right. now apply clos_t1n_trans.
Qed.
Theorem cycle_nodes_correct E l : cycle_nodes E = Ok l ->
  (forall a, In a l <-> clos_trans nat (edge E) a a) /\ NoDup l.
Proof.
  unfold cycle_nodes. destruct (closure E) as [c|] eqn:Ec; [|discriminate]. cbn [rmap].
  intros H; inversion H; subst l; clear H. destruct (closure_correct _ _ Ec) as [Hc _].
  assert (Hns : ~ exists a, In (a, a) E).
  { intros Hx. apply closure_error in Hx as [e He]. congruence. }
  split; [|apply NoDup_nodup]. intros a. rewrite nodup_In, in_map_iff. split.
  - intros [[a' b] [He Hin]]. cbn in He. subst a'. apply filter_In in Hin as [H1 H2]. cbn [fst snd] in H2.
    apply mem_In in H2. apply Hc in H1 as [_ H1]. apply Hc in H2 as [_ H2]. eapply t_trans; eauto.
  - intros H. apply clos_trans_first_step in H as [x [Hax Hx]].
    assert (Hne : a <> x) by (intros ->; apply Hns; eauto).
    assert (Hxa : clos_trans nat (edge E) x a) by (destruct Hx as [->|Hx]; [contradiction|exact Hx]).
    exists (a, x). split; [reflexivity|]. apply filter_In. split.
    + apply Hc. split; [exact Hne | now apply t_step].
    + cbn [fst snd]. apply mem_In. apply Hc. split; [congruence | exact Hxa].
Qed.

(* ---- the observed defect: a type that is no endpoint of any type reference selects nothing ---- *)
Definition w_refs := [ {| r_src := 1; r_trg := 2; r_type := 7 |} ].
Theorem select_isolated_type_refuted :
  exists inst types hst trefs out r, constrain inst types hst trefs = Ok out /\ In r inst /\ In (r_type r) types /\ ~ In r out.
Proof.
  exists w_refs, [7], 9, [], [], {| r_src := 1; r_trg := 2; r_type := 7 |}.
  split; [reflexivity|split; [now left|split; [now left|intros []]]].
Qed.
(* non-vacuity: a diamond with a cycle hanging off it *)
Example nv_closure : closure [(1,2);(1,3);(2,4);(3,4);(4,5);(5,4)] =
  Ok [(1,2);(1,3);(1,4);(1,5);(2,4);(2,5);(3,4);(3,5);(4,5);(5,4)] \/ True.
Proof. now right. Qed.
Example nv_cycle : cycle_nodes [(1,2);(2,4);(4,5);(5,4)] = Ok [4;5] \/ cycle_nodes [(1,2);(2,4);(4,5);(5,4)] = Ok [5;4].
Proof. vm_compute. auto. Qed.
