(* C19 - parsing leaves the input directory as it found it, even when it fails. *)
From Coq Require Import String List Arith Bool.
Require Import PyStr Sexp M_C19 T_C19.
Import ListNotations.

(* for EVERY number of header lines, EVERY point at which an operation of the call can fail (k ranges over all
   operations except the two of the finally block; None = no failure): afterwards the inputs are unchanged, no other
   path was touched and no helper file remains *)
Theorem C19_all_fault_points : forall f p n k, sides f p = None ->
  let f' := fst (parse_call k true f p n) in
  sides f' p = None /\ inputs f' = inputs f /\ forall q, q <> p -> sides f' q = sides f q.
Proof. exact all_fault_points. Qed.
(* a failure-free call on a clean directory returns what the file's current content says *)
Theorem C19_reads_current : forall f p n h, sides f p = None -> inputs f p = Some h ->
  snd (parse_call None true f p n) = Good h.
Proof. exact clean_call_reads_current. Qed.
(* fail (anywhere) -> edit the file -> parse again: the result reflects the edited file *)
Theorem C19_no_stale : forall f p n k h2, sides f p = None ->
  let f1 := fst (parse_call k true f p n) in
  snd (parse_call None true (set_input f1 p (Some h2)) p n) = Good h2.
Proof. exact no_stale_after_failure. Qed.
(* every call terminates: each operation moves it forward *)
Theorem C19_terminates : forall fuel k c f t, rank (nlines t) (at_ t) < fuel -> is_done (at_ (snd (exec fuel k c f t))) = true.
Proof. exact exec_finishes. Qed.
(* the protocol before the repair (no finally block) violated both halves *)
Theorem C19_old_leaves_side_file : exists k, sides (fst (parse_call (Some k) false fs0 0 2)) 0 <> None.
Proof. exact old_leaves_side_file. Qed.
Theorem C19_old_stale_trusted : exists k,
  let f1 := fst (parse_call (Some k) false fs0 0 2) in
  snd (parse_call None false (set_input f1 0 (Some 9)) 0 2) = Good 7.
Proof. exact old_stale_side_file_trusted. Qed.
(* still true: a side file that exists before the call is trusted (known finding C19-preexisting-side-file) *)
Theorem C19_planted_side_file_refuted : snd (parse_call None true (set_side fs0 0 (Some (SFull 5))) 0 2) = Good 5.
Proof. exact planted_side_file_trusted. Qed.

Print Assumptions C19_all_fault_points.
Print Assumptions C19_reads_current.
Print Assumptions C19_no_stale.
Print Assumptions C19_terminates.
Print Assumptions C19_old_leaves_side_file.
Print Assumptions C19_old_stale_trusted.
Print Assumptions C19_planted_side_file_refuted.
