From Coq Require Import String Ascii List Bool Arith.
Require Import PyStr PyInt Sexp M_C19.
Import ListNotations.
(* file system given as lists: inputs (path header), sides (path (k? h)) *)
Definition d_sidec (x : sexp) : option side_content :=
  match x with
  | Lst [Atom t; h] => if str_eqb t (lit "full") then omap SFull (d_nat h) else None
  | Lst [Atom t; k; h] => if str_eqb t (lit "partial") then obind (d_nat k) (fun k => omap (SPartial k) (d_nat h)) else None
  | _ => None end.
Fixpoint lookup_nat {A} (l : list (nat * A)) (q : nat) : option A :=
  match l with [] => None | (k, v) :: r => if Nat.eqb k q then Some v else lookup_nat r q end.
Definition mkfs (ins : list (nat * nat)) (sds : list (nat * side_content)) : fs := {| inputs := lookup_nat ins; sides := lookup_nat sds |}.
Definition e_pc (p : pc) : sexp :=
  match p with PDone r => Lst [e_sym "done"; e_outcome r] | _ => Lst [e_sym "running"] end.
Definition run_c19 (cmd : str) (args : list sexp) : option sexp :=
  if str_eqb cmd (lit "c19_call") then
    (* (c19_call <k opt> <cleanup> <inputs> <sides> <path> <nlines>) -> (side-after outcome) *)
    match args with
    | [k; c; i; s; p; n] =>
        obind (d_opt d_nat k) (fun k => obind (d_bool c) (fun c => obind (d_list (d_pair d_nat d_nat) i) (fun i =>
        obind (d_list (d_pair d_nat d_sidec) s) (fun s => obind (d_nat p) (fun p => omap (fun n =>
          let r := parse_call k c (mkfs i s) p n in Lst [e_side (sides (fst r) p); e_outcome (snd r)]) (d_nat n))))))
    | _ => None end
  else if str_eqb cmd (lit "c20_run") then
    (* (c20_run <schedule> <inputs> <threads: (path nlines)>) -> per thread (pc/outcome, side of its path) *)
    match args with
    | [sc; i; th] =>
        obind (d_list d_nat sc) (fun sc => obind (d_list (d_pair d_nat d_nat) i) (fun i => omap (fun th =>
          let ts : pool := fun j => match nth_error th j with Some (p, n) => start p n | None => start 0 0 end in
          let r := run_sched sc (mkfs i []) ts in
          e_list (fun j => Lst [e_pc (at_ (snd r j)); e_side (sides (fst r) (path (snd r j)))]) (seq 0 (length th)))
          (d_list (d_pair d_nat d_nat) th)))
    | _ => None end
  else if str_eqb cmd (lit "c20_blocks") then
    match args with
    | [sc; i; th] =>
        obind (d_list d_nat sc) (fun sc => obind (d_list (d_pair d_nat d_nat) i) (fun i => omap (fun th =>
          let ts : pool := fun j => match nth_error th j with Some (p, n) => start p n | None => start 0 0 end in
          let r := run_blocks sc (mkfs i []) ts in
          e_list (fun j => Lst [e_pc (at_ (snd r j)); e_side (sides (fst r) (path (snd r j)))]) (seq 0 (length th)))
          (d_list (d_pair d_nat d_nat) th)))
    | _ => None end
  else None.
