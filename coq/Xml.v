(* Xml: the XML text the library writes and reads, in three layers, each with a round-trip theorem:
   characters (escape/unescape, the lexer), tag bodies (attributes), trees (the stack builder). *)
From Coq Require Import String Ascii List Bool Lia.
Require Import PyStr.
Import ListNotations.
Open Scope char_scope.

(* ---- escape / unescape ---- *)
Definition esc_char (c : ascii) : str :=
  if Ascii.eqb c "&" then lit "&amp;" else if Ascii.eqb c "<" then lit "&lt;"
  else if Ascii.eqb c ">" then lit "&gt;" else [c].
Definition escape (s : str) : str := flat_map esc_char s.
Fixpoint unescape (s : str) : option str :=
  match s with
  | [] => Some []
  | c :: r =>
      if Ascii.eqb c "&" then
        match r with
        | "a" :: "m" :: "p" :: ";" :: r' => omap (cons "&") (unescape r')
        | "l" :: "t" :: ";" :: r' => omap (cons "<") (unescape r')
        | "g" :: "t" :: ";" :: r' => omap (cons ">") (unescape r')
        | "q" :: "u" :: "o" :: "t" :: ";" :: r' => omap (cons """") (unescape r')
        | "a" :: "p" :: "o" :: "s" :: ";" :: r' => omap (cons "'") (unescape r')
        | "#" :: "1" :: "0" :: ";" :: r' => omap (cons "010") (unescape r')
        | "#" :: "9" :: ";" :: r' => omap (cons "009") (unescape r')
        | "#" :: "1" :: "3" :: ";" :: r' => omap (cons "013") (unescape r')
        | _ => None
        end
      else if Ascii.eqb c "<" then None else omap (cons c) (unescape r)
  end.
Theorem unescape_escape s : unescape (escape s) = Some s.
Proof.
  induction s as [|c s IH]; [reflexivity|].
  unfold escape in *. cbn [flat_map]. unfold esc_char at 1.
  destruct (Ascii.eqb c "&") eqn:Ea. { apply Ascii.eqb_eq in Ea; subst c. cbn. now rewrite IH. }
  destruct (Ascii.eqb c "<") eqn:El. { apply Ascii.eqb_eq in El; subst c. cbn. now rewrite IH. }
  destruct (Ascii.eqb c ">") eqn:Eg. { apply Ascii.eqb_eq in Eg; subst c. cbn. now rewrite IH. }
  cbn [app unescape]. now rewrite Ea, El, IH.
Qed.
Lemma escape_clean c s : (c = "<" \/ c = ">") -> has c (escape s) = false.
Proof.
  intros Hc. induction s as [|x s IH]; [reflexivity|].
  unfold escape in *. cbn [flat_map]. rewrite has_app, IH, orb_false_r. unfold esc_char.
  destruct (Ascii.eqb x "&") eqn:Ea; [destruct Hc; subst; reflexivity|].
  destruct (Ascii.eqb x "<") eqn:El; [destruct Hc; subst; reflexivity|].
  destruct (Ascii.eqb x ">") eqn:Eg; [destruct Hc; subst; reflexivity|].
  cbn. destruct Hc; subst; now rewrite ?El, ?Eg.
Qed.

(* ---- character stream of a document ---- *)
Definition item := (str * str)%type.   (* raw tag body between '<' and '>' ; unescaped text after it *)
Definition seg_of (it : item) : str := fst it ++ ">" :: escape (snd it).
Definition spell (lead : str) (items : list item) : str :=
  escape lead ++ flat_map (fun it => "<" :: seg_of it) items.

(* character data must not contain the CDATA end marker *)
Definition CDEND : str := lit "]]>".
Definition lex_item (seg : str) : option item :=
  match split_once ">" seg with
  | Some (tag, txt) => if contains CDEND txt then None else omap (pair tag) (unescape txt)
  | None => None
  end.
Definition lex (s : str) : option (str * list item) :=
  match split_all "<" s with
  | [] => None
  | l :: segs => match unescape l, sequence (map lex_item segs) with
                 | Some l', Some its => Some (l', its) | _, _ => None end
  end.
Definition tag_ok (t : str) : bool := negb (has "<" t) && negb (has ">" t).

Lemma seg_no_lt it : tag_ok (fst it) = true -> has "<" (seg_of it) = false.
Proof.
  unfold tag_ok, seg_of. intros H. apply andb_true_iff in H as [H1 _]. apply negb_true_iff in H1.
  rewrite has_app, H1. cbn. apply escape_clean; auto.
Qed.

Lemma split_items items : forallb (fun it => tag_ok (fst it)) items = true ->
  forall pre, has "<" pre = false ->
  split_all "<" (pre ++ flat_map (fun it => "<" :: seg_of it) items) = pre :: map seg_of items.
Proof.
  induction items as [|it items IH]; intros Hok pre Hpre.
  - cbn. rewrite app_nil_r. now apply split_all_none.
  - cbn [forallb] in Hok. apply andb_true_iff in Hok as [Hit Hrest].
    cbn [flat_map map]. rewrite <- app_comm_cons.
    rewrite split_all_app by exact Hpre. f_equal.
    apply IH; [exact Hrest | now apply seg_no_lt].
Qed.

Lemma no_gt_no_cdend s : has ">" s = false -> contains CDEND s = false.
Proof.
  induction s as [|c r IH]; intros H; [reflexivity|]. cbn [has] in H. apply orb_false_iff in H as [Hc Hr].
  cbn [contains]. rewrite (IH Hr), orb_false_r. unfold CDEND. change (lit "]]>") with ["]"; "]"; ">"].
  cbn [starts_with]. destruct r as [|d [|e r']]; cbn [starts_with]; rewrite ?andb_false_r; try reflexivity.
  cbn [has] in Hr. apply orb_false_iff in Hr as [_ Hr]. apply orb_false_iff in Hr as [He _].
  destruct (Ascii.eqb_spec ">" e) as [<-|Hne]; [rewrite Ascii.eqb_refl in He; discriminate|]. now rewrite !andb_false_r.
Qed.
Lemma lex_item_seg it : tag_ok (fst it) = true -> lex_item (seg_of it) = Some it.
Proof.
  unfold tag_ok, lex_item, seg_of. intros H. apply andb_true_iff in H as [_ H2]. apply negb_true_iff in H2.
  rewrite split_once_app by exact H2. rewrite no_gt_no_cdend by (apply escape_clean; auto).
  rewrite unescape_escape. now destruct it.
Qed.

Theorem lex_spell lead items : forallb (fun it => tag_ok (fst it)) items = true ->
  lex (spell lead items) = Some (lead, items).
Proof.
  intros Hok. unfold lex, spell.
  rewrite split_items by (auto; apply escape_clean; auto).
  rewrite unescape_escape.
  assert (Hs : sequence (map lex_item (map seg_of items)) = Some items).
  { clear lead. induction items as [|it items IH]; [reflexivity|].
    cbn [forallb] in Hok. apply andb_true_iff in Hok as [Hit Hrest].
    cbn [map sequence]. rewrite lex_item_seg by exact Hit. now rewrite (IH Hrest). }
  now rewrite Hs.
Qed.

(* ---------- attribute-value escaping: saxutils.escape plus the quote ---------- *)
Definition esc_attr_char (c : ascii) : str :=
  if Ascii.eqb c "&" then lit "&amp;" else if Ascii.eqb c "<" then lit "&lt;"
  else if Ascii.eqb c ">" then lit "&gt;" else if Ascii.eqb c """" then lit "&quot;" else [c].
Definition escape_attr (s : str) : str := flat_map esc_attr_char s.
Theorem unescape_escape_attr s : unescape (escape_attr s) = Some s.
Proof.
  induction s as [|c s IH]; [reflexivity|].
  unfold escape_attr in *. cbn [flat_map]. unfold esc_attr_char at 1.
  destruct (Ascii.eqb c "&") eqn:Ea. { apply Ascii.eqb_eq in Ea; subst c. cbn. now rewrite IH. }
  destruct (Ascii.eqb c "<") eqn:El. { apply Ascii.eqb_eq in El; subst c. cbn. now rewrite IH. }
  destruct (Ascii.eqb c ">") eqn:Eg. { apply Ascii.eqb_eq in Eg; subst c. cbn. now rewrite IH. }
  destruct (Ascii.eqb c """") eqn:Eq. { apply Ascii.eqb_eq in Eq; subst c. cbn. now rewrite IH. }
  cbn [app unescape]. now rewrite Ea, El, IH.
Qed.
Lemma escape_attr_clean c s : (c = "<" \/ c = ">" \/ c = """") -> has c (escape_attr s) = false.
Proof.
  intros Hc. induction s as [|x s IH]; [reflexivity|].
  unfold escape_attr in *. cbn [flat_map]. rewrite has_app, IH, orb_false_r. unfold esc_attr_char.
  destruct (Ascii.eqb x "&") eqn:Ea; [destruct Hc as [Hc|[Hc|Hc]]; subst c; reflexivity|].
  destruct (Ascii.eqb x "<") eqn:El; [destruct Hc as [Hc|[Hc|Hc]]; subst c; reflexivity|].
  destruct (Ascii.eqb x ">") eqn:Eg; [destruct Hc as [Hc|[Hc|Hc]]; subst c; reflexivity|].
  destruct (Ascii.eqb x """") eqn:Eq; [destruct Hc as [Hc|[Hc|Hc]]; subst c; reflexivity|].
  cbn. destruct Hc as [Hc|[Hc|Hc]]; subst c; now rewrite ?El, ?Eg, ?Eq.
Qed.

(* ---------- tag bodies: name (SP key EQ QUOTE value QUOTE)* [SP] [/]  ---------- *)
Definition attr := (str * str)%type.
Definition key_ok (k : str) : bool :=
  negb (has " " k) && negb (has "=" k) && negb (has """" k) && negb (has "/" k) && match k with [] => false | _ => true end.
Definition spell_attr (a : attr) : str := " " :: fst a ++ "=" :: """" :: escape_attr (snd a) ++ [""""].
Definition spell_attrs (l : list attr) : str := flat_map spell_attr l.

Fixpoint lstrip_sp (s : str) : str := match s with " " :: r => lstrip_sp r | _ => s end.
Definition key_of (piece : str) : option str :=
  match split_once "=" (lstrip_sp piece) with Some (k, []) => Some k | _ => None end.
(* pieces of the attribute region after splitting at every double quote:  [ sp k1 eq ; v1 ; sp k2 eq ; v2 ; tail ] *)
Fixpoint pair_up (pieces : list str) : option (list attr * str) :=
  match pieces with
  | [tail] => Some ([], tail)
  | k :: v :: r =>
      obind (key_of k) (fun k' => obind (unescape v) (fun v' =>
      omap (fun p => ((k', v') :: fst p, snd p)) (pair_up r)))
  | [] => None
  end.
Definition parse_attrs (s : str) : option (list attr * str) := pair_up (split_all """" s).

Lemma lstrip_key k : key_ok k = true -> lstrip_sp (" " :: k) = k.
Proof.
  unfold key_ok. intros H. repeat (apply andb_true_iff in H as [H ?]). apply negb_true_iff in H.
  cbn [lstrip_sp]. destruct k as [|c k]; [discriminate|]. cbn in H. apply orb_false_iff in H as [Hc _].
  destruct (Ascii.eqb_spec c " ") as [->|Hne]; [discriminate|].
  destruct c as [[] [] [] [] [] [] [] []]; try reflexivity. exfalso. now apply Hne.
Qed.
Lemma key_of_spelled k : key_ok k = true -> key_of (" " :: k ++ ["="]) = Some k.
Proof.
  intros H. unfold key_of. change (" " :: k ++ ["="]) with (" " :: (k ++ ["="])).
  assert (Hs : lstrip_sp (" " :: (k ++ ["="])) = k ++ ["="]).
  { pose proof (lstrip_key k H) as L. cbn [lstrip_sp] in *. destruct k as [|c k]; [discriminate|]. cbn [app].
    destruct c as [[] [] [] [] [] [] [] []]; try reflexivity. cbn in L.
    unfold key_ok in H. cbn in H. discriminate. }
  rewrite Hs. rewrite split_once_app; [reflexivity|].
  unfold key_ok in H. repeat (apply andb_true_iff in H as [H ?]). now apply negb_true_iff.
Qed.

Lemma key_no_quote k : key_ok k = true -> has """" (" " :: k ++ ["="]) = false.
Proof.
  unfold key_ok. intros H. repeat (apply andb_true_iff in H as [H ?]).
  cbn. rewrite has_app. cbn. rewrite orb_false_r. now apply negb_true_iff.
Qed.

Lemma spell_attr_shape k v rest :
  spell_attr (k, v) ++ rest = (" " :: k ++ ["="]) ++ """" :: (escape_attr v ++ """" :: rest).
Proof.
  unfold spell_attr. cbn [fst snd app]. f_equal. repeat rewrite <- app_assoc. cbn [app]. f_equal. f_equal. f_equal.
  now rewrite <- app_assoc.
Qed.

Theorem parse_attrs_spelled l tail :
  forallb (fun a => key_ok (fst a)) l = true -> has """" tail = false ->
  parse_attrs (spell_attrs l ++ tail) = Some (l, tail).
Proof.
  unfold parse_attrs, spell_attrs. intros Hk Ht. induction l as [|[k v] l IH].
  - cbn. now rewrite split_all_none.
  - cbn [forallb fst] in Hk. apply andb_true_iff in Hk as [Hk Hl].
    cbn [flat_map]. rewrite <- app_assoc, spell_attr_shape.
    rewrite split_all_app by now apply key_no_quote.
    rewrite split_all_app by (apply escape_attr_clean; auto).
    cbn [pair_up]. rewrite key_of_spelled by exact Hk. cbn [obind].
    rewrite unescape_escape_attr. cbn [obind]. rewrite (IH Hl). reflexivity.
Qed.

Section Tree.
Variable name : Type.
Variable name_eqb : name -> name -> bool.
Hypothesis name_eqb_refl : forall n, name_eqb n n = true.
Variable attrs : Type.
Variable text : Type.

(* an element as lxml presents it: tag, attributes, .text, children, .tail *)
Inductive xml := Elem (n : name) (a : attrs) (txt : text) (children : list xml) (tail : text).

(* token stream delivered by layers 1+2 *)
Inductive tok := TOpen (n : name) (a : attrs) (txt : text) | TClose (n : name) (tail : text).

Fixpoint toks (t : xml) : list tok :=
  match t with
  | Elem n a txt ch tl => TOpen n a txt :: flat_map toks ch ++ [TClose n tl]
  end.

(* stack builder: a frame is an element under construction, children in reverse *)
Definition frame := (name * attrs * text * list xml)%type.
Fixpoint build (ts : list tok) (stack : list frame) : option (xml * list tok) :=
  match ts with
  | [] => None
  | TOpen n a txt :: r => build r ((n, a, txt, []) :: stack)
  | TClose n tl :: r =>
      match stack with
      | [] => None
      | (n', a, txt, rch) :: st =>
          if name_eqb n n' then
            let e := Elem n' a txt (rev rch) tl in
            match st with
            | [] => Some (e, r)
            | (pn, pa, ptxt, prch) :: st' => build r ((pn, pa, ptxt, e :: prch) :: st')
            end
          else None
      end
  end.
Definition parse (ts : list tok) : option xml :=
  match build ts [] with Some (t, []) => Some t | _ => None end.

(* induction principle that reaches into the children lists *)
Fixpoint xml_ind' (P : xml -> Prop)
  (H : forall n a txt ch tl, Forall P ch -> P (Elem n a txt ch tl)) (t : xml) : P t :=
  match t with
  | Elem n a txt ch tl =>
      H n a txt ch tl ((fix go (l : list xml) : Forall P l :=
         match l with [] => Forall_nil P | x :: r => Forall_cons x (xml_ind' P H x) (go r) end) ch)
  end.

(* one finished subtree is appended to the children of the frame on top of a non-empty stack *)
Lemma build_subtree t : forall rest pn pa ptxt prch st,
  build (toks t ++ rest) ((pn, pa, ptxt, prch) :: st) = build rest ((pn, pa, ptxt, t :: prch) :: st).
Proof.
  induction t as [n a txt ch tl IH] using xml_ind'. intros rest pn pa ptxt prch st.
  cbn [toks app build].
  (* children, one after the other, accumulate on the new frame *)
  assert (Hch : forall acc, build ((flat_map toks ch ++ [TClose n tl]) ++ rest) ((n, a, txt, acc) :: (pn, pa, ptxt, prch) :: st)
                = build ([TClose n tl] ++ rest) ((n, a, txt, rev ch ++ acc) :: (pn, pa, ptxt, prch) :: st)).
  { induction IH as [|c ch' Hc _ IHch]; intros acc; [reflexivity|].
    cbn [flat_map]. rewrite <- !app_assoc. rewrite Hc. rewrite app_assoc. rewrite IHch.
    cbn [rev]. now rewrite <- app_assoc. }
  rewrite Hch. cbn [app build]. rewrite name_eqb_refl, app_nil_r, rev_involutive. reflexivity.
Qed.

Theorem parse_toks t : parse (toks t) = Some t.
Proof.
  destruct t as [n a txt ch tl]. unfold parse. cbn [toks build].
  assert (Hch : forall acc, build (flat_map toks ch ++ [TClose n tl]) [(n, a, txt, acc)]
                = build [TClose n tl] [(n, a, txt, rev ch ++ acc)]).
  { induction ch as [|c ch' IHch]; intros acc; [reflexivity|].
    cbn [flat_map]. rewrite <- app_assoc. rewrite build_subtree. rewrite IHch.
    cbn [rev]. now rewrite <- app_assoc. }
  rewrite Hch. cbn [build]. rewrite name_eqb_refl, app_nil_r, rev_involutive. reflexivity.
Qed.
End Tree.

(* ====================== glue: items -> tokens -> trees, and back ====================== *)
Definition xtree := xml str (list attr) str.
Definition xtok := tok str (list attr) str.

Definition all_blank (s : str) : bool := all_chars (fun c => Ascii.eqb c " ") s.
Definition name_ok (n : str) : bool :=
  negb (has " " n) && negb (has "/" n) && negb (has "<" n) && negb (has ">" n) && negb (has """" n) && negb (has "=" n) &&
  match n with [] => false | c :: _ => negb (Ascii.eqb c "?") && negb (Ascii.eqb c "!") end.

(* the token(s) of one lexed item: <name attrs>, <name attrs/>, </name>, <?xml ...?> *)
Definition strip_slash (tail : str) : option bool :=      (* Some true: self-closing *)
  match rev tail with
  | "/" :: r => if all_blank r then Some true else None
  | _ => if all_blank tail then Some false else None
  end.
Definition ends_with_slash (s : str) : bool := match rev s with c :: _ => Ascii.eqb c "/" | [] => false end.
Definition parse_tag (it : item) : option (list xtok) :=
  let '(body, txt) := it in
  match body with
  | [] => None
  | c :: n =>
      if Ascii.eqb c "/" then Some [TClose _ _ _ n txt]
      else if Ascii.eqb c "?" then Some []
      else
        match split_once " " body with
        | None =>
            if ends_with_slash body then Some [TOpen _ _ _ (removelast body) [] []; TClose _ _ _ (removelast body) txt]
            else Some [TOpen _ _ _ body [] txt]
        | Some (nm, rest) =>
            match parse_attrs (" " :: rest) with
            | Some (a, tail) =>
                match strip_slash tail with
                | Some true => Some [TOpen _ _ _ nm a []; TClose _ _ _ nm txt]
                | Some false => Some [TOpen _ _ _ nm a txt]
                | None => None
                end
            | None => None
            end
        end
  end.
(* XML line-end normalisation: CR LF and a lone CR are read as LF *)
Definition CR : ascii := "013".
Definition LF : ascii := "010".
Fixpoint norm_nl (s : str) : str :=
  match s with
  | [] => []
  | c :: r => if Ascii.eqb c CR then LF :: match r with d :: r' => if Ascii.eqb d LF then norm_nl r' else norm_nl r | [] => [] end
              else c :: norm_nl r
  end.
Definition xparse (s : str) : option xtree :=
  match lex (norm_nl s) with
  | Some (_, items) =>
      match sequence (map parse_tag items) with
      | Some tss => parse str str_eqb (list attr) str (concat tss)
      | None => None
      end
  | None => None
  end.

(* the writer's spelling of a tree *)
(* q n = true: the writer puts one more blank after the element name (the ListOf encoder writes "<ListOfX >") *)
Definition padq (q : str -> bool) (n : str) : str := if q n then [" "] else [].
Fixpoint items_ofq (q : str -> bool) (t : xtree) : list item :=
  match t with
  | Elem _ _ _ n a txt ch tl => (n ++ padq q n ++ spell_attrs a, txt) :: flat_map (items_ofq q) ch ++ [("/" :: n, tl)]
  end.
Definition spell_treeq (q : str -> bool) (t : xtree) : str := spell [] (items_ofq q t).
Definition items_of := items_ofq (fun _ => false).
Definition spell_tree := spell_treeq (fun _ => false).

Definition key_ok2 (k : str) : bool := key_ok k && negb (has "<" k) && negb (has ">" k).
Fixpoint tree_ok (t : xtree) : bool :=
  match t with
  | Elem _ _ _ n a _ ch _ => name_ok n && forallb (fun kv => key_ok2 (fst kv)) a && forallb tree_ok ch
  end.

Lemma name_ok_parts n : name_ok n = true ->
  has " " n = false /\ has "/" n = false /\ has "<" n = false /\ has ">" n = false /\ has """" n = false /\ has "=" n = false /\
  exists c r, n = c :: r /\ c <> "?" /\ c <> "/" /\ c <> "!".
Proof.
  unfold name_ok. intros H.
  apply andb_true_iff in H as [H H7]. apply andb_true_iff in H as [H H6]. apply andb_true_iff in H as [H H5].
  apply andb_true_iff in H as [H H4]. apply andb_true_iff in H as [H H3]. apply andb_true_iff in H as [H1 H2].
  apply negb_true_iff in H1, H2, H3, H4, H5, H6.
  repeat split; auto. destruct n as [|c r]; [discriminate|]. exists c, r. split; [reflexivity|].
  apply andb_true_iff in H7 as [Hq Hb]. apply negb_true_iff in Hq, Hb. repeat split.
  - intros ->. discriminate.
  - intros ->. cbn in H2. discriminate.
  - intros ->. discriminate.
Qed.
Lemma escape_attr_no_gt s : has ">" (escape_attr s) = false.
Proof. apply escape_attr_clean. auto. Qed.
Lemma has_rev c s : has c (rev s) = has c s.
Proof. induction s as [|x s IH]; [reflexivity|]. cbn [rev]. rewrite has_app, IH. cbn. now rewrite orb_false_r, orb_comm. Qed.
Lemma no_slash_end n : has "/" n = false -> ends_with_slash n = false.
Proof.
  intros H. unfold ends_with_slash. rewrite <- has_rev in H. destruct (rev n) as [|c r]; [reflexivity|].
  cbn in H. now apply orb_false_iff in H as [H _].
Qed.
Lemma spell_attrs_clean c a : (c = "<" \/ c = ">") -> forallb (fun kv => key_ok2 (fst kv)) a = true -> has c (spell_attrs a) = false.
Proof.
  intros Hc. induction a as [|[k v] a IH]; intros H; [reflexivity|].
  cbn [forallb fst] in H. apply andb_true_iff in H as [Hk Ha]. unfold spell_attrs in *. cbn [flat_map]. rewrite has_app, (IH Ha), orb_false_r.
  unfold spell_attr. cbn [fst snd]. unfold key_ok2 in Hk. apply andb_true_iff in Hk as [Hk H2]. apply andb_true_iff in Hk as [_ H1].
  apply negb_true_iff in H1, H2.
  cbn [has]. rewrite has_app. cbn [has]. rewrite has_app. cbn [has].
  rewrite (escape_attr_clean c v) by tauto.
  destruct Hc; subst c; cbn; rewrite ?H1, ?H2; reflexivity.
Qed.
Lemma keys_ok2_ok a : forallb (fun kv => key_ok2 (fst kv)) a = true -> forallb (fun kv : attr => key_ok (fst kv)) a = true.
Proof.
  induction a as [|kv a IH]; [reflexivity|]. cbn [forallb]. intros H. apply andb_true_iff in H as [Hk Ha].
  unfold key_ok2 in Hk. apply andb_true_iff in Hk as [Hk _]. apply andb_true_iff in Hk as [Hk _]. now rewrite Hk, IH.
Qed.

Lemma lstrip_sp_blank s : lstrip_sp (" " :: s) = lstrip_sp s.
Proof. reflexivity. Qed.
Lemma key_of_spelled2 k : key_ok k = true -> key_of (" " :: " " :: k ++ ["="]) = Some k.
Proof.
  intros H. pose proof (key_of_spelled k H) as K. unfold key_of in *. rewrite lstrip_sp_blank. exact K.
Qed.
Lemma parse_attrs_padded l tail : forallb (fun a => key_ok (fst a)) l = true -> has """" tail = false ->
  parse_attrs (" " :: spell_attrs l ++ tail) = Some (l, if match l with [] => true | _ => false end then " " :: tail else tail).
Proof.
  intros Hk Ht. destruct l as [|[k v] l].
  - cbn [spell_attrs flat_map app]. unfold parse_attrs. rewrite split_all_none by (cbn; exact Ht). reflexivity.
  - cbn [forallb fst] in Hk. apply andb_true_iff in Hk as [Hk Hl].
    pose proof (parse_attrs_spelled l tail Hl Ht) as P. unfold parse_attrs in *.
    unfold spell_attrs in *. cbn [flat_map]. rewrite <- app_assoc, spell_attr_shape.
    change (" " :: (" " :: k ++ ["="]) ++ """" :: escape_attr v ++ """" :: flat_map spell_attr l ++ tail)
      with ((" " :: " " :: k ++ ["="]) ++ """" :: (escape_attr v ++ """" :: flat_map spell_attr l ++ tail)).
    rewrite split_all_app.
    2:{ pose proof (key_no_quote k Hk) as Q. cbn [has] in *. exact Q. }
    rewrite split_all_app by (apply escape_attr_clean; auto).
    cbn [pair_up]. rewrite key_of_spelled2 by exact Hk. cbn [obind].
    rewrite unescape_escape_attr. cbn [obind]. rewrite P. reflexivity.
Qed.
Lemma parse_tag_open q n a txt : name_ok n = true -> forallb (fun kv => key_ok2 (fst kv)) a = true ->
  parse_tag (n ++ padq q n ++ spell_attrs a, txt) = Some [TOpen _ _ _ n a txt].
Proof.
  intros Hn Ha. destruct (name_ok_parts n Hn) as [Hsp [Hsl [_ [_ [_ [_ [c [r [-> [Hq [Hs Hb]]]]]]]]]]].
  unfold parse_tag, padq. cbn [app].
  destruct (Ascii.eqb_spec c "/"); [contradiction|]. destruct (Ascii.eqb_spec c "?"); [contradiction|].
  destruct (q (c :: r)).
  - (* one extra blank after the name *)
    change (c :: r ++ [" "] ++ spell_attrs a) with ((c :: r) ++ " " :: spell_attrs a).
    rewrite (split_once_app _ _ _ Hsp).
    rewrite <- (app_nil_r (spell_attrs a)).
    rewrite parse_attrs_padded; [|now apply keys_ok2_ok|reflexivity].
    destruct a; reflexivity.
  - cbn [app]. destruct a as [|[k v] a].
    + cbn [spell_attrs flat_map]. rewrite app_nil_r.
      rewrite (split_once_none _ _ Hsp). now rewrite (no_slash_end _ Hsl).
    + change (c :: r ++ spell_attrs ((k, v) :: a)) with ((c :: r) ++ spell_attrs ((k, v) :: a)).
      assert (Hshape : spell_attrs ((k, v) :: a) = " " :: tl (spell_attrs ((k, v) :: a))) by reflexivity.
      rewrite Hshape. rewrite (split_once_app _ _ _ Hsp). rewrite <- Hshape.
      rewrite <- (app_nil_r (spell_attrs ((k, v) :: a))).
      rewrite parse_attrs_spelled; [reflexivity | now apply keys_ok2_ok | reflexivity].
Qed.
Lemma parse_tag_close n tl : parse_tag ("/" :: n, tl) = Some [TClose _ _ _ n tl].
Proof. reflexivity. Qed.

Lemma open_tag_ok q n a : name_ok n = true -> forallb (fun kv => key_ok2 (fst kv)) a = true -> tag_ok (n ++ padq q n ++ spell_attrs a) = true.
Proof.
  intros Hn Ha. destruct (name_ok_parts n Hn) as [_ [_ [Hlt [Hgt _]]]]. unfold tag_ok, padq.
  rewrite !has_app, Hlt, Hgt, (spell_attrs_clean "<" a), (spell_attrs_clean ">" a); auto. now destruct (q n).
Qed.
Lemma close_tag_ok n : name_ok n = true -> tag_ok ("/" :: n) = true.
Proof. intros Hn. destruct (name_ok_parts n Hn) as [_ [_ [Hlt [Hgt _]]]]. unfold tag_ok. cbn. now rewrite Hlt, Hgt. Qed.

Lemma tree_ok_inv n a txt ch tl : tree_ok (Elem _ _ _ n a txt ch tl) = true ->
  name_ok n = true /\ forallb (fun kv => key_ok2 (fst kv)) a = true /\ Forall (fun c => tree_ok c = true) ch.
Proof.
  cbn [tree_ok]. intros H. apply andb_true_iff in H as [H Hc]. apply andb_true_iff in H as [Hn Ha].
  repeat split; auto. apply Forall_forall. intros c Hin. rewrite forallb_forall in Hc. now apply Hc.
Qed.

Lemma items_tag_ok q t : tree_ok t = true -> forallb (fun it => tag_ok (fst it)) (items_ofq q t) = true.
Proof.
  induction t as [n a txt ch tl IH] using (xml_ind' str (list attr) str). intros H.
  destruct (tree_ok_inv _ _ _ _ _ H) as [Hn [Ha Hc]]. cbn [items_ofq forallb fst].
  rewrite (open_tag_ok q n a Hn Ha). cbn [andb]. rewrite forallb_app. cbn [forallb fst]. rewrite (close_tag_ok n Hn). rewrite andb_true_r.
  clear H. induction IH as [|c ch' Hc1 _ IHch]; [reflexivity|]. inversion Hc; subst. cbn [flat_map]. rewrite forallb_app.
  apply andb_true_iff. split; [now apply Hc1 | now apply IHch].
Qed.
Lemma items_tokens q t : tree_ok t = true ->
  sequence (map parse_tag (items_ofq q t)) = Some (map (fun x => [x]) (toks str (list attr) str t)).
Proof.
  induction t as [n a txt ch tl IH] using (xml_ind' str (list attr) str). intros H.
  destruct (tree_ok_inv _ _ _ _ _ H) as [Hn [Ha Hc]]. cbn [items_ofq toks map].
  rewrite (parse_tag_open q n a txt Hn Ha). cbn [sequence].
  assert (G : sequence (map parse_tag (flat_map (items_ofq q) ch ++ [("/" :: n, tl)])) =
              Some (map (fun x => [x]) (flat_map (toks str (list attr) str) ch ++ [TClose _ _ _ n tl]))).
  { clear H. induction IH as [|c ch' Hc1 _ IHch].
    - reflexivity.
    - inversion Hc; subst. cbn [flat_map]. rewrite <- !app_assoc, !map_app.
      assert (S : forall (l1 l2 : list (option (list xtok))) r1 r2, sequence l1 = Some r1 -> sequence l2 = Some r2 -> sequence (l1 ++ l2) = Some (r1 ++ r2)).
      { induction l1 as [|x l1 IHl]; intros l2 r1 r2 Hs1 Hs2; cbn in *; [inversion Hs1; exact Hs2|].
        destruct x; [|discriminate]. destruct (sequence l1) eqn:E; [|discriminate]. inversion Hs1; subst. now rewrite (IHl l2 l0 r2 eq_refl Hs2). }
      rewrite <- map_app. rewrite (S _ _ _ _ (Hc1 ltac:(assumption)) (IHch ltac:(assumption))). now rewrite <- !map_app. }
  now rewrite G.
Qed.
Lemma concat_singletons {A} (l : list A) : concat (map (fun x => [x]) l) = l.
Proof. induction l as [|x l IH]; [reflexivity|]. cbn. now rewrite IH. Qed.

(* the writer's spelling of any well-named tree parses back to exactly that tree: text and attribute values may
   contain ANY characters (they are escaped), so content can never break the markup *)
Lemma norm_nl_id s : has CR s = false -> norm_nl s = s.
Proof.
  induction s as [|c r IH]; [reflexivity|]. cbn [has norm_nl]. intros H. apply orb_false_iff in H as [Hc Hr].
  rewrite Hc. now rewrite IH.
Qed.
Theorem xparse_spellq q t : tree_ok t = true -> has CR (spell_treeq q t) = false -> xparse (spell_treeq q t) = Some t.
Proof.
  intros H Hcr. unfold xparse. rewrite norm_nl_id by exact Hcr. unfold spell_treeq. rewrite lex_spell by now apply items_tag_ok.
  rewrite (items_tokens q t H), concat_singletons. apply parse_toks. apply str_eqb_refl.
Qed.

Theorem xparse_spell t : tree_ok t = true -> has CR (spell_tree t) = false -> xparse (spell_tree t) = Some t.
Proof. apply xparse_spellq. Qed.

(* ====================== namespaces: what lxml's .tag / .attrib / .text present ====================== *)
Inductive nxml := NElem (ns : str) (local : str) (attrs : list attr) (text : option str) (children : list nxml).
Fixpoint assoc_str (k : str) (l : list (str * str)) : option str :=
  match l with [] => None | (a, b) :: r => if str_eqb a k then Some b else assoc_str k r end.
Definition xmlns_prefix : str := lit "xmlns:".
Definition decl_prefix (kv : attr) : option (str * str) :=
  if starts_with xmlns_prefix (fst kv) then Some (skipn 6 (fst kv), snd kv) else None.
Definition is_decl (kv : attr) : bool := str_eqb (fst kv) (lit "xmlns") || starts_with xmlns_prefix (fst kv).
Fixpoint resolve (dflt : str) (pfx : list (str * str)) (t : xtree) : nxml :=
  match t with
  | Elem _ _ _ n a txt ch _ =>
      let dflt' := match assoc_str (lit "xmlns") a with Some u => u | None => dflt end in
      let pfx' := flat_map (fun kv => match decl_prefix kv with Some d => [d] | None => [] end) a ++ pfx in
      let ns_local := match split_once ":" n with
                      | Some (p, l) => (match assoc_str p pfx' with Some u => u | None => [] end, l)
                      | None => (dflt', n) end in
      NElem (fst ns_local) (snd ns_local) (filter (fun kv => negb (is_decl kv)) a)
            (match txt with [] => None | _ => Some txt end) (map (resolve dflt' pfx') ch)
  end.
Definition nname (t : nxml) : str := match t with NElem _ l _ _ _ => l end.
Definition nns (t : nxml) : str := match t with NElem n _ _ _ _ => n end.
Definition ntext (t : nxml) : option str := match t with NElem _ _ _ x _ => x end.
Definition nchildren (t : nxml) : list nxml := match t with NElem _ _ _ _ c => c end.
Definition nattrs (t : nxml) : list attr := match t with NElem _ _ a _ _ => a end.
(* el.find("{ns}name"): first child with that qualified name *)
Fixpoint nfind (ns name : str) (l : list nxml) : option nxml :=
  match l with [] => None | c :: r => if str_eqb (nns c) ns && str_eqb (nname c) name then Some c else nfind ns name r end.
