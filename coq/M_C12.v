(* Model of opcua_tools.navigation: fast_transitive_closure, typing_transitive_reflexive,
   subtypes/supertypes_of_nodes, constrain_to_reference_type, the reference selectors, and of
   UAGraph.find_circular_reference_nodes.  Node ids are natural numbers.  Definitions only. *)
From Coq Require Import String List Arith Bool PeanoNat.
Require Import PyStr Sexp.
Import ListNotations.

Definition rel := list (nat * nat).
Definition peqb (p q : nat * nat) : bool := (fst p =? fst q) && (snd p =? snd q).
Definition mem (p : nat * nat) (R : rel) : bool := existsb (peqb p) R.
Fixpoint dedup (R : rel) : rel :=
  match R with [] => [] | p :: r => if mem p r then dedup r else p :: dedup r end.
Definition memn (x : nat) (l : list nat) : bool := existsb (Nat.eqb x) l.

(* boolean matrix product: pairs (a,d) with (a,b) in R and (b,d) in S *)
Definition compose (R S : rel) : rel :=
  flat_map (fun p => flat_map (fun q => if snd p =? fst q then [(fst p, snd q)] else []) S) R.
(* sparmat.dot(sparmat) > 0 *)
Definition sq (R : rel) : rel := dedup (compose R R).
(* while not fixedp: square; stop when the number of ones did not change *)
Fixpoint iter (fuel : nat) (R : rel) : rel :=
  match fuel with
  | O => R
  | S f => let R' := sq R in if length R' =? length R then R' else iter f R'
  end.
(* pd.factorize(concat(Src, Trg)) *)
Definition nodes_of (E : rel) : list nat := nodup Nat.eq_dec (map fst E ++ map snd E).
(* coo_matrix(...) + eye *)
Definition R0 (E : rel) (V : list nat) : rel := dedup (E ++ map (fun v => (v, v)) V).
Definition tc (E : rel) (V : list nat) : rel :=
  filter (fun p => negb (fst p =? snd p)) (iter (S (length V * length V)) (R0 E V)).
Definition has_selfloop (E : rel) : bool := existsb (fun p => fst p =? snd p) E.
(* fast_transitive_closure: AssertionError on a self reference *)
Definition closure (E : rel) : res rel :=
  if has_selfloop E then Err EOther else Ok (tc E (nodes_of E)).

(* ---- references with a type, and the type table ---- *)
Record ref := { r_src : nat; r_trg : nat; r_type : nat }.
Record tnode := { tn_id : nat; tn_class : str; tn_bname : str }.
Definition edges_of (l : list ref) : rel := map (fun r => (r_src r, r_trg r)) l.
(* type_nodes.loc[(NodeClass == "UAReferenceType") & (BrowseName == name), "id"].iloc[0] *)
Definition reftype_id (name : str) (tn : list tnode) : res nat :=
  match filter (fun n => str_eqb (tn_class n) (lit "UAReferenceType"%string) && str_eqb (tn_bname n) name) tn with
  | n :: _ => Ok (tn_id n) | [] => Err EIndex end.
Definition of_type (t : nat) (l : list ref) : list ref := filter (fun r => r_type r =? t) l.
(* typing_transitive_reflexive: closure of HasSubtype plus (u,u) for every endpoint of ANY type reference *)
Definition typing_tr (hst : nat) (trefs : list ref) : res rel :=
  rbind (closure (edges_of (of_type hst trefs))) (fun c =>
  Ok (c ++ map (fun u => (u, u)) (nodup Nat.eq_dec (map r_src trefs ++ map r_trg trefs)))).
(* subtypes_of_nodes: rows (type, subtype) *)
Definition subtypes_of (types : list nat) (hst : nat) (trefs : list ref) : res rel :=
  rmap (filter (fun p => memn (fst p) types)) (typing_tr hst trefs).
(* supertypes_of_nodes: rows (supertype, type) *)
Definition supertypes_of (types : list nat) (hst : nat) (trefs : list ref) : res rel :=
  rmap (filter (fun p => memn (snd p) types)) (typing_tr hst trefs).
Definition constrain (inst : list ref) (types : list nat) (hst : nat) (trefs : list ref) : res (list ref) :=
  rmap (fun st => filter (fun r => memn (r_type r) (map snd st)) inst) (subtypes_of types hst trefs).
(* the selectors: look the type up by browse name, then constrain *)
Definition select_by_name (name : str) (inst : list ref) (tn : list tnode) (trefs : list ref) : res (list ref) :=
  rbind (reftype_id name tn) (fun t => rbind (reftype_id (lit "HasSubtype"%string) tn) (fun hst => constrain inst [t] hst trefs)).
Definition has_type_definition_refs (inst : list ref) (tn : list tnode) : res (list ref) :=
  rmap (fun t => of_type t inst) (reftype_id (lit "HasTypeDefinition"%string) tn).
(* ..._trg_has_no_modelling_rule: keep references whose target is not the source of a HasModellingRule reference *)
Definition trg_has_no_mr (kind : str) (inst : list ref) (tn : list tnode) (trefs : list ref) : res (list ref) :=
  rbind (select_by_name kind inst tn trefs) (fun sel =>
  rbind (select_by_name (lit "HasModellingRule"%string) inst tn trefs) (fun mr =>
  Ok (filter (fun r => negb (memn (r_trg r) (map r_src mr))) sel))).
(* hierarchical_references_trg_has_modelling_rule: inner join on Trg = Src of a HasModellingRule reference
   (one row per matching rule; KeyError when there is no HasModellingRule reference at all) *)
Definition trg_has_mr (inst : list ref) (tn : list tnode) (trefs : list ref) : res (list ref) :=
  rbind (select_by_name (lit "HierarchicalReferences"%string) inst tn trefs) (fun sel =>
  rbind (select_by_name (lit "HasModellingRule"%string) inst tn trefs) (fun mr =>
  match mr with
  | [] => Err EKey
  | _ => Ok (flat_map (fun r => map (fun _ => r) (filter (fun m => r_src m =? r_trg r) mr)) sel)
  end)).

(* find_circular_reference_nodes, after the namespace restriction: nodes a with (a,b) and (b,a) in the closure *)
Definition cycle_nodes (E : rel) : res (list nat) :=
  rmap (fun c => nodup Nat.eq_dec (map fst (filter (fun p => mem (snd p, fst p) c) c))) (closure E).
(* the references of a namespace: source or target is one of its nodes *)
Definition refs_touching (ns_nodes : list nat) (l : list ref) : list ref :=
  filter (fun r => memn (r_src r) ns_nodes || memn (r_trg r) ns_nodes) l.
Definition circular (ns_nodes : list nat) (refs : list ref) (tn : list tnode) : res (list nat) :=
  rbind (select_by_name (lit "HierarchicalReferences"%string) (refs_touching ns_nodes refs) tn refs) (fun h =>
  cycle_nodes (edges_of h)).

(* wire format *)
Definition e_rel (R : rel) : sexp := e_list (e_pair e_nat e_nat) R.
Definition d_rel (x : sexp) : option rel := d_list (d_pair d_nat d_nat) x.
Definition e_ref (r : ref) : sexp := Lst [e_nat (r_src r); e_nat (r_trg r); e_nat (r_type r)].
Definition d_ref (x : sexp) : option ref :=
  match x with Lst [a; b; c] => obind (d_nat a) (fun a => obind (d_nat b) (fun b => omap (fun c => {| r_src := a; r_trg := b; r_type := c |}) (d_nat c))) | _ => None end.
Definition d_tnode (x : sexp) : option tnode :=
  match x with Lst [a; b; c] => obind (d_nat a) (fun a => obind (d_str b) (fun b => omap (fun c => {| tn_id := a; tn_class := b; tn_bname := c |}) (d_str c))) | _ => None end.
