From Coq Require Import List Arith Lia Bool.
Import ListNotations.

Section Namespaces.
Variable U : Type.                      (* namespace URIs *)
Variable eq_dec : forall a b : U, {a = b} + {a <> b}.

Fixpoint index_of (u : U) (l : list U) : nat :=
  match l with [] => 0 | x :: r => if eq_dec u x then 0 else S (index_of u r) end.
Lemma index_of_nth u l : In u l -> nth_error l (index_of u l) = Some u.
Proof.
  induction l as [|x r IH]; cbn; [contradiction|]. intros H.
  destruct (eq_dec u x) as [->|Hne]; [reflexivity|]. destruct H as [->|H]; [contradiction|]. now apply IH.
Qed.
Lemma nth_error_app_stable (l s : list U) j u : nth_error l j = Some u -> nth_error (l ++ s) j = Some u.
Proof. intros H. rewrite nth_error_app1; [exact H|]. apply nth_error_Some. congruence. Qed.

(* extend_namespace_map: `existing` grows in place, map[i+1] := existing.index(uri) *)
Definition add (ex : list U) (u : U) : list U := if in_dec eq_dec u ex then ex else ex ++ [u].
Fixpoint extend (ex : list U) (local : list U) (i : nat) : list U * list (nat * nat) :=
  match local with
  | [] => (ex, [])
  | u :: r => let ex1 := add ex u in
              let '(ex2, m) := extend ex1 r (S i) in (ex2, (S i, index_of u ex1) :: m)
  end.

Lemma add_prefix ex u : exists s, add ex u = ex ++ s.
Proof. unfold add. destruct (in_dec eq_dec u ex); [exists []; now rewrite app_nil_r | now exists [u]]. Qed.
Lemma add_In ex u : In u (add ex u).
Proof. unfold add. destruct (in_dec eq_dec u ex); [assumption | apply in_or_app; right; now left]. Qed.
Lemma add_NoDup ex u : NoDup ex -> NoDup (add ex u).
Proof.
  unfold add. intros H. destruct (in_dec eq_dec u ex) as [|Hn]; [exact H|].
  rewrite <- (rev_involutive (ex ++ [u])). apply NoDup_rev. rewrite rev_app_distr. cbn.
  constructor; [now rewrite <- in_rev | now apply NoDup_rev].
Qed.

(* C03_prefix: the caller's list is kept, in order, as a prefix *)
Theorem extend_prefix local : forall ex i, exists s, fst (extend ex local i) = ex ++ s.
Proof.
  induction local as [|u r IH]; intros ex i; cbn.
  - exists []. now rewrite app_nil_r.
  - destruct (add_prefix ex u) as [s1 Hs1]. destruct (IH (add ex u) (S i)) as [s2 Hs2].
    destruct (extend (add ex u) r (S i)) as [ex2 m] eqn:E. cbn in *. exists (s1 ++ s2).
    now rewrite Hs2, Hs1, app_assoc.
Qed.

(* C03_once: no URI is ever duplicated *)
Theorem extend_NoDup local : forall ex i, NoDup ex -> NoDup (fst (extend ex local i)).
Proof.
  induction local as [|u r IH]; intros ex i H; cbn; [exact H|].
  specialize (IH (add ex u) (S i) (add_NoDup ex u H)).
  now destruct (extend (add ex u) r (S i)) as [ex2 m].
Qed.

(* C03_index: local index i+1+p of the document denotes, in the final table, the p-th URI the document listed *)
Theorem extend_index local : forall ex i p u,
  nth_error local p = Some u ->
  exists j, In (S (i + p), j) (snd (extend ex local i)) /\ nth_error (fst (extend ex local i)) j = Some u.
Proof.
  induction local as [|x r IH]; intros ex i p u Hp; [destruct p; discriminate|].
  cbn [extend]. destruct (extend (add ex x) r (S i)) as [ex2 m] eqn:E.
  destruct p as [|p]; cbn in Hp.
  - inversion Hp; subst x. exists (index_of u (add ex u)). cbn [fst snd]. split.
    + left. now rewrite Nat.add_0_r.
    + destruct (extend_prefix r (add ex u) (S i)) as [s Hs]. rewrite E in Hs. cbn in Hs. subst ex2.
      apply nth_error_app_stable. apply index_of_nth. apply add_In.
  - destruct (IH (add ex x) (S i) p u Hp) as [j [Hin Hn]]. rewrite E in Hin, Hn. cbn [fst snd] in *.
    exists j. split; [right; now rewrite <- plus_n_Sm | exact Hn].
Qed.

(* the map is a function: each local index is assigned once *)
Theorem extend_keys local : forall ex i k j, In (k, j) (snd (extend ex local i)) -> i < k <= i + length local.
Proof.
  induction local as [|x r IH]; intros ex i k j H; [contradiction|].
  cbn [extend] in H. destruct (extend (add ex x) r (S i)) as [ex2 m] eqn:E. cbn [snd] in H.
  destruct H as [H|H]; [inversion H; subst; cbn; lia|].
  specialize (IH (add ex x) (S i) k j). rewrite E in IH. specialize (IH H). cbn [length]. lia.
Qed.
End Namespaces.
