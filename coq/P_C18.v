(* C18 - model and namespace metadata are reported faithfully and consistently *)
From Coq Require Import String Ascii List Bool Arith ZArith.
Require Import PyStr PyInt Sexp Xml M_C09 M_C08 Ns Table M_Parse T_Parse M_C18 T_C18.
Import ListNotations.
Open Scope char_scope.

(* parse output lists the models of the parsed files exactly as declared, in file order *)
Theorem C18_models : forall E caller docs p,
  parse_files E caller docs = Ok p ->
  p_models p = flat_map (fun d => match d_models d with Some l => map model_of l | None => [] end)
                 (sort_docs (match caller with [] => docs | _ => filter (keep_file caller) docs end)).
Proof. exact models_faithful. Qed.

(* URI, version, publication date and required models are the element's attributes / children *)
Theorem C18_model_fields : forall m,
  mo_uri (model_of m) = lookup_attr (lit "ModelUri") (me_attrs m) /\
  mo_version (model_of m) = lookup_attr (lit "Version") (me_attrs m) /\ mo_pubdate (model_of m) = lookup_attr (lit "PublicationDate") (me_attrs m) /\
  length (mo_required (model_of m)) = length (me_required m).
Proof. exact model_of_spec. Qed.

(* the XML helper and the JSON (side file) helper report the same data whenever the document has a NamespaceUris element *)
Theorem C18_helpers_agree : forall d,
  d_uris d <> None -> xml_ns_data d = json_ns_data d.
Proof. exact helpers_agree. Qed.

(* the file's own namespace is its first model URI; its dependencies are the other NamespaceUris entries plus the OPC UA namespace *)
Theorem C18_helper_spec : forall d nd u uri,
  ends_with NODESET2_NAME (d_name d) = false -> d_uris d = Some u ->
  obind (d_models d) first_model_uri = Some (Some uri) -> uri <> UA_URI -> xml_ns_data d = Ok nd ->
  nd_name nd = Some uri /\ forall x, In x (nd_included nd) <-> x = UA_URI \/ (In x u /\ x <> uri).
Proof. exact xml_ns_data_spec. Qed.

(* filtering keeps exactly the files one of whose model URIs is in the list *)
Theorem C18_filter : forall caller docs d,
  In d (filter_files caller docs) <->
  In d docs /\ exists n, In n caller /\ n <> [] /\ In n (file_namespaces d).
Proof. exact filter_spec. Qed.

(* the model URIs of a file are the non-empty ModelUri attributes of its Model elements *)
Theorem C18_file_namespaces : forall d x,
  ends_with NODESET2_NAME (d_name d) = false ->
  (In x (file_namespaces d) <-> exists l m, d_models d = Some l /\ In m l /\ lookup_attr (lit "ModelUri") (me_attrs m) = Some x /\ x <> []).
Proof. exact file_namespaces_spec. Qed.

(* faithful to the code (known finding): for a non-base model without NamespaceUris the XML helper answers and the JSON helper raises *)
Theorem C18_helpers_disagree_refuted : xml_ns_data doc_no_uris = Ok {| nd_name := Some (lit "urn:x"); nd_included := [UA_URI] |} /\ json_ns_data doc_no_uris = Err EValue.
Proof. exact helpers_disagree_refuted. Qed.

Print Assumptions C18_models.
Print Assumptions C18_model_fields.
Print Assumptions C18_helpers_agree.
Print Assumptions C18_helper_spec.
Print Assumptions C18_filter.
Print Assumptions C18_file_namespaces.
Print Assumptions C18_helpers_disagree_refuted.
