(* C08 - XML value encoding and decoding are inverse for every supported value.
   Full statement (for every supported value v in the domain D, and both settings of include_xmlns):
       decode (read (xml_encode v)) = canon v
   where canon strips leading/trailing whitespace of String/Guid text, turns empty text into null, writes a DateTime as its UTC
   instant, and (faithful to the code) maps NaN to null, an enumeration to its Int32 and a missing EUInformation locale to "en".
   C08_roundtrip proves this at TEXT level, through the model's own XML reader, for ALL values of the domain by structural
   induction: Boolean, the eight integer types (integers of any size), Float/Double (any float, given CPython's
   float(repr(x)) = x as the table E), String and Guid (every character string), DateTime (naive or with ANY UTC offset; the
   civil-date arithmetic of astimezone is proved for every day number by a sweep of the 400-year cycle), ByteString (every byte
   string: base64 is proved inverse), LocalizedText, EUInformation, Range, ExtensionObject with a ByteString body, and lists of
   any of these, nested to any depth.
   The domain (clean, dom08) excludes exactly what the recorded findings describe: a carriage return in the written text
   (C08-cr-normalised), identifiers/locales/bounds with markup characters spliced unescaped (C08-unescaped-markup), NodeId values
   (C08-nodeid-bare-identifier), an EUInformation with an empty NamespaceUri (C08-eu-empty-uri), extension objects whose type id
   is i=885/i=888 (C08-ext-reserved-typeid), locales the library's regular expression rejects, and lists whose items are not of
   one class. The older per-type theorems are kept: they are stated without the domain predicate. *)
From Coq Require Import String Ascii List Bool ZArith.
Require Import PyStr PyInt Sexp Xml M_C09 M_C08 M_C08d T_C08 T_C08s.
Import ListNotations.
Open Scope char_scope.

(* the writer's spelling of any well-named tree parses back to exactly that tree, whatever characters the text and the
   attribute values contain: content can never break the markup *)
Theorem C08_xml_roundtrip : forall q t, tree_ok t = true -> has CR (spell_treeq q t) = false -> xparse (spell_treeq q t) = Some t.
Proof. exact xparse_spellq. Qed.
Theorem C08_string : forall E b s, has CR s = false ->
  decode_text E (negb b) (encode b (VString (Some s))) = Ok (VString (canon_text (Some s))).
Proof. exact roundtrip_string. Qed.
Theorem C08_string_null : forall E b, decode_text E (negb b) (encode b (VString None)) = Ok (VString None).
Proof. exact roundtrip_string_null. Qed.
Theorem C08_guid : forall E b s, has CR s = false ->
  decode_text E (negb b) (encode b (VGuid (Some s))) = Ok (VGuid (canon_text (Some s))).
Proof. exact roundtrip_guid. Qed.
Theorem C08_guid_null : forall E b, decode_text E (negb b) (encode b (VGuid None)) = Ok (VGuid None).
Proof. exact roundtrip_guid_null. Qed.
Theorem C08_bool : forall E b v, decode_text E (negb b) (encode b (VBool v)) = Ok (VBool v).
Proof. exact roundtrip_bool. Qed.
Theorem C08_int : forall E b k z, (ikind_unsigned k = true -> (0 <= z)%Z) ->
  decode_text E (negb b) (encode b (VInt k (Some z))) = Ok (VInt k (Some z)).
Proof. exact roundtrip_int. Qed.
Theorem C08_int_null : forall E b k, decode_text E (negb b) (encode b (VInt k None)) = Ok (VInt k None).
Proof. exact roundtrip_int_null. Qed.
Theorem C08_float : forall E b d r, fparse E r = Ok r -> plain r = true -> str_eqb r (lit "nan") = false ->
  decode_text E (negb b) (encode b (VFloat d (Some r))) = Ok (VFloat d (Some r)).
Proof. exact roundtrip_float. Qed.
Theorem C08_float_null : forall E b d, decode_text E (negb b) (encode b (VFloat d None)) = Ok (VFloat d None).
Proof. exact roundtrip_float_null. Qed.
Theorem C08_enum_as_int32 : forall b z s n, encode b (VEnum z s n) = encode b (VInt KInt32 z).
Proof. exact enum_written_as_int32. Qed.
Theorem C08_list_tree : forall E tn attrs children items,
  Forall2 (fun c v => decode E c = Ok v) children items ->
  (match items with [] => true | first :: _ => forallb (isinstance_of first) items end) = true ->
  decode E (NElem TYPES_NS (lit "ListOf" ++ tn) attrs None children) = Ok (VList tn items).
Proof. exact decode_list. Qed.
(* faithful to the code: NaN is written as an empty element and read back as null (known finding C08-nan-to-null) *)
Theorem C08_float_nan_refuted : forall E b d, decode_text E (negb b) (encode b (VFloat d (Some (lit "nan")))) = Ok (VFloat d None).
Proof. exact float_nan_refuted. Qed.

(* ---- the general theorems (structure level) ---- *)
Theorem C08_roundtrip : forall E v b, clean b v = true -> dom08 E v = true -> decode_text E (negb b) (encode b v) = Ok (canon v).
Proof. exact roundtrip_general. Qed.
(* xml_encode at text level and the element structure vtree (used by the writer model of C05-C07) describe the same document *)
Theorem C08_text_is_vtree : forall E v b t, names_ok v = true -> xt (xa b) v = Some t -> has CR (encode b v) = false ->
  exists n, vtree v = Some n /\ decode_text E (negb b) (encode b v) = decode E n.
Proof. exact encode_read_as_vtree. Qed.
Theorem C08_encode_is_spelling : forall v b t, xt (xa b) v = Some t -> encode b v = spell_treeq noq t.
Proof. exact enc_spell. Qed.
Theorem C08_base64 : forall b, b64dec (b64enc b) = Some b.
Proof. exact b64_roundtrip. Qed.
Theorem C08_datetime_text : forall d, dt_ok d = true -> parse_iso (iso_utc d) = Some (as_utc d).
Proof. exact dt_ok_written. Qed.
Theorem C08_civil_dates_valid : forall z, let '(y, m, d) := civil_from_days z in (1 <= m <= 12 /\ 1 <= d <= days_in y m)%Z.
Proof. exact civil_valid. Qed.

Print Assumptions C08_roundtrip.
Print Assumptions C08_text_is_vtree.
Print Assumptions C08_encode_is_spelling.
Print Assumptions C08_base64.
Print Assumptions C08_datetime_text.
Print Assumptions C08_civil_dates_valid.
Print Assumptions C08_xml_roundtrip.
Print Assumptions C08_string.
Print Assumptions C08_string_null.
Print Assumptions C08_guid.
Print Assumptions C08_guid_null.
Print Assumptions C08_bool.
Print Assumptions C08_int.
Print Assumptions C08_int_null.
Print Assumptions C08_float.
Print Assumptions C08_float_null.
Print Assumptions C08_enum_as_int32.
Print Assumptions C08_list_tree.
Print Assumptions C08_float_nan_refuted.
