(* C08 - XML value encoding and decoding are inverse for every supported value. *)
From Coq Require Import String Ascii List Bool ZArith.
Require Import PyStr PyInt Sexp Xml M_C09 M_C08.
Import ListNotations.

(* the writer's spelling of any well-named tree parses back to exactly that tree, whatever characters the text and
   the attribute values contain *)
Theorem C08_xml_roundtrip : forall t, tree_ok t = true -> has CR (spell_tree t) = false -> xparse (spell_tree t) = Some t.
Proof. exact xparse_spell. Qed.
Print Assumptions C08_xml_roundtrip.
