(* C08 - XML value encoding and decoding are inverse for every supported value.
   Full statement (for every supported value v in the domain D, and both settings of include_xmlns):
       decode (read (xml_encode v)) = canon v       where canon only strips leading/trailing whitespace of text.
   Proved below at full strength, through the model's own XML reader, for Boolean, the eight integer types (integers of
   any size), Float/Double (any finite or infinite float, given CPython's float(repr(x)) = x), String and Guid (EVERY
   character string without a carriage return), enumeration values, and - at tree level - for lists of decodable items.
   C08_roundtrip_partial: the text-level theorem is NOT yet proved for DateTime, ByteString, LocalizedText, EUInformation,
   Range, ExtensionObject and for lists at text level; for these the model is tied to the code by the correspondence run and
   the property is decided on the implementation by the oracle. *)
From Coq Require Import String Ascii List Bool ZArith.
Require Import PyStr PyInt Sexp Xml M_C09 M_C08 T_C08.
Import ListNotations.
Open Scope char_scope.

(* the writer's spelling of any well-named tree parses back to exactly that tree, whatever characters the text and the
   attribute values contain: content can never break the markup *)
Theorem C08_xml_roundtrip : forall q t, tree_ok t = true -> has CR (spell_treeq q t) = false -> xparse (spell_treeq q t) = Some t.
Proof. exact xparse_spellq. Qed.
Theorem C08_string : forall E b s, has CR s = false ->
  decode_text E (negb b) (encode b (VString (Some s))) = Ok (VString (canon_text (Some s))).
Proof. exact roundtrip_string. Qed.
Theorem C08_string_null : forall E b, decode_text E (negb b) (encode b (VString None)) = Ok (VString None).
Proof. exact roundtrip_string_null. Qed.
Theorem C08_guid : forall E b s, has CR s = false ->
  decode_text E (negb b) (encode b (VGuid (Some s))) = Ok (VGuid (canon_text (Some s))).
Proof. exact roundtrip_guid. Qed.
Theorem C08_guid_null : forall E b, decode_text E (negb b) (encode b (VGuid None)) = Ok (VGuid None).
Proof. exact roundtrip_guid_null. Qed.
Theorem C08_bool : forall E b v, decode_text E (negb b) (encode b (VBool v)) = Ok (VBool v).
Proof. exact roundtrip_bool. Qed.
Theorem C08_int : forall E b k z, (ikind_unsigned k = true -> (0 <= z)%Z) ->
  decode_text E (negb b) (encode b (VInt k (Some z))) = Ok (VInt k (Some z)).
Proof. exact roundtrip_int. Qed.
Theorem C08_int_null : forall E b k, decode_text E (negb b) (encode b (VInt k None)) = Ok (VInt k None).
Proof. exact roundtrip_int_null. Qed.
Theorem C08_float : forall E b d r, fparse E r = Ok r -> plain r = true -> str_eqb r (lit "nan") = false ->
  decode_text E (negb b) (encode b (VFloat d (Some r))) = Ok (VFloat d (Some r)).
Proof. exact roundtrip_float. Qed.
Theorem C08_float_null : forall E b d, decode_text E (negb b) (encode b (VFloat d None)) = Ok (VFloat d None).
Proof. exact roundtrip_float_null. Qed.
Theorem C08_enum_as_int32 : forall b z s n, encode b (VEnum z s n) = encode b (VInt KInt32 z).
Proof. exact enum_written_as_int32. Qed.
Theorem C08_list_tree : forall E tn attrs children items,
  Forall2 (fun c v => decode E c = Ok v) children items ->
  (match items with [] => true | first :: _ => forallb (isinstance_of first) items end) = true ->
  decode E (NElem TYPES_NS (lit "ListOf" ++ tn) attrs None children) = Ok (VList tn items).
Proof. exact decode_list. Qed.
(* faithful to the code: NaN is written as an empty element and read back as null (known finding C08-nan-to-null) *)
Theorem C08_float_nan_refuted : forall E b d, decode_text E (negb b) (encode b (VFloat d (Some (lit "nan")))) = Ok (VFloat d None).
Proof. exact float_nan_refuted. Qed.

Print Assumptions C08_xml_roundtrip.
Print Assumptions C08_string.
Print Assumptions C08_string_null.
Print Assumptions C08_guid.
Print Assumptions C08_guid_null.
Print Assumptions C08_bool.
Print Assumptions C08_int.
Print Assumptions C08_int_null.
Print Assumptions C08_float.
Print Assumptions C08_float_null.
Print Assumptions C08_enum_as_int32.
Print Assumptions C08_list_tree.
Print Assumptions C08_float_nan_refuted.
