From Coq Require Import String Ascii List Bool Arith.
Require Import PyStr PyInt Sexp M_C12.
Import ListNotations.
Definition e_refs (l : list ref) : sexp := e_list e_ref l.
Definition d3 {A B C} (fa : sexp -> option A) (fb : sexp -> option B) (fc : sexp -> option C) (args : list sexp) : option (A * B * C) :=
  match args with [a; b; c] => obind (fa a) (fun a => obind (fb b) (fun b => omap (fun c => (a, b, c)) (fc c))) | _ => None end.
Definition run_c12 (cmd : str) (args : list sexp) : option sexp :=
  if str_eqb cmd (lit "c12_closure") then
    match args with [e] => omap (fun e => e_res e_rel (closure e)) (d_rel e) | _ => None end
  else if str_eqb cmd (lit "c12_cycles") then
    match args with [e] => omap (fun e => e_res (e_list e_nat) (cycle_nodes e)) (d_rel e) | _ => None end
  else if str_eqb cmd (lit "c12_subtypes") then
    match args with [t; n; r] => obind (d_list d_nat t) (fun t => obind (d_list d_tnode n) (fun n => omap (fun r =>
      e_res e_rel (rbind (reftype_id (lit "HasSubtype") n) (fun hst => subtypes_of t hst r))) (d_list d_ref r))) | _ => None end
  else if str_eqb cmd (lit "c12_supertypes") then
    match args with [t; n; r] => obind (d_list d_nat t) (fun t => obind (d_list d_tnode n) (fun n => omap (fun r =>
      e_res e_rel (rbind (reftype_id (lit "HasSubtype") n) (fun hst => supertypes_of t hst r))) (d_list d_ref r))) | _ => None end
  else if str_eqb cmd (lit "c12_constrain") then
    match args with [i; t; n; r] => obind (d_list d_ref i) (fun i => obind (d_list d_nat t) (fun t => obind (d_list d_tnode n) (fun n => omap (fun r =>
      e_res e_refs (rbind (reftype_id (lit "HasSubtype") n) (fun hst => constrain i t hst r))) (d_list d_ref r)))) | _ => None end
  else if str_eqb cmd (lit "c12_select") then
    match args with [k; i; n; r] => obind (d_str k) (fun k => obind (d_list d_ref i) (fun i => obind (d_list d_tnode n) (fun n => omap (fun r =>
      e_res e_refs (select_by_name k i n r)) (d_list d_ref r)))) | _ => None end
  else if str_eqb cmd (lit "c12_htd") then
    match args with [i; n] => obind (d_list d_ref i) (fun i => omap (fun n => e_res e_refs (has_type_definition_refs i n)) (d_list d_tnode n)) | _ => None end
  else if str_eqb cmd (lit "c12_no_mr") then
    match args with [k; i; n; r] => obind (d_str k) (fun k => obind (d_list d_ref i) (fun i => obind (d_list d_tnode n) (fun n => omap (fun r =>
      e_res e_refs (trg_has_no_mr k i n r)) (d_list d_ref r)))) | _ => None end
  else if str_eqb cmd (lit "c12_has_mr") then
    match args with [i; n; r] => obind (d_list d_ref i) (fun i => obind (d_list d_tnode n) (fun n => omap (fun r =>
      e_res e_refs (trg_has_mr i n r)) (d_list d_ref r))) | _ => None end
  else if str_eqb cmd (lit "c12_circular") then
    match args with [v; r; n] => obind (d_list d_nat v) (fun v => obind (d_list d_ref r) (fun r => omap (fun n =>
      e_res (e_list e_nat) (circular v r n)) (d_list d_tnode n))) | _ => None end
  else None.
