(* Proofs about the writer model (C05, C06, C07). *)
From Coq Require Import String Ascii List Bool Arith NArith ZArith Lia.
Require Import PyStr PyInt Sexp Xml M_C09 M_C08 Ns Table M_Parse M_Write.
Import ListNotations.
Open Scope char_scope.

Lemma nid_eqb_eq a b : nid_eqb a b = true <-> a = b.
Proof.
  unfold nid_eqb, nodeid_eqb. destruct a as [n1 t1 v1], b as [n2 t2 v2]; cbn. rewrite !andb_true_iff, Z.eqb_eq, str_eqb_eq. split.
  - intros [[-> Ht] ->]. destruct t1, t2; cbn in Ht; congruence.
  - intros H. inversion H; subst. repeat split; auto. destruct t2; reflexivity.
Qed.
Lemma mem_nid_In n l : mem_nid n l = true <-> In n l.
Proof.
  unfold mem_nid. rewrite existsb_exists. split.
  - intros [x [Hx He]]. apply nid_eqb_eq in He. now subst.
  - intros H. exists n. split; [exact H|now apply nid_eqb_eq].
Qed.

(* C06: with the outgoing-reference switch off, the ONLY references dropped are those whose target lies outside the
   written namespace and whose type is neither HasTypeDefinition nor HasModellingRule; with it on, nothing is dropped *)
Theorem use_refs_all p w kz : wp_inc w = true -> use_refs p w kz = Ok (p_refs p).
Proof. unfold use_refs. now intros ->. Qed.
Theorem use_refs_filtered p w kz refs : wp_inc w = false -> use_refs p w kz = Ok refs ->
  exists hmr htd, reftype_by_name (lit "HasModellingRule") (p_nodes p) = Ok hmr /\ reftype_by_name (lit "HasTypeDefinition") (p_nodes p) = Ok htd /\
  exists f, refs = filter f (p_refs p) /\
  forall t, f t = false <-> (~ (exists r, In r (p_nodes p) /\ nr_nodeid r = snd (fst t) /\ nid_ns (nr_nodeid r) = kz) /\ snd t <> hmr /\ snd t <> htd).
Proof.
  unfold use_refs. intros ->. destruct (reftype_by_name (lit "HasModellingRule") (p_nodes p)) as [hmr|]; [|discriminate]. cbn [rbind].
  destruct (reftype_by_name (lit "HasTypeDefinition") (p_nodes p)) as [htd|]; [|discriminate]. cbn [rbind].
  intros H. inversion H; subst; clear H. exists hmr, htd. split; [reflexivity|split; [reflexivity|]]. eexists. split; [reflexivity|].
  intros t. rewrite !orb_false_iff. split.
  - intros [[H1 H2] H3]. repeat split.
    + intros [r [Hr [He Hn]]]. assert (mem_nid (snd (fst t)) (map nr_nodeid (filter (fun r => Z.eqb (nid_ns (nr_nodeid r)) kz) (p_nodes p))) = true); [|congruence].
      apply mem_nid_In, in_map_iff. exists r. split; [exact He|]. apply filter_In. split; [exact Hr|]. now apply Z.eqb_eq.
    + intros E. apply nid_eqb_eq in E. congruence.
    + intros E. apply nid_eqb_eq in E. congruence.
  - intros [H1 [H2 H3]]. repeat split.
    + destruct (mem_nid _ _) eqn:E; [|reflexivity]. exfalso. apply H1. apply mem_nid_In, in_map_iff in E as [r [He Hin]].
      apply filter_In in Hin as [Hr Hn]. apply Z.eqb_eq in Hn. eauto.
    + destruct (nid_eqb (snd t) hmr) eqn:E; [apply nid_eqb_eq in E; contradiction|reflexivity].
    + destruct (nid_eqb (snd t) htd) eqn:E; [apply nid_eqb_eq in E; contradiction|reflexivity].
Qed.

(* C07: the written namespace's URI is the first entry of NamespaceUris and the ModelUri of the (only) Model;
   there is an (empty) Aliases element *)
Theorem write_doc_header p w d : write_doc p w = Ok d ->
  exists u1 rest, d_uris d = Some (u1 :: rest) /\
  (exists attrs req, d_models d = Some [{| me_attrs := (lit "ModelUri", u1) :: attrs; me_required := req |}]) /\ d_aliases d = Some [].
Proof.
  unfold write_doc. destruct (str_index (wp_uri w) (p_namespaces p)) as [k|]; [|discriminate].
  destruct (use_refs p w (Z.of_nat k)) as [refs|]; [|discriminate]. cbn [rbind].
  match goal with |- context [match ?L with [] => _ | _ :: _ => _ end] => destruct L as [|u0 [|u1 rest]] eqn:EL end; try discriminate.
  match goal with |- context [if ?c then Err EOther else _] => destruct c end; [discriminate|].
  intros H. inversion H; subst; clear H. cbn [d_uris d_models d_aliases tl]. exists u1, rest. split; [reflexivity|]. split; [eauto|reflexivity].
Qed.
(* the requested namespace must be one of the graph's, otherwise ValueError *)
Theorem write_doc_unknown_namespace p w : str_index (wp_uri w) (p_namespaces p) = None -> write_doc p w = Err EValue.
Proof. unfold write_doc. now intros ->. Qed.
