(* C08: the element tree of a value (xt), the clean domain, the canonical form a value is read back as (canon) and the
   domain of the round-trip theorem (dom08).  Definitions only; the theorems about them are in T_C08s.v.  They are
   executable and are evaluated by the runner on every generated value (R_C08.v, command c08_domain). *)
From Coq Require Import String Ascii List Bool NArith ZArith.
Require Import PyStr PyInt Sexp Xml M_C09 M_C08.
Import ListNotations.
Open Scope char_scope.

Definition xa (b : bool) : list attr := if b then [(lit "xmlns", TYPES_NS)] else [].
Definition noq : str -> bool := starts_with (lit "ListOf").
Definition canon_text (s : option str) : option str := match s with Some s => norm_empty (Some (strip s)) | None => None end.
Definition bool_text (b : option bool) : str := match b with Some true => lit "true" | Some false => lit "false" | None => [] end.
Definition is_plain (c : ascii) : bool := is_alnum c || Ascii.eqb c "." || Ascii.eqb c "+" || Ascii.eqb c "-".
Definition plain (s : str) : bool := all_chars is_plain s && match s with [] => false | _ => true end.
Definition rawok (s : str) : bool := str_eqb (escape s) s.
Definition xleaf (a : list attr) (name text : str) : xtree := Elem str (list attr) str name a text [] [].
Definition xnode (a : list attr) (name : str) (ch : list xtree) : xtree := Elem str (list attr) str name a [] ch [].
Definition float_text (f : option str) : str := match f with Some r => if str_eqb r (lit "nan") then [] else r | None => [] end.
Definition int_text (z : option Z) : str := match z with Some z => decZ z | None => [] end.
Definition xlt (name text locale : str) : xtree := xnode [] name [xleaf [] (lit "Locale") locale; xleaf [] (lit "Text") text].
Definition eu_locale (l : option str) : str := match l with Some l => l | None => lit "en" end.
Fixpoint omapM {A B} (f : A -> option B) (l : list A) : option (list B) :=
  match l with [] => Some [] | x :: r => match f x, omapM f r with Some t, Some ts => Some (t :: ts) | _, _ => None end end.
Definition xts : (uav -> option xtree) -> list uav -> option (list xtree) := omapM.
Fixpoint xt (a : list attr) (v : uav) : option xtree :=
  match v with
  | VBool b => Some (xleaf a (lit "Boolean") (bool_text b))
  | VInt k z => Some (xleaf a (ikind_name k) (int_text z))
  | VEnum z _ _ => Some (xleaf a (lit "Int32") (int_text z))
  | VFloat dbl f => if rawok (float_text f) then Some (xleaf a (if dbl then lit "Double" else lit "Float") (float_text f)) else None
  | VString s => Some (xleaf a (lit "String") (ostr s))
  | VGuid s => Some (xleaf a (lit "Guid") (ostr s))
  | VDateTime d => Some (xleaf a (lit "DateTime") (iso_utc d))
  | VByteString b => Some (xleaf a (lit "ByteString") (match b with Some b => b64enc b | None => [] end))
  | VNodeId n => if rawok (print_nodeid n) then Some (xleaf a (lit "Identifier") (print_nodeid n)) else None
  | VLocText t l => if rawok (ostr l) then Some (xnode a (lit "LocalizedText") [xleaf [] (lit "Locale") (ostr l); xleaf [] (lit "Text") (ostr t)]) else None
  | VEUInfo uri unit t1 l1 t2 l2 =>
      if rawok (eu_locale l1) && rawok (eu_locale l2) then
        Some (xnode a (lit "ExtensionObject")
                [xnode [] (lit "TypeId") [xleaf [] (lit "Identifier") (lit "i=888")];
                 xnode [] (lit "Body") [xnode [] (lit "EUInformation")
                    [xleaf [] (lit "NamespaceUri") uri; xleaf [] (lit "UnitId") (decZ unit);
                     xlt (lit "DisplayName") (ostr t1) (eu_locale l1); xlt (lit "Description") (ostr t2) (eu_locale l2)]]])
      else None
  | VRange lo hi =>
      if rawok lo && rawok hi then
        Some (xnode a (lit "ExtensionObject")
                [xnode [] (lit "TypeId") [xleaf [] (lit "Identifier") (lit "i=885")];
                 xnode [] (lit "Body") [xnode [] (lit "Range") [xleaf [] (lit "Low") lo; xleaf [] (lit "High") hi]]])
      else None
  | VExtObj tid body =>
      match xt [] body with
      | Some bt => if rawok (print_nodeid tid) then
                     Some (xnode a (lit "ExtensionObject") [xnode [] (lit "TypeId") [xleaf [] (lit "Identifier") (print_nodeid tid)]; xnode [] (lit "Body") [bt]])
                   else None
      | None => None end
  | VList tn items => omap (xnode a (lit "ListOf" ++ tn))
                        ((fix go (l : list uav) : option (list xtree) :=
                            match l with [] => Some [] | x :: r => match xt [] x, go r with Some t, Some ts => Some (t :: ts) | _, _ => None end end) items)
  | VXmlRaw _ | VXmlTree _ | VNone => None
  end.
Fixpoint names_ok (v : uav) {struct v} : bool :=
  match v with
  | VExtObj _ b => names_ok b
  | VList tn items => name_ok (lit "ListOf" ++ tn) && negb (has ":" (lit "ListOf" ++ tn)) && forallb names_ok items
  | _ => true
  end.
Definition dt_wf (d : dt) : bool :=
  ((1 <=? dy d) && (dy d <=? 9999) && (1 <=? dmo d) && (dmo d <=? 12) && (1 <=? dd d) && (dd d <=? days_in (dy d) (dmo d))
   && (0 <=? dh d) && (dh d <? 24) && (0 <=? dmi d) && (dmi d <? 60) && (0 <=? ds d) && (ds d <? 60) && (0 <=? dus d) && (dus d <? 1000000))%Z.
Definition as_utc (d : dt) : dt := let u := to_utc d in {| dy := dy u; dmo := dmo u; dd := dd u; dh := dh u; dmi := dmi u; ds := ds u; dus := dus u; dtz := Some 0%Z |}.
Definition canon_locale (l : option str) : option str :=
  match l with Some raw => (match strip raw with [] => None | _ => Some raw end) | None => None end.
Definition loc_ok (l : option str) : bool := match canon_locale l with Some r => valid_locale r | None => true end.
Fixpoint canon (v : uav) {struct v} : uav :=
  match v with
  | VEnum z _ _ => VInt KInt32 z
  | VFloat d f => VFloat d (match f with Some r => if str_eqb r (lit "nan") then None else Some r | None => None end)
  | VString s => VString (canon_text s)
  | VGuid s => VGuid (canon_text s)
  | VDateTime d => VDateTime (as_utc d)
  | VByteString b => VByteString (norm_empty b)
  | VLocText t l => VLocText (norm_empty t) (canon_locale l)
  | VEUInfo uri unit t1 l1 t2 l2 =>
      VEUInfo (rstrip uri) unit (norm_empty t1) (canon_locale (Some (eu_locale l1))) (norm_empty t2) (canon_locale (Some (eu_locale l2)))
  | VExtObj tid b => VExtObj tid (canon b)
  | VList tn items => VList tn (map canon items)
  | v => v
  end.
Definition dt_ok (d : dt) : bool :=
  ((0 <=? ds d) && (ds d <? 60) && (0 <=? dus d) && (dus d <? 1000000) && (0 <=? dh d) && (dh d <? 24) && (0 <=? dmi d) && (dmi d <? 60))%Z
  && dt_in_range d && match dtz d with None | Some 0%Z => dt_wf d | Some _ => true end.
Definition homogeneous (l : list uav) : bool := match l with [] => true | first :: _ => forallb (isinstance_of first) l end.
Definition float_ok (E : ext) (r : str) : bool := plain r && match fparse E r with Ok r' => str_eqb r' r | Err _ => false end.
Fixpoint dom08 (E : ext) (v : uav) {struct v} : bool :=
  match v with
  | VBool _ | VString _ | VGuid _ | VByteString _ | VEnum _ _ _ => true
  | VInt k z => match z with Some z => negb (ikind_unsigned k) || (0 <=? z)%Z | None => true end
  | VFloat _ f => match f with Some r => str_eqb r (lit "nan") || float_ok E r | None => true end
  | VDateTime d => dt_ok d
  | VLocText _ l => loc_ok l
  | VEUInfo uri _ _ l1 _ l2 => negb (str_eqb uri []) && loc_ok (Some (eu_locale l1)) && loc_ok (Some (eu_locale l2))
  | VRange lo hi => float_ok E lo && float_ok E hi && negb (float_gt E lo hi)
  | VExtObj tid b => valid tid && negb (is_numeric_ns0 tid (lit "888")) && negb (is_numeric_ns0 tid (lit "885"))
                     && match b with VByteString _ => true | _ => false end
  | VList _ items => forallb (dom08 E) items && homogeneous (map canon items)
  | VNodeId _ | VXmlRaw _ | VXmlTree _ | VNone => false
  end.
Definition clean (b : bool) (v : uav) : bool := names_ok v && match xt (xa b) v with Some _ => true | None => false end && negb (has CR (encode b v)).
