(* Model of the namespace-inspection helpers: nodeset_parser.get_namespace_data_from_file (XML),
   json_parser.namespaces.get_namespace_data_from_file (pre-processed JSON side file), get_xml_namespaces and
   exclude_files_not_in_namespaces.  Definitions only. *)
From Coq Require Import String Ascii List Bool Arith ZArith.
Require Import PyStr PyInt Sexp Xml M_C09 M_C08 Ns Table M_Parse.
Import ListNotations.
Open Scope char_scope.

(* a file's own namespace and the namespaces it depends on (a set: order and repetitions are irrelevant) *)
Record ns_data := { nd_name : option str; nd_included : list str }.
Definition add_set (u : str) (l : list str) : list str := if mem_str u l then l else l ++ [u].
Definition others (name : option str) (uris : list str) (init : list str) : list str :=
  fold_left (fun acc u => if match name with Some n => str_eqb u n | None => false end then acc else add_set u acc) uris init.
Definition first_model_uri (l : list model_elem) : option (option str) :=
  match l with m :: _ => Some (lookup_attr (lit "ModelUri") (me_attrs m)) | [] => None end.
Definition data_for (uri : option str) : ns_data :=
  if match uri with Some u => str_eqb u UA_URI | None => false end then {| nd_name := Some UA_URI; nd_included := [] |}
  else {| nd_name := uri; nd_included := [UA_URI] |}.

(* from the XML: the first Model element names the namespace; every other Uri is a dependency *)
Definition xml_ns_data (d : doc) : res ns_data :=
  if ends_with NODESET2_NAME (d_name d) then Ok {| nd_name := Some UA_URI; nd_included := [] |}
  else match obind (d_models d) first_model_uri with
       | None => Err EValue                                   (* Missing 'Model' tag *)
       | Some uri =>
           let nd := data_for uri in
           Ok {| nd_name := nd_name nd; nd_included := others (nd_name nd) (match d_uris d with Some u => u | None => [] end) (nd_included nd) |}
       end.
(* from the side file written by pre_process_xml_to_json (lines: UANodeSet, NamespaceUris, Models, Aliases as present) *)
Definition json_ns_data (d : doc) : res ns_data :=
  if ends_with NODESET2_NAME (d_name d) then Ok {| nd_name := Some UA_URI; nd_included := [] |}
  else match obind (d_models d) first_model_uri with
       | None => Err EValue
       | Some uri =>
           let nd := data_for uri in
           match d_uris d with
           | None => if match nd_name nd with Some n => str_eqb n UA_URI | None => false end then Ok nd else Err EValue   (* Missing 'NamespaceUris' tag *)
           | Some u => Ok {| nd_name := nd_name nd; nd_included := others (nd_name nd) u (nd_included nd) |}
           end
       end.
(* exclude_files_not_in_namespaces *)
Definition filter_files (caller : list str) (docs : list doc) : list doc := filter (keep_file caller) docs.

Definition e_ns_data (n : ns_data) : sexp := Lst [e_opt e_str (nd_name n); e_list e_str (nd_included n)].
