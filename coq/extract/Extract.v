From Coq Require Import ExtrOcamlBasic ExtrOcamlString.
Require Import V.Run.
Extraction "model.ml" run.
