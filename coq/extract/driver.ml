(* text <-> sexp; atoms are 'x' followed by hex digits *)
open Model
let hexv c = match c with '0'..'9' -> Char.code c - 48 | 'a'..'f' -> Char.code c - 87 | 'A'..'F' -> Char.code c - 55 | _ -> failwith "hex"
let parse (s : string) : sexp =
  let n = String.length s in
  let pos = ref 0 in
  let rec skip () = if !pos < n && (s.[!pos] = ' ' || s.[!pos] = '\t' || s.[!pos] = '\r') then (incr pos; skip ()) in
  let rec one () : sexp =
    skip ();
    if !pos >= n then failwith "eof";
    if s.[!pos] = '(' then begin
      incr pos;
      let items = ref [] in
      let rec loop () = skip (); if !pos >= n then failwith "eof" else if s.[!pos] = ')' then incr pos else (items := one () :: !items; loop ()) in
      loop (); Lst (List.rev !items)
    end else if s.[!pos] = 'x' then begin
      incr pos;
      let buf = ref [] in
      while !pos + 1 < n && s.[!pos] <> ' ' && s.[!pos] <> ')' && s.[!pos] <> '(' do
        buf := Char.chr (hexv s.[!pos] * 16 + hexv s.[!pos+1]) :: !buf; pos := !pos + 2
      done;
      Atom (List.rev !buf)
    end else failwith "syntax"
  in one ()
let rec print (b : Buffer.t) (x : sexp) : unit =
  match x with
  | Atom cs -> Buffer.add_char b 'x'; List.iter (fun c -> Buffer.add_string b (Printf.sprintf "%02x" (Char.code c))) cs
  | Lst l -> Buffer.add_char b '('; List.iteri (fun i y -> if i > 0 then Buffer.add_char b ' '; print b y) l; Buffer.add_char b ')'
let () =
  try while true do
    let line = input_line stdin in
    let b = Buffer.create 256 in
    (try print b (run (parse line)) with Failure m -> Buffer.add_string b ("!" ^ m) | Stack_overflow -> Buffer.add_string b "!stack");
    print_endline (Buffer.contents b)
  done with End_of_file -> ()
