"""C19 - parsing leaves the input directory as it found it, even when it fails."""
import os, shutil, hashlib, json
import vlib, docs, inject
from vlib import Sym

def snapshot(d):
    return {n: hashlib.sha256(open(os.path.join(d, n), "rb").read()).hexdigest() for n in sorted(os.listdir(d))}

def result_header(res):
    """what a parse result says about the documents' headers: namespace list and models"""
    return [list(res["namespaces"]), [[m.get("uri"), m.get("version"), m.get("publication_date"), [[r.get("uri"), r.get("version")] for r in m.get("required_models", [])]] for m in res["models"]]]

def write_docs(d, files):
    os.makedirs(d, exist_ok=True)
    for name, text in files: open(os.path.join(d, name), "w", encoding="utf-8").write(text)

def parse_dir(d, names, k=None, observe=None, namespaces=None, base=False):
    """parse with a failure injected at the k-th operation; returns (outcome, trace, fired).
    observe: called at the moment the call has returned or raised - inside the handler, while the exception (and with it the frames of the failed
    call) is still alive, which is when a caller's own except clause looks at the directory"""
    from opcua_tools.nodeset_parser import parse_xml_files
    tr = inject.Tracer(k, base)
    with inject.intercepted(tr):
        try:
            res = parse_xml_files([os.path.join(d, n) for n in names]) if namespaces is None else parse_xml_files([os.path.join(d, n) for n in names], list(namespaces))
            if observe: observe()
            out = ["ok", result_header(res)]
        except BaseException as e:
            if observe: observe()
            out = ["err", type(e).__name__]
    return out, tr.trace, tr.fired

def nlines_of(doc):
    return 1 + (doc.get("uris") is not None) + (doc.get("models") is not None) + (doc.get("aliases") is not None)

def model_index(trace_prefix, n):
    """model fault index of the operation that follows the given trace of ONE file's call (finally ops excluded)"""
    # exists, iterparse, isfile, ETparse, open-w, (dumps, write)*n, close-w, open-r, readlines, loads*n, [fin], body
    labels = [l for l, fin in trace_prefix if not fin]
    k = 0; writes = 0; loads = 0
    for l in labels:
        pass
    return None

def expected_positions(n):
    """label sequence of a failure-free call with n header lines and, for each faultable operation, its model index"""
    seq = [("exists", 0), ("iterparse", 1), ("isfile", 2), ("ETparse", 3), ("open-w", 4)]
    for i in range(n): seq += [("dumps", 5 + i), ("write", 5 + i)]
    seq += [("close-w", 5 + n), ("open-r", 6 + n), ("readlines", 7 + n)]
    for i in range(n): seq += [("loads", 8 + n + i)]
    seq += [("body", 9 + 2 * n)]
    return seq

def make_sets(ctx):
    rng = ctx.rng
    sets = []
    combos = [(True, True, True), (True, True, False), (True, False, True), (False, True, False), (True, False, False)]
    for i, (wu, wm, wa) in enumerate(combos if not ctx.quick() else combos[:3]):
        a = docs.simple_doc(rng, "urn:a%d" % i, with_uris=wu, with_models=wm, with_aliases=wa)
        b = docs.simple_doc(rng, "urn:b%d" % i, extra_uris=["urn:a%d" % i] if wu else [], with_uris=True)
        # file names are data too: one set is named with the characters a shell pattern gives a meaning to
        sets.append(dict(files=[("a.xml", a), ("b.xml", b)] if i != 1 else [("a plant[rev2].xml", a), ("b*?.xml", b)], bad=None))
    sets.append(dict(files=[("only [a-z].xml", docs.simple_doc(rng, "urn:only"))], bad=None))
    sets.append(dict(files=[("a.xml", docs.simple_doc(rng, "urn:via")), ("b.xml", docs.simple_doc(rng, "urn:via2", n_nodes=2))], bad=None, via="symlink"))
    sets.append(dict(files=[("a.xml", docs.simple_doc(rng, "urn:ok")), ("b.xml", docs.simple_doc(rng, "urn:badalias", bad="alias"))], bad="alias"))
    sets.append(dict(files=[("a.xml", docs.simple_doc(rng, "urn:badnode", bad="nodeid"))], bad="nodeid"))
    sets.append(dict(files=[("a.xml", docs.simple_doc(rng, "urn:ok2")), ("b.xml", "<UANodeSet><broken")], bad="xml"))
    return sets

def run_case(ctx, work, s, k, edit_target=0, base=False):
    """one fault point of one document set: implementation run, then edit -> parse again"""
    d = os.path.join(work, "case"); shutil.rmtree(d, ignore_errors=True)
    dp = d                                             # the spelling of the directory that the caller passes
    if s.get("via") == "symlink":
        # the files are reached through <link>/../case where <link> points into another directory: the path names the files only when the link is followed
        for sub in ("store", "proj"): shutil.rmtree(os.path.join(work, sub), ignore_errors=True)
        d = os.path.join(work, "store", "case"); os.makedirs(os.path.join(work, "store", "v1")); os.makedirs(os.path.join(work, "proj"))
        os.symlink(os.path.join("..", "store", "v1"), os.path.join(work, "proj", "current"))
        dp = os.path.join(work, "proj", "current", "..", "case")
    files = [(n, doc if isinstance(doc, str) else docs.render(doc, ctx.rng)) for n, doc in s["files"]]
    write_docs(d, files); names = [n for n, _ in files]
    before = snapshot(d)
    seen = []
    out, trace, fired = parse_dir(dp, names, k, observe=lambda: seen.append(snapshot(d)), base=base)
    after = snapshot(d)
    if seen and seen[0] != before: after = seen[0]          # what the directory looked like when the call returned / raised
    # edit the first file to another namespace and parse again, without faults
    n0, doc0 = s["files"][edit_target]
    edited = docs.simple_doc(ctx.rng, "urn:edited", n_nodes=2)
    open(os.path.join(d, n0), "w", encoding="utf-8").write(docs.render(edited, ctx.rng))
    leftovers = [n for n in os.listdir(d) if n not in names]
    out2, _, _ = parse_dir(dp, names, None)
    # reference: the same edited set parsed in a clean directory
    d2 = os.path.join(work, "ref"); shutil.rmtree(d2, ignore_errors=True)
    write_docs(d2, [(n, open(os.path.join(d, n), encoding="utf-8").read()) for n in names])
    ref, _, _ = parse_dir(d2, names, None)
    return dict(out=out, trace=trace, fired=fired, before=before, after=after, leftovers=leftovers, out2=out2, ref=ref, after2=sorted(os.listdir(d)), names=names)

def plain_outcome(ctx, work, s):
    """the same document set parsed without any interception"""
    from opcua_tools.nodeset_parser import parse_xml_files
    d = os.path.join(work, "plain"); shutil.rmtree(d, ignore_errors=True)
    files = [(n, doc if isinstance(doc, str) else docs.render(doc, ctx.rng)) for n, doc in s["files"]]
    write_docs(d, files)
    try: parse_xml_files([os.path.join(d, n) for n, _ in files]); return ["ok"]
    except BaseException as e: return ["err", type(e).__name__]

def run_filtered_case(ctx, work):
    """a parse of two files WITH a namespace list fails in the first file; both files are then replaced (the first repaired, the second now another
    namespace) and the same paths are parsed again with the matching list: the result must be that of a parse of the same bytes in a fresh place"""
    from docs import UA
    d = os.path.join(work, "fcase"); shutil.rmtree(d, ignore_errors=True)
    bad = docs.render(docs.simple_doc(ctx.rng, "urn:fa", bad="nodeid"), ctx.rng); good_b = docs.render(docs.simple_doc(ctx.rng, "urn:fb", n_nodes=2), ctx.rng)
    write_docs(d, [("a.xml", bad), ("b.xml", good_b)]); names = ["a.xml", "b.xml"]
    before = snapshot(d); seen = []
    out, _, _ = parse_dir(d, names, None, observe=lambda: seen.append(snapshot(d)), namespaces=[UA, "urn:fa", "urn:fb"])
    after = seen[0] if seen and seen[0] != before else snapshot(d)
    new_a = docs.render(docs.simple_doc(ctx.rng, "urn:fa", n_nodes=2), ctx.rng); new_b = docs.render(docs.simple_doc(ctx.rng, "urn:fb2", n_nodes=3), ctx.rng)
    write_docs(d, [("a.xml", new_a), ("b.xml", new_b)])
    out2, _, _ = parse_dir(d, names, None, namespaces=[UA, "urn:fa", "urn:fb2"])
    d2 = os.path.join(work, "fref"); shutil.rmtree(d2, ignore_errors=True); write_docs(d2, [("a.xml", new_a), ("b.xml", new_b)])
    ref, _, _ = parse_dir(d2, names, None, namespaces=[UA, "urn:fa", "urn:fb2"])
    return dict(out=out, trace=[], fired=None, before=before, after=after, leftovers=[], out2=out2, ref=ref, after2=sorted(os.listdir(d)), names=names)

def judge_case(r):
    fails = []
    if r["after"] != r["before"]:
        extra = sorted(set(r["after"]) - set(r["before"]))
        changed = sorted(n for n in r["before"] if r["after"].get(n) != r["before"][n])
        if changed: fails.append(("C19/input-modified", "input files changed: %r" % changed))
        if extra: fails.append(("C19/side-file-left", "helper files left after the call (fault at %r): %r" % (r["fired"], extra)))
    if r["out2"] != r["ref"]:
        fails.append(("C19/stale-data", "after fail -> edit -> parse the result is %r, a clean parse gives %r" % (r["out2"], r["ref"])))
    if r["after2"] != sorted(r["names"]):
        fails.append(("C19/side-file-left", "helper files after the second parse: %r" % r["after2"]))
    return fails

def check(ctx):
    ctx.rule = ("fault enumeration: for small document sets (1-2 files; with/without NamespaceUris, Models, Aliases; one with a malformed alias, one with a malformed NodeId, "
                "one ill-formed file) a failure is injected at EVERY intercepted operation of the parse (exists, iterparse, isfile, ET.parse, open, json.dumps, write, close, open, "
                "readlines, json.loads, element batch), one run per fault point, followed by edit -> parse again; directory listing and SHA-256 of every file before/after. "
                "Distinct by (document set, fault index); non-trivial when the fault lands after the side file was created.")
    ctx.trusted = ["hand-written Gallina model coq/M_C19.v of the side-file protocol (one pc per intercepted operation); the file system is abstract: a file is its header, a side file is partial or full",
                   "faults are injected by replacing os/open/json/ET inside opcua_tools.nodeset_parser and opcua_tools.json_parser.parse with proxies (no source hook); "
                   "OS-level failures inside lxml or the interpreter other than at these calls are not exhibited",
                   "the two operations of the finally block are not failed (the property excludes the deletion of the helper file itself)",
                   "extraction + driver.ml, cross-checked against vm_compute on a sample"]
    work = os.path.join(vlib.WORK, "c19_%d" % os.getpid()); os.makedirs(work, exist_ok=True)
    reqs = []; meta = []
    try:
        rf = run_filtered_case(ctx, work)
        ctx.record(dict(set="filtered", files=["a.xml", "b.xml"], bad="nodeid", fault=None), True, ["filtered-parse", "bad=nodeid"])
        if rf["out"][0] != "err": ctx.disagree("trace", dict(set="filtered"), rf["out"][:1], ["err"])
        for sig, detail in judge_case(rf): ctx.fail(sig, dict(kind="filtered"), detail)
        for si, s in enumerate(make_sets(ctx)):
            # failure-free trace first
            r0 = run_case(ctx, work, s, None)
            total = sum(1 for l, fin in r0["trace"] if not fin)
            # the interception must carry the code: the failure-free run under the proxies ends as the plain call on the same files does
            plain = plain_outcome(ctx, work, s)
            if r0["out"][:2] != plain[:2] and not (r0["out"][0] == "ok" and plain[0] == "ok"):
                ctx.disagree("trace", dict(set=si, k=None), r0["out"][:2], plain[:2])
            for k in [None] + list(range(total + 1)):
                # every second fault of the first two sets is an interruption that is not an Exception (KeyboardInterrupt, SystemExit, a timeout of the test runner)
                r = r0 if k is None else run_case(ctx, work, s, k, base=(si < 2 and k % 2 == 1))
                # which file / which model index
                if k is None or r["fired"] is None:
                    fileidx, mk = None, None
                else:
                    pos = 0; fileidx = -1; local = []
                    for l, fin in r["trace"]:
                        if l == "exists": fileidx += 1; local = []
                        local.append((l, fin))
                    doc = s["files"][fileidx][1]
                    n = nlines_of(doc) if not isinstance(doc, str) else 0
                    faultable = [l for l, fin in local if not fin]
                    exp = expected_positions(n)
                    j = len(faultable) - 1
                    mk = exp[j][1] if j < len(exp) and exp[j][0] == faultable[j] else None
                    if mk is None:
                        ctx.disagree("trace", dict(set=si, k=k), faultable, [e[0] for e in exp]); continue
                    reqs.append([Sym("c19_call"), [mk], True, [[0, 1]], [], 0, n])
                    meta.append((si, k, fileidx, r))
                created = any(l == "open-w" for l, fin in r["trace"])
                ctx.record(dict(set=si, files=[n for n, _ in s["files"]], bad=s["bad"], fault=k, fired=r["fired"]), bool(k is not None and created),
                           ["fault@" + str(r["fired"]), "bad=" + str(s["bad"])])
                for sig, detail in judge_case(r): ctx.fail(sig, dict(kind="fault", set=si, k=k, bad=s["bad"]), detail)
    finally:
        shutil.rmtree(work, ignore_errors=True)
    ans = vlib.run_model(reqs)
    for (si, k, fileidx, r), a in zip(meta, ans):
        a = vlib.untext(a)
        model_side_left = a[0] != []; model_failed = a[1][0] == "failed"
        impl_left = bool(set(r["after"]) - set(r["before"])); impl_failed = r["out"][0] == "err"
        if (model_side_left, model_failed) != (impl_left, impl_failed):
            ctx.disagree("fault-outcome", dict(set=si, k=k, fired=r["fired"]), [impl_left, impl_failed], [model_side_left, model_failed])
    pick = list(range(min(30, len(reqs))))
    ctx.crosscheck = vlib.coq_crosscheck([reqs[i] for i in pick], [ans[i] for i in pick], "c19")
    ctx.exhaustive = True
    ctx.notes["fault_points"] = len(reqs)

def planted_case():
    """a side file planted next to the input is trusted"""
    import random
    rng = random.Random(1)
    work = os.path.join(vlib.WORK, "c19p_%d" % os.getpid()); shutil.rmtree(work, ignore_errors=True); os.makedirs(work)
    try:
        from opcua_tools.json_parser.parse import pre_process_xml_to_json
        old = docs.simple_doc(rng, "urn:old"); new = docs.simple_doc(rng, "urn:new")
        p = os.path.join(work, "a.xml")
        open(p, "w").write(docs.render(old, rng)); pre_process_xml_to_json(p)
        open(p, "w").write(docs.render(new, rng))
        out, _, _ = parse_dir(work, ["a.xml"], None)
        return out[0] == "ok" and "urn:old" in out[1][0]
    finally:
        shutil.rmtree(work, ignore_errors=True)

def oracle_case(case):
    if case.get("kind") == "planted":
        return [("C19/preexisting-side-file", "a pre-existing a.xml_parsed.json is used instead of the current a.xml")] if planted_case() else []
    if case.get("kind") == "fault-old":
        import random
        class C: pass
        c = C(); c.rng = random.Random(3)
        work = os.path.join(vlib.WORK, "c19o_%d" % os.getpid()); os.makedirs(work, exist_ok=True)
        try:
            s = dict(files=[("a.xml", docs.simple_doc(c.rng, "urn:badalias", bad="alias"))], bad="alias")
            return judge_case(run_case(c, work, s, None))
        finally:
            shutil.rmtree(work, ignore_errors=True)
    return []
