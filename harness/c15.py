"""C15 - queries and writes leave the graph unchanged; results do not depend on history."""
import os, io, copy, shutil, hashlib
import pandas as pd
import vlib, docs, nsgen, parsecmp, parseprops, graphprops, writeprops, uaconv
from vlib import Sym

def cell(x):
    if parsecmp.isna(x): return "<NA>"
    return repr(x)
def snap_frame(df):
    return dict(columns=[str(c) for c in df.columns], dtypes=[str(t) for t in df.dtypes], index=[repr(i) for i in df.index],
                cells=[[cell(v) for v in row] for row in df.itertuples(index=False, name=None)])
def snapshot(G):
    return dict(nodes=snap_frame(G.nodes), references=snap_frame(G.references), namespaces=list(G.namespaces), models=copy.deepcopy(G.models))
def diff_snap(a, b):
    for part in ("nodes", "references"):
        for k in ("columns", "dtypes", "index", "cells"):
            if a[part][k] != b[part][k]:
                if k == "dtypes": return "%s.%s: %r" % (part, k, [(c, x, y) for c, x, y in zip(a[part]["columns"], a[part]["dtypes"], b[part]["dtypes"]) if x != y][:3])
                return "%s.%s changed" % (part, k)
    if a["namespaces"] != b["namespaces"]: return "namespaces: %r -> %r" % (a["namespaces"], b["namespaces"])
    if a["models"] != b["models"]: return "models: %r -> %r" % (a["models"], b["models"])
    return None

def canon_out(x):
    if isinstance(x, pd.DataFrame): return ["frame", snap_frame(x.reset_index(drop=True))["cells"], [str(c) for c in x.columns]]
    if isinstance(x, pd.Series): return ["series", [cell(v) for v in x]]
    return ["value", repr(x)]

def cyclic(edges):
    """does the directed graph have a cycle (the walks of find_relatives without a cut-off never end on one)"""
    adj = {}
    for a, b in edges: adj.setdefault(a, []).append(b)
    state = {}
    for s in list(adj):
        if s in state: continue
        stack = [(s, iter(adj.get(s, [])))]; state[s] = 1
        while stack:
            n, it = stack[-1]
            for m in it:
                if state.get(m) == 1: return True
                if m not in state: state[m] = 1; stack.append((m, iter(adj.get(m, [])))); break
            else: state[n] = 2; stack.pop()
    return False

def xmlns_write(GG, uri):
    """the second public way to write a namespace: opcua_tools.create_nodeset2_file on the graph's tables, here with the caller's own xmlns declarations"""
    from opcua_tools.nodeset_generator import create_nodeset2_file
    s = io.StringIO()
    create_nodeset2_file(nodes=GG.nodes.copy(), references=GG.references, models=GG.models, namespaces=list(GG.namespaces), serialize_namespace=GG.namespaces.index(uri),
                         filename_or_stringio=s, xmlns_dict={"xsd": "http://www.w3.org/2001/XMLSchema", None: "http://opcfoundation.org/UA/2011/03/UANodeSet.xsd", "vendor": "urn:vendor:tool"},
                         last_modified=writeprops.T0, publication_date=writeprops.T0)
    return s.getvalue()

def operations(rng, G, g, prev=()):
    """a random read-only operation as (name, thunk)"""
    from opcua_tools import navigation as nav
    uris = [u for u in g.uris if u in G.namespaces]
    names = sorted(set(G.nodes["BrowseName"]))
    objs = sorted(set(G.nodes.loc[G.nodes["NodeClass"] == "UAObject", "BrowseName"]))
    k = rng.choice(["write", "write", "write", "norm_nodes", "norm_refs", "lookup", "lookup", "typed_lookup", "typed_lookup", "closure", "relatives", "paths", "neighbours", "circular", "instances", "browsenames", "classes", "selector", "subtypes", "write_xmlns"])
    uri = rng.choice(uris)
    if k == "write":
        inc = rng.random() < 0.6; nv = rng.choice([None, None, "7.7.7", "8.0"])
        to_file = rng.random() < 0.3          # the target type of the output: a path (the same path every time, so an earlier document stands there) or a StringIO
        def f():
            if to_file:
                pth = os.path.join(vlib.WORK, "c15_out_%d.xml" % os.getpid())
                G.write_nodeset(pth, uri, include_outgoing_instance_level_references=inc, last_modified=writeprops.T0, publication_date=writeprops.T0, new_model_version=nv)
                return open(pth, encoding="utf-8").read()
            s = io.StringIO(); G.write_nodeset(s, uri, include_outgoing_instance_level_references=inc, last_modified=writeprops.T0, publication_date=writeprops.T0, new_model_version=nv); return s.getvalue()
        return ("write", uri, inc, nv, "file" if to_file else "stringio"), f
    if k == "write_xmlns":
        u1 = G.namespaces[1] if len(G.namespaces) > 1 and G.namespaces[1] in uris else None
        if u1 is None: return operations(rng, G, g, prev)
        return ("write_xmlns", u1), lambda: xmlns_write(G, u1)
    if k == "norm_nodes": u = rng.choice([None, uri]); return ("norm_nodes", u), lambda: G.get_normalized_nodes_df(u)
    if k == "norm_refs": u = rng.choice([None, uri]); return ("norm_refs", u), lambda: G.get_normalized_references_df(u)
    # look-ups prefer names that several nodes carry and the name an earlier look-up used: an answer must not depend on what was asked before
    multi = sorted(set(n for n in names if (G.nodes["BrowseName"] == n).sum() > 1))
    last = [h[1] for h in prev if h[0] in ("lookup", "typed_lookup")]
    def pick_name(extra):
        c = rng.random()
        if last and c < 0.5: return last[-1]
        if multi and c < 0.8: return rng.choice(multi)
        return rng.choice(names + extra)
    if k == "lookup":
        nm = pick_name(["Absent"]); return ("lookup", nm), lambda: G.nodeid_by_browsename(nm)
    if k == "typed_lookup":
        nm = pick_name([]); fn = rng.choice(["object_by_browsename", "object_type_by_browsename", "data_type_by_browsename", "reference_type_by_browsename", "variable_type_by_browsename"])
        return ("typed_lookup", nm, fn), lambda: getattr(G, fn)(nm)
    if k == "closure": return ("closure",), lambda: nav.fast_transitive_closure(G.references[G.references["Src"] != G.references["Trg"]])
    if k == "relatives":
        cut = rng.choice([None, 1, 2]); keep = rng.random() < 0.5
        hs = G.references[G.references["ReferenceType"] == G.reference_type_by_browsename("HasSubtype")]
        if cut is None and cyclic(zip(hs["Src"], hs["Trg"])): cut = 2
        return ("relatives", cut, keep), lambda: nav.find_relatives(G.nodes[["id"]].head(3), "id", hs, "descendant", cutoff=cut, keep_paths=keep)
    if k == "paths":
        root = rng.choice(objs) if objs else "Objects"
        try:
            tys = [G.reference_type_by_browsename(n) for n in ("HasComponent", "Organizes")]
            pr = G.references[G.references["ReferenceType"].isin(tys)]
            if cyclic(zip(pr["Src"], pr["Trg"])): return operations(rng, G, g, prev)       # the walk would never end: another operation instead
        except Exception: pass
        return ("paths", root), lambda: G.create_node_paths_by_reference_types(root, ["HasComponent", "Organizes"])
    if k == "neighbours":
        i = int(rng.choice(list(G.nodes["id"]))); rel = rng.choice(["outgoing", "incoming"])
        return ("neighbours", i, rel), lambda: G.get_neighboring_nodes_by_id(i, rel)
    if k == "circular": return ("circular", uri), lambda: G.find_circular_reference_nodes(uri)
    if k == "instances": return ("instances",), lambda: G.get_instances_with_type_info()
    if k == "browsenames":
        c = rng.choice(["UAObject", "UAVariable", "UADataType"]); n = rng.choice([None, 0, 1])
        return ("browsenames", c, n), lambda: G.get_browsenames_for_nodeclass(c, n)
    if k == "classes": return ("classes",), lambda: G.get_nodes_classes()
    if k == "selector":
        fn = rng.choice(["hierarchical_references", "non_hierarchical_references", "has_property_references", "hierarchical_references_trg_has_no_modelling_rule"])
        return ("selector", fn), lambda: (getattr(nav, fn)(G.references, G.references, G.nodes) if fn != "hierarchical_references_trg_has_no_modelling_rule" else getattr(nav, fn)(references=G.references, type_references=G.references, type_nodes=G.nodes))
    if k == "subtypes":
        t = G.reference_type_by_browsename("HierarchicalReferences")
        return ("subtypes",), lambda: nav.subtypes_of_nodes([t], G.nodes, G.references)

import re, random
NOWRE = re.compile(r'PublicationDate="\d{4}-\d\d-\d\dT\d\d:\d\d:\d\d\.\d{6}\+00:00"')
def run_op(thunk):
    try:
        r = thunk()
        if isinstance(r, str): r = NOWRE.sub('PublicationDate="NOW"', r)      # datetime.now() for a required model without a date
        return ["ok", canon_out(r)]
    except BaseException as e: return ["err", type(e).__name__]

FRESH_PROCESS = r"""
import sys, io, json, datetime
from opcua_tools.ua_graph import UAGraph
paths, uri, inc = json.loads(sys.argv[1])
G = UAGraph.from_file_list(paths)
T0 = datetime.datetime(2024, 1, 2, 3, 4, 5, tzinfo=datetime.timezone.utc)
s = io.StringIO(); G.write_nodeset(s, uri, include_outgoing_instance_level_references=inc, last_modified=T0, publication_date=T0)
sys.stdout.write(s.getvalue())
"""
def fresh_process_write(paths, uri, inc):
    """the document a NEW interpreter writes for this namespace of these files: nothing any earlier call left in this process can reach it"""
    import subprocess, sys, json
    p = subprocess.run([sys.executable, "-W", "ignore", "-c", FRESH_PROCESS, json.dumps([list(paths), uri, bool(inc)])], capture_output=True, text=True, timeout=600,
                       env=dict(os.environ))
    return ["ok", NOWRE.sub('PublicationDate="NOW"', p.stdout)] if p.returncode == 0 else ["err"]

def check(ctx):
    rng = ctx.rng
    ctx.rule = ("histories of 4-8 (quick) / up to 40 (thorough) read-only operations on real graphs built from generated document sets: write_nodeset with every argument choice "
                "(namespace, outgoing-reference switch, new model version, output to a path or to a StringIO) and through create_nodeset2_file with own xmlns declarations, normalised tables (whole / per namespace), look-ups, closure, relatives, node paths, neighbours, circular references, "
                "instances, selectors, subtypes; after EVERY step the graph (cell values, dtypes, index, column order, namespaces, models) is compared with its snapshot, and every result with the "
                "result of the same operation on a freshly built graph. Distinct by SHA-256 of the history; non-trivial when the history has at least two different kinds of operation.")
    ctx.trusted = ["hand-written Gallina model coq/M_C15.v: a state machine over the graph object in which write_nodeset's result is the writer model's document (tied to the code by C06's correspondence) "
                   "and the aliasing of the code before the repairs (model dict mutated, ns column re-assigned) is a parameter",
                   "deep snapshots use repr() of every cell; object identity of cells is not compared",
                   "extraction + driver.ml, cross-checked against vm_compute on a sample"]
    work = os.path.join(vlib.WORK, "c15_%d" % os.getpid())
    reqs = []; meta = []
    try:
        # a graph one of whose references has a type that no loaded document defines (a companion specification that was not loaded): writes with both
        # settings of the switch must leave the graph as it is.  Snapshot comparison only - the writer model has no name for a type that is no node.
        g0 = nsgen.gen_graph(random.Random(11), n_ns=1, n_nodes=0, hostile=False, with_values=False, dangling=False)
        ks_ = []
        for j in range(3):
            k_ = (g0.uris[0], "i", str(200 + j)); g0.nodes[k_] = dict(cls="UAObject", bname=(g0.uris[0], "U%d" % j), display="U%d" % j, desc=None, attrs={}, value=None); g0.order.append(k_); ks_.append(k_)
            g0.refs.append(((nsgen.UA, "i", "85"), k_, (nsgen.UA, "i", "35")))
        g0.refs.append((ks_[0], ks_[1], (g0.uris[0], "i", "9999"))); g0.refs.append((ks_[1], ks_[2], (g0.uris[0], "i", "9998")))
        files0 = [(n, docs.render(d, random.Random(11))) for n, d, _ in nsgen.serialise(g0, random.Random(11), aliases=False)]
        st0, G0 = graphprops.build(graphprops.write_files(work, files0))
        if G0 is not None:
            snap0 = snapshot(G0); hist0 = []
            for inc0 in (True, False, True):
                try:
                    s_ = io.StringIO(); G0.write_nodeset(s_, g0.uris[0], include_outgoing_instance_level_references=inc0, last_modified=writeprops.T0, publication_date=writeprops.T0)
                except BaseException: pass
                hist0.append(["write", g0.uris[0], str(inc0), "None"])
                d0 = diff_snap(snap0, snapshot(G0))
                if d0: ctx.fail("C15/graph-changed:write", dict(kind="history", files=files0, history=list(hist0)), "after %r: %s" % (hist0[-1], d0)); break
            ctx.record(dict(case="undefined-reference-type", history=hist0), True, ["write"])
        for ci in range(12 if ctx.quick() else 120):
            vlib.pandas_mode(ci)
            if ci == 0:
                # fixed first case: two non-base namespaces that refer to each other, exported one after the other (independent of the seed)
                for fs in range(200):
                    frng = random.Random(1500 + fs)
                    def zeros(g_):
                        # equal-but-distinct values in different namespaces: what one write leaves behind must not colour the next
                        from opcua_tools import ua_data_types as T
                        for u_, v_ in zip(g_.uris, [T.UADouble(0.0), T.UADouble(-0.0), T.UAFloat(-0.0)]):
                            k_ = (u_, "s", "Zero"); g_.nodes[k_] = dict(cls="UAVariable", bname=(u_, "Zero"), display="Zero", desc=None, attrs={}, value=v_); g_.order.append(k_)
                            g_.refs.append(((nsgen.UA, "i", "85"), k_, (nsgen.UA, "i", "35")))
                        # the first namespace requires the base model without saying which version or date; the base document has a model that says both
                        g_.models[g_.uris[0]]["required"] = [dict(uri=nsgen.UA, version=None, pubdate=None)] + [r_ for r_ in g_.models[g_.uris[0]]["required"] if r_["uri"] != nsgen.UA]
                        g_.base_model = True
                    g, ds = writeprops.make_graph(frng, True, hostile=False, clash=False, extra=zeros)
                    if any(a[0] != b[0] and a[0] in g.uris and b[0] in g.uris and a in g.nodes and b in g.nodes for a, b, _ in g.refs): break
            elif ci == 1:
                # fixed second case: a graph of objects only - no node has a DataType, ParentNodeId or MethodDeclarationId, so the node table lacks those columns
                g = nsgen.gen_graph(random.Random(7), n_ns=1, n_nodes=0, hostile=False, with_values=False, dangling=False)
                prev_ = (nsgen.UA, "i", "85")
                for j in range(4):
                    k_ = (g.uris[0], "i", str(100 + j)); g.nodes[k_] = dict(cls="UAObject", bname=(g.uris[0], "Obj%d" % j), display="Obj%d" % j, desc=None, attrs={}, value=None); g.order.append(k_)
                    g.refs.append((prev_, k_, (nsgen.UA, "i", "35"))); prev_ = k_
                ds = nsgen.serialise(g, random.Random(7), aliases=False)
            else:
                g, ds = writeprops.make_graph(rng, True, hostile=rng.random() < 0.5, clash=rng.random() < 0.7)
            files = [(n, docs.render(d, rng)) for n, d, _ in ds]
            paths = graphprops.write_files(work, files)
            st, G = graphprops.build(paths)
            if G is None or not [u for u in g.uris if u in G.namespaces]: continue
            pristine = copy.deepcopy(G)            # never operated on: every comparison run starts from a copy of it
            s0 = snapshot(G)
            tables = writeprops.graph_tables(G)
            hist = []
            n_ops = rng.randint(4, 8) if ctx.quick() else rng.randint(5, 40)
            state = rng.getstate()
            # a fixed opening when some browse name is carried by nodes of several classes: the typed look-up that succeeds, then the untyped one
            TYPED = {"UAObject": "object_by_browsename", "UAObjectType": "object_type_by_browsename", "UADataType": "data_type_by_browsename",
                     "UAReferenceType": "reference_type_by_browsename", "UAVariableType": "variable_type_by_browsename"}
            opening = []
            byname = {}
            for nm_, cl_ in zip(G.nodes["BrowseName"], G.nodes["NodeClass"]): byname.setdefault(nm_, []).append(cl_)
            for nm_, cls_ in sorted(byname.items()):
                if len(set(cls_)) > 1:
                    one = [c for c in sorted(set(cls_)) if c in TYPED and cls_.count(c) == 1]
                    if one: opening = [("typed_lookup", nm_, TYPED[one[0]]), ("lookup", nm_)]; break
            # exporting a graph: every namespace written one after the other, in table order and (every second case) back again
            wuris = [u for u in G.namespaces[1:] if u in g.uris]
            if len(wuris) >= 2 and ci % 2 == 0:
                opening = opening + [("write", u, True, None) for u in wuris] + ([("write", u, False, None) for u in reversed(wuris)] if ci % 4 == 0 else [])
            # the fixed first case starts with a write through create_nodeset2_file that brings its own xmlns declarations
            if ci == 0 and len(G.namespaces) > 1 and G.namespaces[1] in g.uris: opening = [("write_xmlns", G.namespaces[1])] + opening
            # ... then a write that asks for a new model version, of the namespace whose required model is incomplete, and the same write plain
            if ci == 0 and g.uris[0] in G.namespaces: opening = opening[:1] + [("write", g.uris[0], True, "9.9"), ("write", g.uris[0], True, None)] + opening[1:]
            if ci == 1: opening = [("lookup", "Obj1"), ("norm_nodes", None), ("norm_refs", None), ("lookup", "Obj2"), ("norm_nodes", g.uris[0]), ("write", g.uris[0], True, None)] + opening
            for step in range(n_ops + len(opening)):
                st_before = rng.getstate()
                if step < len(opening):
                    od = opening[step]
                    def mk(GG, od=od):
                        if od[0] == "typed_lookup": return lambda: getattr(GG, od[2])(od[1])
                        if od[0] == "write_xmlns": return lambda: xmlns_write(GG, od[1])
                        if od[0] == "write":
                            def f():
                                s_ = io.StringIO(); GG.write_nodeset(s_, od[1], include_outgoing_instance_level_references=od[2], last_modified=writeprops.T0, publication_date=writeprops.T0, new_model_version=od[3]); return s_.getvalue()
                            return f
                        if od[0] == "norm_nodes": return lambda: GG.get_normalized_nodes_df(od[1])
                        if od[0] == "norm_refs": return lambda: GG.get_normalized_references_df(od[1])
                        return lambda: GG.nodeid_by_browsename(od[1])
                    desc, thunk = od, mk(G)
                else: desc, thunk = operations(rng, G, g, list(hist))
                out = run_op(thunk)
                hist.append(desc)
                d = diff_snap(s0, snapshot(G))
                case = dict(kind="history", files=files, history=[list(map(str, h)) for h in hist])
                if d: ctx.fail("C15/graph-changed:" + desc[0], case, "after %r: %s" % (desc, d)); break
                # the same operation on the fresh graph
                rng2_state = rng.getstate(); rng.setstate(st_before)
                # a write is compared with the write of a graph built anew from the files (nothing of this history can have touched it)
                fresh = (graphprops.build(paths)[1] if desc[0] == "write" else None) or copy.deepcopy(pristine)
                if step < len(opening): desc2, thunk2 = desc, mk(fresh)
                else: desc2, thunk2 = operations(rng, fresh, g, list(hist[:-1]))
                rng.setstate(rng2_state)
                out2 = run_op(thunk2)
                if out != out2: ctx.fail("C15/result-depends-on-history:" + desc[0], case, "%r gave a different result after %d earlier operations" % (desc, step))
                # the fixed first case: the writes of the opening sweep are also compared with the write of a fresh interpreter (process-wide state)
                xmlns_pending = any(h[0] == "write_xmlns" for h in hist[:-1]) and not any(h[0] == "write" for h in hist[:-1][max(i_ for i_, h in enumerate(hist[:-1]) if h[0] == "write_xmlns"):])
                if ((ci == 0 and step < len(opening)) or xmlns_pending) and desc[0] == "write" and out[0] == "ok" and desc[3] is None:
                    fp = fresh_process_write(paths, desc[1], desc[2])
                    if fp[0] == "ok" and ["value", repr(fp[1])] != out[1]:
                        ctx.fail("C15/result-depends-on-history:write", case, "%r after %d earlier operations differs from the document a fresh interpreter writes" % (desc, step))
                if desc[0] == "write":
                    reqs.append(writeprops.write_request(tables, desc[1], desc[2], desc[3], "out.xml"))
                    # where the code splices text into markup unescaped (recorded findings of C05-C07) the element-level writer model does not apply
                    unesc = writeprops.write_causes(G, tables, desc[1], out, desc[2]) & {"raw-nodeid-attribute", "quote-in-attribute", "uri-unescaped"}
                    meta.append((ci, desc, out, bool(unesc)))
            kinds = set(h[0] for h in hist)
            ctx.record(dict(case=ci, history=[list(map(str, h)) for h in hist]), len(kinds) >= 2, sorted(kinds))
    finally:
        shutil.rmtree(work, ignore_errors=True)
        try: os.remove(os.path.join(vlib.WORK, "c15_out_%d.xml" % os.getpid()))
        except OSError: pass
    ans = vlib.run_model(reqs, shards=8)
    for (ci, desc, out, unesc), a in zip(meta, ans):
        mo = writeprops.dec_doc(a)
        if mo[0] == "err" and mo[1] == "Unsupported": continue
        if out[0] == "ok":
            try: io_ = ["ok", writeprops.xml_to_docsx(eval(out[1][1]), "out.xml")]
            except Exception: io_ = ["ill-formed"]
        else: io_ = ["err"]
        mm = mo if mo[0] == "ok" else ["err"]
        if not (io_ == mm or (io_[0] == "ok" and mm[0] == "ok" and writeprops.same_doc(io_[1], mm[1]))):
            ctx.disagree("out-of-domain" if unesc else "history-write", dict(case=ci, op=list(map(str, desc))), io_[0], mm[0])
    pick = [i for i in range(len(reqs)) if len(vlib.to_sx(reqs[i])) < 9000][:5]
    ctx.crosscheck = vlib.coq_crosscheck([reqs[i] for i in pick], [ans[i] for i in pick], "c15")

def oracle_case(case):
    """the two repaired defects, replayed on a small graph"""
    work = os.path.join(vlib.WORK, "c15r_%d" % os.getpid())
    try:
        files, uri = writeprops.known_case("flags")
        paths = graphprops.write_files(work, files)
        st, G = graphprops.build(paths)
        s0 = snapshot(G); fails = []
        a = io.StringIO(); G.write_nodeset(a, uri, last_modified=writeprops.T0, publication_date=writeprops.T0)
        b = io.StringIO(); G.write_nodeset(b, uri, last_modified=writeprops.T0, publication_date=writeprops.T0, new_model_version="9.9")
        d = diff_snap(s0, snapshot(G))
        if d and case.get("which") == "version": fails.append(("C15/graph-changed:write", d))
        c = io.StringIO(); G.write_nodeset(c, uri, last_modified=writeprops.T0, publication_date=writeprops.T0)
        if a.getvalue() != c.getvalue() and case.get("which") == "version": fails.append(("C15/result-depends-on-history:write", "plain write differs after a write with new_model_version"))
        e = io.StringIO(); G.write_nodeset(e, uri, include_outgoing_instance_level_references=False, last_modified=writeprops.T0, publication_date=writeprops.T0)
        d = diff_snap(s0, snapshot(G))
        if d and case.get("which") == "dtype": fails.append(("C15/graph-changed:write", d))
        return fails
    finally:
        shutil.rmtree(work, ignore_errors=True)
