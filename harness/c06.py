"""C06 - writer property (shared engine in writeprops.py)."""
import writeprops
def check(ctx):
    ctx.rule = writeprops.RULE; ctx.trusted = list(writeprops.TRUSTED)
    writeprops.run(ctx, "C06")
def oracle_case(case):
    if case.get("kind") == "write-known": return writeprops.write_replay(case, "C06")
    if case.get("kind") in ("write", "roundtrip"): return writeprops.case_replay(case, "C06")
    return []
