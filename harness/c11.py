"""C11 - graph-level property (shared engine in graphprops.py)."""
import graphprops
def check(ctx):
    ctx.trusted = list(graphprops.TRUSTED)
    ctx.rule = "document sets from the shared generator (see evidence of C01) extended for this property; distinct by SHA-256 of the case; non-trivial as recorded per feature"
    graphprops.run_c11(ctx)
def oracle_case(case):
    return graphprops.c11_replay(case)
