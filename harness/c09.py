"""C09 - NodeId text is parsed and printed inversely, for every identifier."""
import itertools, re
import vlib
from vlib import Sym

TYPES = "isgb"
NONASCII = ["é", "ü", "中", "😀", "ß"]          # none of them is a Unicode digit (the model's isdigit is ASCII)

def impl_parse(text, nsmap, amap):
    from opcua_tools.value_parser import parse_nodeid
    from opcua_tools.ua_data_types import UANodeId
    try:
        am = None if amap is None else {k: UANodeId(*v) for k, v in amap}
        n = parse_nodeid(text, dict(nsmap) if nsmap else None, am)
        return ["ok", [n.namespace, n.nodeid_type.value, n.value]]
    except Exception as e:
        return ["err"]

def impl_print(ns, t, v):
    from opcua_tools.ua_data_types import UANodeId
    try:
        return [str(UANodeId(ns, t, v)), True]
    except Exception:
        return [None, False]

def model_parse_req(text, nsmap, amap):
    return [Sym("c09_parse"), text, [list(p) for p in (nsmap or [])], [[k, list(v)] for k, v in (amap or [])]]

def dec_model_parse(a):
    a = vlib.untext(a)
    if a[0] == "ok": return ["ok", [int(a[1][0]), a[1][1], a[1][2]]]
    if a[0] == "err": return ["err"]
    return ["model-failure", a]

GRAMMAR = re.compile(r"(?:ns=(?P<num>[^;]*);)?(?P<t>[isgb])=(?P<v>.*)", re.S)
def oracle_sound(text, out):
    """accepted text must denote what it says (checked with an independent regular expression)"""
    if out[0] != "ok": return None
    ns, t, v = out[1]
    m = GRAMMAR.fullmatch(text)
    if not m: return "accepted text is not a NodeId: %r -> %r" % (text, out[1])
    try: want_ns = int(m.group("num")) if m.group("num") is not None else 0
    except ValueError: return "accepted text has no integer namespace: %r" % text
    if (want_ns, m.group("t"), m.group("v")) != (ns, t, v):
        return "misread: %r -> %r" % (text, out[1])
    return None

def ident_features(v, ns):
    f = []
    if "ns" in v: f.append("ident-contains-ns")
    if ";" in v: f.append("ident-contains-;")
    if "=" in v: f.append("ident-contains-=")
    if any(ord(c) > 127 for c in v): f.append("ident-non-ascii")
    if " " in v: f.append("ident-space")
    if ns != 0: f.append("ns-nonzero")
    return f

def check(ctx):
    rng = ctx.rng
    ctx.rule = ("print/parse stream: every identifier string over {n,s,;,=,1,a} up to length L (L=3 quick, 5 thorough) x namespace {0,1,12} x 4 identifier types, "
                "plus random identifiers with UTF-8, blanks and syntax characters, with and without namespace maps and alias tables; "
                "rejection stream: every text over {n,s,=,;,i,1,x,space} up to length M (M=4 quick, 6 thorough) and random mutations of valid texts. "
                "A case is distinct by SHA-256 of its canonical form and non-trivial when the identifier contains one of ; = n s or a non-ASCII character, "
                "the namespace is non-zero, a map/alias table is involved, or the text is rejected.")
    ctx.trusted = ["hand-written Gallina model coq/M_C09.v of cached_parse_nodeid/parse_nodeid/UANodeId.__str__/__post_init__ (tied to the code by this correspondence run)",
                   "str.isdigit modelled for ASCII only; int() modelled as blanks, sign, ASCII digits with single underscores",
                   "extraction (ExtrOcamlBasic, ExtrOcamlString) + coq/extract/driver.ml, cross-checked against vm_compute on a sample",
                   "identifier given as int (UANodeId(0, NUMERIC, 5)) is outside the property's quantifier (identifier strings)"]
    L = 3 if ctx.quick() else 5
    M = 4 if ctx.quick() else 6
    cases = []   # (kind, payload)
    # ---- stream 1: print then parse, exhaustive small scope
    for n in range(L + 1):
        for tup in itertools.product("ns;=1a", repeat=n):
            v = "".join(tup)
            for ns in (0, 1, 12):
                for t in TYPES:
                    cases.append(("rt", (ns, t, v, None, None)))
    # random identifiers
    alpha = list("ns;=1a0 iNS-_") + NONASCII + ["ns=", ";s=", "ns"]
    for _ in range(400 if ctx.quick() else 20000):
        v = "".join(rng.choice(alpha) for _ in range(rng.randint(0, 12)))
        t = rng.choice(TYPES)
        if t == "i" and rng.random() < 0.7: v = str(rng.choice([0, 1, 7, 10, 2**32, 10**20])) if rng.random() < 0.8 else "0" + v
        ns = rng.choice([0, 0, 1, 2, 12, 255, 65535, 2**40, -1])
        nsmap = None; amap = None
        r = rng.random()
        if r < 0.35:
            nsmap = [(k, rng.randint(0, 20)) for k in rng.sample([0, 1, 2, 3, 12, 255], rng.randint(1, 5))]
        if rng.random() < 0.25:
            amap = [(rng.choice(["HasComponent", "i=5", "ns=1;s=x", "Alias"]) , (rng.randint(0, 9), rng.choice(TYPES), rng.choice(["1", "22", "7"]))) for _ in range(rng.randint(0, 3))]
            amap = list({k: v_ for k, v_ in amap}.items())
        cases.append(("rt", (ns, t, v, nsmap, amap)))
    # ---- stream 2: arbitrary text
    texts = []
    for n in range(M + 1):
        for tup in itertools.product("ns=;i1x ", repeat=n): texts.append("".join(tup))
    base = ["ns=1;i=5", "i=85", "ns=12;s=a;b", "s=ns=3", "ns=3;g=0000", "ns=1;b=QUJD"]
    muts = list("ns=;i1x _+-0") + ["", "ns", "ns=", ";;", " =", "\t", "é"]
    for _ in range(600 if ctx.quick() else 30000):
        s = rng.choice(base)
        for _ in range(rng.randint(1, 3)):
            i = rng.randint(0, len(s)); op = rng.random()
            if op < 0.4: s = s[:i] + rng.choice(muts) + s[i:]
            elif op < 0.7 and s: s = s[:i] + s[i + 1:]
            else: s = s[:i] + rng.choice(muts) + s[i + 1:]
        texts.append(s)
    # a well-formed text followed or preceded by white space, a line end, a tab (none of these is a NodeId)
    for b_ in ("i=35", "ns=2;i=35", "i=0", "ns=1;i=7"):
        for w_ in ("\n", " ", "\r\n", "\t", "\n\n", "\x0b", "\x0c"):        # (ASCII white space: the model's strings are bytes)
            texts += [b_ + w_, w_ + b_, b_.replace("=", "=" + w_, 1)]
    # every prefix and every single-character deletion of well-formed texts of each identifier type (a text cut off after the type letter, without
    # its '=', without its ';', without its namespace number, ...)
    for b_ in base + ["ns=1;s=a", "ns=7;g=x", "ns=2;b=QQ==", "ns=10;i=5", "s=a", "g=x", "b=QQ==", "ns=0;s=", "ns=3;s=="]:
        texts += [b_[:k] for k in range(len(b_))] + [b_[:k] + b_[k + 1:] for k in range(len(b_))]
    for s in texts: cases.append(("txt", s))

    # ---- identifiers outside the model's alphabet (decimal digits of other scripts, which str.isdigit accepts; thousands of digits; very long strings):
    #      judged by the property itself on the implementation - whatever NodeId the constructor accepts is printed and parsed back as itself
    from opcua_tools.ua_data_types import UANodeId as _N
    exotic = [(1, "i", "\uff11\uff12\uff13"), (0, "i", "\u0663\u0664"), (2, "i", "\u0967\u0966"), (1, "i", "9" * 5000), (3, "s", "x" * 70000), (1, "s", "\uff11\uff12\uff13"),
              (1, "g", "\u0663"), (0, "b", "\uff11"), (1, "i", "123"), (1, "s", "\u00b2"), (1, "i", "1" + "0" * 4400)]
    printed_ = {}
    for ns_, t_, v_ in exotic:
        try: n_ = _N(ns_, t_, v_)
        except Exception: continue                      # not a NodeId of the library: nothing to round-trip
        ctx.record(["exotic", ns_, t_, v_[:20], len(v_)], True, ["exotic-identifier", "type-" + t_])
        case_ = dict(kind="exotic", ns=ns_, t=t_, v=v_ if len(v_) < 200 else [v_[0], len(v_)])
        try: txt_ = str(n_)
        except Exception as e_:
            ctx.fail("C09/roundtrip", case_, "printing an accepted NodeId raised %s" % type(e_).__name__); continue
        if txt_ in printed_ and printed_[txt_] != (ns_, t_, v_): ctx.fail("C09/roundtrip", case_, "two different NodeIds print as the same text %r" % txt_[:60])
        printed_[txt_] = (ns_, t_, v_)
        for nm_ in (None, {ns_: ns_ + 5, 0: 0}):
            back_ = impl_parse(txt_, list(nm_.items()) if nm_ else None, None)
            want_ = ["ok", [ns_ if nm_ is None else nm_[ns_], t_, v_]]
            if back_ != want_: ctx.fail("C09/roundtrip", case_, "printed and parsed back as %r" % (str(back_)[:120],))
    # ---- run implementation
    reqs = []; impl = []
    for kind, p in cases:
        if kind == "rt":
            ns, t, v, nsmap, amap = p
            printed, ok = impl_print(ns, t, v)
            impl.append(("print", printed, ok)); reqs.append([Sym("c09_print"), [ns, t, v]])
        else:
            impl.append(("parse", impl_parse(p, None, None))); reqs.append(model_parse_req(p, None, None))
    ans = vlib.run_model(reqs, shards=8)
    # second phase for rt: parse the printed text (as printed by the implementation)
    reqs2 = []; idx2 = []
    for i, (kind, p) in enumerate(cases):
        a = vlib.untext(ans[i])
        if kind == "rt":
            ns, t, v, nsmap, amap = p
            _, printed, ok = impl[i]
            m_printed, m_ok = a[0], a[1] == "true"
            feats = ident_features(v, ns) + ["type-" + t] + (["nsmap"] if nsmap else []) + (["aliases"] if amap else []) + ([] if ok else ["constructor-rejects"])
            ctx.record(["rt", ns, t, v, nsmap, amap], bool(ident_features(v, ns) or nsmap or amap), feats)
            if ok != m_ok or (ok and printed != m_printed):
                ctx.disagree("print", ["rt", ns, t, v], [printed, ok], [m_printed, m_ok]); continue
            if ok:
                reqs2.append(model_parse_req(printed, nsmap, amap)); idx2.append(i)
        else:
            out = impl[i][1]; mo = dec_model_parse(ans[i])
            ctx.record(["txt", p], out[0] == "err" or p.startswith("ns=") , ["text-accepted" if out[0] == "ok" else "text-rejected"])
            if out != mo:
                ctx.disagree("parse-text", ["txt", p], out, mo)
            bad = oracle_sound(p, out)
            if bad: ctx.fail("C09/misread", dict(text=p), bad)
    ans2 = vlib.run_model(reqs2, shards=8)
    for j, i in enumerate(idx2):
        ns, t, v, nsmap, amap = cases[i][1]
        printed = impl[i][1]
        out = impl_parse(printed, nsmap, amap)
        mo = dec_model_parse(ans2[j])
        if out != mo: ctx.disagree("parse-printed", ["rt", ns, t, v, nsmap, amap], out, mo)
        # oracle: the property itself on the implementation
        ad = dict(amap) if amap else {}
        if printed in ad: want = ["ok", list(ad[printed])]; sig = "C09/alias"
        elif nsmap:
            d = dict(nsmap)
            want = ["ok", [d[ns], t, v]] if ns in d else ["err"]; sig = "C09/map"
        else: want = ["ok", [ns, t, v]]; sig = "C09/roundtrip"
        if out != want:
            ctx.fail(sig, dict(ns=ns, type=t, value=v, nsmap=nsmap, amap=amap, printed=printed), "parse(print(n)) = %r, expected %r" % (out, want))
    # extraction cross-check inside Coq on a sample
    k = 60 if ctx.quick() else 300
    pick = sorted(ctx.rng.sample(range(len(reqs)), min(k, len(reqs))))
    ctx.crosscheck = vlib.coq_crosscheck([reqs[i] for i in pick], [ans[i] for i in pick], "c09")
    ctx.exhaustive = True
    ctx.notes["exhaustive_scopes"] = "identifiers <= %d over {n,s,;,=,1,a}; texts <= %d over {n,s,=,;,i,1,x,space}" % (L, M)

def oracle_case(c):
    if "text" in c:
        bad = oracle_sound(c["text"], impl_parse(c["text"], None, None))
        return [("C09/misread", bad)] if bad else []
    printed, ok = impl_print(c["ns"], c["type"], c["value"])
    if not ok: return []
    amap = [(k, tuple(v)) for k, v in c["amap"]] if c.get("amap") else None
    nsmap = [tuple(p) for p in c["nsmap"]] if c.get("nsmap") else None
    out = impl_parse(printed, nsmap, amap)
    ad = dict(amap) if amap else {}
    if printed in ad: want = ["ok", list(ad[printed])]; sig = "C09/alias"
    elif nsmap:
        d = dict(nsmap); want = ["ok", [d[c["ns"]], c["type"], c["value"]]] if c["ns"] in d else ["err"]; sig = "C09/map"
    else: want = ["ok", [c["ns"], c["type"], c["value"]]]; sig = "C09/roundtrip"
    return [(sig, "parse(print(n)) = %r, expected %r" % (out, want))] if out != want else []
