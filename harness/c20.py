"""C20 - concurrent parses do not interfere with each other."""
import os, shutil, threading, itertools, random
import vlib, docs, inject, parsecmp
from vlib import Sym
from c19 import result_header, write_docs, nlines_of, parse_dir, expected_positions

YIELD = {"exists", "isfile", "open-w", "close-w", "open-r", "remove", "body"}

class Scheduler(inject.Hook):
    """turn-based: a thread runs from one yield point to the next only when the controller gives it the turn"""
    def __init__(self, n):
        self.cv = threading.Condition(); self.turn = None; self.waiting = {}; self.done = set(); self.ids = {}; self.n = n
        self.timeout = 20.0
    def register(self, i): self.ids[threading.get_ident()] = i
    def op(self, label, path=None):
        if label not in YIELD: return
        i = self.ids.get(threading.get_ident())
        if i is None: return
        with self.cv:
            self.waiting[i] = label
            if self.turn == i: self.turn = None
            self.cv.notify_all()
            if not self.cv.wait_for(lambda: self.turn == i, timeout=self.timeout): raise RuntimeError("scheduler timeout")
            del self.waiting[i]
    def finish(self, i):
        with self.cv:
            self.done.add(i)
            if self.turn == i: self.turn = None
            self.cv.notify_all()
    def give(self, i):
        """let thread i run one block; returns when it waits again or has finished"""
        with self.cv:
            if i in self.done: return
            self.cv.wait_for(lambda: i in self.waiting or i in self.done, timeout=self.timeout)
            if i in self.done: return
            self.turn = i; self.cv.notify_all()
            self.cv.wait_for(lambda: self.turn is None and (i in self.waiting or i in self.done), timeout=self.timeout)

def whole_result(res):
    """everything a parse call returns, in canonical form: headers, node rows, reference triples, lookup table and ids"""
    return [result_header(res), parsecmp.canon_result(res)]

def run_schedule(d, thread_files, sched, caller=None):
    """thread_files: file name per thread; returns per thread ['ok', result] / ['err', cls]"""
    from opcua_tools.nodeset_parser import parse_xml_files
    n = len(thread_files); S = Scheduler(n); results = [None] * n
    per_thread = isinstance(caller, (tuple, list)) and len(caller) == 2 and caller[0] == "per-thread"
    callers = caller[1] if per_thread else [caller] * n        # ("per-thread", [list or None, ...]): every call has its own namespace list
    def work(i):
        S.register(i)
        try:
            res = parse_xml_files([os.path.join(d, thread_files[i])], None if callers[i] is None else list(callers[i])); results[i] = ["ok", whole_result(res)]
        except BaseException as e:
            results[i] = ["err", type(e).__name__]
        finally:
            S.finish(i)
    with inject.intercepted(S):
        ths = [threading.Thread(target=work, args=(i,), daemon=True) for i in range(n)]
        for t in ths: t.start()
        for i in sched: S.give(i)
        for i in range(n):                      # let everybody finish, one after the other
            for _ in range(40):
                if i in S.done: break
                S.give(i)
        for t in ths: t.join(timeout=30)
    return results

def run_dir_schedule(d, sched, dir_namespaces):
    """call 0 parses a.xml; call 1 parses the DIRECTORY with a namespace list that selects b.xml only, and is not started before it gets its first turn
    (so that it can list the directory while call 0 has its helper file on disk).  Oracle only: the model has no directory listing."""
    from opcua_tools.nodeset_parser import parse_xml_files, parse_xml_dir
    S = Scheduler(2); results = [None, None]
    def work(i):
        S.register(i)
        try:
            if i == 1: S.op("exists")          # wait for the first turn before the directory is listed
            res = parse_xml_files([os.path.join(d, "a.xml")]) if i == 0 else parse_xml_dir(d, list(dir_namespaces))
            results[i] = ["ok", whole_result(res)]
        except BaseException as e:
            results[i] = ["err", type(e).__name__]
        finally:
            S.finish(i)
    with inject.intercepted(S):
        ths = [threading.Thread(target=work, args=(i,), daemon=True) for i in range(2)]
        for t in ths: t.start()
        for i in sched: S.give(i)
        for i in range(2):
            for _ in range(60):
                if i in S.done: break
                S.give(i)
        for t in ths: t.join(timeout=30)
    return results

def solo(d, name, caller=None):
    from opcua_tools.nodeset_parser import parse_xml_files
    return ["ok", whole_result(parse_xml_files([os.path.join(d, name)], None if caller is None else list(caller)))]

BLOCKS = 8
def interleavings(n_threads, blocks):
    counts = [blocks] * n_threads
    def rec(prefix, counts):
        if not any(counts): yield list(prefix); return
        for i in range(len(counts)):
            if counts[i]:
                counts[i] -= 1; prefix.append(i)
                yield from rec(prefix, counts)
                prefix.pop(); counts[i] += 1
    yield from rec([], counts)

CORPUS = [[0,0,0,0,1,1,0,0,0,0,1,1,1,1,1,1], [0,0,0,1,1,1,1,1,1,1,1,0,0,0,0,0], [0,1,0,1,0,1,0,1,0,1,0,1,0,1,0,1], [0,0,1,1,0,0,1,1,0,0,1,1,0,0,1,1]]

def judge(files_doc, thread_files, sched, work, caller=None):
    d = os.path.join(work, "run"); shutil.rmtree(d, ignore_errors=True)
    write_docs(d, [(n, docs.render(doc, random.Random(1))) for n, doc in files_doc])
    per_thread = isinstance(caller, (tuple, list)) and len(caller) == 2 and caller[0] == "per-thread"
    callers = caller[1] if per_thread else [caller] * len(thread_files)
    solo_of = [solo(d, thread_files[i], callers[i]) for i in range(len(thread_files))]
    before = sorted(os.listdir(d))
    res = run_schedule(d, thread_files, sched, caller)
    after = sorted(os.listdir(d))
    out = [["solo"] if res[i] == solo_of[i] else ["bad", res[i][0], res[i][1] if res[i][0] == "err" else "other-data"] for i in range(len(thread_files))]
    fails = []
    same = len(set(thread_files)) < len(thread_files)
    for i, o in enumerate(out):
        if o[0] != "solo":
            fails.append(("C20/same-file" if same and thread_files.count(thread_files[i]) > 1 else "C20/interference",
                          "call %d on %s: %r (lone call returns its own data)" % (i, thread_files[i], o)))
    if after != before: fails.append(("C20/same-file" if same else "C20/interference", "files left behind: %r" % sorted(set(after) - set(before))))
    return out, after != before, fails

def check(ctx):
    rng = ctx.rng
    ctx.rule = ("schedules: interleavings of 2 calls (exhaustive in thorough: all C(16,8)=12870 block interleavings for the distinct-file pair; a seeded sample in quick) and sampled interleavings of 3 calls, "
                "at the granularity of the operations on the shared directory (exists, isfile, open-w, close, open-r+read, finally-isfile, remove, element loop), replayed on the real code by a "
                "deterministic turn-based scheduler; thread sets: two different files, the same file twice, and a,a,b. Distinct by (thread set, schedule); non-trivial when the schedule is not a "
                "concatenation of lone runs.")
    ctx.trusted = ["hand-written Gallina model coq/M_C19.v (shared with C19); a schedule step runs a call to its next operation on the shared directory (run_blocks)",
                   "partial by nature: OS-level atomicity of open/remove, buffered writes becoming visible only at close, the GIL and lxml's thread-safety are outside the model; "
                   "open-for-reading and readlines are scheduled as one step (inode semantics are not modelled)",
                   "the scheduler hooks os/open/json/ET inside the two parser modules (no source hook); process-level concurrency is not exercised",
                   "extraction + driver.ml, cross-checked against vm_compute on a sample"]
    work = os.path.join(vlib.WORK, "c20_%d" % os.getpid()); os.makedirs(work, exist_ok=True)
    da = docs.simple_doc(rng, "urn:a"); db = docs.simple_doc(rng, "urn:b", n_nodes=2, with_aliases=False)
    dc = docs.simple_doc(rng, "urn:c", extra_uris=["urn:a"], n_nodes=2)
    files_doc = [("a.xml", da), ("b.xml", db), ("c.xml", dc)]
    hdr = {"a.xml": 1, "b.xml": 2, "c.xml": 3}; pth = {"a.xml": 0, "b.xml": 1, "c.xml": 2}; nl = {"a.xml": nlines_of(da), "b.xml": nlines_of(db), "c.xml": nlines_of(dc)}
    # the last set gives both calls the caller's namespace list [UA, urn:a, urn:b]: the two files then map the same local index ns=1 to
    # different global indices while spelling their NodeIds alike - the situation in which anything shared between the calls shows
    CALLER = [docs.UA, "urn:a", "urn:b"]
    # ... and two calls on the SAME two-namespace file with different namespace lists: whatever one call leaves for the other must not carry its own list
    sets = [(["a.xml", "b.xml"], None), (["a.xml", "a.xml"], None), (["a.xml", "a.xml", "b.xml"], None), (["a.xml", "b.xml"], CALLER),
            (["c.xml", "c.xml"], ("per-thread", [None, [docs.UA, "urn:a", "urn:c"]]))]
    reqs = []; meta = []
    try:
        # the order of the operations of ONE call is what the model's program counters stand for: a lone call on each file must perform them in
        # the model's order (side file created only after the XML was read, written line by line, closed, read, removed) - the schedules below
        # interleave calls at these points
        d1 = os.path.join(work, "solo"); shutil.rmtree(d1, ignore_errors=True)
        write_docs(d1, [(n, docs.render(doc, random.Random(1))) for n, doc in files_doc])
        for n, doc in files_doc:
            _, tr1, _ = parse_dir(d1, [n], None)
            got1 = [l for l, fin in tr1 if not fin]; want1 = [e[0] for e in expected_positions(nlines_of(doc))]
            ctx.record(dict(case="solo-trace", file=n), True, ["solo-trace"])
            if got1 != want1: ctx.disagree("trace", dict(file=n), got1, want1)
        shutil.rmtree(d1, ignore_errors=True)
        # a directory parse next to a file parse: the directory call lists the directory at every point of the other call's life
        from opcua_tools.nodeset_parser import parse_xml_dir
        d0 = os.path.join(work, "dirrun")
        for k0 in range(0, 10 if ctx.quick() else 14):
            shutil.rmtree(d0, ignore_errors=True)
            write_docs(d0, [(n, docs.render(doc, random.Random(1))) for n, doc in files_doc])
            nsl = [docs.UA, "urn:b"]
            lone = [solo(d0, "a.xml"), ["ok", whole_result(parse_xml_dir(d0, list(nsl)))]]
            sched = [0] * k0 + [1] * 12
            res = run_dir_schedule(d0, sched, nsl)
            left = sorted(set(os.listdir(d0)) - set(n for n, _ in files_doc))
            ctx.record(dict(threads=["a.xml", "dir[urn:b]"], schedule=sched), k0 > 0, ["threads=a.xml,directory", "all-solo" if res == lone else "interference"])
            for i in range(2):
                if res[i] != lone[i]:
                    ctx.fail("C20/interference", dict(kind="dir-schedule", k0=k0), "call %d (%s): %r, the lone call returns its own data" % (i, ["a.xml", "directory"][i], res[i][:2] if res[i][0] == "err" else "other data"))
            if left: ctx.fail("C20/interference", dict(kind="dir-schedule", k0=k0), "files left behind: %r" % left)
        for tf, caller in sets:
            if len(tf) == 2:
                if ctx.quick() or tf[0] == tf[1] or caller:
                    scheds = [list(s) for s in CORPUS]
                    k = (45 if not caller else 25) if ctx.quick() else (400 if tf[0] == tf[1] else 600)
                    for _ in range(k):
                        s = [0] * BLOCKS + [1] * BLOCKS; rng.shuffle(s); scheds.append(s)
                else:
                    scheds = list(interleavings(2, BLOCKS))
                    if len(scheds) > 3000: scheds = CORPUS + rng.sample(scheds, 3000)
            else:
                scheds = []
                for _ in range(25 if ctx.quick() else 300):
                    s = [0] * BLOCKS + [1] * BLOCKS + [2] * BLOCKS; rng.shuffle(s); scheds.append(s)
            for s in scheds:
                out, left, fails = judge(files_doc, tf, s, work, caller)
                tail = [i for i in range(len(tf)) for _ in range(40)]
                reqs.append([Sym("c20_blocks"), list(s) + tail, [[0, 1], [1, 2], [2, 3]], [[pth[n], nl[n]] for n in tf]])
                meta.append((tf, s, out, left))
                runs = [k for k, g in itertools.groupby(s)]
                ctx.record(dict(threads=tf, schedule=s, caller=caller), len(runs) > len(tf), ["threads=" + ",".join(tf) + (" with namespace list" if caller else ""), "all-solo" if all(o[0] == "solo" for o in out) else "interference"])
                for sig, detail in fails: ctx.fail(sig, dict(kind="schedule", threads=tf, schedule=s, caller=caller), detail)
    finally:
        shutil.rmtree(work, ignore_errors=True)
    ans = vlib.run_model(reqs, shards=8)
    for (tf, s, out, left), a in zip(meta, ans):
        a = vlib.untext(a)
        mo = []; mleft = False
        for i, th in enumerate(a):
            pcx, side = th
            ok = pcx[0] == "done" and pcx[1][0] == "good" and int(pcx[1][1]) == hdr[tf[i]]
            mo.append("solo" if ok else "bad")
            if side != []: mleft = True
        if [o[0] for o in out] != mo or left != mleft:
            ctx.disagree("schedule", dict(threads=tf, schedule=s), [[o[0] for o in out], left], [mo, mleft])
            # a call that fails under a schedule for which the side-file protocol as modelled lets every call succeed is not the recorded
            # same-file finding (that one is exactly the set of schedules the model predicts): it is a failing input of its own
            for i, o in enumerate(out):
                if o[0] != "solo" and mo[i] == "solo":
                    ctx.fail("C20/interference", dict(kind="schedule", threads=tf, schedule=s, caller=None), "call %d on %s: %r under a schedule that the side-file protocol survives" % (i, tf[i], o))
    pick = sorted(rng.sample(range(len(reqs)), min(25, len(reqs))))
    ctx.crosscheck = vlib.coq_crosscheck([reqs[i] for i in pick], [ans[i] for i in pick], "c20")
    ctx.exhaustive = not ctx.quick()

def oracle_case(case):
    work = os.path.join(vlib.WORK, "c20r_%d" % os.getpid()); os.makedirs(work, exist_ok=True)
    try:
        rng = random.Random(5)
        da = docs.simple_doc(rng, "urn:a"); db = docs.simple_doc(rng, "urn:b", n_nodes=2, with_aliases=False); dc = docs.simple_doc(rng, "urn:c", extra_uris=["urn:a"], n_nodes=2)
        if case.get("kind") == "dir-schedule":
            from opcua_tools.nodeset_parser import parse_xml_dir
            d0 = os.path.join(work, "dirrun"); write_docs(d0, [(n, docs.render(doc, random.Random(1))) for n, doc in [("a.xml", da), ("b.xml", db), ("c.xml", dc)]])
            nsl = [docs.UA, "urn:b"]; lone = [solo(d0, "a.xml"), ["ok", whole_result(parse_xml_dir(d0, list(nsl)))]]
            res = run_dir_schedule(d0, [0] * case["k0"] + [1] * 12, nsl)
            return [("C20/interference", "call %d differs from the lone call" % i) for i in range(2) if res[i] != lone[i]]
        out, left, fails = judge([("a.xml", da), ("b.xml", db), ("c.xml", dc)], case["threads"], case["schedule"], work, case.get("caller"))
        return fails
    finally:
        shutil.rmtree(work, ignore_errors=True)
