"""C13 - relatives and node paths enumerate exactly the walks of the graph."""
import pandas as pd
import vlib
from vlib import Sym

def impl_relatives(E, desc, cutoff, keep, starts, before=None):
    """before: an edge list of the same length; the edge table first holds `before` and is queried once, is then edited IN PLACE (cell assignments,
    same object, same shape) to hold E, and is queried again - the answer must be the one for the table's current content"""
    from opcua_tools.navigation import find_relatives
    try:
        nodes = pd.DataFrame({"id": pd.Series(starts, dtype="int64")})
        E0 = E if before is None else before
        edges = pd.DataFrame({"Src": pd.Series([a for a, _ in E0], dtype="int64"), "Trg": pd.Series([b for _, b in E0], dtype="int64")})
        nodes = vlib.relabel(nodes, 1); edges = vlib.relabel(edges, 2)
        if before is not None:
            try: find_relatives(nodes=nodes, nodes_key_col="id", edges=edges, relative_type=direction_word(desc), cutoff=cutoff, keep_paths=keep)
            except BaseException: pass
            for i, ((a0, b0), (a1, b1)) in enumerate(zip(before, E)):
                if a0 != a1: edges.iloc[i, edges.columns.get_loc("Src")] = a1
                if b0 != b1: edges.iloc[i, edges.columns.get_loc("Trg")] = b1
        df = find_relatives(nodes=nodes, nodes_key_col="id", edges=edges, relative_type=direction_word(desc), cutoff=cutoff, keep_paths=keep)
        pcols = sorted(c for c in df.columns if isinstance(c, int))
        ids, lens, ends = df["id"].tolist(), df["len_path"].tolist(), df["end"].tolist()
        seqs = [[int(x) for x in row if not pd.isna(x)] for row in df[pcols].itertuples(index=False, name=None)] if keep else [[] for _ in ids]
        return ["ok", sorted([int(a), int(b), int(c), q] for a, b, c, q in zip(ids, lens, ends, seqs))]
    except BaseException as e:
        return ["err"]

# the direction is a word; the library reads its first letter (a... = ancestors, anything else = descendants), so callers spell it as they like
SPELL = {True: ["descendant", "descendants", "Descendants", "DESCENDANT", "d", "desc", "descendant", "children"], False: ["ancestor", "ancestors", "Ancestors", "ANCESTOR", "a", "anc", "ancestor", "A"]}
_spell_i = [0]
def direction_word(desc):
    _spell_i[0] += 1
    return SPELL[bool(desc)][_spell_i[0] % 8]

def walks(E, desc, cutoff, starts):
    """independent enumeration of all walks (recursive), as [start, len, end, seq]"""
    adj = {}
    for a, b in E:
        if desc: adj.setdefault(a, []).append(b)
        else: adj.setdefault(b, []).append(a)
    out = []
    def go(seq):
        out.append([seq[0], len(seq) - 1, seq[-1], list(seq)])
        if cutoff is not None and len(seq) - 1 >= cutoff: return
        for t in adj.get(seq[-1], []): go(seq + [t])
    for s in starts: go([s])
    return out

def is_acyclic(E):
    nodes = set(x for e in E for x in e); adj = {}
    for a, b in E: adj.setdefault(a, set()).add(b)
    state = {}
    def visit(v):
        if state.get(v) == 1: return False
        if state.get(v) == 2: return True
        state[v] = 1
        for t in adj.get(v, ()):
            if not visit(t): return False
        state[v] = 2; return True
    return all(visit(v) for v in nodes)

def dec_rows(a):
    a = vlib.untext(a)
    if a[0] == "ok": return ["ok", sorted([int(r[0]), int(r[1]), int(r[2]), [int(x) for x in r[3]]] for r in a[1])]
    if a[0] == "err": return ["err"]
    return ["model-failure", a]

RT = {"HasComponent": 901, "Organizes": 902, "HasProperty": 903}
def impl_paths(names, refs, root_name, type_names):
    """names: id -> browse name (UAObject nodes); refs: [src, trg, typeid]"""
    from opcua_tools.ua_graph import UAGraph
    from opcua_tools.ua_data_types import UANodeId
    try:
        ids = sorted(names) + sorted(RT.values())
        cls = ["UAObject"] * len(names) + ["UAReferenceType"] * len(RT)
        bn = [names[i] for i in sorted(names)] + [k for k, v in sorted(RT.items(), key=lambda kv: kv[1])]
        nodes = pd.DataFrame({"id": pd.Series(ids, dtype="int64"), "NodeClass": cls, "BrowseName": bn,
                              "NodeId": [UANodeId(1, "i", str(i)) for i in ids], "ns": [1] * len(ids)})
        rdf = pd.DataFrame({"Src": pd.Series([r[0] for r in refs], dtype="int64"), "Trg": pd.Series([r[1] for r in refs], dtype="int64"),
                            "ReferenceType": pd.Series([r[2] for r in refs], dtype="int64")})
        g = UAGraph(nodes=vlib.relabel(nodes, 2), references=vlib.relabel(rdf, 1), namespaces=["http://opcfoundation.org/UA/", "urn:x"], models=[])
        df = g.create_node_paths_by_reference_types(root_name, list(type_names))
        return ["ok", sorted([int(i), p] for i, p in zip(df["id"], df["NodePath"]))]
    except BaseException as e:
        return ["err"]

def dec_paths(a):
    a = vlib.untext(a)
    if a[0] == "ok": return ["ok", sorted([int(r[0]), r[1]] for r in a[1])]
    if a[0] == "err": return ["err"]
    return ["model-failure", a]

def random_dag(rng, nmax, allow_cycle=False):
    n = rng.randint(1, nmax); shape = rng.choice(["chain", "tree", "diamond", "dag", "forest"])
    ids = rng.sample(range(1, 60), n); E = []
    if shape == "chain": E = [(ids[i], ids[i + 1]) for i in range(n - 1)]
    elif shape in ("tree", "forest"):
        for i in range(1, n):
            if shape == "forest" and rng.random() < 0.25: continue
            E.append((ids[rng.randrange(i)], ids[i]))
    elif shape == "diamond":
        for i in range(1, n):
            for p in rng.sample(range(i), min(i, rng.randint(1, 2))): E.append((ids[p], ids[i]))
    else:
        for i in range(n):
            for j in range(i + 1, n):
                if rng.random() < min(1.0, 1.8 / max(1, n)): E.append((ids[i], ids[j]))
    feats = [shape]
    if E and rng.random() < 0.3: E.append(rng.choice(E)); feats.append("parallel")
    if allow_cycle and E and rng.random() < 0.5:
        a, b = rng.choice(E); E.append((b, a)); feats.append("cyclic")
    rng.shuffle(E)
    return ids, E, feats

def depth(E):
    best = 0
    for w in walks(E, True, None, sorted(set(x for e in E for x in e))): best = max(best, w[1])
    return best

def judge(kind, p):
    fails = []
    if kind in ("relatives", "relatives-inplace"):
        before = None
        if kind == "relatives-inplace": before, p = [tuple(e) for e in p[0]], p[1:]
        E, desc, cutoff, keep, starts = p
        E = [tuple(e) for e in E]
        out = impl_relatives(E, desc, cutoff, keep, starts, before)
        acyc = is_acyclic(E)
        if acyc or cutoff is not None:
            spec = sorted([w[0], w[1], w[2], w[3] if keep else []] for w in walks(E, desc, cutoff, starts))
            if out != ["ok", spec]:
                sig = "C13/walks"
                if out[0] == "ok" and sorted((r[0], r[1], r[3]) for r in out[1]) == sorted((r[0], r[1], r[3]) for r in spec): sig = "C13/end-column"
                fails.append((sig, "rows %r, walks are %r" % (out, spec)))
        import collections
        indeg = collections.Counter(b for _, b in E)
        nontriv = len(E) >= 2 and (len(set(E)) < len(E) or (cutoff is not None) or len(starts) > 1 or any(c > 1 for c in indeg.values()))
        return out, nontriv, fails
    if kind == "paths":
        names, refs, root, tnames = p
        names = {int(k): v for k, v in (names.items() if isinstance(names, dict) else names)}
        out = impl_paths(names, refs, names[root], tnames)
        tids = [RT[t] for t in tnames]
        E = [(r[0], r[1]) for r in refs if r[2] in tids]
        ws = [w for w in walks(E, True, None, [root])] if is_acyclic(E) else None
        tree = ws is not None and len(set(w[2] for w in ws)) == len(ws)
        if tree and len(ws) > 1:
            spec = sorted([w[2], "/".join(names[x] for x in w[3])] if w[1] > 0 else [root, names[root] + "/"] for w in ws)
            if out != ["ok", spec]: fails.append(("C13/paths", "paths %r, expected %r" % (out, spec)))
        return out, tree and len(ws) > 2, fails
    raise ValueError(kind)

def oracle_case(case):
    if case.get("kind") == "fan":
        W = case["width"]; fan = [(0, 1000 + i) for i in range(W)] + [(1000 + i, 200000 + i) for i in range(W)]
        return [(sig, d[:300]) for sig, d in judge("relatives", (fan, case["desc"], case["cutoff"], case["keep"], case["starts"]))[2]]
    return judge(case["kind"], case["args"])[2]

def check(ctx):
    rng = ctx.rng
    ctx.rule = ("find_relatives: random chains, trees, forests, diamonds and DAGs with parallel edges, 1-3 start nodes (occasionally repeated), both directions, "
                "every cut-off from 0 to depth+2 and none, with and without kept paths; cyclic edge sets only together with a cut-off. Node paths: random trees (in-domain) and "
                "diamonds (out-of-domain stream) under a root object with mixed reference types through a real UAGraph. Distinct by SHA-256; non-trivial when the graph has "
                "a diamond, parallel edges, several starts or a cut-off (relatives) or a tree of depth >= 2 (paths).")
    ctx.trusted = ["hand-written Gallina model coq/M_C13.v of navigation.find_relatives (pandas inner join of the frontier with the edge table = one row per leaving edge) "
                   "and UAGraph.create_node_paths_by_reference_types (melt/sort/groupby/join modelled for the tree case; sort stability and join row order are not modelled)",
                   "row order of results is not compared; non-termination of the uncut call on a cyclic edge set is modelled as an error and never executed on the implementation",
                   "extraction + driver.ml, cross-checked against vm_compute on a sample"]
    reqs = []; meta = []
    for _ in range(60 if ctx.quick() else 1200):
        ids, E, feats = random_dag(rng, 7 if ctx.quick() else 10, allow_cycle=rng.random() < 0.15)
        d = depth(E) if "cyclic" not in feats else 4
        starts = rng.sample(ids, min(len(ids), rng.randint(1, 3)))
        if rng.random() < 0.1: starts.append(starts[0])
        cutoffs = list(range(0, d + 3)) + ([None] if "cyclic" not in feats else [])
        if ctx.quick(): cutoffs = rng.sample(cutoffs, min(len(cutoffs), 3))
        for cutoff in cutoffs:
            for desc in (True, False):
                for keep in (True, False):
                    reqs.append([Sym("c13_relatives"), [list(e) for e in E], desc, None if cutoff is None else [cutoff], keep, starts])
                    meta.append(("relatives", ([list(e) for e in E], desc, cutoff, keep, starts), feats + ["cutoff" if cutoff is not None else "uncut", "keep" if keep else "nokeep", "desc" if desc else "anc"]))
    # the same edge table object, edited in place between two queries (one edge re-pointed: same shape, other content)
    for _ in range(25 if ctx.quick() else 400):
        ids, E, feats = random_dag(rng, 7)
        if len(E) < 2 or len(ids) < 3: continue
        E2 = [tuple(e) for e in E]; i = rng.randrange(len(E2)); a, b = E2[i]
        E2[i] = (a, rng.choice([x for x in ids if x != b])) if rng.random() < 0.5 else (rng.choice([x for x in ids if x != a]), b)
        starts = rng.sample(ids, min(len(ids), rng.randint(1, 2)))
        cyc = not is_acyclic(E2)
        for cutoff in ([rng.randint(0, 3)] if cyc else [None, rng.randint(0, 3)]):
            desc = rng.random() < 0.5; keep = rng.random() < 0.5
            reqs.append([Sym("c13_relatives"), [list(e) for e in E2], desc, None if cutoff is None else [cutoff], keep, starts])
            meta.append(("relatives-inplace", ([list(e) for e in E], [list(e) for e in E2], desc, cutoff, keep, starts), feats + ["edited-in-place"]))
    # deep trees first: a chain of 14 nodes and a comb of depth 12 (walks and paths longer than nine steps)
    deep = []
    chain = list(range(100, 114)); deep.append((chain, [(chain[i], chain[i + 1]) for i in range(len(chain) - 1)], ["deep-chain"]))
    spine = list(range(200, 212)); teeth = list(range(300, 312))
    deep.append((spine + teeth, [(spine[i], spine[i + 1]) for i in range(len(spine) - 1)] + [(spine[i], teeth[i]) for i in range(len(spine))], ["deep-comb"]))
    # a chain with a short cut over two nodes (a level that reaches only nodes reached before, while longer walks go on), and its mirror
    sc = list(range(400, 406)); deep.append((sc, [(sc[i], sc[i + 1]) for i in range(5)] + [(sc[0], sc[3])], ["short-cut"]))
    deep.append((sc, [(sc[i], sc[i + 1]) for i in range(5)] + [(sc[1], sc[4]), (sc[0], sc[2])], ["short-cut"]))
    for ids, E, feats in deep:
        E = list(E); rng.shuffle(E)
        for keep in (True, False):
            reqs.append([Sym("c13_relatives"), [list(e) for e in E], True, None, keep, [ids[0]]])
            meta.append(("relatives", ([list(e) for e in E], True, None, keep, [ids[0]]), feats + ["uncut", "keep" if keep else "nokeep", "desc"]))
        names = {i: "U%d" % i for i in ids}; names[ids[0]] = "Root%d" % ids[0]
        tn = sorted(RT)[0]
        refs = [[a, b, RT[tn]] for a, b in E]
        reqs.append([Sym("c13_paths"), [[i, names[i]] for i in sorted(names)], [[r[0], r[1]] for r in refs], ids[0]])
        meta.append(("paths", (sorted(names.items()), refs, ids[0], [tn]), feats))
    for _ in range(40 if ctx.quick() else 600):
        ids, E, feats = random_dag(rng, 8)
        names = {i: rng.choice(["A", "B", "Motor", "Tank", "x/y", "é", "N%d" % i]) + (str(i) if rng.random() < 0.8 else "") for i in ids}
        for i in ids: names.setdefault(i, "N%d" % i)
        root = ids[0]; names[root] = "Root%d" % root
        tnames = rng.sample(sorted(RT), rng.randint(1, 2))
        refs = [[a, b, RT[rng.choice(tnames)] if rng.random() < 0.8 else RT[rng.choice(sorted(RT))]] for a, b in E]
        tids = [RT[t] for t in tnames]
        Esel = [[r[0], r[1]] for r in refs if r[2] in tids]
        reqs.append([Sym("c13_paths"), [[i, names[i]] for i in sorted(names)], Esel, root])
        meta.append(("paths", (sorted(names.items()), refs, root, tnames), feats))
    # one level wider than 50000 rows (a two-level fan of 50001): judged by the walk oracle only - the extracted model is not run on 100000 edges
    W = 50001
    fan = [(0, 1000 + i) for i in range(W)] + [(1000 + i, 200000 + i) for i in range(W)]
    for desc, cutoff, keep, starts in ((True, None, False, [0]), (False, 2, True, [200000, 200000 + W - 1])):
        out, nontriv, fails = judge("relatives", (fan, desc, cutoff, keep, starts))
        ctx.record(["relatives", "fan-%d" % W, desc, cutoff, keep, starts], True, ["wide-level", "desc" if desc else "anc"])
        for sig, detail in fails: ctx.fail(sig, dict(kind="fan", width=W, desc=desc, cutoff=cutoff, keep=keep, starts=starts), detail[:300])
    ans = vlib.run_model(reqs, shards=8)
    for jx, ((kind, p, feats), a) in enumerate(zip(meta, ans)):
        vlib.pandas_mode(jx)
        mo = dec_rows(a) if kind.startswith("relatives") else dec_paths(a)
        out, nontriv, fails = judge(kind, p)
        ctx.record([kind, p], nontriv, feats + [kind])
        stream = kind
        if kind == "paths":
            tids = [RT[t] for t in p[3]]; E = [(r[0], r[1]) for r in p[1] if r[2] in tids]
            ws = walks(E, True, None, [p[2]]) if is_acyclic(E) else None
            if ws is None or len(set(w[2] for w in ws)) != len(ws) or len(ws) <= 1: stream = "out-of-domain"
        if out != mo: ctx.disagree(stream, [kind, p], out, mo)
        for sig, detail in fails: ctx.fail(sig, dict(kind=kind, args=p), detail)
    pick = sorted(rng.sample(range(len(reqs)), min(40 if ctx.quick() else 200, len(reqs))))
    ctx.crosscheck = vlib.coq_crosscheck([reqs[i] for i in pick], [ans[i] for i in pick], "c13")
