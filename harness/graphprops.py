"""Graph-level cases and oracles for C11 (closed graph, look-ups), C16 (write-time validation) and C17 (enumerations)."""
import os, shutil, re, ast, io, copy, random
import pandas as pd
import vlib, docs, nsgen, parsecmp, parseprops, uaconv, c08
from vlib import Sym
from docs import UA

def write_files(work, files):
    shutil.rmtree(work, ignore_errors=True); os.makedirs(work)
    for n, t in files: open(os.path.join(work, n), "w", encoding="utf-8").write(t)
    return [os.path.join(work, n) for n, _ in files]

def tables(res):
    """parse result -> (gnodes, refs) in the model's wire format (values with XML bodies as infosets)"""
    nodes, refs = res["nodes"], res["references"]
    gn = []
    for _, r in nodes.iterrows():
        dt = r["DataType"] if "DataType" in nodes.columns else pd.NA
        gn.append([int(r["id"]), r["NodeClass"], r["BrowseName"], r["DisplayName"], [] if parsecmp.isna(dt) else [int(dt)],
                   [] if parsecmp.isna(r["Value"]) else [uaconv.py2sx_tree(r["Value"])]])
    rf = [[int(r["Src"]), int(r["Trg"]), int(r["ReferenceType"])] for _, r in refs.iterrows()]
    return gn, rf

def build(paths):
    from opcua_tools.ua_graph import UAGraph
    try: return ["ok"], UAGraph.from_file_list(list(paths))
    except BaseException as e: return ["err", type(e).__name__, str(e)], None

NID = re.compile(r"(?:ns=\d+;)?[isgb]=\S+")
def message_endpoints(msg):
    """(kind, sorted NodeId texts of the present endpoints) from the ValueError text"""
    kind = "missing-sources" if msg.startswith("Some source ids") else ("missing-targets" if msg.startswith("Some target ids") else "other")
    pts = []
    for line in msg.split("\n")[3:]:
        ids = NID.findall(line)
        if ids: pts.append(ids[0])
    return kind, sorted(pts)

# ---------------------------------------------------------------------------------------------- C11
def run_c11(ctx):
    rng = ctx.rng
    work = os.path.join(vlib.WORK, "c11_%d" % os.getpid())
    reqs = []; meta = []
    try:
        for ci in range(30 if ctx.quick() else 500):
            vlib.pandas_mode(ci)
            g = nsgen.gen_graph(rng, n_ns=rng.randint(1, 3), n_nodes=rng.randint(2, 7), hostile=False, with_values=False, dangling=False)
            own = [k for k in g.order if k[0] != UA]
            if len(own) >= 2 and rng.random() < 0.5:        # one browse name carried by nodes of two classes
                a_, b_ = rng.sample(own, 2)
                if g.nodes[a_]["cls"] != g.nodes[b_]["cls"]: g.nodes[b_]["bname"] = (g.nodes[b_]["bname"][0], g.nodes[a_]["bname"][1])
            ds = nsgen.serialise(g, rng, aliases=rng.random() < 0.5)
            variants = [("closed", ds)]
            # remove a defining file / a defining node / keep everything but add a dangling reference
            if len(ds) > 1: variants.append(("file-removed", [x for i, x in enumerate(ds) if i != rng.randrange(len(ds))]))
            d2 = copy.deepcopy(ds)
            cands = [(i, j) for i, (_, d, _) in enumerate(d2) for j in range(len(d["nodes"]))]
            for _ in range(rng.randint(1, 2)):
                if len(cands) > 1:
                    i, j = cands.pop(rng.randrange(len(cands)))
                    d2[i][1]["nodes"][j] = None
            d2 = [(n, dict(d, nodes=[x for x in d["nodes"] if x is not None]), l) for n, d, l in d2]
            d2 = [x for x in d2 if x[1]["nodes"]]
            variants.append(("nodes-removed", d2))
            # overlapping exports: the same nodes defined a second time in another file, next to the dangling references of the variant above
            dup = [x for x in d2 if not x[0].endswith("Opc.Ua.NodeSet2.xml")] or d2
            if dup:
                n_, d_, l_ = rng.choice(dup)
                variants.append(("nodes-removed+overlap", d2 + [("zz_overlap_" + n_, copy.deepcopy(d_), l_)]))
                variants.append(("closed+overlap", ds + [("zz_overlap_" + n_, copy.deepcopy(dict(ds)[n_] if False else [x for x in ds if x[0] == n_][0][1]), l_)]))
            for kind, dsv in variants:
                if not dsv: continue
                files = [(n, docs.render(d, rng)) for n, d, _ in dsv]
                if ci % 3 == 1: files = [(n, docs.entityfy(t, random.Random(ci * 17 + k))) for k, (n, t) in enumerate(files)]   # entity spelling, same infoset
                paths = write_files(work, files)
                pre, res = parsecmp.impl_parse(work, files)
                if pre[0] != "ok":
                    # every variant is a set of well-formed NodeSet documents: a set that cannot even be parsed cannot be judged "closed or not"
                    ctx.fail("C11/documents-not-parsed", dict(kind="docset", files=files), "variant %s: parsing raised %r" % (kind, pre[1:3])); continue
                st, G = build(paths)
                gn, rf = tables(res)
                ids = [n[0] for n in gn]
                reqs.append([Sym("c11_closed"), ids, rf]); 
                idset = set(ids)
                closed = all(r[0] in idset and r[1] in idset for r in rf)
                nid_of = {n[0]: str(u) for n, u in zip(gn, res["nodes"]["NodeId"])}
                if st[0] == "ok": impl = ["closed"]
                elif st[1] == "ValueError" and st[2].startswith("Some "): impl = list(message_endpoints(st[2]))
                else: impl = ["other-error", st[1], st[2][:100]]
                meta.append(("closed", kind, impl, nid_of))
                ctx.record(dict(case=ci, variant=kind, files=[n for n, _ in files]), kind != "closed", ["closure", kind])
                # oracle: succeeds exactly when closed; message lists the present endpoint of every reference with a missing source, else target
                case = dict(kind="docset", files=files)
                if closed and impl[0] != "closed": ctx.fail("C11/closed-graph-rejected", case, "%r" % (impl,))
                if not closed:
                    ms = sorted(nid_of[r[1]] for r in rf if r[0] not in idset); mt = sorted(nid_of[r[0]] for r in rf if r[1] not in idset)
                    want = ["missing-sources", ms] if ms else ["missing-targets", mt]
                    if impl[0] == "closed": ctx.fail("C11/open-graph-accepted", case, "expected %r" % (want,))
                    elif impl != want: ctx.fail("C11/message", case, "message says %r, expected %r" % (impl, want))
                # the same question asked of the DOCUMENTS (not of the parser's tables): every declared reference has both ends defined in the set
                try:
                    defined = set(); ends = []
                    for fn_, d_, local_ in dsv:
                        al_ = dict(d_["aliases"] or [])
                        for n_ in d_["nodes"]:
                            k_ = parseprops.resolve_text(dict(n_["attrs"])["NodeId"], local_, al_); defined.add(k_)
                            for ty_, fwd_, trg_ in (n_["refs"] or []):
                                ends.append((k_, parseprops.resolve_text(trg_.strip(), local_, al_)))
                    doc_closed = all(a_ in defined and b_ in defined for a_, b_ in ends)
                    if doc_closed != (impl[0] == "closed") and impl[0] != "other-error":
                        ctx.fail("C11/closure-vs-documents", case, "the documents are %s under their references, the constructor %s" % ("closed" if doc_closed else "not closed", "accepted them" if impl[0] == "closed" else "rejected them: %r" % (impl,)))
                except (KeyError, ValueError, IndexError): pass
                # look-ups on the built graph (every other graph held with other row labels / row order)
                if G is not None:
                    import writeprops
                    _, G = writeprops.graph_variant(G, random.Random(ci), kinds=["as-parsed", "permuted", "relabelled"])
                    gn2 = [[int(r["id"]), r["NodeClass"], r["BrowseName"], r["DisplayName"], [], []] for _, r in G.nodes.iterrows()]
                    names = sorted(set(n[2] for n in gn2))
                    # the first and the last node of the table (ids 0 and max), untyped and by their own class, then a typed look-up followed by
                    # the untyped look-up of the same name (an answer must not depend on earlier look-ups), then random ones
                    plan = []
                    for row in (gn2[0], gn2[-1]):
                        c0 = row[1][2:] if row[1][2:] in ("Object", "Variable", "DataType", "ReferenceType", "ObjectType", "VariableType") else None
                        plan += [(row[2], None), (row[2], c0)]
                    shared = sorted(set(n[2] for n in gn2 if len(set(m[1] for m in gn2 if m[2] == n[2])) > 1))
                    for nm_ in shared[:2]:
                        c1 = sorted(set(m[1][2:] for m in gn2 if m[2] == nm_ and m[1][2:] in ("Object", "DataType", "ReferenceType", "ObjectType", "VariableType")))
                        if c1: plan += [(nm_, c1[0]), (nm_, None)]
                    for _ in range(6):
                        plan.append((rng.choice(names + ["Absent", "", "Dup"]), rng.choice([None, "Object", "Variable", "DataType", "ReferenceType", "ObjectType", "VariableType"])))
                    for nm, cls in plan:
                        try:
                            f = {None: lambda: G.nodeid_by_browsename(nm), "Object": lambda: G.object_by_browsename(nm), "DataType": lambda: G.data_type_by_browsename(nm),
                                 "ReferenceType": lambda: G.reference_type_by_browsename(nm), "ObjectType": lambda: G.object_type_by_browsename(nm),
                                 "VariableType": lambda: G.variable_type_by_browsename(nm), "Variable": lambda: G.nodeid_by_browsename(nm, "Variable")}[cls]
                            out = f()
                            if cls in (None, "Variable"): out = ["ok", str(out)]
                            else: out = ["ok", str(int(out))]
                        except ValueError: out = ["err", "ValueError"]
                        except BaseException as e: out = ["err", type(e).__name__]
                        reqs.append([Sym("c11_lookup"), gn2, nm, [] if cls is None else [cls]])
                        nidmap = {int(r["id"]): str(r["NodeId"]) for _, r in G.nodes.iterrows()}
                        meta.append(("lookup", (nm, cls), out, nidmap))
                        hits = [n for n in gn2 if n[2] == nm and (cls is None or n[1] == "UA" + cls)]
                        ctx.record(dict(case=ci, lookup=nm, cls=cls), len(hits) != 1, ["lookup", "hits=%d" % min(len(hits), 2)])
                        if nm != "" and len(hits) == 1:
                            want = ["ok", nidmap[hits[0][0]] if cls in (None, "Variable") else str(hits[0][0])]
                            if out != want: ctx.fail("C11/lookup", dict(kind="lookup", name=nm, cls=cls, files=files), "%r, expected %r" % (out, want))
                        elif out != ["err", "ValueError"]:
                            ctx.fail("C11/lookup-error-class" if out[0] == "err" else "C11/lookup", dict(kind="lookup", name=nm, cls=cls, files=files), "%d matches but %r" % (len(hits), out))
    finally:
        shutil.rmtree(work, ignore_errors=True)
    ans = vlib.run_model(reqs, shards=8)
    for m, a in zip(meta, ans):
        a = vlib.untext(a)
        if m[0] == "closed":
            _, kind, impl, nid_of = m
            if a[0] == "closed": mo = ["closed"]
            else: mo = [a[0], sorted(nid_of[int(r[1] if a[0] == "missing-sources" else r[0])] for r in a[1])]
            if impl != mo: ctx.disagree("closure", dict(variant=kind), impl, mo)
        else:
            _, (nm, cls), out, nidmap = m
            if a[0] == "ok": mo = ["ok", nidmap[int(a[1])] if cls in (None, "Variable") else a[1]]
            else: mo = ["err", a[1]]
            if out != mo: ctx.disagree("lookup", dict(name=nm, cls=cls), out, mo)
    pick = [i for i in range(len(reqs)) if len(vlib.to_sx(reqs[i])) < 4000][:15]
    ctx.crosscheck = vlib.coq_crosscheck([reqs[i] for i in pick], [ans[i] for i in pick], "c11")

# ---------------------------------------------------------------------------------------------- C17
def run_c17(ctx):
    from opcua_tools import nodes_manipulation
    from opcua_tools import ua_data_types as T
    rng = ctx.rng
    work = os.path.join(vlib.WORK, "c17_%d" % os.getpid())
    reqs = []; meta = []
    try:
        for ci in range(35 if ctx.quick() else 600):
            vlib.pandas_mode(ci)
            g = nsgen.gen_graph(rng, n_ns=1, n_nodes=rng.randint(1, 3), hostile=False, with_values=True, dangling=False, value_gen=parseprops.value_gen)
            # the first cases are fixed shapes: EnumStrings with a reserved position and variables on both sides of it; EnumValues; two types
            if ci < 4: desc = nsgen.add_enums(g, rng, n_types=1, flavours=["strings"], n_vars=3, kinds=["in", "in", "in"], placeholder=True)
            elif ci < 6: desc = nsgen.add_enums(g, rng, n_types=2, flavours=["values", "strings"], n_vars=3, kinds=["in", "in", "out" if ci == 5 else "in"])
            elif ci == 6: desc = nsgen.add_enums(g, rng, n_types=1, flavours=["values"], n_vars=4, kinds=["in", "in", "in", "in"], value_names=["\u00b0C", "m\u00b2 & <x>", "\u00b5", "plain"])   # texts an XML writer escapes
            elif ci == 7: desc = nsgen.add_enums(g, rng, n_types=1, flavours=["none"], n_vars=3, kinds=["empty", "in", "empty"])     # an empty Int32 element in a variable of a type without definition
            elif ci in (8, 9):
                # the Enumeration data type is the very first node of the first file (a nodeset that lists its data types first): internal id 0
                desc = nsgen.add_enums(g, rng, n_types=2, flavours=["strings", "values"], n_vars=3, kinds=["in", "in", "in"])
                er_ = (nsgen.UA, "i", "29"); g.order.remove(er_); g.order.insert(0, er_)
            else: desc = nsgen.add_enums(g, rng)
            ds = nsgen.serialise(g, rng, value_xml=parseprops.value_xml, aliases=rng.random() < 0.5)
            files = [(n, docs.render(d, rng)) for n, d, _ in ds]
            paths = write_files(work, files)
            pre, res = parsecmp.impl_parse(work, files)
            if pre[0] != "ok": continue
            gn, rf = tables(res)
            st, G = build(paths)
            vts = [n["value"] for _, d, _ in ds for n in d["nodes"] if n.get("value")]
            reqs.append([Sym("c17_transform"), gn, rf])
            post = None
            if G is not None: post = [[] if parsecmp.isna(v) else [uaconv.py2canon(v)] for v in G.nodes["Value"]]
            meta.append((ci, st, post))
            kinds = sorted((desc["types"][v[0]][0], v[1]) for v in desc["vars"].values())
            ctx.record(dict(case=ci, enum_vars=kinds), bool(kinds), ["types=%d" % len(desc["types"])] + ["%s/%s" % k for k in kinds])
            for sig, detail in c17_oracle(desc, res, st, G):
                ctx.fail(sig, dict(kind="docset", files=files), detail)
    finally:
        shutil.rmtree(work, ignore_errors=True)
    ans = vlib.run_model(reqs, shards=8)
    uns = 0
    for (ci, st, post), a in zip(meta, ans):
        a = vlib.untext(a)
        if a[0] == "err" and a[1] == "Unsupported": uns += 1; continue
        mo = ["ok", a[1]] if a[0] == "ok" else ["err"]
        io = ["ok", post] if post is not None else ["err"]
        if io != mo: ctx.disagree("transform", dict(case=ci), io if io[0] == "err" else ["ok", [x for x, y in zip(io[1], mo[1] if mo[0] == "ok" else io[1]) if x != y][:3]], mo if mo[0] == "err" else ["ok", [y for x, y in zip(io[1] if io[0] == "ok" else mo[1], mo[1]) if x != y][:3]])
    ctx.notes["unsupported_by_model"] = uns
    pick = [i for i in range(len(reqs)) if len(vlib.to_sx(reqs[i])) < 5000][:10]
    ctx.crosscheck = vlib.coq_crosscheck([reqs[i] for i in pick], [ans[i] for i in pick], "c17")


def c17_oracle(desc, res, st, G):
    """the property on the implementation: [(signature, detail)]"""
    from opcua_tools import nodes_manipulation
    from opcua_tools import ua_data_types as T
    fails = []
    causes = set()
    for vk, (tk, kind, x) in desc["vars"].items():
        fl, mapping, name = desc["types"][tk]
        if kind == "list": causes.add("list-truncated")
        if kind == "out" and mapping is not None: causes.add("undefined-int-keyerror")
        if mapping is None and kind in ("in", "out", "list", "empty"): causes.add("no-definition-becomes-unknown")
    def report(sig, detail):
        fails.append(("C17/known:" + "+".join(sorted(causes)) if causes else sig, sig + ": " + detail))
    def explained(k, prev, new):
        """is this changed cell exactly what one of the recorded findings does to it?  (anything else is reported under its own signature)"""
        if k not in desc["vars"] or not isinstance(new, T.UAEnumeration): return False
        tk, kind, x = desc["vars"][k]; fl, mapping, name = desc["types"][tk]
        first = prev.value[0] if isinstance(prev, T.UAListOf) and len(prev.value) else prev
        same_int = isinstance(first, T.UAInt32) and ((first.value is None and new.value is None) or (first.value is not None and new.value is not None and int(first.value) == int(new.value)))
        if not same_int: return False
        if mapping is None: return new.string == "Unknown" and new.name == "Unknown"
        return kind == "list" and new.value in mapping and new.string == mapping[new.value] and new.name == name
    if G is None:
        report("C17/construction-raises", "%s: %s" % (st[1], st[2][:120])); return fails
    ns = res["namespaces"]
    key_of = {i: parseprops.key_of_nid(parsecmp.nid_sx(n), ns) for i, n in zip(res["nodes"]["id"], res["nodes"]["NodeId"])}
    bad = []; odd = []
    for (i, prev, new) in zip(res["nodes"]["id"], res["nodes"]["Value"], G.nodes["Value"]):
        k = key_of[int(i)]
        want = prev
        if k in desc["vars"]:
            tk, kind, x = desc["vars"][k]; fl, mapping, name = desc["types"][tk]
            if mapping is not None and kind in ("in",) and isinstance(prev, T.UAInt32): want = T.UAEnumeration(value=x, string=mapping[x], name=name)
        a = None if parsecmp.isna(want) else uaconv.py2canon(want); b = None if parsecmp.isna(new) else uaconv.py2canon(new)
        if a != b: (bad if explained(k, prev, new) else odd).append((k, a, b))
    if bad: report("C17/value", "%r" % (bad[:2],))
    if odd: fails.append(("C17/value-unexplained", "%r" % (odd[:2],)))
    cols = [c for c in res["nodes"].columns if c != "Value"]
    same = all(str(list(res["nodes"][c])) == str(list(G.nodes[c])) for c in cols) and list(res["references"].itertuples(index=False)) == list(G.references.itertuples(index=False))
    if not same: fails.append(("C17/other-cells-changed", "a column other than Value differs after construction"))
    before = [None if parsecmp.isna(v) else uaconv.py2canon(v) for v in G.nodes["Value"]]
    try:
        nodes_manipulation.transform_ints_to_enums(G)
        after = [None if parsecmp.isna(v) else uaconv.py2canon(v) for v in G.nodes["Value"]]
        if after != before: report("C17/not-idempotent", "second application changed values")
    except BaseException as e:
        report("C17/not-idempotent", "second application raised %s" % type(e).__name__)
    for v in G.nodes["Value"]:
        if isinstance(v, T.UAEnumeration) and v.xml_encode(True) != T.UAInt32(v.value).xml_encode(True):
            fails.append(("C17/xml-differs-from-int32", v.xml_encode(True)))
    return fails

def c17_replay(case):
    import random
    rng = random.Random(4)
    work = os.path.join(vlib.WORK, "c17r_%d" % os.getpid())
    try:
        g = nsgen.gen_graph(rng, n_ns=1, n_nodes=1, hostile=False, with_values=False, dangling=False)
        if case["var"] == "none-at-all": desc = nsgen.add_enums(g, rng, n_types=1, n_vars=0, flavours=[case["flavour"]])
        else: desc = nsgen.add_enums(g, rng, n_types=1, n_vars=1, flavours=[case["flavour"]], kinds=[case["var"]])
        ds = nsgen.serialise(g, rng, value_xml=parseprops.value_xml, aliases=False)
        files = [(n, docs.render(d, rng)) for n, d, _ in ds]
        paths = write_files(work, files)
        pre, res = parsecmp.impl_parse(work, files)
        st, G = build(paths)
        return c17_oracle(desc, res, st, G)
    finally:
        shutil.rmtree(work, ignore_errors=True)

def c11_replay(case):
    import random
    rng = random.Random(4)
    work = os.path.join(vlib.WORK, "c11r_%d" % os.getpid())
    try:
        g = nsgen.gen_graph(rng, n_ns=1, n_nodes=2, hostile=False, with_values=False, dangling=False)
        ds = nsgen.serialise(g, rng, aliases=False)
        paths = write_files(work, [(n, docs.render(d, rng)) for n, d, _ in ds])
        st, G = build(paths)
        try: G.object_by_browsename("Absent"); return [("C11/lookup", "absent name found")]
        except ValueError: return []
        except BaseException as e: return [("C11/lookup-error-class", "absent browse name raises %s" % type(e).__name__)]
    finally:
        shutil.rmtree(work, ignore_errors=True)

# ---------------------------------------------------------------------------------------------- C16
SCALAR_KINDS = ["bool", "int", "float", "string", "guid", "datetime", "bytes", "loctext", "nodeid", "xml", "ext", "eu", "range", "list", "enum"]
def c16_value(rng):
    for _ in range(30):
        v = c08.gen_value(rng, kinds=SCALAR_KINDS)
        if v is not None and not (c08.causes(v) - {"nodeid-bare-identifier", "eu-locale-invented", "ext-reserved-typeid"}) and c08.impl_encode(v, True)[0] == "ok": return v
    return None


def c16_oracle(G, uri, work):
    """write the namespace with the implementation and judge the outcome against the property"""
    from opcua_tools import ua_data_types as T
    simple = set(nsgen.BUILTIN_IDS)
    fails = []
    out_path = os.path.join(work, "out.xml")
    try:
        G.write_nodeset(out_path, uri); out = ["ok"]
    except BaseException as e:
        out = ["err", type(e).__name__, str(e)]
    produced = os.path.exists(out_path)
    if os.path.exists(out_path): os.remove(out_path)
    nsidx = G.namespaces.index(uri)
    written = G.nodes[G.nodes["ns"] == nsidx]
    has_col = "DataType" in G.nodes.columns
    gn = [[int(r["id"]), r["NodeClass"], r["BrowseName"], r["DisplayName"], [] if (not has_col or parsecmp.isna(r["DataType"])) else [int(r["DataType"])],
           [] if parsecmp.isna(r["Value"]) else [uaconv.py2sx_tree(r["Value"])]] for _, r in written.iterrows()]
    dtn = [[int(i), r["DisplayName"]] for i, r in G.nodes[G.nodes["NodeClass"] == "UADataType"].iterrows()]
    if out[0] == "ok": impl = ["accepted"]
    elif out[1] == "ValidationError":
        m = re.search(r"display names: (\[.*\])\.", out[2], re.S)
        impl = ["rejected", sorted(ast.literal_eval(m.group(1)))] if m else ["rejected-no-datatype"]
    else: impl = ["other-error", out[1], out[2][:80]]
    offenders = []; causes = set()
    for _, r in written.iterrows():
        if r["NodeClass"] != "UAVariable" or parsecmp.isna(r["Value"]): continue
        v = r["Value"]; name = type(v).__name__[2:]
        if name == "XMLElement": name = "XmlElement"
        dt = r["DataType"] if has_col else pd.NA
        if parsecmp.isna(dt): offenders.append(r["DisplayName"]); continue
        if not (G.nodes["id"] == dt).any(): continue          # the declared type is a node that is not loaded: not a built-in type, never rejected
        dtrow = G.nodes[G.nodes["id"] == dt].iloc[0]
        dt_builtin = (dtrow["NodeId"].namespace == 0 and dtrow["BrowseName"] in simple and dtrow["NodeClass"] == "UADataType")
        if dtrow["DisplayName"] in simple and not dt_builtin: causes.add("displayname-collision")
        if isinstance(v, (T.UAListOf, T.UAEnumeration)): continue
        if name not in simple and dt_builtin: causes.add("structure-value-vs-builtin-type")
        if name in simple and dt_builtin and dtrow["BrowseName"] != name: offenders.append(r["DisplayName"])
    want = ["accepted"] if not offenders else ["rejected", sorted(offenders)]
    if list(G.nodes.index) != [int(i) for i in G.nodes["id"]]: causes.add("row-labels-as-ids")
    sig = None
    if impl[0] == "other-error":
        if impl[1] == "KeyError" and "DataType" in impl[2] and not has_col: causes.add("no-datatype-column")
        if impl[1] == "AttributeError" and "xml_encode" in impl[2] and any(isinstance(v, T.UAListOf) and any(e is None for e in v.value) for v in written["Value"] if not parsecmp.isna(v)):
            causes.add("list-with-undecodable-element")
        sig = ("C16/other-error", "%r" % (impl,))
    elif impl[0] == "rejected-no-datatype":
        if not any(parsecmp.isna(r["DataType"]) and not parsecmp.isna(r["Value"]) and r["NodeClass"] == "UAVariable" for _, r in written.iterrows()): sig = ("C16/no-datatype-error-without-cause", "")
    elif impl != want:
        if impl[0] == "rejected" and want[0] == "rejected" and set(want[1]) <= set(impl[1]): causes.add("message-over-inclusive")
        sig = ("C16/decision" if impl[0] != want[0] else "C16/names", "write %r, expected %r" % (impl, want))
    if sig: fails.append((("C16/known:" + "+".join(sorted(causes))) if causes else sig[0], sig[0] + ": " + sig[1]))
    if impl[0] != "accepted" and produced: fails.append(("C16/document-produced-despite-error", ""))
    return impl, gn, dtn, has_col, fails, offenders

def c16_replay(case):
    import random
    from opcua_tools import ua_data_types as T
    rng = random.Random(4)
    work = os.path.join(vlib.WORK, "c16r_%d" % os.getpid())
    specs = {"over-inclusive": ([(T.UAInt32(1), "String"), (T.UAListOf((T.UAInt32(1),), "Int32"), "String")], 1),
             "collision": ([(T.UAString("x"), "*Int32")], 3),
             "nodeid": ([(T.UANodeId(1, "i", "5"), "NodeId")], 1),
             "structure": ([(T.UAEURange(0.0, 1.0), "Double")], 1),
             "no-column": ([(T.UAInt32(1), None)], 1)}
    if case.get("kind") == "relabelled":
        # an Int32 value declared String, in a graph whose node table carries other row labels than ids
        try:
            import writeprops
            g = nsgen.gen_graph(rng, n_ns=1, n_nodes=0, hostile=False, with_values=False, dangling=False)
            nsgen.add_typed_variables(g, rng, spec=[(T.UAInt32(1), "String")], n_custom=1)
            ds = nsgen.serialise(g, rng, value_xml=parseprops.value_xml, aliases=False)
            paths = write_files(work, [(n, docs.render(d, rng)) for n, d, _ in ds])
            st, G = build(paths)
            if G is None: return [("C16/other-error", "graph could not be built: %r" % (st,))]
            _, G = writeprops.graph_variant(G, random.Random(1), kinds=["relabelled"])
            return c16_oracle(G, g.uris[0], work)[4]
        finally:
            shutil.rmtree(work, ignore_errors=True)
    if case.get("kind") == "docset":
        try:
            paths = write_files(work, [tuple(f) for f in case["files"]])
            st, G = build(paths)
            if G is None: return [("C16/other-error", "graph could not be built: %r" % (st,))]
            if "vseed" in case:
                import writeprops
                _, G = writeprops.graph_variant(G, random.Random(case["vseed"]), kinds=(["as-parsed"] if case.get("sweep") == "big" else ["as-parsed", "permuted"]) if case.get("sweep") else ["as-parsed", "as-parsed", "permuted", "relabelled"])
            return c16_oracle(G, case["uri"], work)[4]
        finally:
            shutil.rmtree(work, ignore_errors=True)
    spec, ncustom = specs[case["which"]]
    try:
        g = nsgen.gen_graph(rng, n_ns=1, n_nodes=0, hostile=False, with_values=False, dangling=False)
        nsgen.add_typed_variables(g, rng, spec=spec, n_custom=ncustom)
        ds = nsgen.serialise(g, rng, value_xml=parseprops.value_xml, aliases=False)
        paths = write_files(work, [(n, docs.render(d, rng)) for n, d, _ in ds])
        st, G = build(paths)
        if G is None: return [("C16/other-error", "graph could not be built: %r" % (st,))]
        return c16_oracle(G, g.uris[0], work)[4]
    finally:
        shutil.rmtree(work, ignore_errors=True)

def run_c16(ctx):
    from opcua_tools import ua_data_types as T
    rng = ctx.rng
    work = os.path.join(vlib.WORK, "c16_%d" % os.getpid())
    reqs = []; meta = []
    simple = set(nsgen.BUILTIN_IDS)
    try:
        # a sweep of the grid first: every built-in type as the declared DataType of a lone variable holding a scalar of another built-in type
        # (must be rejected, naming it), and every scalar value class declared as its own type (must be written); then random graphs
        sweep = []
        for d in nsgen.BUILTIN_IDS:
            sweep.append([(T.UAString("x") if d == "Int32" else T.UAInt32(1), d)])
        own = [T.UABoolean(True), T.UASByte(1), T.UAByte(1), T.UAInt16(1), T.UAUInt16(1), T.UAInt32(1), T.UAUInt32(1), T.UAInt64(1), T.UAUInt64(1), T.UAFloat(1.5), T.UADouble(1.5),
               T.UAString("x"), T.UAGuid("00000000-0000-0000-0000-000000000001"), T.UAByteString(b"ab"), T.UALocalizedText("t", "en")]
        for v in own: sweep.append([(v, type(v).__name__[2:])])
        for v in own[:6]: sweep.append([(v, type(v).__name__[2:]), (T.UAInt32(2) if not isinstance(v, T.UAInt32) else T.UAByte(2), "XmlElement" if len(sweep) % 2 else "Guid")])
        # long arrays (list values are never rejected, whatever their length and whatever built-in type is declared)
        sweep.append([(T.UAListOf(tuple(T.UAInt32(i) for i in range(150)), "Int32"), "Int32")])
        sweep.append([(T.UAListOf(tuple(T.UADouble(i + 0.5) for i in range(101)), "Double"), "String"), (T.UAListOf(tuple(T.UAString("s%d" % i) for i in range(3)), "String"), "Int32")])
        # a namespace of more than a thousand nodes whose valued variables come last (objects and types first, data at the end of the file)
        big_at = len(sweep); sweep.append([(T.UAInt32(7), "Int32"), (T.UAString("x"), "Int32")])
        n_rand = 35 if ctx.quick() else 600
        for ci in range(len(sweep) + n_rand):
            vlib.pandas_mode(ci)
            g = nsgen.gen_graph(rng, n_ns=1, n_nodes=rng.randint(0, 2), hostile=False, with_values=False, dangling=False)
            if ci == big_at:
                for j in range(1500):
                    ok_ = (g.uris[0], "i", str(20000 + j)); g.nodes[ok_] = dict(cls="UAObject", bname=(g.uris[0], "Obj%d" % j), display="Obj%d" % j, desc=None, attrs={}, value=None); g.order.append(ok_)
                    g.refs.append(((UA, "i", "85"), ok_, (UA, "i", "35")))
            if ci < len(sweep):
                vars_ = nsgen.add_typed_variables(g, rng, spec=sweep[ci], n_custom=1)
                # every second sweep case declares a ValueRank: Any (-2) and ScalarOrOneDimension (-3) legally hold a scalar, 1 an array
                if ci % 2 == 1:
                    for vk_, dv_ in vars_.items():
                        g.nodes[vk_]["attrs"]["ValueRank"] = "1" if isinstance(dv_["value"], T.UAListOf) else ["-2", "-3", "-1"][ci % 3]
            else: vars_ = nsgen.add_typed_variables(g, rng, make_value=c16_value)
            if ci % 5 == 2:
                # a valued variable whose DataType is a node of a companion specification that is not loaded
                vk_ = (g.uris[0], "i", "4190"); g.nodes[vk_] = dict(cls="UAVariable", bname=(g.uris[0], "VarUnloadedType"), display="VarUnloadedType", desc=None, attrs={"DataType": (g.uris[0], "i", "9990")}, value=T.UAInt32(5)); g.order.append(vk_)
                vars_[vk_] = dict(value=T.UAInt32(5), datatype=(g.uris[0], "i", "9990"), display="VarUnloadedType", cls="UAVariable")
            # every third graph also holds a namespace the written one does not use, in a file that is parsed BEFORE the base nodeset
            fnames = None
            if ci % 3 == 1:
                aux = "urn:aux:unused"; g.uris.append(aux)
                ak = (aux, "i", "1"); g.nodes[ak] = dict(cls="UAObject", bname=(aux, "AuxObject"), display="AuxObject", desc=None, attrs={}, value=None); g.order.append(ak)
                g.refs.append(((UA, "i", "85"), ak, (UA, "i", "35")))
                # ... and that namespace has data types of its own that are DISPLAYED under the names of built-in types (no variable declares them)
                for bi, bn in enumerate(sorted(nsgen.BUILTIN_IDS)):
                    if (ci + bi) % 2: continue
                    tk_ = (aux, "i", str(100 + bi)); g.nodes[tk_] = dict(cls="UADataType", bname=(aux, "Vendor" + bn), display=bn, desc=None, attrs={}, value=None); g.order.append(tk_)
                    g.refs.append(((UA, "i", "24"), tk_, (UA, "i", "45")))
                g.models[aux] = dict(version="1.0.0", pubdate=None, required=[dict(uri=UA, version="1.04", pubdate=None)])
                fnames = {aux: "Aux.first.xml"}
            ds = nsgen.serialise(g, rng, value_xml=parseprops.value_xml, aliases=rng.random() < 0.5, file_names=fnames)
            files = [(n, docs.render(d, rng)) for n, d, _ in ds]
            paths = write_files(work, files)
            st, G = build(paths)
            if G is None: continue
            # the same graph held differently (row order, row labels): UAGraph takes any tables
            import writeprops
            vseed = rng.randrange(2 ** 31)
            # (the grid sweep on the tables as parsed and on a permutation only: with re-labelled rows the recorded finding 'row-labels-as-ids' decides the outcome)
            variant, G = writeprops.graph_variant(G, random.Random(vseed), kinds=["as-parsed", "as-parsed", "permuted", "relabelled"] if ci >= len(sweep) else (["as-parsed"] if ci == big_at else ["as-parsed", "permuted"]))
            impl, gn, dtn, has_col, fails, offenders = c16_oracle(G, g.uris[0], work)
            reqs.append([Sym("c16_validate"), gn, dtn, has_col]); meta.append((ci, impl))
            ctx.record(dict(case=ci, vars=[(str(k[2]), type(d["value"]).__name__, d["datatype"] and d["datatype"][2]) for k, d in vars_.items()]), bool(offenders), ["offenders=%d" % min(len(offenders), 3)])
            for sig, detail in fails: ctx.fail(sig, dict(kind="docset", files=files, uri=g.uris[0], vseed=vseed, sweep=("big" if ci == big_at else ci < len(sweep))), detail)
    finally:
        shutil.rmtree(work, ignore_errors=True)
    ans = vlib.run_model(reqs, shards=8)
    for (ci, impl), a in zip(meta, ans):
        a = vlib.untext(a)
        if a[0] == "ok": mo = ["accepted"] if a[1] == [] else ["rejected", sorted(a[1])]
        elif a[1] == "ValidationError": mo = ["rejected-no-datatype"]
        else: mo = ["other-error", a[1]]
        if impl[:1] == ["other-error"] and mo[0] == "other-error":
            if impl[1] != mo[1]: ctx.disagree("validate", dict(case=ci), impl, mo)
            continue
        # the recorded finding 'list-with-undecodable-element' (a list holding None raises AttributeError while being written) is outside the validation model
        undec = impl[:2] == ["other-error", "AttributeError"] and "xml_encode" in str(impl[2:])
        if impl != mo: ctx.disagree("out-of-domain" if undec else "validate", dict(case=ci), impl, mo)
    pick = [i for i in range(len(reqs)) if len(vlib.to_sx(reqs[i])) < 5000][:10]
    ctx.crosscheck = vlib.coq_crosscheck([reqs[i] for i in pick], [ans[i] for i in pick], "c16")

TRUSTED = ["hand-written Gallina model coq/M_Graph.v of UAGraph.__validate_referenced_nodes_exists, __ua_nodeclass_by_browsename, validator.value_validator.validate_values_in_df and "
           "nodes_manipulation.transform_ints_to_enums / create_enum_definition_table / create_enum_dict_from_enum_tuples / instantiate_enum_class (pandas joins as list operations; xmltodict as a walk over the element)",
           "the model is given the tables the implementation parsed (parse_xml_files) and compared with what graph construction / write_nodeset then does",
           "extraction + driver.ml, cross-checked against vm_compute on a sample"]
