"""C05 - writer property (shared engine in writeprops.py)."""
import writeprops
def check(ctx):
    ctx.rule = writeprops.RULE; ctx.trusted = list(writeprops.TRUSTED)
    writeprops.run(ctx, "C05")
def oracle_case(case):
    if case.get("kind") == "write-known": return writeprops.write_replay(case, "C05")
    if case.get("kind") in ("write", "roundtrip"): return writeprops.case_replay(case, "C05")
    return []
